package c29

import (
	"encoding/json"

	"verifharness/internal/hx"
)

func traffic(r *hx.Rand, in *Input, flit int, n int) {
	nd := len(in.DevPorts)
	for d := 0; d < nd; d++ {
		in.Pulls = append(in.Pulls, Pull{Every: r.Pick(4, 2, 1) + 1, Phase: r.Intn(3), N: r.Range(1, 2)})
	}
	pattern := r.Pick(4, 2, 2) // uniform random, hot-spot (all to one device), ping-pong pairs
	hot := r.Intn(nd)
	// half of the runs: tiny device-port buffers, and every multi-port device stalls one of its
	// ports for a while (drains the others), so that its endpoint holds a message for the full port
	// ahead of messages for the free ports; the traffic is then aimed at such a device
	if r.Bool() {
		in.PortBuf = r.Range(1, 2)
		multi := -1
		for d := 0; d < nd; d++ {
			var pp []Pull
			st := -1
			if in.DevPorts[d] > 1 {
				st = r.Intn(in.DevPorts[d])
				multi = d
			}
			for q := 0; q < in.DevPorts[d]; q++ {
				pl := in.Pulls[d]
				if q == st {
					pl.Stall = r.Range(20, 120)
				}
				pp = append(pp, pl)
			}
			in.PPulls = append(in.PPulls, pp)
		}
		if multi >= 0 {
			pattern, hot = 1, multi
		}
	}
	for i := 0; i < n; i++ {
		sd := r.Intn(nd)
		dd := r.Intn(nd)
		switch pattern {
		case 1:
			dd = hot
		case 2:
			dd = (sd + 1) % nd
		}
		if nd > 1 {
			for dd == sd {
				dd = r.Intn(nd)
			}
		}
		var b int
		switch r.Pick(2, 3, 2, 1) {
		case 0:
			b = r.Intn(3)
		case 1:
			b = r.Intn(6*flit + 1)
		case 2:
			b = (r.Range(1, 4)*flit*4)/5 + r.Intn(3) - 1 // encoded size near a multiple of the flit size
		default:
			b = 0
		}
		if b < 0 {
			b = 0
		}
		m := Msg{SrcDev: sd, SrcPort: r.Intn(in.DevPorts[sd]), DstDev: dd, DstPort: r.Intn(in.DevPorts[dd]),
			Bytes: b, Class: r.Intn(len(classes)), At: r.Intn(12)}
		if r.Chance(1, 3) && i > 0 {
			m.RspTo = uint64(100000 + r.Intn(i))
		}
		if sd == dd { // a single device: send between its own two ports if it has them
			if in.DevPorts[sd] < 2 {
				continue
			}
			m.DstPort = (m.SrcPort + 1) % in.DevPorts[sd]
		}
		in.Msgs = append(in.Msgs, m)
	}
}

func devPorts(r *hx.Rand, n int) []int {
	out := make([]int, n)
	for i := range out {
		out[i] = r.Pick(3, 3, 1) + 1
	}
	return out
}

func genGeneric(r *hx.Rand, big bool) Input {
	in := Input{Topo: "generic"}
	nsw := r.Range(1, 5)
	if big {
		nsw = r.Range(4, 8)
	}
	nd := r.Range(2, 5)
	in.DevPorts = devPorts(r, nd)
	for s := 0; s < nsw; s++ {
		in.Ops = append(in.Ops, Op{K: "sw"})
	}
	shape := r.Pick(3, 2, 3) // tree, ring, random connected
	for s := 1; s < nsw; s++ {
		p := r.Intn(s)
		if shape == 1 {
			p = s - 1
		}
		if r.Bool() {
			in.Ops = append(in.Ops, Op{K: "link", A: p, B: s})
		} else {
			in.Ops = append(in.Ops, Op{K: "link", A: s, B: p})
		}
	}
	if shape == 1 && nsw > 2 {
		in.Ops = append(in.Ops, Op{K: "link", A: nsw - 1, B: 0})
	}
	if shape == 2 {
		for i := r.Intn(nsw + 1); i > 0; i-- {
			a, b := r.Intn(nsw), r.Intn(nsw)
			if a != b {
				in.Ops = append(in.Ops, Op{K: "link", A: a, B: b})
			}
		}
	}
	for d := 0; d < nd; d++ {
		in.Ops = append(in.Ops, Op{K: "dev", A: r.Intn(nsw)})
	}
	in.Flit = []int{1, 4, 16, 32, 64}[r.Intn(5)]
	in.Lat = r.Pick(2, 3, 2, 1)
	in.Buf = r.Range(1, 4)
	in.Chan = r.Range(1, 2)
	traffic(r, &in, in.Flit, r.Range(4, 24))
	return in
}

func genPcie(r *hx.Rand) Input {
	in := Input{Topo: "pcie"}
	nsw := r.Range(1, 5)
	for s := 1; s < nsw; s++ {
		in.Parent = append(in.Parent, r.Intn(s))
	}
	nd := r.Range(2, 6)
	in.DevPorts = devPorts(r, nd)
	for d := 1; d < nd; d++ {
		in.DevAt = append(in.DevAt, r.Intn(nsw))
	}
	// devices must be plugged in ascending switch order for the interleaving used by build: sort
	for i := 0; i < len(in.DevAt); i++ {
		for j := i + 1; j < len(in.DevAt); j++ {
			if in.DevAt[j] < in.DevAt[i] {
				in.DevAt[i], in.DevAt[j] = in.DevAt[j], in.DevAt[i]
			}
		}
	}
	if r.Bool() {
		in.Version, in.Width = r.Range(1, 5), []int{1, 4, 8, 16}[r.Intn(4)]
		if in.Version == 1 && in.Width == 1 {
			in.Width = 4 // 0.27 bytes/cycle rounds to a flit size of 0, which the connector rejects at configuration time
		}
	}
	in.Lat = []int{0, 1, 3, 20}[r.Intn(4)]
	flit := 32
	traffic(r, &in, flit, r.Range(4, 20))
	return in
}

func genNvlink(r *hx.Rand) Input {
	in := Input{Topo: "nvlink"}
	in.NPcie = r.Range(0, 2)
	for s := 1; s <= in.NPcie; s++ {
		in.PLinks = append(in.PLinks, [2]int{r.Intn(s), s})
	}
	nd := r.Range(2, 6)
	in.DevPorts = devPorts(r, nd)
	for d := 1; d < nd; d++ {
		in.DevAt = append(in.DevAt, r.Intn(in.NPcie+1))
	}
	for i := r.Intn(nd + 2); i > 0; i-- {
		a, b := r.Intn(nd), r.Intn(nd)
		if a != b {
			in.NV = append(in.NV, [3]int{a, b, r.Range(1, 2)})
		}
	}
	if r.Bool() {
		in.Version, in.Width = r.Range(1, 5), []int{1, 4, 8, 16}[r.Intn(4)]
		if in.Version == 1 && in.Width == 1 {
			in.Width = 4 // 0.27 bytes/cycle rounds to a flit size of 0, which the connector rejects at configuration time
		}
	}
	in.Lat = []int{0, 1, 3, 20}[r.Intn(4)]
	traffic(r, &in, 32, r.Range(4, 20))
	return in
}

func genMesh(r *hx.Rand, threeD bool) Input {
	in := Input{Topo: "mesh"}
	sx, sy, sz := r.Range(1, 3), r.Range(1, 3), 1
	if threeD {
		sz = r.Range(2, 3)
	}
	nd := r.Range(2, 6)
	in.DevPorts = devPorts(r, nd)
	used := map[[3]int]bool{}
	for d := 0; d < nd; d++ {
		t := [3]int{r.Intn(sx), r.Intn(sy), r.Intn(sz)}
		if d == 0 {
			t = [3]int{sx - 1, sy - 1, sz - 1}
		}
		for tries := 0; used[t] && tries < 20; tries++ {
			t = [3]int{r.Intn(sx), r.Intn(sy), r.Intn(sz)}
		}
		if used[t] { // grid full: extend along x
			t = [3]int{sx, 0, 0}
			sx++
		}
		used[t] = true
		in.Tiles = append(in.Tiles, t)
	}
	in.Flit = []int{0, 4, 16, 32}[r.Intn(4)]
	in.Lat = r.Pick(3, 2, 1)
	in.BW2 = []int{0, 2, 4, 1, 3}[r.Intn(5)]
	f := in.Flit
	if f == 0 {
		f = 16
	}
	traffic(r, &in, f, r.Range(4, 24))
	return in
}

func gen(r *hx.Rand, tier string) []json.RawMessage {
	n := 130
	if tier == "thorough" {
		n = 1000
	}
	var out []json.RawMessage
	add := func(in Input) { out = append(out, hx.J(in)) }
	for len(out) < n {
		switch r.Pick(3, 2, 2, 2, 2) {
		case 0:
			add(genGeneric(r, r.Chance(1, 4)))
		case 1:
			add(genPcie(r))
		case 2:
			add(genNvlink(r))
		case 3:
			add(genMesh(r, false))
		default:
			add(genMesh(r, true))
		}
	}
	return out
}

func shrink(raw json.RawMessage) []json.RawMessage {
	var in Input
	if hx.UJ(raw, &in) != nil {
		return nil
	}
	var out []json.RawMessage
	for i := range in.Msgs {
		if len(in.Msgs) > 1 {
			c := in
			c.Msgs = append(append([]Msg{}, in.Msgs[:i]...), in.Msgs[i+1:]...)
			for j := range c.Msgs {
				c.Msgs[j].RspTo = 0
			}
			out = append(out, hx.J(c))
		}
	}
	return out
}

func init() {
	hx.Register(&hx.Prop{
		ID:      "C29",
		Imports: "From Akita Require Import Lib.Base C30.Exec C31.Exec C29.Model C29.Exec.",
		Rule: "real networks run to quiescence on the serial engine: generic connector (trees, rings, random connected switch graphs; flit size 1-64, " +
			"switch latency 0-3, buffers 1-4, 1-2 channels), PCIe trees (versions/widths -> flit size, latency 0-20), NVLink/PCIe hybrids " +
			"(0-2 PCIe switches, NVLink pairs; bandwidth-first router), mesh 2D and 3D (flit 4-32, latency 0-2, 0.5-2 transfers/cycle); 2-6 devices with 1-2 ports, " +
			"4-24 messages (uniform / hot-spot / neighbour traffic, byte counts tiny, random, near flit multiples), senders start at ticks 0-11, every device drains " +
			"1-2 messages per port every 1-3 ticks; in half of the runs device ports have 1-2 slot buffers and every multi-port device leaves one port untouched for 20-120 ticks while draining the others (traffic aimed at it). Events: device Send / RetrieveIncoming in engine order, End after engine.Run returns. " +
			"Non-trivial: >=3 messages, >=2 switch hops per message on average, at least one multi-flit message. Distinct = distinct input hash.",
		Gen: gen, Run: run, Shrink: shrink,
	})
}
