// Package c29 runs REAL networks (mesh 2D/3D, PCIe trees, NVLink/PCIe hybrids,
// generic switch graphs) with scripted devices that send and drain, to
// quiescence, and hands the device-port event list to the Coq acceptor.  It also
// records, through port hooks, how many flits of every message left the source
// endpoint and which switches they visited, for the tie to the C30/C31 models.
package c29

import (
	"encoding/json"
	"fmt"
	"strings"

	"github.com/sarchlab/akita/v5/hooking"
	"github.com/sarchlab/akita/v5/messaging"
	"github.com/sarchlab/akita/v5/modeling"
	"github.com/sarchlab/akita/v5/naming"
	"github.com/sarchlab/akita/v5/noc/networking/mesh"
	"github.com/sarchlab/akita/v5/noc/networking/networkconnector"
	"github.com/sarchlab/akita/v5/noc/networking/nvlink"
	"github.com/sarchlab/akita/v5/noc/networking/pcie"
	"github.com/sarchlab/akita/v5/noc/networking/switching/endpoint"
	"github.com/sarchlab/akita/v5/noc/networking/switching/switches"
	"github.com/sarchlab/akita/v5/noc/packetization"
	"github.com/sarchlab/akita/v5/timing"

	"verifharness/internal/hx"
)

// ---------------------------------------------------------------- input

// Op is a generic-connector call: "sw", "dev" (device to switch A), "link" (A,B).
type Op struct {
	K string `json:"k"`
	A int    `json:"a"`
	B int    `json:"b"`
}

// Msg is one message: device/port indices, payload, earliest tick of the sender.
type Msg struct {
	SrcDev  int    `json:"sd"`
	SrcPort int    `json:"sp"`
	DstDev  int    `json:"dd"`
	DstPort int    `json:"dp"`
	Bytes   int    `json:"bytes"`
	RspTo   uint64 `json:"rspto"`
	Class   int    `json:"class"`
	At      int    `json:"at"`
}

// Pull is a device's drain policy: on ticks with tick%Every==Phase take up to N per port.
type Pull struct {
	Every int `json:"every"`
	Phase int `json:"phase"`
	N     int `json:"n"`
	Stall int `json:"stall,omitempty"` // the device does not touch the port before this tick
}

// Input describes one run.
type Input struct {
	Topo     string `json:"topo"` // generic | pcie | nvlink | mesh
	DevPorts []int  `json:"devports"`
	Pulls    []Pull `json:"pulls"`
	// PPulls[d][q], when present, is the drain policy of port q of device d (ports stall and drain independently)
	PPulls  [][]Pull `json:"ppulls,omitempty"`
	PortBuf int      `json:"portbuf,omitempty"` // device-port buffer size (default 2)
	Msgs     []Msg  `json:"msgs"`
	// generic
	Ops  []Op `json:"ops,omitempty"`
	Flit int  `json:"flit,omitempty"`
	Lat  int  `json:"lat,omitempty"`
	Buf  int  `json:"buf,omitempty"`
	Chan int  `json:"chan,omitempty"`
	// mesh: tile of every device; switch latency Lat, flit Flit, BW2 = 2*transfers per cycle
	Tiles [][3]int `json:"tiles,omitempty"`
	BW2   int      `json:"bw2,omitempty"`
	// pcie: Parent[i] = parent switch of switch i+1 (switch 0 = root complex holding device 0); DevAt[d-1] = switch of device d>=1
	Parent  []int `json:"parent,omitempty"`
	DevAt   []int `json:"devat,omitempty"`
	Version int   `json:"version,omitempty"`
	Width   int   `json:"width,omitempty"`
	// nvlink: NPcie PCIe switches; PLinks between {0=root complex, 1..NPcie}; DevAt[d-1] in 0..NPcie; NV links (devA, devB, n)
	NPcie  int      `json:"npcie,omitempty"`
	PLinks [][2]int `json:"plinks,omitempty"`
	NV     [][3]int `json:"nv,omitempty"`
}

// ---------------------------------------------------------------- registrar, agent

type reg struct {
	engine timing.Engine
	sws    []*switches.Comp
	eps    []*endpoint.Comp
}

func (r *reg) GetEngine() timing.Engine { return r.engine }
func (r *reg) RegisterComponent(c naming.Named) {
	switch v := c.(type) {
	case *switches.Comp:
		r.sws = append(r.sws, v)
	case *endpoint.Comp:
		r.eps = append(r.eps, v)
	}
}
func (r *reg) RegisterConnection(naming.Named) {}
func (r *reg) RegisterResource(naming.Named)   {}
func (r *reg) RegisterPort(naming.Named)       {}

type event struct {
	Kind string
	Port string
	Meta messaging.MsgMeta
	T    uint64 // engine time of the tick that logged it (only when the agent has a clock)
}

type pending struct {
	port messaging.Port
	meta messaging.MsgMeta
	at   int
}

type agent struct {
	*modeling.TickingComponent
	ports []messaging.Port
	queue []pending
	pull  Pull
	pp    []Pull
	tick  int
	log   *[]event
	now   func() uint64
}

func (a *agent) t() uint64 {
	if a.now == nil {
		return 0
	}
	return a.now()
}

func (a *agent) Tick() bool {
	progress := false
	if len(a.queue) > 0 {
		h := a.queue[0]
		if a.tick >= h.at && h.port.CanSend() {
			h.port.Send(h.meta)
			*a.log = append(*a.log, event{Kind: "S", Port: h.port.Name(), Meta: h.meta, T: a.t()})
			a.queue = a.queue[1:]
		}
		progress = true // keep ticking until everything is handed over
	}
	for q, p := range a.ports {
		pl := a.pull
		if q < len(a.pp) {
			pl = a.pp[q]
		}
		every := max(pl.Every, 1)
		if a.tick < pl.Stall || a.tick%every != pl.Phase%every {
			continue
		}
		for i := 0; i < max(pl.N, 1); i++ {
			m := p.RetrieveIncoming()
			if m == nil {
				break
			}
			*a.log = append(*a.log, event{Kind: "R", Port: p.Name(), Meta: m.Meta(), T: a.t()})
			progress = true
		}
	}
	for _, p := range a.ports {
		if p.NumIncoming() > 0 {
			progress = true
		}
	}
	a.tick++
	return progress
}

type portEv struct {
	port int
	key  [2]uint64
}

// fifoThroughSwitches: for every switch and every (input port, output port) pair the flits
// that took that way left in the order they arrived.
func fifoThroughSwitches(recv, send map[int][]portEv) bool {
	for si, rs := range recv {
		inOf := map[[2]uint64]int{}
		for _, e := range rs {
			inOf[e.key] = e.port
		}
		outOf := map[[2]uint64]int{}
		for _, e := range send[si] {
			outOf[e.key] = e.port
		}
		type way struct{ in, out int }
		arr, dep := map[way][][2]uint64{}, map[way][][2]uint64{}
		for _, e := range rs {
			if o, ok := outOf[e.key]; ok {
				arr[way{e.port, o}] = append(arr[way{e.port, o}], e.key)
			}
		}
		for _, e := range send[si] {
			if i, ok := inOf[e.key]; ok {
				dep[way{i, e.port}] = append(dep[way{i, e.port}], e.key)
			}
		}
		for w, a := range arr {
			d := dep[w]
			if len(a) != len(d) {
				return false
			}
			for i := range a {
				if a[i] != d[i] {
					return false
				}
			}
		}
	}
	return true
}

type hookFn func(ctx hooking.HookCtx)

type hk struct{ f hookFn }

func (h *hk) Func(ctx hooking.HookCtx) { h.f(ctx) }

var classes = []string{"", "mem.ReadReq", "mem.WriteReq", "mem.DataReadyRsp", "x"}

// ---------------------------------------------------------------- building

func genericParams(in Input) (networkconnector.DeviceToSwitchLinkParameter, networkconnector.SwitchToSwitchLinkParameter) {
	buf, ch, lat := max(in.Buf, 1), max(in.Chan, 1), max(in.Lat, 0)
	sw := networkconnector.LinkEndSwitchParameter{IncomingBufSize: buf, OutgoingBufSize: buf,
		NumInputChannel: ch, NumOutputChannel: ch, Latency: lat}
	link := networkconnector.LinkParameter{IsIdeal: true, Frequency: 1 * timing.GHz}
	return networkconnector.DeviceToSwitchLinkParameter{
			DeviceEndParam: networkconnector.LinkEndDeviceParameter{IncomingBufSize: buf, OutgoingBufSize: buf,
				NumInputChannel: ch, NumOutputChannel: ch},
			SwitchEndParam: sw, LinkParam: link},
		networkconnector.SwitchToSwitchLinkParameter{LeftEndParam: sw, RightEndParam: sw, LinkParam: link}
}

// build constructs the network; returns the equivalent generic-connector call list (non-mesh) and the flit size.
func build(in Input, r *reg, devPorts [][]messaging.Port) (ops []Op, flit int) {
	switch in.Topo {
	case "generic":
		c := networkconnector.MakeConnector().WithRegistrar(r).WithDefaultFreq(1 * timing.GHz).WithFlitSize(max(in.Flit, 1))
		c.NewNetwork("Net")
		dp, sp := genericParams(in)
		d := 0
		for _, o := range in.Ops {
			switch o.K {
			case "sw":
				c.AddSwitch()
			case "dev":
				c.ConnectDevice(o.A, devPorts[d], dp)
				d++
			case "link":
				c.ConnectSwitches(o.A, o.B, sp)
			}
		}
		c.EstablishRoute()
		return in.Ops, c.GetFlitSize()
	case "pcie":
		c := pcie.NewConnector().WithRegistrar(r)
		if in.Version > 0 {
			c = c.WithVersion(in.Version, max(in.Width, 1))
		}
		c = c.WithSwitchLatency(max(in.Lat, 0))
		c.CreateNetwork("PCIe")
		c.AddRootComplex(devPorts[0])
		ops = append(ops, Op{K: "sw"}, Op{K: "dev", A: 0})
		nsw := 1
		attached := 1
		// devices are plugged in as soon as their switch exists (interleaved with switch creation)
		plug := func() {
			for attached < len(devPorts) && in.DevAt[attached-1] < nsw {
				c.PlugInDevice(in.DevAt[attached-1], devPorts[attached])
				ops = append(ops, Op{K: "dev", A: in.DevAt[attached-1]})
				attached++
			}
		}
		plug()
		for _, p := range in.Parent {
			c.AddSwitch(p)
			ops = append(ops, Op{K: "sw"}, Op{K: "link", A: p, B: nsw})
			nsw++
			plug()
		}
		c.EstablishRoute()
		// flit size = round(bandwidth / freq), recomputed independently for the model
		v, w := in.Version, max(in.Width, 1)
		if v == 0 {
			v, w = 4, 16
		}
		bw := (uint64(2) << uint(v-1)) * (1 << 30) * uint64(w) / 8
		return ops, int(float64(bw)/1e9 + 0.5)
	case "nvlink":
		c := nvlink.NewConnector().WithRegistrar(r)
		if in.Version > 0 {
			c = c.WithPCIeVersion(in.Version, max(in.Width, 1))
		}
		c = c.WithPCIeSwitchLatency(max(in.Lat, 0)).WithNVLinkSwitchLatency(max(in.Lat, 0))
		c.CreateNetwork("DGX")
		nsw := 0
		plugOps := func(pcieSw int) {
			devSw, nvSw := nsw, nsw+1
			nsw += 2
			ops = append(ops, Op{K: "sw"}, Op{K: "sw"}, Op{K: "link", A: devSw, B: nvSw},
				Op{K: "link", A: devSw, B: pcieSw}, Op{K: "dev", A: devSw})
		}
		// root complex = switch 0, with the CPU (device 0) plugged in
		c.AddRootComplex(devPorts[0])
		ops = append(ops, Op{K: "sw"})
		nsw = 1
		plugOps(0)
		pcieID := []int{0}
		for i := 0; i < in.NPcie; i++ {
			pcieID = append(pcieID, c.AddPCIeSwitch())
			ops = append(ops, Op{K: "sw"})
			nsw++
		}
		for _, l := range in.PLinks {
			c.ConnectSwitchesWithPCIeLink(pcieID[l[0]], pcieID[l[1]])
			ops = append(ops, Op{K: "link", A: pcieID[l[0]], B: pcieID[l[1]]})
		}
		nvOf := map[int]int{0: 2}
		for d := 1; d < len(devPorts); d++ {
			id := c.PlugInDevice(pcieID[in.DevAt[d-1]], devPorts[d])
			nvOf[id] = nsw + 1
			plugOps(pcieID[in.DevAt[d-1]])
		}
		for _, l := range in.NV {
			c.ConnectDevicesWithNVLink(l[0], l[1], max(l[2], 1))
			ops = append(ops, Op{K: "link", A: nvOf[l[0]], B: nvOf[l[1]]})
		}
		c.EstablishRoute()
		v, w := in.Version, max(in.Width, 1)
		if v == 0 {
			v, w = 4, 16
		}
		bw := (uint64(2) << uint(v-1)) * (1 << 30) * uint64(w) / 8
		return ops, int(float64(bw)/1e9 + 0.5)
	default: // mesh
		c := mesh.NewConnector().WithRegistrar(r).WithFreq(1 * timing.GHz)
		if in.Flit > 0 {
			c = c.WithFlitSize(in.Flit)
		}
		c = c.WithSwitchLatency(max(in.Lat, 0))
		if in.BW2 > 0 {
			c = c.WithBandwidth(float64(in.BW2) / 2)
		}
		c.CreateNetwork("Mesh")
		for d, t := range in.Tiles {
			c.AddTile(t, devPorts[d])
		}
		c.EstablishNetwork()
		f := in.Flit
		if f <= 0 {
			f = 16
		}
		return nil, f
	}
}

func zz(x int64) string {
	if x >= 0 {
		return hx.N(uint64(2 * x))
	}
	return hx.N(uint64(-2*x - 1))
}

type obs struct {
	Panic   string   `json:"panic,omitempty"`
	Events  []string `json:"events"`
	Flits   []int    `json:"flits"`
	Paths   [][]int  `json:"paths"`
	Uniform bool     `json:"uniform"`
	Fifo    bool     `json:"fifo"`
	Ticks   uint64   `json:"end_time_ps"`
}

func parseCoord(name string) (int, bool) {
	i := strings.LastIndex(name, "SW[")
	if i < 0 {
		return 0, false
	}
	var c [3]int
	n, err := fmt.Sscanf(name[i:], "SW[%d][%d][%d]", &c[0], &c[1], &c[2])
	return c[0] + 64*c[1] + 4096*c[2], err == nil && n == 3
}

func run(raw json.RawMessage) (hx.Case, error) {
	var in Input
	if err := hx.UJ(raw, &in); err != nil {
		return hx.Case{}, err
	}
	engine := timing.NewSerialEngine()
	r := &reg{engine: engine}
	var log []event
	names := map[string]uint64{}
	intern := func(s string) uint64 {
		if v, ok := names[s]; ok {
			return v
		}
		names[s] = uint64(len(names) + 1)
		return names[s]
	}
	// devices
	var agents []*agent
	var devPorts [][]messaging.Port
	for d, np := range in.DevPorts {
		a := &agent{log: &log}
		if d < len(in.Pulls) {
			a.pull = in.Pulls[d]
		}
		if d < len(in.PPulls) {
			a.pp = in.PPulls[d]
		}
		a.TickingComponent = modeling.NewTickingComponent(fmt.Sprintf("Dev[%d]", d), engine, 1*timing.GHz, a)
		for q := 0; q < max(np, 1); q++ {
			pb := in.PortBuf
			if pb <= 0 {
				pb = 2
			}
			p := messaging.NewPort(a, pb, pb, fmt.Sprintf("Dev[%d].Port[%d]", d, q))
			a.ports = append(a.ports, p)
			intern(p.Name())
		}
		agents = append(agents, a)
		devPorts = append(devPorts, a.ports)
	}
	o := obs{Uniform: true}
	var c0tags []string
	var ops []Op
	flit := 0
	flitsOut := map[uint64]int{}
	pathOf := map[uint64]map[int][]int{}
	swRecv, swSend := map[int][]portEv{}, map[int][]portEv{}
	panicked, pmsg := hx.Try(func() {
		ops, flit = build(in, r, devPorts)
		for si, sw := range r.sws {
			code := si
			if in.Topo == "mesh" {
				if c, ok := parseCoord(sw.Name()); ok {
					code = c
				}
			}
			for pi, p := range sw.PortsInGroup("Port") {
				p.AcceptHook(&hk{func(ctx hooking.HookCtx) {
					if f, ok := ctx.Item.(packetization.Flit); ok {
						key := [2]uint64{f.Msg.ID, uint64(f.SeqID)}
						if ctx.Pos == messaging.HookPosPortMsgRecvd {
							swRecv[si] = append(swRecv[si], portEv{pi, key})
						} else if ctx.Pos == messaging.HookPosPortMsgSend {
							swSend[si] = append(swSend[si], portEv{pi, key})
						}
					}
					if ctx.Pos != messaging.HookPosPortMsgRecvd {
						return
					}
					if f, ok := ctx.Item.(packetization.Flit); ok {
						if pathOf[f.Msg.ID] == nil {
							pathOf[f.Msg.ID] = map[int][]int{}
						}
						pathOf[f.Msg.ID][f.SeqID] = append(pathOf[f.Msg.ID][f.SeqID], code)
					}
				}})
			}
		}
		for _, ep := range r.eps {
			ep.NetworkPort().AcceptHook(&hk{func(ctx hooking.HookCtx) {
				if ctx.Pos != messaging.HookPosPortMsgSend {
					return
				}
				if f, ok := ctx.Item.(packetization.Flit); ok {
					flitsOut[f.Msg.ID]++
				}
			}})
		}
	})
	// messages
	var metas []messaging.MsgMeta
	if !panicked {
		for i, m := range in.Msgs {
			sp := devPorts[m.SrcDev][m.SrcPort%len(devPorts[m.SrcDev])]
			dp := devPorts[m.DstDev][m.DstPort%len(devPorts[m.DstDev])]
			meta := messaging.MsgMeta{ID: uint64(100000 + i), Src: sp.AsRemote(), Dst: dp.AsRemote(),
				TrafficClass: classes[m.Class%len(classes)], TrafficBytes: m.Bytes, RspTo: m.RspTo}
			metas = append(metas, meta)
			a := agents[m.SrcDev]
			a.queue = append(a.queue, pending{sp, meta, m.At})
		}
		for _, a := range agents {
			a.TickLater()
		}
		panicked, pmsg = hx.Try(func() {
			// quiescence is reached after at most a few thousand cycles; a run that is still
			// producing events after 50,000 cycles (a livelock) is cut and NOT closed by End
			const limit = timing.VTimeInPicoSec(50_000_000)
			if err := engine.RunUntil(limit); err != nil {
				panic(err)
			}
			before := engine.CurrentTime()
			if err := engine.RunUntil(limit + 50_000); err != nil {
				panic(err)
			}
			if engine.CurrentTime() > before && engine.CurrentTime() > limit-50_000 {
				panic("no quiescence: the network is still busy after 50,000 cycles")
			}
		})
	}
	if panicked {
		o.Panic = pmsg
	}
	o.Ticks = uint64(engine.CurrentTime())
	classID := func(s string) uint64 {
		for i, c := range classes {
			if c == s {
				return uint64(i)
			}
		}
		return 99
	}
	metaCoq := func(m messaging.MsgMeta) string {
		return hx.App("M", hx.N(m.ID), hx.N(intern(string(m.Src))), hx.N(intern(string(m.Dst))),
			hx.N(m.RspTo), hx.N(classID(m.TrafficClass)), zz(int64(m.TrafficBytes)))
	}
	var tr []string
	if panicked && len(log) > 3000 {
		log = log[:3000] // a livelocked run: keep the case file small; it is rejected anyway (no End)
	}
	for _, e := range log {
		tr = append(tr, hx.App(e.Kind, hx.N(intern(e.Port)), metaCoq(e.Meta)))
		o.Events = append(o.Events, fmt.Sprintf("%s %s %d", e.Kind, e.Port, e.Meta.ID))
	}
	if !panicked {
		tr = append(tr, "E") // a panicking run is never closed: the acceptor then rejects it
	}
	var msgsCoq, flitsCoq, pathsCoq []string
	hops := 0
	for _, m := range metas {
		msgsCoq = append(msgsCoq, metaCoq(m))
		flitsCoq = append(flitsCoq, hx.N(uint64(flitsOut[m.ID])))
		o.Flits = append(o.Flits, flitsOut[m.ID])
		p0 := pathOf[m.ID][0]
		for _, p := range pathOf[m.ID] {
			if len(p) != len(p0) {
				o.Uniform = false
			} else {
				for i := range p {
					if p[i] != p0[i] {
						o.Uniform = false
					}
				}
			}
		}
		if len(pathOf[m.ID]) != flitsOut[m.ID] {
			o.Uniform = false
		}
		ps := make([]string, len(p0))
		for i, x := range p0 {
			ps[i] = hx.N(uint64(x))
		}
		pathsCoq = append(pathsCoq, hx.L(ps))
		o.Paths = append(o.Paths, p0)
		hops += len(p0)
	}
	kind := map[string]uint64{"generic": 0, "pcie": 1, "nvlink": 2, "mesh": 3}[in.Topo]
	var opsCoq, tilesCoq, dpCoq []string
	for _, op := range ops {
		switch op.K {
		case "sw":
			opsCoq = append(opsCoq, "RA")
		case "dev":
			opsCoq = append(opsCoq, hx.App("RD", hx.N(uint64(op.A)), hx.N(1)))
		default:
			opsCoq = append(opsCoq, hx.App("RL", hx.N(uint64(op.A)), hx.N(uint64(op.B))))
		}
	}
	for _, t := range in.Tiles {
		tilesCoq = append(tilesCoq, hx.N(uint64(t[0]+64*t[1]+4096*t[2])))
	}
	for _, ps := range devPorts {
		l := []string{}
		for _, p := range ps {
			l = append(l, hx.N(intern(p.Name())))
		}
		dpCoq = append(dpCoq, hx.L(l))
	}
	width1 := true
	switch in.Topo {
	case "generic":
		width1 = in.Chan <= 1
	case "mesh":
		width1 = in.BW2 <= 2
	}
	o.Fifo = fifoThroughSwitches(swRecv, swSend)
	if !o.Fifo {
		c0tags = append(c0tags, "switch-reordered-flits")
	}
	// PCIe: the tree the calls describe (switches in creation order, then devices; parent < child)
	var tpar, tlab, tunlab []uint64
	if in.Topo == "pcie" && !panicked {
		nsw, nd := len(in.Parent)+1, len(in.DevPorts)
		tpar = append(tpar, 0)
		for _, p := range in.Parent {
			tpar = append(tpar, uint64(p))
		}
		tpar = append(tpar, 0) // the CPU sits on the root complex
		for d := 1; d < nd; d++ {
			tpar = append(tpar, uint64(in.DevAt[d-1]))
		}
		for d := 0; d < nd; d++ { // connector node list: devices first ...
			tlab = append(tlab, uint64(nsw+d))
		}
		for s := 0; s < nsw; s++ { // ... then switches
			tlab = append(tlab, uint64(s))
		}
		for s := 0; s < nsw; s++ {
			tunlab = append(tunlab, uint64(nd+s))
		}
		for d := 0; d < nd; d++ {
			tunlab = append(tunlab, uint64(d))
		}
	}
	c := hx.Case{Obs: o}
	c.Coq = hx.App("mk_case", hx.N(kind), hx.L(opsCoq), hx.L(tilesCoq), hx.L(dpCoq),
		hx.N(uint64(max(flit, 0))), hx.N(1), hx.N(2), hx.L(msgsCoq), hx.L(tr), hx.L(flitsCoq), hx.L(pathsCoq), hx.B(o.Uniform), hx.LN(tpar), hx.LN(tlab), hx.LN(tunlab), hx.B(width1), hx.B(o.Fifo))
	c.Tags = append(c.Tags, "topo:"+in.Topo)
	c.Tags = append(c.Tags, c0tags...)
	if width1 {
		c.Tags = append(c.Tags, "one-lane-switch-ports")
	}
	if in.Topo == "mesh" {
		three := false
		for _, t := range in.Tiles {
			if t[2] > 0 {
				three = true
			}
		}
		if three {
			c.Tags = append(c.Tags, "mesh:3D")
		} else {
			c.Tags = append(c.Tags, "mesh:2D")
		}
	}
	if len(in.PPulls) > 0 {
		c.Tags = append(c.Tags, "multi-port-device-with-stalled-port")
	}
	if panicked {
		c.Tags = append(c.Tags, "panic")
	}
	multi := false
	for _, m := range metas {
		if flitsOut[m.ID] > 1 {
			multi = true
		}
	}
	if multi {
		c.Tags = append(c.Tags, "multi-flit-messages")
	}
	c.Nontrivial = len(metas) >= 3 && hops >= 2*len(metas) && multi
	return c, nil
}
