package c07

import (
	"archive/tar"
	"bytes"
	"compress/gzip"
	"encoding/binary"
	"encoding/json"
	"errors"
	"io"
	"reflect"
	"strconv"
	"strings"
	"time"

	"github.com/sarchlab/akita/v5/mem/vm"
	"github.com/sarchlab/akita/v5/timing"

	"verifharness/internal/hx"
)

// The DTOs below mirror the unexported checkpoint DTOs of the library field by
// field (same Go types, same JSON tags), so that decoding a payload with them
// through encoding/json yields exactly the view the real loader obtains.

type schedDTO struct {
	HasScheduledTick bool   `json:"has_scheduled_tick"`
	NextTickTime     uint64 `json:"next_tick_time"`
	HasHandledTick   bool   `json:"has_handled_tick"`
	LastHandledTime  uint64 `json:"last_handled_time"`
}

type compDTO struct {
	SpecHash  string          `json:"spec_hash"`
	State     json.RawMessage `json:"state"`
	Scheduler schedDTO        `json:"scheduler"`
}

type evcompDTO struct {
	SpecHash      string          `json:"spec_hash"`
	State         json.RawMessage `json:"state"`
	PendingWakeup uint64          `json:"pending_wakeup"`
}

type bufDTO struct {
	Capacity int             `json:"capacity"`
	Elements json.RawMessage `json:"elements"`
}

type portDTO struct {
	Incoming bufDTO `json:"incoming"`
	Outgoing bufDTO `json:"outgoing"`
}

type typedDTO struct {
	Type    string          `json:"type"`
	Payload json.RawMessage `json:"payload"`
}

type engineDTO struct {
	Time      uint64          `json:"time"`
	Primary   json.RawMessage `json:"primary"`
	Secondary json.RawMessage `json:"secondary"`
}

type idgenDTO struct {
	Kind   string `json:"kind"`
	NextID uint64 `json:"next_id"`
}

type procDTO struct {
	PID   vm.PID    `json:"pid"`
	Pages []vm.Page `json:"pages"`
}

type ptDTO struct {
	Log2PageSize uint64    `json:"log2_page_size"`
	Tables       []procDTO `json:"tables"`
}

func optTok(ok bool, v uint64) string {
	if !ok {
		return hx.None()
	}
	return hx.Some(hx.N(v))
}

func stateView(raw json.RawMessage) string {
	var st cState
	if err := json.Unmarshal(raw, &st); err != nil {
		return hx.None()
	}
	return hx.Some(hx.N(fp(mustJSON(st))))
}

// decodeTyped unmarshals body into a fresh value of the registered type t and
// returns it in the form (value or pointer) the registry would.
func decodeTyped(t reflect.Type, body json.RawMessage) (any, bool) {
	elem := t
	if t.Kind() == reflect.Ptr {
		elem = t.Elem()
	}
	ptr := reflect.New(elem)
	if err := json.Unmarshal(body, ptr.Interface()); err != nil {
		return nil, false
	}
	if t.Kind() != reflect.Ptr {
		return ptr.Elem().Interface(), true
	}
	return ptr.Interface(), true
}

func msgListView(raw json.RawMessage) string {
	var tps []typedDTO
	if err := json.Unmarshal(raw, &tps); err != nil {
		return hx.None()
	}
	xs := make([]string, len(tps))
	for i, tp := range tps {
		ok := false
		body := fp(tp.Payload)
		t, known := msgTypes[tp.Type]
		if !known && tp.Type == tagMsgU {
			// not registered with the codec (the loader rejects the tag first); the view
			// still describes the body with the type the harness knows for that tag
			t, known = reflect.TypeOf(msgU{}), true
		}
		if known {
			if v, dok := decodeTyped(t, tp.Payload); dok {
				ok = true
				body = fp(mustJSON(v))
			}
		}
		xs[i] = hx.App("mk_elview", hx.Str(tp.Type), hx.B(ok), hx.N(body))
	}
	return hx.Some(hx.L(xs))
}

func evListView(raw json.RawMessage) string {
	var tps []typedDTO
	if err := json.Unmarshal(raw, &tps); err != nil {
		return hx.None()
	}
	xs := make([]string, len(tps))
	for i, tp := range tps {
		dec := hx.None()
		body := fp(tp.Payload)
		t, known := evtTypes[tp.Type]
		if !known && tp.Type == tagEvU {
			t, known = reflect.TypeOf(evU{}), true
		}
		if known {
			if v, dok := decodeTyped(t, tp.Payload); dok {
				ev := v.(timing.Event)
				dec = hx.Some(hx.T(hx.N(uint64(ev.Time())), hx.B(ev.IsSecondary()), hx.Str(ev.HandlerID())))
				body = fp(mustJSON(v))
			}
		}
		xs[i] = hx.App("mk_evview", hx.Str(tp.Type), dec, hx.N(body))
	}
	return hx.Some(hx.L(xs))
}

// payloadView decodes payload bytes the way the loader of an entity of the
// given kind does and prints the model's [payload] term.
func payloadView(kind string, data []byte) string {
	dec := func(v any) bool {
		return json.NewDecoder(bytes.NewReader(data)).Decode(v) == nil
	}
	switch kind {
	case "comp":
		var d compDTO
		if !dec(&d) {
			return "PMalformed"
		}
		return hx.App("PComp", hx.Str(d.SpecHash), stateView(d.State),
			hx.B(d.Scheduler.HasScheduledTick), hx.N(d.Scheduler.NextTickTime),
			hx.B(d.Scheduler.HasHandledTick), hx.N(d.Scheduler.LastHandledTime))
	case "evcomp":
		var d evcompDTO
		if !dec(&d) {
			return "PMalformed"
		}
		return hx.App("PEvComp", hx.Str(d.SpecHash), stateView(d.State), hx.N(d.PendingWakeup))
	case "port":
		var d portDTO
		if !dec(&d) {
			return "PMalformed"
		}
		return hx.App("PPort",
			hx.App("mk_bufck", hx.Z(int64(d.Incoming.Capacity)), msgListView(d.Incoming.Elements)),
			hx.App("mk_bufck", hx.Z(int64(d.Outgoing.Capacity)), msgListView(d.Outgoing.Elements)))
	case "engine":
		var d engineDTO
		if !dec(&d) {
			return "PMalformed"
		}
		return hx.App("PEngine", hx.N(d.Time), evListView(d.Primary), evListView(d.Secondary))
	case "idgen":
		var d idgenDTO
		if !dec(&d) {
			return "PMalformed"
		}
		return hx.App("PIdGen", hx.Str(d.Kind), hx.N(d.NextID))
	case "pagetable":
		var d ptDTO
		if !dec(&d) {
			return "PMalformed"
		}
		ts := make([]string, len(d.Tables))
		for i, t := range d.Tables {
			ps := make([]string, len(t.Pages))
			for j, p := range t.Pages {
				ps[j] = hx.N(fp(mustJSON(p)))
			}
			ts[i] = hx.T(hx.N(uint64(t.PID)), hx.L(ps))
		}
		return hx.App("PPageTable", hx.N(d.Log2PageSize), hx.L(ts))
	case "storage":
		return storageView(data)
	default:
		// an entry that no rebuilt entity will ever load
		return "PMalformed"
	}
}

// storageView parses the binary storage stream: up to three header words, then
// complete (address, unit) records with the declared unit size, at most the
// declared count.
func storageView(data []byte) string {
	var words []uint64
	off := 0
	for len(words) < 3 && off+8 <= len(data) {
		words = append(words, binary.LittleEndian.Uint64(data[off:]))
		off += 8
	}
	var units []string
	if len(words) == 3 {
		unit, n := words[1], words[2]
		for uint64(len(units)) < n {
			rest := uint64(len(data) - off)
			if rest < 8 || rest-8 < unit {
				break
			}
			addr := binary.LittleEndian.Uint64(data[off:])
			body := data[off+8 : off+8+int(unit)]
			units = append(units, hx.T(hx.N(addr), hx.N(fp(body))))
			off += 8 + int(unit)
		}
	}
	return hx.App("PStorage", hx.LN(words), hx.L(units))
}

// ------------------------------------------------------------------ archives

type tarEnt struct {
	Kind string // reg | other | broken
	Name string
	Data []byte
}

// readTarGz lists the entries of an archive exactly as readArchiveStream walks
// them; a gzip/tar error ends the list with a "broken" item.
func readTarGz(b []byte) []tarEnt {
	var out []tarEnt
	gz, err := gzip.NewReader(bytes.NewReader(b))
	if err != nil {
		return []tarEnt{{Kind: "broken"}}
	}
	defer gz.Close()
	tr := tar.NewReader(gz)
	for {
		h, err := tr.Next()
		if errors.Is(err, io.EOF) {
			return out
		}
		if err != nil {
			return append(out, tarEnt{Kind: "broken"})
		}
		if h.Typeflag != tar.TypeReg && h.Typeflag != 0 {
			out = append(out, tarEnt{Kind: "other", Name: h.Name})
			continue
		}
		data, err := io.ReadAll(tr)
		if err != nil {
			return append(out, tarEnt{Kind: "broken", Name: h.Name})
		}
		out = append(out, tarEnt{Kind: "reg", Name: h.Name, Data: data})
	}
}

type craftEnt struct {
	Type byte
	Name string
	Data []byte
}

// writeTarGz packs entries the way writeArchiveStream does (zero mtimes, mode 0600).
func writeTarGz(ents []craftEnt) []byte {
	var buf bytes.Buffer
	gz := gzip.NewWriter(&buf)
	gz.ModTime = time.Unix(0, 0)
	tw := tar.NewWriter(gz)
	for _, e := range ents {
		h := &tar.Header{Name: e.Name, Mode: 0o600, Size: int64(len(e.Data)),
			ModTime: time.Unix(0, 0), Typeflag: e.Type}
		if e.Type != tar.TypeReg && e.Type != 0 {
			h.Size = 0
		}
		if err := tw.WriteHeader(h); err != nil {
			panic(err)
		}
		if h.Size > 0 {
			if _, err := tw.Write(e.Data); err != nil {
				panic(err)
			}
		}
	}
	tw.Close()
	gz.Close()
	return buf.Bytes()
}

// entityNameOf mirrors simulation.entityName using the same library calls.
func entityNameOf(path string) (string, bool) {
	return unescapeEntity(path)
}

// coqEntries prints tar entries as the model's [tar_entry] list; the payload
// view of an entity entry is taken with the loader kind of the rebuilt entity
// of that name (kindOf).
func coqEntries(ents []tarEnt, kindOf func(name string) string) string {
	xs := make([]string, len(ents))
	for i, e := range ents {
		kind := map[string]string{"reg": "KReg", "other": "KOther", "broken": "KBroken"}[e.Kind]
		data := hx.App("DBytes", hx.L(nil))
		if e.Kind == "reg" {
			if e.Name == "build_id" {
				data = hx.App("DBytes", hx.Bytes(e.Data))
			} else {
				k := ""
				if n, ok := entityNameOf(e.Name); ok {
					k = kindOf(n)
				}
				data = hx.App("DPayload", payloadView(k, e.Data))
			}
		}
		xs[i] = hx.App("mk_te", kind, hx.Str(e.Name), data)
	}
	return hx.L(xs)
}

func coqHashes(ents []tarEnt) string {
	xs := make([]string, len(ents))
	for i, e := range ents {
		xs[i] = hx.T(hx.Str(e.Name), hx.N(fp(e.Data)))
	}
	return hx.L(xs)
}

// --------------------------------------------------------- error classifying

// classify maps an error of Simulation.LoadCheckpoint to the model's [err]
// constructor. kindOf resolves an entity name to its loader kind.
func classify(err error, kindOf func(name string) string) string {
	msg := err.Error()
	const pre = "checkpoint: load entity "
	if strings.HasPrefix(msg, pre) {
		rest := msg[len(pre):]
		kind := ""
		if q, qerr := strconv.QuotedPrefix(rest); qerr == nil {
			if name, uerr := strconv.Unquote(q); uerr == nil {
				kind = kindOf(name)
			}
			rest = strings.TrimPrefix(rest[len(q):], ": ")
		}
		return classifyEntity(rest, kind)
	}
	if strings.HasPrefix(msg, "checkpoint: ") {
		switch {
		case strings.Contains(msg, "unsupported archive entry"):
			return "EUnsupportedEntry"
		case strings.Contains(msg, "duplicate build_id"):
			return "EDupBuildId"
		case strings.Contains(msg, "unexpected archive entry"):
			return "EUnexpectedEntry"
		case strings.Contains(msg, "duplicate entity"):
			return "EDupEntity"
		case strings.Contains(msg, "missing build_id"):
			return "EMissingBuildId"
		case strings.Contains(msg, "build ID is empty"):
			return "EEmptyBuildId"
		case strings.Contains(msg, "build ID mismatch"):
			return "EBuildMismatch"
		case strings.Contains(msg, "is not rebuilt"):
			return "ESavedNotRebuilt"
		case strings.Contains(msg, "is missing from checkpoint"):
			return "ERebuiltMissing"
		}
		return "EView"
	}
	return "EStream"
}

// classifyEntity maps the error of one entity loader (without the simulation's
// prefix) to the model's constructor.
func classifyEntity(msg, kind string) string {
	switch {
	case strings.Contains(msg, "spec hash mismatch"):
		return "ESpecHash"
	case strings.Contains(msg, "incoming capacity mismatch"):
		return "ECapIncoming"
	case strings.Contains(msg, "outgoing capacity mismatch"):
		return "ECapOutgoing"
	case strings.Contains(msg, "exceeding capacity"):
		return "EOverflow"
	case strings.Contains(msg, "codec: unknown message type"):
		return "EUnknownMsgType"
	case strings.Contains(msg, "codec: unknown event type"):
		return "EUnknownEvtType"
	case strings.Contains(msg, "references unknown handler"):
		return "EUnknownHandler"
	case strings.Contains(msg, "non-empty serial engine queue"):
		return "EEngineNonEmpty"
	case strings.HasPrefix(msg, "mem: storage") && strings.Contains(msg, "capacity mismatch"):
		return "EStorageCap"
	case strings.HasPrefix(msg, "mem: storage") && strings.Contains(msg, "unit size mismatch"):
		return "EStorageUnit"
	case strings.Contains(msg, "log2 page size mismatch"):
		return "EPageSize"
	case strings.Contains(msg, "ID generator kind mismatch"):
		return "EIdKind"
	}
	if kind == "storage" && (msg == "EOF" || msg == "unexpected EOF") {
		return "ETruncated"
	}
	return "EDecode"
}
