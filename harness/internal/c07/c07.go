package c07

import (
	"encoding/json"

	"verifharness/internal/hx"
)

// shrink proposes smaller variants of a failing whole-simulation scenario:
// one entity removed (from both sides), events / messages / writes / pages cleared.
func shrink(raw json.RawMessage) []json.RawMessage {
	var in input
	if err := hx.UJ(raw, &in); err != nil || in.Sim == nil || in.Sim.Archive != nil {
		return nil
	}
	var out []json.RawMessage
	emit := func(s simInput) { out = append(out, hx.J(input{Sim: &s})) }
	s := *in.Sim
	names := map[string]bool{}
	for _, e := range s.Saved.Ents {
		names[e.Name] = true
	}
	for _, e := range s.Rebuilt.Ents {
		names[e.Name] = true
	}
	without := func(es []entSpec, name string) []entSpec {
		var o []entSpec
		for _, e := range es {
			if e.Name != name {
				o = append(o, e)
			}
		}
		return o
	}
	for n := range names {
		t := s
		t.Saved.Ents = without(s.Saved.Ents, n)
		t.Rebuilt.Ents = without(s.Rebuilt.Ents, n)
		if len(t.Saved.Ents) < len(s.Saved.Ents) || len(t.Rebuilt.Ents) < len(s.Rebuilt.Ents) {
			emit(t)
		}
	}
	if len(s.Saved.Events) > 0 || s.Saved.RunUntil != nil {
		t := s
		t.Saved.Events, t.Saved.RunUntil = nil, nil
		emit(t)
	}
	for i, e := range s.Saved.Ents {
		if len(e.In)+len(e.Out)+len(e.Writes)+len(e.Pages) > 0 || e.Tick || e.Wake != nil {
			t := s
			t.Saved.Ents = append([]entSpec(nil), s.Saved.Ents...)
			f := e
			f.In, f.Out, f.Writes, f.Pages, f.Tick, f.Wake = nil, nil, nil, nil, false, nil
			t.Saved.Ents[i] = f
			emit(t)
		}
	}
	return out
}

func init() {
	hx.Register(&hx.Prop{
		ID: "C07", Imports: "From Akita Require Import Lib.Base C07.Model C07.Exec.",
		Rule: "three families from one PRNG. (1) whole simulations (SerialEngine with 0-3 handlers, 0-6 queued " +
			"events at few distinct times, optional RunUntil, ID generator, 0-7 entities among ticking / event-driven " +
			"components, ports with buffered messages, storages with written / zero-written / only-read / cleared units, page tables; names with " +
			"characters that PathEscape rewrites): SaveCheckpoint -> rebuild with the same configuration in a random " +
			"registration order -> LoadCheckpoint -> SaveCheckpoint, archive bytes compared. (2) the same with one " +
			"single-point mutation of the rebuilt configuration (16 kinds: build id, entity missing/extra/renamed, " +
			"spec, port capacities, storage capacity/unit size, page size, missing handler, unregistered message / " +
			"event type, non-empty engine). (3) a valid archive damaged in one of 25 ways (entry level: missing / " +
			"duplicate / empty build_id, dropped / duplicated / aliased entity, unknown entry, bad escape, directory / " +
			"symlink entry, junk / swapped / structurally mutated payload, kind swap, an entry HEADER claiming 2^48..2^62 bytes or fewer bytes than present; byte level: bit flips, truncation, " +
			"gzip-valid tar garbage, not gzip, empty, trailing garbage), plus single-entity probes: the saved payload " +
			"of a random entity, intact / structurally mutated JSON (null, wrong types, oversize lists, deleted keys) / " +
			"damaged bytes / junk, loaded into an entity whose configuration may differ, and ~110 directed payloads " +
			"(port overflow with matching capacity, storage truncations and unit counts beyond the stream, engine " +
			"unknown handler / type / null bodies, id-generator kinds, page-table nulls and duplicates). " +
			"Non-trivial: a simulation with >= 2 user entities or a damaged archive; a probe whose payload decodes " +
			"(not PMalformed) and is not the untouched payload, or which loads. Distinct = distinct input hash.",
		Gen: gen, Run: run, Shrink: shrink,
	})
}
