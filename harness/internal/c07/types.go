// Package c07 ties the Coq model of the checkpoint archive code (C07) to the
// implementation: whole-simulation save / load / save scenarios, single-point
// configuration mutations of the rebuilt simulation, hand-crafted and corrupted
// archives, and single-entity payload probes.
package c07

import (
	"github.com/sarchlab/akita/v5/messaging"
	"github.com/sarchlab/akita/v5/timing"
)

// ---------------------------------------------------------------- test types

// cSpec / cState are the Spec and State of the components the harness builds.
type cSpec struct {
	A int    `json:"a"`
	B string `json:"b"`
}

type cState struct {
	X int   `json:"x"`
	Y []int `json:"y"`
}

// msgA and msgB are registered with the message codec; msgU never is.
type msgA struct {
	messaging.MsgMeta
	Val int `json:"val"`
}

type msgB struct {
	messaging.MsgMeta
	Note string `json:"note"`
}

type msgU struct {
	messaging.MsgMeta
	Val int `json:"val"`
}

// evH is registered with the event codec; evU never is.
type evH struct {
	timing.EventBase
	Val int `json:"val"`
}

type evU struct {
	timing.EventBase
	Val int `json:"val"`
}

func init() {
	messaging.RegisterMsg(msgA{})
	messaging.RegisterMsg(msgB{})
	timing.RegisterEvent(evH{})
}

// --------------------------------------------------------------------- input

type msgSpec struct {
	Type string `json:"t"` // "a" | "b" | "u"
	ID   uint64 `json:"id"`
	Val  int    `json:"v"`
	Dst  string `json:"dst,omitempty"`
}

type evSpec struct {
	Type    string `json:"t"` // "base" | "h" | "u"
	Time    uint64 `json:"time"`
	Handler string `json:"h"`
	Sec     bool   `json:"sec,omitempty"`
	ID      uint64 `json:"id"`
	Val     int    `json:"v,omitempty"`
}

// writeSpec is one access to a storage before the checkpoint: a write of Data at Addr, or
// (Read) a read of len(Data) bytes at Addr — a read allocates the units it touches too.
type writeSpec struct {
	Addr uint64 `json:"addr"`
	Data []byte `json:"data"`
	Read bool   `json:"read,omitempty"`
}

type pageSpec struct {
	PID   uint32 `json:"pid"`
	VAddr uint64 `json:"va"`
	PAddr uint64 `json:"pa"`
	Valid bool   `json:"valid,omitempty"`
}

// entSpec describes one user entity: its kind, name, configuration and the
// state operations applied to it before the checkpoint.
type entSpec struct {
	Kind string `json:"kind"` // comp | evcomp | port | storage | pagetable
	Name string `json:"name"`

	// comp / evcomp
	SpecA  int     `json:"spec_a,omitempty"`
	SpecB  string  `json:"spec_b,omitempty"`
	StateX int     `json:"state_x,omitempty"`
	StateY []int   `json:"state_y,omitempty"`
	Tick   bool    `json:"tick,omitempty"` // comp: TickLater()
	Wake   *uint64 `json:"wake,omitempty"` // evcomp: ScheduleWakeAt(t)
	TickID uint64  `json:"tick_id,omitempty"`

	// port
	InCap  int       `json:"in_cap,omitempty"`
	OutCap int       `json:"out_cap,omitempty"`
	In     []msgSpec `json:"in,omitempty"`
	Out    []msgSpec `json:"out,omitempty"`

	// storage
	Cap    uint64      `json:"cap,omitempty"`
	Unit   uint64      `json:"unit,omitempty"`
	Writes []writeSpec `json:"writes,omitempty"`

	// page table
	Log2  uint64     `json:"log2,omitempty"`
	Pages []pageSpec `json:"pages,omitempty"`
}

// assembly describes a whole simulation: the engine's handlers, time and
// scheduled events, the ID generator value at checkpoint time, and the user
// entities in registration order.
type assembly struct {
	Time     uint64    `json:"time"`
	Handlers []string  `json:"handlers,omitempty"`
	Events   []evSpec  `json:"events,omitempty"`
	RunUntil *uint64   `json:"run_until,omitempty"`
	NextID   uint64    `json:"next_id"`
	Ents     []entSpec `json:"ents"`
}

// simInput is a whole-simulation scenario. With Archive == nil the rebuilt
// simulation loads the archive the saved one wrote and saves again; otherwise
// the given bytes replace the archive (hand-crafted / corrupted stream) and
// Saved is ignored.
type simInput struct {
	BuildSave string   `json:"build_save"`
	BuildLoad string   `json:"build_load"`
	Saved     assembly `json:"saved"`
	Rebuilt   assembly `json:"rebuilt"`
	Archive   []byte   `json:"archive,omitempty"`
	Label     string   `json:"label,omitempty"`
}

// probeInput is a single-entity probe: the rebuilt entity (for Kind "engine"
// the assembly's engine, for "idgen" the process ID generator) and the payload
// bytes handed to its LoadCheckpoint.
type probeInput struct {
	Kind    string   `json:"kind"` // engine | idgen | comp | evcomp | port | storage | pagetable
	Ent     entSpec  `json:"ent"`
	Engine  assembly `json:"engine"`
	Payload []byte   `json:"payload"`
	Label   string   `json:"label,omitempty"`
}

type input struct {
	Sim   *simInput   `json:"sim,omitempty"`
	Probe *probeInput `json:"probe,omitempty"`
}
