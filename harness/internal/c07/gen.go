package c07

import (
	"archive/tar"
	"bytes"
	"compress/gzip"
	"encoding/binary"
	"encoding/json"
	"fmt"
	"sort"
	"strings"
	"time"

	"github.com/sarchlab/akita/v5/timing"

	"verifharness/internal/hx"
)

// ---------------------------------------------------------------- name pools

// component names must satisfy naming.MustBeValid (dot-separated tokens that
// start with a capital letter, no _ - ' "), everything else is free text.
var compNames = []string{
	"Core", "GPU[0].L1", "A/b c", "Zé%41", "Mem.Ctrl[1][2]", "B+x=y", "C~z",
	"D:e@f$g&h", "E,f;g?h", "Worker", "Waker", "Q#1!", "R(2)*", "S\\t", "T%", "U%2F",
}

var freeNames = []string{
	"mem_0", "é", " ", "build_id", "entities/x", "a%2Fb", "Core.Top", "%", "%zz",
	"..", "Port-1", "DRAM", "PT", "x y", "tab\there", "q?k=v&w", "中文", "semi;colon,comma",
	strings.Repeat("LongName", 20), "a/b/c", "Engine2", "idgen",
}

func pickName(r *hx.Rand, pool []string, used map[string]bool) string {
	for {
		n := pool[r.Intn(len(pool))]
		if r.Chance(1, 3) {
			n = fmt.Sprintf("N%d.%s", r.Intn(50), n)
		}
		if n == "Engine" || n == "IDGenerator" || used[n] {
			continue
		}
		used[n] = true
		return n
	}
}

// ------------------------------------------------------------ assemblies

func genMsgs(r *hx.Rand, n int, unreg bool) []msgSpec {
	var out []msgSpec
	for i := 0; i < n; i++ {
		t := []string{"a", "b"}[r.Intn(2)]
		if unreg && i == n-1 {
			t = "u"
		}
		out = append(out, msgSpec{Type: t, ID: r.U64n(1 << 40), Val: r.Intn(1000), Dst: "Peer.Port"})
	}
	return out
}

func genEntity(r *hx.Rand, kind string, used map[string]bool, now uint64) entSpec {
	e := entSpec{Kind: kind}
	switch kind {
	case "comp", "evcomp":
		e.Name = pickName(r, compNames, used)
		e.SpecA = r.Intn(100)
		e.SpecB = []string{"", "fast", "slow", "ü\"q"}[r.Intn(4)]
		e.StateX = r.Intn(1 << 20)
		if r.Bool() {
			for i := r.Intn(4); i > 0; i-- {
				e.StateY = append(e.StateY, r.Intn(100)-50)
			}
		}
		e.TickID = r.U64n(1 << 30)
		if kind == "comp" {
			e.Tick = r.Bool()
		} else if r.Bool() {
			w := now + r.U64n(5000)
			e.Wake = &w
		}
	case "port":
		e.Name = pickName(r, freeNames, used)
		e.InCap, e.OutCap = r.Intn(5), r.Intn(5)
		if e.InCap > 0 {
			e.In = genMsgs(r, r.Intn(e.InCap+1), false)
		}
		if e.OutCap > 0 {
			e.Out = genMsgs(r, r.Intn(e.OutCap+1), false)
		}
	case "storage":
		e.Name = pickName(r, freeNames, used)
		e.Unit = []uint64{1, 8, 16, 64}[r.Intn(4)]
		e.Cap = e.Unit * uint64(1+r.Intn(64))
		for i := r.Intn(5); i > 0; i-- {
			n := uint64(1 + r.Intn(int(2*e.Unit)))
			if n > e.Cap {
				n = e.Cap
			}
			a := r.U64n(e.Cap - n + 1)
			// an allocated unit need not hold a non-zero byte: units that were only read, written
			// with zeros, or written and cleared again are allocated too and are part of the payload
			switch r.Pick(5, 2, 2, 1) {
			case 0:
				e.Writes = append(e.Writes, writeSpec{Addr: a, Data: r.Bytes(int(n))})
			case 1:
				e.Writes = append(e.Writes, writeSpec{Addr: a, Data: make([]byte, n)})
			case 2:
				e.Writes = append(e.Writes, writeSpec{Addr: a, Data: make([]byte, n), Read: true})
			default:
				e.Writes = append(e.Writes, writeSpec{Addr: a, Data: r.Bytes(int(n))},
					writeSpec{Addr: a, Data: make([]byte, n)})
			}
		}
	case "pagetable":
		e.Name = pickName(r, freeNames, used)
		e.Log2 = []uint64{12, 12, 16, 21, 0}[r.Intn(5)]
		seen := map[[2]uint64]bool{}
		for i := r.Intn(6); i > 0; i-- {
			pid := uint32(r.Intn(4))
			va := r.U64n(8) << 12
			if seen[[2]uint64{uint64(pid), va}] {
				continue
			}
			seen[[2]uint64{uint64(pid), va}] = true
			e.Pages = append(e.Pages, pageSpec{PID: pid, VAddr: va, PAddr: r.U64n(1 << 30), Valid: r.Bool()})
		}
	}
	return e
}

var entKinds = []string{"comp", "evcomp", "port", "storage", "pagetable"}

func genAssembly(r *hx.Rand, maxEnts int) assembly {
	a := assembly{NextID: r.U64n(1 << 40)}
	if r.Bool() {
		a.Time = r.U64n(1_000_000)
	}
	for i := r.Intn(4); i > 0; i-- {
		a.Handlers = append(a.Handlers, fmt.Sprintf("H%d", len(a.Handlers)))
	}
	now := a.Time
	if len(a.Handlers) > 0 {
		for i := r.Intn(7); i > 0; i-- {
			t := []string{"base", "h"}[r.Intn(2)]
			// few distinct times, so that equal-time events exercise the (time, seq) order
			a.Events = append(a.Events, evSpec{Type: t, Time: a.Time + uint64(r.Intn(6))*500,
				Handler: a.Handlers[r.Intn(len(a.Handlers))], Sec: r.Chance(1, 3),
				ID: r.U64n(1 << 40), Val: r.Intn(100)})
		}
		if r.Chance(1, 3) {
			t := a.Time + r.U64n(2500)
			a.RunUntil = &t
			if t > now {
				now = t
			}
		}
	}
	used := map[string]bool{}
	n := r.Intn(maxEnts + 1)
	for i := 0; i < n; i++ {
		a.Ents = append(a.Ents, genEntity(r, entKinds[r.Intn(len(entKinds))], used, now))
	}
	return a
}

// freshCopy is the rebuilt counterpart of a saved assembly: same configuration,
// no state (or, with keepState, unrelated left-over state that a load replaces).
func freshCopy(r *hx.Rand, a assembly, keepState bool) assembly {
	b := assembly{Handlers: append([]string(nil), a.Handlers...), NextID: r.U64n(1 << 40)}
	if r.Bool() {
		b.Time = r.U64n(1000)
	}
	for _, e := range a.Ents {
		f := entSpec{Kind: e.Kind, Name: e.Name, SpecA: e.SpecA, SpecB: e.SpecB,
			InCap: e.InCap, OutCap: e.OutCap, Cap: e.Cap, Unit: e.Unit, Log2: e.Log2}
		if keepState {
			switch e.Kind {
			case "comp", "evcomp":
				f.StateX = r.Intn(100)
			case "port":
				if f.InCap > 0 {
					f.In = genMsgs(r, 1, false)
				}
			case "storage":
				f.Writes = []writeSpec{{Addr: 0, Data: []byte{byte(r.Intn(256))}}}
			case "pagetable":
				f.Pages = []pageSpec{{PID: 9, VAddr: 0x5000, PAddr: 1}}
			}
		}
		b.Ents = append(b.Ents, f)
	}
	return b
}

func permute(r *hx.Rand, es []entSpec) []entSpec {
	out := append([]entSpec(nil), es...)
	for i := len(out) - 1; i > 0; i-- {
		j := r.Intn(i + 1)
		out[i], out[j] = out[j], out[i]
	}
	return out
}

func indexOfKind(es []entSpec, kind string) int {
	for i, e := range es {
		if e.Kind == kind {
			return i
		}
	}
	return -1
}

// ensureKind makes sure the assembly has an entity of the kind and returns its index.
func ensureKind(r *hx.Rand, a *assembly, kind string) int {
	if i := indexOfKind(a.Ents, kind); i >= 0 {
		return i
	}
	used := map[string]bool{}
	for _, e := range a.Ents {
		used[e.Name] = true
	}
	now := a.Time
	if a.RunUntil != nil && *a.RunUntil > now {
		now = *a.RunUntil
	}
	a.Ents = append(a.Ents, genEntity(r, kind, used, now))
	return len(a.Ents) - 1
}

var mutationKinds = []string{
	"build-id", "entity-missing", "entity-extra", "entity-renamed", "comp-spec", "evcomp-spec",
	"port-incap", "port-outcap", "storage-cap", "storage-unit", "storage-unit-empty", "page-size",
	"handler-missing", "msg-unregistered", "evt-unregistered", "engine-nonempty",
}

// genMutation builds a saved assembly and a rebuilt one that differs in exactly
// one configuration point.
func genMutation(r *hx.Rand, kind string) simInput {
	saved := genAssembly(r, 4)
	in := simInput{BuildSave: "build-1", BuildLoad: "build-1", Label: "mut:" + kind}
	tweak := func(k string) int { return ensureKind(r, &saved, k) }
	var apply func(reb *assembly)
	find := func(reb *assembly, name string) *entSpec {
		for i := range reb.Ents {
			if reb.Ents[i].Name == name {
				return &reb.Ents[i]
			}
		}
		panic("entity lost")
	}
	switch kind {
	case "build-id":
		in.BuildLoad = []string{"build-2", "build-1 ", "Build-1", "b"}[r.Intn(4)]
	case "entity-missing":
		i := tweak(entKinds[r.Intn(len(entKinds))])
		name := saved.Ents[i].Name
		apply = func(reb *assembly) {
			var out []entSpec
			for _, e := range reb.Ents {
				if e.Name != name {
					out = append(out, e)
				}
			}
			reb.Ents = out
		}
	case "entity-extra":
		apply = func(reb *assembly) {
			used := map[string]bool{}
			for _, e := range reb.Ents {
				used[e.Name] = true
			}
			e := genEntity(r, entKinds[r.Intn(len(entKinds))], used, 0)
			e.Tick, e.Wake, e.In, e.Out = false, nil, nil, nil
			reb.Ents = append(reb.Ents, e)
		}
	case "entity-renamed":
		i := tweak(entKinds[2+r.Intn(3)])
		name := saved.Ents[i].Name
		apply = func(reb *assembly) { find(reb, name).Name = name + "'" }
	case "comp-spec", "evcomp-spec":
		i := tweak(strings.TrimSuffix(kind, "-spec"))
		name := saved.Ents[i].Name
		apply = func(reb *assembly) {
			if r.Bool() {
				find(reb, name).SpecA++
			} else {
				find(reb, name).SpecB += "x"
			}
		}
	case "port-incap", "port-outcap":
		i := tweak("port")
		name := saved.Ents[i].Name
		apply = func(reb *assembly) {
			e := find(reb, name)
			d := 1 + r.Intn(3)
			if kind == "port-incap" {
				e.InCap += d
			} else {
				e.OutCap += d
			}
		}
	case "storage-cap":
		i := tweak("storage")
		name := saved.Ents[i].Name
		apply = func(reb *assembly) { e := find(reb, name); e.Cap += e.Unit }
	case "storage-unit", "storage-unit-empty":
		i := tweak("storage")
		if kind == "storage-unit-empty" {
			saved.Ents[i].Writes = nil
		}
		name := saved.Ents[i].Name
		apply = func(reb *assembly) {
			e := find(reb, name)
			// keep the capacity, change only the unit size
			if e.Unit%2 == 0 {
				e.Unit /= 2
			} else {
				e.Unit = e.Cap
			}
			if e.Unit == saved.Ents[i].Unit {
				e.Unit = e.Cap * 2
			}
		}
	case "page-size":
		i := tweak("pagetable")
		name := saved.Ents[i].Name
		apply = func(reb *assembly) { find(reb, name).Log2++ }
	case "handler-missing":
		if len(saved.Handlers) == 0 {
			saved.Handlers = []string{"H0"}
		}
		saved.RunUntil = nil
		h := saved.Handlers[r.Intn(len(saved.Handlers))]
		saved.Events = append(saved.Events, evSpec{Type: "base", Time: saved.Time + 100, Handler: h,
			ID: r.U64n(1 << 30), Sec: r.Bool()})
		apply = func(reb *assembly) {
			var out []string
			for _, x := range reb.Handlers {
				if x != h {
					out = append(out, x)
				}
			}
			reb.Handlers = out
		}
	case "msg-unregistered":
		i := tweak("port")
		e := &saved.Ents[i]
		if r.Bool() {
			e.InCap++
			e.In = append(e.In, msgSpec{Type: "u", ID: 7, Val: 1})
		} else {
			e.OutCap++
			e.Out = append(e.Out, msgSpec{Type: "u", ID: 7, Val: 1})
		}
	case "evt-unregistered":
		if len(saved.Handlers) == 0 {
			saved.Handlers = []string{"H0"}
		}
		saved.RunUntil = nil
		saved.Events = append(saved.Events, evSpec{Type: "u", Time: saved.Time + 50,
			Handler: saved.Handlers[0], ID: 3, Sec: r.Bool()})
	case "engine-nonempty":
		apply = func(reb *assembly) {
			if len(reb.Handlers) == 0 {
				reb.Handlers = []string{"H0"}
			}
			reb.Events = []evSpec{{Type: "base", Time: reb.Time + 10, Handler: reb.Handlers[0], ID: 1}}
		}
	}
	reb := freshCopy(r, saved, false)
	if apply != nil {
		apply(&reb)
	}
	if r.Bool() {
		reb.Ents = permute(r, reb.Ents)
	}
	in.Saved, in.Rebuilt = saved, reb
	return in
}

// genCanonical: identical configuration, random registration order.
func genCanonical(r *hx.Rand, maxEnts int) simInput {
	saved := genAssembly(r, maxEnts)
	reb := freshCopy(r, saved, r.Chance(1, 5))
	reb.Ents = permute(r, reb.Ents)
	b := []string{"build-1", "b", "über build/1", strings.Repeat("f", 64)}[r.Intn(4)]
	return simInput{BuildSave: b, BuildLoad: b, Saved: saved, Rebuilt: reb, Label: "canonical"}
}

// ------------------------------------------------------- crafted archives

// realArchive builds the saved assembly, checkpoints it and returns the tar entries.
func realArchive(a *assembly, buildID string) []tarEnt {
	s := buildSim(a)
	defer s.close()
	b, err := saveArchive(s, buildID, "gen")
	if err != nil {
		panic(err)
	}
	return readTarGz(b)
}

func pack(ents []tarEnt) []byte {
	out := make([]craftEnt, len(ents))
	for i, e := range ents {
		t := byte(tar.TypeReg)
		if e.Kind == "other" {
			t = tar.TypeDir
		}
		out[i] = craftEnt{Type: t, Name: e.Name, Data: e.Data}
	}
	return writeTarGz(out)
}

// packWithClaim writes the entries like pack, except that the header of entry k claims
// `claim` bytes; the entry's real data follows, and the stream ends right after it.
func packWithClaim(ents []tarEnt, k int, claim int64) []byte {
	var buf bytes.Buffer
	gz := gzip.NewWriter(&buf)
	gz.ModTime = time.Unix(0, 0)
	tw := tar.NewWriter(gz)
	for i, e := range ents {
		h := &tar.Header{Name: e.Name, Mode: 0o600, Size: int64(len(e.Data)), ModTime: time.Unix(0, 0),
			Typeflag: tar.TypeReg, Format: tar.FormatPAX}
		if i == k {
			h.Size = claim
		}
		if err := tw.WriteHeader(h); err != nil {
			panic(err)
		}
		n := len(e.Data)
		if int64(n) > h.Size {
			n = int(h.Size)
		}
		if _, err := tw.Write(e.Data[:n]); err != nil {
			panic(err)
		}
		if i == k {
			break // the writer cannot continue after a short entry: the stream ends here
		}
	}
	tw.Flush() // pads what it can; an unfinished entry is reported and ignored
	gz.Close()
	return buf.Bytes()
}

var tamperKinds = []string{
	"intact", "reorder", "no-build-id", "dup-build-id", "empty-build-id", "drop-entity",
	"dup-entity", "alias-entity", "unknown-entry", "bad-escape", "dir-entry", "symlink-entry",
	"payload-junk", "payload-swap", "payload-mutated", "kind-swap",
	"bit-flip", "truncate", "tar-garbage", "not-gzip", "empty-file", "trailing-garbage",
	"oversize-header", "oversize-header-first", "undersize-header",
}

func entityIdx(r *hx.Rand, ents []tarEnt) int {
	var idx []int
	for i, e := range ents {
		if e.Name != "build_id" {
			idx = append(idx, i)
		}
	}
	return idx[r.Intn(len(idx))]
}

var junkPayloads = [][]byte{
	nil, []byte("null"), []byte("[]"), []byte("{}"), []byte(`"str"`), []byte("42"), []byte("{"),
	[]byte(`{"spec_hash":1}`), []byte("\x00\x01\x02"), []byte("true"), []byte(`{"incoming":[],"outgoing":{}}`),
	[]byte(`{"time":-1}`), []byte(`{"log2_page_size":12,"tables":[{"pid":1,"pages":null}]}`),
	[]byte(`{"kind":"sequential","next_id":1e3}`), []byte(`{"capacity":1}`),
}

// genTamper builds a valid archive and damages it in one way.
func genTamper(r *hx.Rand, kind string) simInput {
	saved := genAssembly(r, 4)
	if len(saved.Ents) == 0 {
		ensureKind(r, &saved, entKinds[r.Intn(len(entKinds))])
	}
	in := simInput{BuildSave: "build-1", BuildLoad: "build-1", Label: "tamper:" + kind}
	reb := freshCopy(r, saved, false)
	if r.Bool() {
		reb.Ents = permute(r, reb.Ents)
	}
	ents := realArchive(&saved, in.BuildSave)
	var raw []byte
	switch kind {
	case "intact":
	case "reorder":
		for i := len(ents) - 1; i > 0; i-- {
			j := r.Intn(i + 1)
			ents[i], ents[j] = ents[j], ents[i]
		}
	case "no-build-id":
		ents = ents[1:]
	case "dup-build-id":
		ents = append(ents, ents[0])
	case "empty-build-id":
		ents[0].Data = nil
	case "drop-entity":
		i := entityIdx(r, ents)
		ents = append(ents[:i:i], ents[i+1:]...)
	case "dup-entity":
		ents = append(ents, ents[entityIdx(r, ents)])
	case "alias-entity":
		// a different path that unescapes to the same entity name
		e := ents[entityIdx(r, ents)]
		rest := strings.TrimPrefix(e.Name, "entities/")
		if len(rest) > 0 && rest[0] != '%' {
			e.Name = fmt.Sprintf("entities/%%%02X%s", rest[0], rest[1:])
		} else if len(rest) >= 3 {
			e.Name = "entities/" + strings.ToLower(rest[:3]) + rest[3:]
		}
		ents = append(ents, e)
	case "unknown-entry":
		n := []string{"junk.txt", "entitiesX", "entities", "Build_id", "build_id.bak", "manifest.json", "ENTITIES/x"}[r.Intn(7)]
		ents = append(ents, tarEnt{Kind: "reg", Name: n, Data: []byte("x")})
	case "bad-escape":
		n := []string{"entities/%zz", "entities/%", "entities/a%4", "entities/%G1"}[r.Intn(4)]
		ents = append(ents, tarEnt{Kind: "reg", Name: n, Data: []byte("{}")})
	case "dir-entry":
		n := []string{"entities/", "entities/Dir/", "build_id"}[r.Intn(3)]
		pos := r.Intn(len(ents) + 1)
		ents = append(ents[:pos:pos], append([]tarEnt{{Kind: "other", Name: n}}, ents[pos:]...)...)
	case "symlink-entry":
		var cs []craftEnt
		for _, e := range ents {
			cs = append(cs, craftEnt{Type: tar.TypeReg, Name: e.Name, Data: e.Data})
		}
		cs = append(cs, craftEnt{Type: tar.TypeSymlink, Name: "entities/link"})
		raw = writeTarGz(cs)
	case "payload-junk":
		ents[entityIdx(r, ents)].Data = junkPayloads[r.Intn(len(junkPayloads))]
	case "payload-swap":
		i, j := entityIdx(r, ents), entityIdx(r, ents)
		ents[i].Data, ents[j].Data = ents[j].Data, ents[i].Data
	case "payload-mutated":
		i := entityIdx(r, ents)
		ents[i].Data = mutateJSON(r, ents[i].Data)
	case "kind-swap":
		// the archive is intact; one rebuilt entity keeps its name but is of another kind
		if len(reb.Ents) > 0 {
			e := &reb.Ents[r.Intn(len(reb.Ents))]
			switch e.Kind {
			case "comp":
				e.Kind = "evcomp"
			case "evcomp":
				e.Kind = "comp"
			case "port":
				e.Kind, e.Unit, e.Cap = "storage", 8, 64
			case "storage":
				e.Kind, e.Log2 = "pagetable", 0
			case "pagetable":
				e.Kind, e.InCap, e.OutCap = "port", 0, 0
			}
		}
	case "oversize-header", "oversize-header-first", "undersize-header":
		// a well-formed gzip + tar stream in which one entry's HEADER claims a size that has
		// nothing to do with the bytes that follow (2^48 .. 2^62, or fewer bytes than present)
		i := entityIdx(r, ents)
		if kind == "oversize-header-first" {
			i = 0
		}
		// 2^48 .. 2^62: beyond anything that can be allocated, so that a reader which trusts the
		// header fails in a way the harness survives (a recoverable panic, not an out-of-memory kill)
		claim := int64(1)<<uint(48+r.Intn(15)) + int64(r.Intn(1000))
		if kind == "undersize-header" {
			claim = int64(r.Intn(len(ents[i].Data) + 1))
		}
		raw = packWithClaim(ents, i, claim)
	case "bit-flip":
		raw = pack(ents)
		for k := 1 + r.Intn(3); k > 0; k-- {
			p := r.Intn(len(raw) * 8)
			raw[p/8] ^= 1 << (p % 8)
		}
	case "truncate":
		raw = pack(ents)
		raw = raw[:r.Intn(len(raw))]
	case "tar-garbage":
		var buf bytes.Buffer
		gz := gzip.NewWriter(&buf)
		gz.Write(r.Bytes(r.Intn(2000)))
		gz.Close()
		raw = buf.Bytes()
	case "not-gzip":
		raw = []byte("this is not a gzip archive")
	case "empty-file":
		raw = []byte{}
	case "trailing-garbage":
		raw = append(pack(ents), r.Bytes(1+r.Intn(40))...)
	}
	if raw == nil {
		raw = pack(ents)
	}
	in.Archive = raw
	in.Rebuilt = reb
	return in
}

// ------------------------------------------------------------ JSON mutation

type jpath struct {
	parent any // map[string]any or []any
	key    string
	idx    int
}

func collect(v any, parent any, key string, idx int, out *[]jpath) {
	if parent != nil {
		*out = append(*out, jpath{parent, key, idx})
	}
	switch x := v.(type) {
	case map[string]any:
		ks := make([]string, 0, len(x))
		for k := range x {
			ks = append(ks, k)
		}
		sort.Strings(ks)
		for _, k := range ks {
			collect(x[k], x, k, 0, out)
		}
	case []any:
		for i := range x {
			collect(x[i], x, "", i, out)
		}
	}
}

// mutateJSON applies one structural mutation to a JSON document (or damages
// the text when it is not JSON).
func mutateJSON(r *hx.Rand, data []byte) []byte {
	dec := json.NewDecoder(bytes.NewReader(data))
	dec.UseNumber()
	var root any
	if err := dec.Decode(&root); err != nil || r.Chance(1, 8) {
		out := append([]byte(nil), data...)
		if len(out) == 0 {
			return []byte("{")
		}
		if r.Bool() {
			return out[:r.Intn(len(out))]
		}
		out[r.Intn(len(out))] ^= byte(1 << r.Intn(8))
		return out
	}
	var paths []jpath
	holder := []any{root}
	collect(root, holder, "", 0, &paths)
	p := paths[r.Intn(len(paths))]
	get := func() any {
		if m, ok := p.parent.(map[string]any); ok {
			return m[p.key]
		}
		return p.parent.([]any)[p.idx]
	}
	set := func(v any) {
		if m, ok := p.parent.(map[string]any); ok {
			m[p.key] = v
		} else {
			p.parent.([]any)[p.idx] = v
		}
	}
	old := get()
	switch r.Intn(14) {
	case 0:
		set(nil)
	case 1:
		set(true)
	case 2:
		set(json.Number("0"))
	case 3:
		set(json.Number("-1"))
	case 4:
		set(json.Number("1.5"))
	case 5:
		set(json.Number("1e30"))
	case 6:
		set("x")
	case 7:
		set([]any{})
	case 8:
		set(map[string]any{})
	case 9:
		set([]any{old, old})
	case 10:
		if m, ok := p.parent.(map[string]any); ok {
			delete(m, p.key)
		} else {
			set(map[string]any{"a": old})
		}
	case 11:
		if a, ok := old.([]any); ok && len(a) > 0 {
			// repeat the elements (oversize lists)
			var big []any
			for k := 0; k < 2+r.Intn(4); k++ {
				big = append(big, a...)
			}
			set(big)
		} else if n, ok := old.(json.Number); ok {
			if n == "0" || n == "-0" {
				n = "1"
			}
			set(json.Number(string(n) + "0"))
		} else {
			set([]any{old})
		}
	case 12:
		if s, ok := old.(string); ok {
			set(s + "~")
		} else if n, ok := old.(json.Number); ok {
			if i, err := n.Int64(); err == nil {
				set(json.Number(fmt.Sprint(i + 1)))
			} else {
				set(json.Number("7"))
			}
		} else {
			set("18446744073709551616")
		}
	case 13:
		if a, ok := old.([]any); ok && len(a) > 0 {
			set(a[:len(a)-1])
		} else {
			set(json.Number("18446744073709551615"))
		}
	}
	return mustJSON(holder[0])
}

// -------------------------------------------------------------------- probes

func saveBytes(o checkpointable) []byte {
	var buf bytes.Buffer
	if err := o.SaveCheckpoint(&buf); err != nil {
		panic(err)
	}
	return buf.Bytes()
}

// probeSource builds a random stand-alone entity of the kind with some state
// and returns the probe skeleton (rebuilt entity = same configuration, fresh)
// and the payload the entity saves.
func probeSource(r *hx.Rand, kind string) (probeInput, []byte) {
	p := probeInput{Kind: kind}
	switch kind {
	case "engine":
		src := genAssembly(r, 2)
		src.RunUntil = nil
		var ents []entSpec
		for _, e := range src.Ents {
			if e.Kind == "comp" || e.Kind == "evcomp" {
				ents = append(ents, e)
			}
		}
		src.Ents = ents
		sp := probeInput{Kind: kind, Engine: src}
		payload := saveBytes(buildProbe(&sp).obj)
		p.Engine = freshCopy(r, src, false)
		return p, payload
	case "idgen":
		sp := probeInput{Kind: kind, Engine: assembly{NextID: r.U64()}}
		payload := saveBytes(buildProbe(&sp).obj)
		p.Engine = assembly{NextID: r.U64n(100)}
		return p, payload
	default:
		used := map[string]bool{}
		e := genEntity(r, kind, used, 0)
		sp := probeInput{Kind: kind, Ent: e}
		payload := saveBytes(buildProbe(&sp).obj)
		a := freshCopy(r, assembly{Ents: []entSpec{e}}, false)
		p.Ent = a.Ents[0]
		return p, payload
	}
}

func u64le(vs ...uint64) []byte {
	var b []byte
	for _, v := range vs {
		b = binary.LittleEndian.AppendUint64(b, v)
	}
	return b
}

// setJSON replaces the value at a dotted path of a JSON object.
func setJSON(data []byte, path string, f func(old any) any) []byte {
	dec := json.NewDecoder(bytes.NewReader(data))
	dec.UseNumber()
	var root map[string]any
	if err := dec.Decode(&root); err != nil {
		panic(err)
	}
	keys := strings.Split(path, ".")
	m := root
	for _, k := range keys[:len(keys)-1] {
		m = m[k].(map[string]any)
	}
	last := keys[len(keys)-1]
	m[last] = f(m[last])
	return mustJSON(root)
}

func repeatList(n int) func(any) any {
	return func(old any) any {
		a, _ := old.([]any)
		var out []any
		for len(out) < n {
			if len(a) == 0 {
				out = append(out, map[string]any{"type": tagMsgA, "payload": map[string]any{}})
			} else {
				out = append(out, a[len(out)%len(a)])
			}
		}
		return out
	}
}

// directedProbes are hand-crafted payloads aimed at specific loader paths.
func directedProbes(r *hx.Rand) []probeInput {
	var out []probeInput
	add := func(p probeInput, label string, payload []byte) {
		p.Label, p.Payload = label, payload
		out = append(out, p)
	}
	// port: declared capacity equals the rebuilt one, more elements than fit
	for _, side := range []string{"incoming", "outgoing"} {
		for k := 0; k < 3; k++ {
			p, pay := probeSource(r, "port")
			capv := p.Ent.InCap
			if side == "outgoing" {
				capv = p.Ent.OutCap
			}
			add(p, "port-overflow-"+side, setJSON(pay, side+".elements", repeatList(capv+1+r.Intn(3))))
		}
	}
	{
		p, pay := probeSource(r, "port")
		add(p, "port-elements-null", setJSON(pay, "incoming.elements", func(any) any { return nil }))
		add(p, "port-unknown-tag", setJSON(pay, "incoming.elements", func(any) any {
			return []any{map[string]any{"type": tagMsgU, "payload": map[string]any{}}}
		}))
		add(p, "port-body-null", setJSON(pay, "outgoing.elements", func(any) any {
			return []any{map[string]any{"type": tagMsgA, "payload": nil}}
		}))
		add(p, "port-body-bad", setJSON(pay, "outgoing.elements", func(any) any {
			return []any{map[string]any{"type": tagMsgB, "payload": []any{}}}
		}))
		neg := p
		neg.Ent.InCap = -1
		add(neg, "port-negative-capacity", setJSON(pay, "incoming", func(any) any {
			return map[string]any{"capacity": -1, "elements": []any{}}
		}))
	}
	// storage: header truncations, unit counts far beyond the stream
	{
		p, _ := probeSource(r, "storage")
		c, u := p.Ent.Cap, p.Ent.Unit
		for n := 0; n <= 24; n += 4 {
			add(p, "storage-truncated-header", u64le(c, u, 0)[:n])
		}
		for _, n := range []uint64{1, 1000, 200_000, 1 << 20, 1 << 40, 1 << 62, 1<<63 - 1, 1 << 63, 1<<64 - 1} {
			add(p, "storage-count-beyond-stream", u64le(c, u, n))
			add(p, "storage-count-beyond-stream", append(u64le(c, u, n), u64le(0)...))
		}
		add(p, "storage-cap-mismatch-truncated", u64le(c+1, u))
		add(p, "storage-unit-mismatch-truncated", u64le(c, u+1))
		add(p, "storage-unit-mismatch-empty", u64le(c, u+1, 0))
		unit := make([]byte, u)
		dup := append(u64le(c, u, 2, 0), unit...)
		dup = append(append(dup, u64le(0)...), unit...)
		add(p, "storage-duplicate-address", dup)
		add(p, "storage-trailing-bytes", append(u64le(c, u, 0), 1, 2, 3))
		add(p, "storage-address-beyond-capacity", append(u64le(c, u, 1, c*4), unit...))
	}
	// engine
	{
		p, pay := probeSource(r, "engine")
		p.Engine.Handlers = []string{"H0"}
		one := func(tag string, body any) func(any) any {
			return func(any) any { return []any{map[string]any{"type": tag, "payload": body}} }
		}
		evb := map[string]any{"id": 1, "time": 5, "handler_id": "H0", "secondary": false}
		add(p, "engine-valid-one", setJSON(pay, "primary", one(tagBase, evb)))
		add(p, "engine-unknown-handler", setJSON(pay, "primary",
			one(tagBase, map[string]any{"id": 1, "time": 5, "handler_id": "Ghost"})))
		add(p, "engine-unknown-handler-secondary", setJSON(pay, "secondary",
			one(tagBase, map[string]any{"id": 1, "time": 5, "handler_id": "Ghost", "secondary": true})))
		add(p, "engine-unknown-type", setJSON(pay, "primary", one(tagEvU, evb)))
		add(p, "engine-body-null", setJSON(pay, "primary", one(tagBase, nil)))
		add(p, "engine-body-bad", setJSON(pay, "primary", one(tagEvH, "str")))
		add(p, "engine-secondary-in-primary", setJSON(pay, "primary",
			one(tagBase, map[string]any{"id": 1, "time": 5, "handler_id": "H0", "secondary": true})))
		add(p, "engine-past-event", setJSON(setJSON(pay, "time", func(any) any { return 1000 }),
			"primary", one(tagBase, evb)))
		add(p, "engine-primary-null", setJSON(pay, "primary", func(any) any { return nil }))
		add(p, "engine-primary-object", setJSON(pay, "primary", func(any) any { return map[string]any{} }))
		add(p, "engine-element-null", setJSON(pay, "secondary", func(any) any { return []any{nil} }))
		ne := p
		ne.Engine.Events = []evSpec{{Type: "base", Time: ne.Engine.Time + 1, Handler: "H0", ID: 2}}
		add(ne, "engine-nonempty", pay)
		add(ne, "engine-nonempty-malformed", []byte("{"))
	}
	// id generator
	{
		p, _ := probeSource(r, "idgen")
		for _, s := range []string{`{"kind":"sequential","next_id":7}`, `{"kind":"parallel","next_id":7}`,
			`{"next_id":7}`, `{"kind":"Sequential","next_id":7}`, `{"kind":"sequential"}`,
			`{"kind":"sequential","next_id":-1}`, `{"kind":"sequential","next_id":18446744073709551615}`,
			`{"kind":"sequential","next_id":18446744073709551616}`, `{"kind":"sequential","next_id":"7"}`,
			`{"kind":null,"next_id":null}`, `[]`, ``, `null`, `{"kind":"sequential","next_id":7} trailing`} {
			add(p, "idgen-directed", []byte(s))
		}
	}
	// page table
	{
		p, _ := probeSource(r, "pagetable")
		l := p.Ent.Log2
		for _, s := range []string{
			fmt.Sprintf(`{"log2_page_size":%d,"tables":null}`, l),
			fmt.Sprintf(`{"log2_page_size":%d}`, l),
			fmt.Sprintf(`{"log2_page_size":%d,"tables":[{"pid":1,"pages":null}]}`, l),
			fmt.Sprintf(`{"log2_page_size":%d,"tables":[{"pid":1,"pages":[{"v_addr":4096},{"v_addr":4096}]}]}`, l),
			fmt.Sprintf(`{"log2_page_size":%d,"tables":[{"pid":1,"pages":[{"v_addr":1}]},{"pid":1,"pages":[]}]}`, l),
			fmt.Sprintf(`{"log2_page_size":%d,"tables":[{"pid":4294967296,"pages":[]}]}`, l),
			fmt.Sprintf(`{"log2_page_size":%d,"tables":[null]}`, l),
			fmt.Sprintf(`{"log2_page_size":%d,"tables":[]}`, l+1),
			`{"tables":[]}`, `{}`, `null`,
		} {
			add(p, "pagetable-directed", []byte(s))
		}
	}
	// components
	for _, kind := range []string{"comp", "evcomp"} {
		p, pay := probeSource(r, kind)
		add(p, kind+"-state-null", setJSON(pay, "state", func(any) any { return nil }))
		add(p, kind+"-state-array", setJSON(pay, "state", func(any) any { return []any{} }))
		add(p, kind+"-state-bad-field", setJSON(pay, "state", func(any) any { return map[string]any{"x": "s"} }))
		add(p, kind+"-hash-empty", setJSON(pay, "spec_hash", func(any) any { return "" }))
		add(p, kind+"-hash-upper", setJSON(pay, "spec_hash", func(o any) any { return strings.ToUpper(o.(string)) }))
		add(p, kind+"-hash-wrong-state-bad", setJSON(setJSON(pay, "spec_hash", func(any) any { return "00" }),
			"state", func(any) any { return 3 }))
		add(p, kind+"-empty", nil)
		if kind == "comp" {
			add(p, kind+"-scheduler-null", setJSON(pay, "scheduler", func(any) any { return nil }))
			add(p, kind+"-scheduler-time-negative", setJSON(pay, "scheduler", func(any) any {
				return map[string]any{"has_scheduled_tick": true, "next_tick_time": -5}
			}))
		}
	}
	return out
}

var probeKinds = []string{"engine", "idgen", "comp", "evcomp", "port", "storage", "pagetable"}

// genProbe: a saved payload of a random entity, intact, structurally mutated or
// damaged, loaded into a rebuilt entity whose configuration may differ.
func genProbe(r *hx.Rand) probeInput {
	kind := probeKinds[r.Pick(3, 1, 2, 2, 4, 3, 2)]
	p, pay := probeSource(r, kind)
	switch r.Pick(2, 6, 2, 2) {
	case 0:
		p.Label = "valid"
	case 1:
		p.Label = "json-mutated"
		if kind == "storage" {
			p.Label = "bytes-mutated"
			out := append([]byte(nil), pay...)
			switch r.Intn(3) {
			case 0:
				out = out[:r.Intn(len(out)+1)]
			case 1:
				i := r.Intn(3) * 8 // a header word
				binary.LittleEndian.PutUint64(out[i:], binary.LittleEndian.Uint64(out[i:])+uint64(1+r.Intn(3)))
			default:
				out[r.Intn(len(out))] ^= byte(1 << r.Intn(8))
			}
			pay = out
		} else {
			pay = mutateJSON(r, pay)
			if r.Chance(1, 4) {
				pay = mutateJSON(r, pay)
			}
		}
	case 2:
		p.Label = "config-mutated"
		switch kind {
		case "comp", "evcomp":
			p.Ent.SpecA++
		case "port":
			if r.Bool() {
				p.Ent.InCap++
			} else {
				p.Ent.OutCap++
			}
		case "storage":
			if r.Bool() {
				p.Ent.Cap += p.Ent.Unit
			} else {
				p.Ent.Unit *= 2
			}
		case "pagetable":
			p.Ent.Log2 += 1
		case "engine":
			p.Engine.Handlers = nil
		case "idgen":
		}
	default:
		p.Label = "junk"
		pay = junkPayloads[r.Intn(len(junkPayloads))]
	}
	p.Payload = pay
	return p
}

// ----------------------------------------------------------------------- gen

func gen(r *hx.Rand, tier string) []json.RawMessage {
	nCanon, nMut, nTamper, nProbe := 24, 2, 2, 300
	if tier == "thorough" {
		nCanon, nMut, nTamper, nProbe = 200, 12, 10, 3500
	}
	var out []json.RawMessage
	addSim := func(s simInput) { out = append(out, hx.J(input{Sim: &s})) }
	addProbe := func(p probeInput) { out = append(out, hx.J(input{Probe: &p})) }

	for i := 0; i < nCanon; i++ {
		addSim(genCanonical(r, 2+i%6))
	}
	for k := 0; k < nMut; k++ {
		for _, m := range mutationKinds {
			addSim(genMutation(r, m))
		}
	}
	for k := 0; k < nTamper; k++ {
		for _, t := range tamperKinds {
			addSim(genTamper(r, t))
		}
	}
	for _, p := range directedProbes(r) {
		addProbe(p)
	}
	for i := 0; i < nProbe; i++ {
		addProbe(genProbe(r))
	}
	return out
}

var _ = timing.GHz
