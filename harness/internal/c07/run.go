package c07

import (
	"bytes"
	"encoding/json"
	"fmt"
	"net/url"
	"os"
	"path/filepath"
	"runtime"
	"strings"

	"github.com/sarchlab/akita/v5/mem"
	"github.com/sarchlab/akita/v5/timing"

	"verifharness/internal/hx"
)

const scratchDir = "/tmp/a-json-c07/run"

func unescapeEntity(path string) (string, bool) {
	if !strings.HasPrefix(path, "entities/") {
		return "", false
	}
	n, err := url.PathUnescape(strings.TrimPrefix(path, "entities/"))
	if err != nil {
		return "", false
	}
	return n, true
}

type obs struct {
	Load     string   `json:"load"`               // ok | panic | <err constructor>
	Err      string   `json:"err,omitempty"`      // the Go error / panic text
	Entries1 []string `json:"entries1,omitempty"` // tar entry names of the first archive
	BytesEq  bool     `json:"bytes_eq"`
	Save2    string   `json:"save2,omitempty"`
	Blowup   bool     `json:"blowup,omitempty"`
	AllocKB  uint64   `json:"alloc_kb,omitempty"`
}

func coqObs(o string) string {
	switch o {
	case "ok":
		return "OOk"
	case "panic":
		return "OPanic"
	default:
		return hx.App("OErr", o)
	}
}

var fileSeq int

func tmpFile(tag string) string {
	if err := os.MkdirAll(scratchDir, 0o755); err != nil {
		panic(err)
	}
	fileSeq++
	return filepath.Join(scratchDir, fmt.Sprintf("%d-%d-%s.tar.gz", os.Getpid(), fileSeq, tag))
}

// saveArchive runs Simulation.SaveCheckpoint into a scratch file and returns
// the bytes.
func saveArchive(b *builtSim, buildID, tag string) ([]byte, error) {
	path := tmpFile(tag)
	defer os.Remove(path)
	var err error
	if p, msg := hx.Try(func() { err = b.sim.SaveCheckpoint(path, buildID) }); p {
		return nil, fmt.Errorf("panic: %s", msg)
	}
	if err != nil {
		return nil, err
	}
	return os.ReadFile(path)
}

func runSim(in *simInput) (hx.Case, error) {
	c := hx.Case{}
	o := obs{}
	tamper := hx.None()
	oa1 := hx.None()
	h1 := hx.L(nil)
	h2 := hx.None()
	savedCoq := hx.L(nil)
	var archive []byte
	var ents1 []tarEnt

	if in.Archive == nil {
		saved := buildSim(&in.Saved)
		savedCoq = saved.coq()
		a1, err := saveArchive(saved, in.BuildSave, "a1")
		if err != nil {
			saved.close()
			return c, fmt.Errorf("first SaveCheckpoint failed: %v", err)
		}
		ents1 = readTarGz(a1)
		for _, e := range ents1 {
			o.Entries1 = append(o.Entries1, e.Name)
		}
		oa1 = hx.Some(coqEntries(ents1, saved.kindOf))
		h1 = coqHashes(ents1)
		archive = a1
		saved.close()
	} else {
		archive = in.Archive
	}

	reb := buildSim(&in.Rebuilt)
	defer reb.close()
	if in.Archive != nil {
		tamper = hx.Some(coqEntries(readTarGz(archive), reb.kindOf))
	}

	path := tmpFile("load")
	if err := os.WriteFile(path, archive, 0o600); err != nil {
		return c, err
	}
	defer os.Remove(path)
	var lerr error
	panicked, pmsg := hx.Try(func() { lerr = reb.sim.LoadCheckpoint(path, in.BuildLoad) })
	switch {
	case panicked:
		o.Load, o.Err = "panic", pmsg
	case lerr != nil:
		o.Load, o.Err = classify(lerr, reb.kindOf), lerr.Error()
	default:
		o.Load = "ok"
		a2, err := saveArchive(reb, in.BuildLoad, "a2")
		if err != nil {
			o.Save2 = err.Error()
		} else {
			o.BytesEq = in.Archive == nil && bytes.Equal(a2, archive)
			h2 = hx.Some(coqHashes(readTarGz(a2)))
		}
	}

	c.Obs = o
	c.Coq = hx.App("CSim", coqConfig(), hx.Str(in.BuildSave), hx.Str(in.BuildLoad),
		savedCoq, reb.coq(), tamper, oa1, h1, coqObs(o.Load), h2, hx.B(o.BytesEq))
	return c, nil
}

// buildProbe constructs the stand-alone rebuilt entity of a probe.
func buildProbe(in *probeInput) built {
	engine := timing.NewSerialEngine()
	st := engineSetup(engine, &in.Engine)
	switch in.Kind {
	case "engine":
		var ents []built
		for i := range in.Engine.Ents {
			ents = append(ents, buildEntity(&in.Engine.Ents[i], engine, st, nil))
		}
		return built{name: "Engine", kind: "engine", obj: engine, coq: st.coq()}
	case "idgen":
		timing.SetIDGeneratorNextID(in.Engine.NextID)
		return built{name: "IDGenerator", kind: "idgen",
			obj: timing.GetIDGenerator().(checkpointable), coq: hx.App("EIdGen", hx.N(in.Engine.NextID))}
	default:
		return buildEntity(&in.Ent, engine, st, nil)
	}
}

func runProbe(in *probeInput) (hx.Case, error) {
	c := hx.Case{}
	b := buildProbe(in)
	o := obs{}
	var lerr error
	var m0, m1 runtime.MemStats
	measure := in.Kind == "storage"
	if measure {
		runtime.ReadMemStats(&m0)
	}
	panicked, pmsg := hx.Try(func() { lerr = b.obj.LoadCheckpoint(bytes.NewReader(in.Payload)) })
	if measure {
		runtime.ReadMemStats(&m1)
		delta := m1.TotalAlloc - m0.TotalAlloc
		o.AllocKB = delta >> 10
		// a loader may allocate in proportion to the payload it is given (plus
		// one unit buffer per record), never orders of magnitude more
		o.Blowup = delta > 1<<20+64*uint64(len(in.Payload))+4*in.Ent.Unit
	}
	switch {
	case panicked:
		o.Load, o.Err = "panic", pmsg
	case lerr != nil:
		o.Load, o.Err = classifyEntity(lerr.Error(), in.Kind), lerr.Error()
	default:
		o.Load = "ok"
	}
	c.Obs = o
	c.Coq = hx.App("CProbe", coqConfig(), b.coq, payloadView(in.Kind, in.Payload),
		coqObs(o.Load), hx.B(o.Blowup))
	return c, nil
}

func run(raw json.RawMessage) (hx.Case, error) {
	var in input
	if err := hx.UJ(raw, &in); err != nil {
		return hx.Case{}, err
	}
	var c hx.Case
	var err error
	var rerr error
	panicked, msg := hx.Try(func() {
		switch {
		case in.Sim != nil:
			c, rerr = runSim(in.Sim)
		case in.Probe != nil:
			c, rerr = runProbe(in.Probe)
		default:
			rerr = fmt.Errorf("empty input")
		}
	})
	if panicked {
		return c, fmt.Errorf("harness panic (invalid scenario?): %s", msg)
	}
	if rerr != nil {
		return c, rerr
	}
	err = tagCase(&in, &c)
	return c, err
}

// tagCase fills the histogram tags and the non-triviality flag from the input.
func tagCase(in *input, c *hx.Case) error {
	o := c.Obs.(obs)
	res := "result:" + o.Load
	if o.Load != "ok" && o.Load != "panic" {
		res = "result:error"
		c.Tags = append(c.Tags, "err:"+o.Load)
	}
	c.Tags = append(c.Tags, res)
	switch {
	case in.Sim != nil:
		s := in.Sim
		fam := "sim:" + s.Label
		c.Tags = append(c.Tags, fam)
		for _, e := range s.Rebuilt.Ents {
			c.Tags = append(c.Tags, "ent:"+e.Kind)
		}
		c.Nontrivial = len(s.Rebuilt.Ents) >= 2 || s.Archive != nil
	case in.Probe != nil:
		c.Tags = append(c.Tags, "probe:"+in.Probe.Kind, "probe-label:"+in.Probe.Label)
		c.Nontrivial = !strings.HasSuffix(c.Coq, "PMalformed") && in.Probe.Label != "valid"
		c.Nontrivial = c.Nontrivial || o.Load == "ok"
	}
	return nil
}

var _ = mem.KB
