package c07

import (
	"crypto/sha256"
	"encoding/binary"
	"encoding/hex"
	"encoding/json"
	"fmt"
	"io"
	"math"
	"reflect"
	"sort"

	"github.com/sarchlab/akita/v5/hooking"
	"github.com/sarchlab/akita/v5/mem"
	"github.com/sarchlab/akita/v5/mem/vm"
	"github.com/sarchlab/akita/v5/messaging"
	"github.com/sarchlab/akita/v5/modeling"
	"github.com/sarchlab/akita/v5/simulation"
	"github.com/sarchlab/akita/v5/timing"

	"verifharness/internal/hx"
)

// checkpointable is the structural contract of simulation.Checkpointable.
type checkpointable interface {
	SaveCheckpoint(w io.Writer) error
	LoadCheckpoint(r io.Reader) error
}

// fp is the 64-bit fingerprint used for opaque blobs in the model.
func fp(b []byte) uint64 {
	h := sha256.Sum256(b)
	return binary.BigEndian.Uint64(h[:8])
}

func mustJSON(v any) []byte {
	b, err := json.Marshal(v)
	if err != nil {
		panic(err)
	}
	return b
}

// tagOf mirrors internal/codec.tagOf (the wire tag of a concrete type).
func tagOf(v any) string {
	t := reflect.TypeOf(v)
	if t.Kind() == reflect.Ptr {
		return "*" + t.Elem().PkgPath() + "." + t.Elem().Name()
	}
	return t.PkgPath() + "." + t.Name()
}

var (
	tagMsgA  = tagOf(msgA{})
	tagMsgB  = tagOf(msgB{})
	tagMsgU  = tagOf(msgU{})
	tagBase  = tagOf(timing.EventBase{})
	tagEvH   = tagOf(evH{})
	tagEvU   = tagOf(evU{})
	tagTick  = tagOf(modeling.TickEvent{})
	tagTimer = tagOf(modeling.TimerFiredEvent{})
)

// registered decoder types, as the harness registered them (types.go init)
// plus the ones the library registers itself.
var msgTypes = map[string]reflect.Type{
	tagMsgA: reflect.TypeOf(msgA{}),
	tagMsgB: reflect.TypeOf(msgB{}),
}

var evtTypes = map[string]reflect.Type{
	tagBase:  reflect.TypeOf(timing.EventBase{}),
	tagEvH:   reflect.TypeOf(evH{}),
	tagTick:  reflect.TypeOf(modeling.TickEvent{}),
	tagTimer: reflect.TypeOf(modeling.TimerFiredEvent{}),
}

func sortedKeys(m map[string]reflect.Type) []string {
	ks := make([]string, 0, len(m))
	for k := range m {
		ks = append(ks, k)
	}
	sort.Strings(ks)
	return ks
}

// coqConfig prints the registries as the model's [config].
func coqConfig() string {
	var ms, es []string
	for _, k := range sortedKeys(msgTypes) {
		ms = append(ms, hx.Str(k))
	}
	for _, k := range sortedKeys(evtTypes) {
		es = append(es, hx.Str(k))
	}
	return hx.App("mk_config", hx.L(ms), hx.L(es))
}

// ------------------------------------------------------------- real objects

type nopHandler struct{}

func (nopHandler) Handle(timing.Event) error { return nil }

type nopProcessor struct{}

func (nopProcessor) Process(
	*modeling.EventDrivenComponent[cSpec, cState, modeling.None], timing.VTimeInPicoSec,
) bool {
	return false
}

type fakeConn struct {
	hooking.HookableBase
}

func (*fakeConn) Name() string                   { return "FakeConn" }
func (*fakeConn) PlugIn(messaging.Port)          {}
func (*fakeConn) Unplug(messaging.Port)          {}
func (*fakeConn) NotifyAvailable(messaging.Port) {}
func (*fakeConn) NotifySend()                    {}

func makeMsg(portName string, m msgSpec, outgoing bool) messaging.Msg {
	meta := messaging.MsgMeta{ID: m.ID, TrafficBytes: m.Val & 7}
	if outgoing {
		meta.Src = messaging.RemotePort(portName)
		meta.Dst = messaging.RemotePort(m.Dst)
		if m.Dst == "" || m.Dst == portName {
			meta.Dst = messaging.RemotePort(portName + "!peer")
		}
	} else {
		meta.Dst = messaging.RemotePort(portName)
		meta.Src = messaging.RemotePort(m.Dst)
	}
	switch m.Type {
	case "b":
		return msgB{MsgMeta: meta, Note: fmt.Sprintf("n%d", m.Val)}
	case "u":
		return msgU{MsgMeta: meta, Val: m.Val}
	default:
		return msgA{MsgMeta: meta, Val: m.Val}
	}
}

func makeEvent(e evSpec) timing.Event {
	base := timing.EventBase{ID: e.ID, Time_: timing.VTimeInPicoSec(e.Time),
		HandlerID_: e.Handler, Secondary: e.Sec}
	switch e.Type {
	case "h":
		return evH{EventBase: base, Val: e.Val}
	case "u":
		return evU{EventBase: base, Val: e.Val}
	default:
		return base
	}
}

const compFreq = 1 * timing.GHz

// built is a constructed entity together with the model's view of its state.
type built struct {
	name string
	kind string
	obj  checkpointable
	coq  string // entity term of the model
}

// mEvent is the model's record of one queued event.
type mEvent struct {
	time    uint64
	sec     bool
	handler string
	tag     string
	body    uint64
}

func (e mEvent) coq() string {
	return hx.App("mk_ev", hx.N(e.time), hx.B(e.sec), hx.Str(e.handler), hx.Str(e.tag), hx.N(e.body))
}

// engineState is the model's view of the engine while an assembly is applied.
type engineState struct {
	time     uint64
	q1, q2   []mEvent
	handlers []string
}

func (s *engineState) coq() string {
	a := make([]string, len(s.q1))
	for i, e := range s.q1 {
		a[i] = e.coq()
	}
	b := make([]string, len(s.q2))
	for i, e := range s.q2 {
		b[i] = e.coq()
	}
	hs := make([]string, len(s.handlers))
	for i, h := range s.handlers {
		hs[i] = hx.Str(h)
	}
	return hx.App("EEngine", hx.N(s.time), hx.L(a), hx.L(b), hx.L(hs))
}

func (s *engineState) schedule(ev timing.Event) {
	m := mEvent{time: uint64(ev.Time()), sec: ev.IsSecondary(), handler: ev.HandlerID(),
		tag: tagOf(ev), body: fp(mustJSON(ev))}
	if m.sec {
		s.q2 = append(s.q2, m)
	} else {
		s.q1 = append(s.q1, m)
	}
}

// runUntil mirrors SerialEngine.RunUntil with handlers that do nothing: every
// queued event with time <= t is handled; the clock is the latest handled time.
func (s *engineState) runUntil(t uint64) {
	keep := func(q []mEvent) []mEvent {
		var out []mEvent
		for _, e := range q {
			if e.time <= t {
				if e.time > s.time {
					s.time = e.time
				}
				continue
			}
			out = append(out, e)
		}
		return out
	}
	s.q1 = keep(s.q1)
	s.q2 = keep(s.q2)
}

// engineSetup applies the engine part of an assembly (handlers, time, raw
// events, RunUntil) to a real engine and to the model state.
func engineSetup(engine *timing.SerialEngine, a *assembly) *engineState {
	st := &engineState{time: a.Time}
	for _, h := range a.Handlers {
		engine.RegisterHandler(h, nopHandler{})
		st.handlers = append(st.handlers, h)
	}
	engine.SetCurrentTime(timing.VTimeInPicoSec(a.Time))
	for _, e := range a.Events {
		ev := makeEvent(e)
		engine.Schedule(ev)
		st.schedule(ev)
	}
	if a.RunUntil != nil {
		if err := engine.RunUntil(timing.VTimeInPicoSec(*a.RunUntil)); err != nil {
			panic(err)
		}
		st.runUntil(*a.RunUntil)
	}
	return st
}

func specHashOf(e *entSpec) string {
	sum := sha256.Sum256(mustJSON(cSpec{A: e.SpecA, B: e.SpecB}))
	return hex.EncodeToString(sum[:])
}

// buildEntity constructs the real entity described by e (registering it with
// reg / sim when given), applies its state operations and returns it with the
// model term of the resulting state.
func buildEntity(
	e *entSpec, engine *timing.SerialEngine, st *engineState, sim *simulation.Simulation,
) built {
	b := built{name: e.Name, kind: e.Kind}
	switch e.Kind {
	case "comp":
		c := modeling.NewBuilder[cSpec, cState, modeling.None]().
			WithEngine(engine).WithFreq(compFreq).
			WithSpec(cSpec{A: e.SpecA, B: e.SpecB}).Build(e.Name)
		st.handlers = append(st.handlers, e.Name)
		if sim != nil {
			sim.RegisterComponent(c)
		}
		c.State = cState{X: e.StateX, Y: e.StateY}
		has, next := false, uint64(0)
		if e.Tick {
			timing.SetIDGeneratorNextID(e.TickID)
			c.TickLater()
			has = true
			next = uint64(compFreq.NextTick(engine.CurrentTime()))
			tick := modeling.TickEvent{EventBase: timing.EventBase{
				ID: e.TickID + 1, Time_: timing.VTimeInPicoSec(next), HandlerID_: e.Name}}
			st.schedule(tick)
		}
		b.obj = c
		b.coq = hx.App("EComp", hx.Str(specHashOf(e)), hx.N(fp(mustJSON(c.State))), hx.B(has), hx.N(next), "false", "0")
	case "evcomp":
		c := modeling.NewEventDrivenBuilder[cSpec, cState, modeling.None]().
			WithEngine(engine).WithSpec(cSpec{A: e.SpecA, B: e.SpecB}).
			WithProcessor(nopProcessor{}).Build(e.Name)
		st.handlers = append(st.handlers, e.Name)
		if sim != nil {
			sim.RegisterComponent(c)
		}
		c.State = cState{X: e.StateX, Y: e.StateY}
		pending := uint64(math.MaxUint64)
		if e.Wake != nil {
			timing.SetIDGeneratorNextID(e.TickID)
			c.ScheduleWakeAt(timing.VTimeInPicoSec(*e.Wake))
			pending = *e.Wake
			ev := modeling.TimerFiredEvent{EventBase: timing.EventBase{
				ID: e.TickID + 1, Time_: timing.VTimeInPicoSec(*e.Wake), HandlerID_: e.Name}}
			st.schedule(ev)
		}
		b.obj = c
		b.coq = hx.App("EEvComp", hx.Str(specHashOf(e)), hx.N(fp(mustJSON(c.State))), hx.N(pending))
	case "port":
		p := messaging.NewPort(nil, e.InCap, e.OutCap, e.Name)
		if sim != nil {
			sim.RegisterPort(p)
		}
		p.SetConnection(&fakeConn{})
		var in, out []string
		for _, m := range e.In {
			msg := makeMsg(e.Name, m, false)
			p.Deliver(msg)
			in = append(in, hx.App("mk_msg", hx.Str(tagOf(msg)), hx.N(fp(mustJSON(msg)))))
		}
		for _, m := range e.Out {
			msg := makeMsg(e.Name, m, true)
			p.Send(msg)
			out = append(out, hx.App("mk_msg", hx.Str(tagOf(msg)), hx.N(fp(mustJSON(msg)))))
		}
		b.obj = p.(checkpointable)
		b.coq = hx.App("EPort", hx.Z(int64(e.InCap)), hx.L(in), hx.Z(int64(e.OutCap)), hx.L(out))
	case "storage":
		sb := mem.MakeStorageBuilder().WithCapacity(e.Cap).WithUnitSize(e.Unit)
		if sim != nil {
			sb = sb.WithSimulation(sim)
		}
		s := sb.Build(e.Name)
		units := map[uint64][]byte{}
		var order []uint64
		for _, w := range e.Writes {
			if w.Read {
				if _, err := s.Read(w.Addr, uint64(len(w.Data))); err != nil {
					panic(fmt.Sprintf("storage read: %v", err))
				}
			} else if err := s.Write(w.Addr, w.Data); err != nil {
				panic(fmt.Sprintf("storage write: %v", err))
			}
			for i, by := range w.Data {
				a := w.Addr + uint64(i)
				base := a / e.Unit * e.Unit
				if _, ok := units[base]; !ok {
					// touched for the first time (by a read or a write): allocated, all zeros
					units[base] = make([]byte, e.Unit)
					order = append(order, base)
				}
				if !w.Read {
					units[base][a-base] = by
				}
			}
		}
		us := make([]string, len(order))
		for i, base := range order {
			us[i] = hx.T(hx.N(base), hx.N(fp(units[base])))
		}
		b.obj = s
		b.coq = hx.App("EStorage", hx.N(e.Cap), hx.N(e.Unit), hx.L(us))
	case "pagetable":
		pb := vm.MakePageTableBuilder().WithLog2PageSize(e.Log2)
		if sim != nil {
			pb = pb.WithSimulation(sim)
		}
		pt := pb.Build(e.Name)
		tables := map[uint32][]string{}
		var order []uint32
		for _, pg := range e.Pages {
			page := vm.Page{PID: vm.PID(pg.PID), VAddr: pg.VAddr, PAddr: pg.PAddr,
				PageSize: 1 << (e.Log2 & 31), Valid: pg.Valid}
			pt.Insert(page)
			if _, ok := tables[pg.PID]; !ok {
				order = append(order, pg.PID)
			}
			tables[pg.PID] = append(tables[pg.PID], hx.N(fp(mustJSON(page))))
		}
		ts := make([]string, len(order))
		for i, pid := range order {
			ts[i] = hx.T(hx.N(uint64(pid)), hx.L(tables[pid]))
		}
		b.obj = pt.(checkpointable)
		b.coq = hx.App("EPageTable", hx.N(e.Log2), hx.L(ts))
	default:
		panic("c07: unknown entity kind " + e.Kind)
	}
	return b
}

// builtSim is a real simulation with the model's view of every entity, in
// registration order (Engine and IDGenerator first, as the Builder registers them).
type builtSim struct {
	sim    *simulation.Simulation
	engine *timing.SerialEngine
	ents   []built
}

func (b *builtSim) close() {
	hx.Try(func() { b.sim.Terminate() })
}

func (b *builtSim) coq() string {
	xs := make([]string, len(b.ents))
	for i, e := range b.ents {
		xs[i] = hx.T(hx.Str(e.name), e.coq)
	}
	return hx.L(xs)
}

func (b *builtSim) kindOf(name string) string {
	for _, e := range b.ents {
		if e.name == name {
			return e.kind
		}
	}
	return ""
}

// buildSim constructs the simulation described by a.
func buildSim(a *assembly) *builtSim {
	// An in-memory data recorder: the recorder is irrelevant to checkpoints and a
	// file-backed SQLite database per simulation dominates the run time.
	sim := simulation.MakeBuilder().WithoutMonitoring().
		WithOutputFileName("file::memory:?x=").Build()
	engine := sim.GetEngine().(*timing.SerialEngine)
	bs := &builtSim{sim: sim, engine: engine}
	st := engineSetup(engine, a)
	var ents []built
	for i := range a.Ents {
		ents = append(ents, buildEntity(&a.Ents[i], engine, st, sim))
	}
	timing.SetIDGeneratorNextID(a.NextID)
	bs.ents = append(bs.ents,
		built{name: "Engine", kind: "engine", obj: engine, coq: st.coq()},
		built{name: "IDGenerator", kind: "idgen",
			obj: timing.GetIDGenerator().(checkpointable), coq: hx.App("EIdGen", hx.N(a.NextID))})
	bs.ents = append(bs.ents, ents...)
	return bs
}
