// Package c35 drives the real data recorder (SQLite file on disk), reads the
// database back with the datareader, and prints the contents for the Coq model.
package c35

import (
	"context"
	"encoding/json"
	"fmt"
	"math"
	"os"
	"path/filepath"
	"strings"
	"sync"

	"github.com/sarchlab/akita/v5/datarecording"

	"verifharness/internal/hx"
)

// The table shapes (Go struct types are static, so the generator picks among these).
// Every type starts with a unique sequence number Seq (plain int64).
type tA struct {
	Seq int64
	S   string
	U   uint64
	F   float64
	B   bool
	L   string `akita_data:"location"`
	X   int    `akita_data:"ignore"`
}

type tB struct {
	Seq  int64  `akita_data:"unique"`
	Name string `akita_data:"index"`
	W1   string `akita_data:"location"`
	Skip string `akita_data:"ignore"`
	W2   string `akita_data:"location"`
	U8   uint8
	I32  int32
	F32  float32
}

type tC struct {
	Seq int64
	S   string
	N   int
}

type tD struct {
	Seq int64
	C   complex128
}

type tE struct {
	Seq int64
	I8  int8
	I16 int16
	U16 uint16
	U32 uint32
	UI  uint
	I   int
	L   string `akita_data:"location"`
}

type locRow struct {
	ID     int
	Locale string
}

// Vals is the generic value pool an entry is built from.
type Vals struct {
	I []int64  `json:"i,omitempty"`
	U []uint64 `json:"u,omitempty"`
	S []string `json:"s,omitempty"`
	F []uint64 `json:"f,omitempty"` // float64 bits
	B []bool   `json:"b,omitempty"`
}

type opIn struct {
	Op    string `json:"op"` // ins | flush
	Table int    `json:"t"`
	V     Vals   `json:"v"`
}

type input struct {
	Tables []string `json:"tables"` // type letter per table: "A".."E"; table i is named tab<i>
	Batch  int      `json:"batch"`
	Ops    []opIn   `json:"ops"`
	Conc   int      `json:"conc"` // >1: the inserts are issued by this many goroutines (round-robin split)
}

type cell struct {
	Kind string `json:"k"` // i u b f s loc
	I    int64  `json:"i,omitempty"`
	U    uint64 `json:"u,omitempty"`
	B    bool   `json:"b,omitempty"`
	S    []byte `json:"s,omitempty"`
}

type obs struct {
	Panic string              `json:"panic,omitempty"`
	Tabs  map[string][][]cell `json:"tabs"`
	Locs  []locRow            `json:"locs"`
}

func gi(v Vals, k int) int64 {
	if k < len(v.I) {
		return v.I[k]
	}
	return 0
}
func gu(v Vals, k int) uint64 {
	if k < len(v.U) {
		return v.U[k]
	}
	return 0
}
func gs(v Vals, k int) string {
	if k < len(v.S) {
		return v.S[k]
	}
	return ""
}
func gf(v Vals, k int) float64 {
	if k < len(v.F) {
		return math.Float64frombits(v.F[k])
	}
	return 0
}
func gb(v Vals, k int) bool {
	if k < len(v.B) {
		return v.B[k]
	}
	return false
}

func sample(t string) any {
	switch t {
	case "A":
		return tA{}
	case "B":
		return tB{}
	case "C":
		return tC{}
	case "D":
		return tD{}
	default:
		return tE{}
	}
}

func build(t string, v Vals) any {
	switch t {
	case "A":
		return tA{gi(v, 0), gs(v, 0), gu(v, 0), gf(v, 0), gb(v, 0), gs(v, 1), int(gi(v, 1))}
	case "B":
		return tB{gi(v, 0), gs(v, 0), gs(v, 1), gs(v, 3), gs(v, 2), uint8(gu(v, 0)), int32(gi(v, 1)), float32(gf(v, 0))}
	case "C":
		return tC{gi(v, 0), gs(v, 0), int(gi(v, 1))}
	case "D":
		return tD{gi(v, 0), complex(gf(v, 0), 1)}
	default:
		return tE{gi(v, 0), int8(gi(v, 1)), int16(gi(v, 2)), uint16(gu(v, 0)), uint32(gu(v, 1)), uint(gu(v, 2)), int(gi(v, 3)), gs(v, 0)}
	}
}

// fields returns (tag, cell) for every struct field of an entry, in order.
type fld struct {
	tag string // plain ignore loc
	c   cell
	cx  bool // complex
}

func ci(x int64) cell   { return cell{Kind: "i", I: x} }
func cu(x uint64) cell  { return cell{Kind: "u", U: x} }
func cs(x string) cell  { return cell{Kind: "s", S: []byte(x)} }
func cf(x float64) cell { return cell{Kind: "f", U: math.Float64bits(x)} }
func cb(x bool) cell    { return cell{Kind: "b", B: x} }

func fields(e any) []fld {
	switch x := e.(type) {
	case tA:
		return []fld{{"plain", ci(x.Seq), false}, {"plain", cs(x.S), false}, {"plain", cu(x.U), false}, {"plain", cf(x.F), false},
			{"plain", cb(x.B), false}, {"loc", cs(x.L), false}, {"ignore", ci(int64(x.X)), false}}
	case tB:
		return []fld{{"plain", ci(x.Seq), false}, {"plain", cs(x.Name), false}, {"loc", cs(x.W1), false}, {"ignore", cs(x.Skip), false},
			{"loc", cs(x.W2), false}, {"plain", cu(uint64(x.U8)), false}, {"plain", ci(int64(x.I32)), false}, {"plain", cf(float64(x.F32)), false}}
	case tC:
		return []fld{{"plain", ci(x.Seq), false}, {"plain", cs(x.S), false}, {"plain", ci(int64(x.N)), false}}
	case tD:
		return []fld{{"plain", ci(x.Seq), false}, {"plain", cell{}, true}}
	case tE:
		return []fld{{"plain", ci(x.Seq), false}, {"plain", ci(int64(x.I8)), false}, {"plain", ci(int64(x.I16)), false},
			{"plain", cu(uint64(x.U16)), false}, {"plain", cu(uint64(x.U32)), false}, {"plain", cu(uint64(x.UI)), false},
			{"plain", ci(int64(x.I)), false}, {"loc", cs(x.L), false}}
	}
	return nil
}

func tname(i int) string { return fmt.Sprintf("tab%d", i) }

func execute(in input, dir string) obs {
	path := filepath.Join(dir, "rec")
	o := obs{Tabs: map[string][][]cell{}}
	var rec datarecording.DataRecorder
	panicked, msg := hx.Try(func() {
		rec = datarecording.NewDataRecorder(path)
		datarecording.SetBatchSizeForVerif(rec, in.Batch)
		for i, t := range in.Tables {
			rec.CreateTable(tname(i), sample(t))
		}
		if in.Conc <= 1 {
			for _, op := range in.Ops {
				if op.Op == "flush" {
					rec.Flush()
				} else {
					rec.InsertData(tname(op.Table), build(in.Tables[op.Table], op.V))
				}
			}
		} else {
			var wg sync.WaitGroup
			var pmu sync.Mutex
			pmsg := ""
			start := make(chan struct{})
			for g := 0; g < in.Conc; g++ {
				wg.Add(1)
				go func(g int) {
					defer wg.Done()
					defer func() {
						if r := recover(); r != nil {
							pmu.Lock()
							pmsg = fmt.Sprint(r)
							pmu.Unlock()
						}
					}()
					<-start
					for k := g; k < len(in.Ops); k += in.Conc {
						op := in.Ops[k]
						if op.Op == "flush" {
							rec.Flush()
						} else {
							rec.InsertData(tname(op.Table), build(in.Tables[op.Table], op.V))
						}
					}
				}(g)
			}
			close(start)
			wg.Wait()
			if pmsg != "" {
				panic(pmsg)
			}
		}
		if err := rec.Close(); err != nil {
			panic(err)
		}
	})
	if panicked {
		o.Panic = msg
		if rec != nil {
			hx.Try(func() { rec.Close() })
		}
		return o
	}
	// read back
	p2, m2 := hx.Try(func() {
		rd := datarecording.NewReader(path + ".sqlite3")
		defer rd.Close()
		hasLoc := false
		for i, t := range in.Tables {
			rd.MapTable(tname(i), sample(t))
			if t == "A" || t == "B" || t == "E" {
				hasLoc = true
			}
		}
		for i := range in.Tables {
			res, _, err := rd.Query(context.Background(), tname(i), datarecording.QueryParams{})
			if err != nil {
				panic(err)
			}
			rows := [][]cell{}
			for _, r := range res {
				var row []cell
				var e any
				switch x := r.(type) {
				case *tA:
					e = *x
				case *tB:
					e = *x
				case *tC:
					e = *x
				case *tD:
					e = *x
				case *tE:
					e = *x
				}
				for _, f := range fields(e) {
					if f.tag == "ignore" {
						continue
					}
					c := f.c
					if f.tag == "loc" {
						c.Kind = "loc"
					}
					row = append(row, c)
				}
				rows = append(rows, row)
			}
			o.Tabs[tname(i)] = rows
		}
		if hasLoc {
			rd.MapTable("location", locRow{})
			res, _, err := rd.Query(context.Background(), "location", datarecording.QueryParams{})
			if err != nil {
				panic(err)
			}
			for _, r := range res {
				o.Locs = append(o.Locs, *(r.(*locRow)))
			}
		}
	})
	if p2 {
		o.Panic = "reader: " + m2
	}
	return o
}

func coqCell(c cell) string {
	switch c.Kind {
	case "i":
		return hx.App("PVal", hx.App("VInt", hx.Z(c.I)))
	case "u":
		return hx.App("PVal", hx.App("VUint", hx.N(c.U)))
	case "b":
		return hx.App("PVal", hx.App("VBool", hx.B(c.B)))
	case "f":
		return hx.App("PVal", hx.App("VFloat", hx.N(c.U)))
	case "s":
		return hx.App("PVal", hx.App("VStr", hx.Bytes(c.S)))
	default:
		return hx.App("PLoc", hx.Bytes(c.S))
	}
}

func coqVal(f fld) string {
	if f.cx {
		return "VComplex"
	}
	c := f.c
	switch c.Kind {
	case "i":
		return hx.App("VInt", hx.Z(c.I))
	case "u":
		return hx.App("VUint", hx.N(c.U))
	case "b":
		return hx.App("VBool", hx.B(c.B))
	case "f":
		return hx.App("VFloat", hx.N(c.U))
	default:
		return hx.App("VStr", hx.Bytes(c.S))
	}
}

func coqTag(t string) string {
	switch t {
	case "ignore":
		return "TIgnore"
	case "loc":
		return "TLoc"
	}
	return "TPlain"
}

func run(raw json.RawMessage) (hx.Case, error) {
	var in input
	if err := hx.UJ(raw, &in); err != nil {
		return hx.Case{}, err
	}
	dir, err := os.MkdirTemp("", "c35-")
	if err != nil {
		return hx.Case{}, err
	}
	defer os.RemoveAll(dir)
	o := execute(in, dir)

	shapes := make([]string, len(in.Tables))
	for i, t := range in.Tables {
		fs := fields(sample(t))
		ts := make([]string, len(fs))
		for k, f := range fs {
			ts[k] = coqTag(f.tag)
		}
		shapes[i] = hx.T(hx.N(uint64(i)), hx.L(ts))
	}
	known := ""
	nIns := 0
	ops := make([]string, 0, len(in.Ops)+1)
	for _, op := range in.Ops {
		if op.Op == "flush" {
			ops = append(ops, "(OFlush [])")
			continue
		}
		nIns++
		e := build(in.Tables[op.Table], op.V)
		fs := fields(e)
		es := make([]string, len(fs))
		for k, f := range fs {
			es[k] = hx.T(coqTag(f.tag), coqVal(f))
			if f.cx {
				known = "complex_field"
			} else if f.tag == "plain" && f.c.Kind == "u" && f.c.U >= 1<<63 && known == "" {
				known = "uint64_ge_2p63"
			}
		}
		ops = append(ops, hx.App("OInsert", hx.N(uint64(op.Table)), hx.L(es), "[]"))
	}
	ops = append(ops, "(OFlush [])") // Close
	tabs := make([]string, len(in.Tables))
	for i := range in.Tables {
		rows := o.Tabs[tname(i)]
		rs := make([]string, len(rows))
		for k, r := range rows {
			cs := make([]string, len(r))
			for j, c := range r {
				cs[j] = coqCell(c)
			}
			rs[k] = hx.L(cs)
		}
		tabs[i] = hx.T(hx.N(uint64(i)), hx.L(rs))
	}
	locs := make([]string, len(o.Locs))
	for i, l := range o.Locs {
		locs[i] = hx.T(hx.N(uint64(l.ID)), hx.Bytes([]byte(l.Locale)))
	}
	c := hx.Case{Obs: o}
	c.Coq = hx.App("mk_case", hx.L(shapes), hx.N(uint64(in.Batch)), hx.L(ops), hx.B(in.Conc > 1),
		hx.B(o.Panic != ""), hx.L(tabs), hx.L(locs))
	c.Known = known
	c.Tags = []string{fmt.Sprintf("tables:%d", len(in.Tables))}
	if in.Conc > 1 {
		c.Tags = append(c.Tags, "concurrent")
	} else {
		c.Tags = append(c.Tags, "sequential")
	}
	switch {
	case in.Batch <= 1:
		c.Tags = append(c.Tags, "batch:1")
	case in.Batch <= nIns:
		c.Tags = append(c.Tags, "batch:mid-stream")
	default:
		c.Tags = append(c.Tags, "batch:never-full")
	}
	if known != "" {
		c.Tags = append(c.Tags, "value:"+known)
	}
	c.Nontrivial = nIns >= 3 && in.Batch <= nIns
	return c, nil
}

var strPool = []string{"", "a", "GPU[0].CU[3].L1", "it's", `say "hi"`, "semi;colon -- drop", "naïve café", "日本語", "😀 emoji", "tab\there", "new\nline",
	"%s %d", "NULL", "0", "  spaces  ", "back\\slash", "'; DROP TABLE tab0; --"}

func genStr(r *hx.Rand) string {
	if r.Chance(3, 4) {
		return strPool[r.Intn(len(strPool))]
	}
	n := r.Intn(12)
	b := make([]rune, n)
	for i := range b {
		b[i] = rune(32 + r.Intn(95))
		if r.Chance(1, 8) {
			b[i] = rune(0x400 + r.Intn(200))
		}
	}
	return string(b)
}

func genInt(r *hx.Rand) int64 {
	switch r.Pick(4, 2, 2) {
	case 0:
		return int64(r.Intn(2000)) - 1000
	case 1:
		return []int64{math.MaxInt64, math.MinInt64, math.MaxInt64 - 1, math.MinInt64 + 1, math.MaxInt32, math.MinInt32, 0, -1}[r.Intn(8)]
	default:
		return int64(r.U64())
	}
}

func genUint(r *hx.Rand, big bool) uint64 {
	if big {
		return 1<<63 + r.U64n(1<<62)
	}
	switch r.Pick(4, 2, 2) {
	case 0:
		return r.U64n(5000)
	case 1:
		return []uint64{0, 1, 1<<63 - 1, 1<<62 + 7, math.MaxUint32, 255, 65535}[r.Intn(7)]
	default:
		return r.U64() >> 1
	}
}

func genFloat(r *hx.Rand) uint64 {
	switch r.Pick(4, 2, 1) {
	case 0:
		return math.Float64bits(float64(r.Intn(100000))/7 - 5000)
	case 1:
		return math.Float64bits([]float64{0, math.Copysign(0, -1), 1, -1, math.MaxFloat64, math.SmallestNonzeroFloat64, math.Inf(1), math.Inf(-1), 1e-300, 0.1}[r.Intn(10)])
	default:
		// float32-representable so that tB.F32 round-trips exactly
		return math.Float64bits(float64(math.Float32frombits(uint32(r.U64())&^0x7f800000 | 0x3f000000)))
	}
}

var locPool = []string{"", " ", strings.Repeat("GPU[0].SA[1].CU[2].", 40), "日本語/コア[0]", "naïve.café", "a", "GPU[0].CU[3].L1", "  "}

func genVals(r *hx.Rand, seq int64, bigU bool) Vals {
	v := Vals{I: []int64{seq, genInt(r), genInt(r), genInt(r)}, U: []uint64{genUint(r, bigU), genUint(r, false), genUint(r, false)},
		F: []uint64{genFloat(r)}, B: []bool{r.Bool()}}
	nloc := 1 + r.Intn(6)
	v.S = []string{genStr(r), fmt.Sprintf("loc%d%s", r.Intn(nloc), strPool[r.Intn(6)]), fmt.Sprintf("L%d", r.Intn(nloc)), genStr(r)}
	// edge locations: the empty string, a single space, a very long one, non-ASCII
	if r.Chance(1, 3) {
		v.S[1] = locPool[r.Intn(len(locPool))]
	}
	if r.Chance(1, 4) {
		v.S[2] = locPool[r.Intn(len(locPool))]
	}
	return v
}

func genCase(r *hx.Rand, nops int, letters string, conc int, bigU bool) input {
	nt := 1 + r.Intn(3)
	in := input{Conc: conc}
	for i := 0; i < nt; i++ {
		in.Tables = append(in.Tables, string(letters[r.Intn(len(letters))]))
	}
	switch r.Pick(2, 4, 1) {
	case 0:
		in.Batch = 1
	case 1:
		in.Batch = 2 + r.Intn(nops+1)
	default:
		in.Batch = 100000
	}
	bigAt := -1
	if bigU {
		bigAt = r.Intn(nops)
	}
	for k := 0; k < nops; k++ {
		if conc <= 1 && r.Chance(1, 7) {
			in.Ops = append(in.Ops, opIn{Op: "flush"})
			continue
		}
		t := r.Intn(nt)
		v := genVals(r, int64(k+1), false)
		if k == bigAt {
			v = genVals(r, int64(k+1), true)
			// make sure the table has a uint64 column
			in.Tables[t] = "A"
		}
		in.Ops = append(in.Ops, opIn{Op: "ins", Table: t, V: v})
	}
	return in
}

func gen(r *hx.Rand, tier string) []json.RawMessage {
	var out []json.RawMessage
	add := func(in input) { out = append(out, hx.J(in)) }
	nSeq, nConc := 60, 6
	if tier == "thorough" {
		nSeq, nConc = 450, 40
	}
	// directed: the confirmed value-domain defects
	add(input{Tables: []string{"A"}, Batch: 2, Ops: []opIn{{Op: "ins", V: Vals{I: []int64{1}, U: []uint64{1 << 63}, S: []string{"x", "l"}}}}})
	add(input{Tables: []string{"A"}, Batch: 100000, Ops: []opIn{{Op: "ins", V: Vals{I: []int64{1}, U: []uint64{math.MaxUint64}, S: []string{"x", "l"}}}}})
	add(input{Tables: []string{"D"}, Batch: 1, Ops: []opIn{{Op: "ins", V: Vals{I: []int64{1}}}}})
	add(input{Tables: []string{"C", "D"}, Batch: 3, Ops: []opIn{{Op: "ins", Table: 0, V: Vals{I: []int64{1, 2}, S: []string{"q"}}}, {Op: "ins", Table: 1, V: Vals{I: []int64{2}}}}})
	// directed: the EMPTY location string is the first location the recorder resolves (and edge locations after it)
	emptyFirst := func(t string, batch int) {
		var ops []opIn
		locs := []string{"", "", "x", "", " ", "x", locPool[2], "日本語/コア[0]", ""}
		for k, l := range locs {
			ops = append(ops, opIn{Op: "ins", V: Vals{I: []int64{int64(k + 1), 1, 2, 3}, U: []uint64{1, 2, 3}, S: []string{l, l, locs[(k+1)%len(locs)], "skip"}, F: []uint64{0}, B: []bool{true}}})
		}
		add(input{Tables: []string{t}, Batch: batch, Ops: ops})
	}
	emptyFirst("A", 100000)
	emptyFirst("B", 3)
	emptyFirst("E", 1)
	add(input{Tables: []string{"A"}, Batch: 100000, Ops: []opIn{{Op: "ins", V: Vals{I: []int64{1}, S: []string{"only", ""}}}}})
	// directed: boundary values that must survive
	add(input{Tables: []string{"A"}, Batch: 1, Ops: []opIn{{Op: "ins", V: Vals{I: []int64{1}, U: []uint64{1<<63 - 1}, S: []string{"'; DROP TABLE tab0; --", "naïve"}, F: []uint64{math.Float64bits(math.Inf(-1))}, B: []bool{true}}}}})
	add(input{Tables: []string{"E", "B"}, Batch: 2, Ops: []opIn{
		{Op: "ins", Table: 0, V: Vals{I: []int64{1, -128, -32768, math.MinInt64}, U: []uint64{65535, math.MaxUint32, 1<<63 - 1}, S: []string{"same"}}},
		{Op: "ins", Table: 1, V: Vals{I: []int64{2, math.MinInt32}, U: []uint64{255}, S: []string{"n", "same", "other", "ignored"}, F: []uint64{math.Float64bits(0.5)}}},
		{Op: "ins", Table: 0, V: Vals{I: []int64{3, 127, 32767, math.MaxInt64}, S: []string{"other"}}}}})
	add(input{Tables: []string{"C"}, Batch: 5, Ops: nil})
	for i := 0; i < nSeq; i++ {
		add(genCase(r, r.Range(1, 40), "ABCE", 1, false))
	}
	for i := 0; i < nSeq/12+1; i++ {
		add(genCase(r, r.Range(1, 12), "ABCE", 1, true))
	}
	for i := 0; i < nConc; i++ {
		add(genCase(r, r.Range(40, 120), "ABCE", []int{2, 4, 8}[r.Intn(3)], false))
	}
	return out
}

func shrink(raw json.RawMessage) []json.RawMessage {
	var in input
	if hx.UJ(raw, &in) != nil {
		return nil
	}
	var out []json.RawMessage
	n := len(in.Ops)
	for _, cut := range [][2]int{{0, n / 2}, {n / 2, n}, {0, n - 1}, {1, n}} {
		if cut[0] >= cut[1] || cut[1]-cut[0] >= n {
			continue
		}
		c := in
		c.Ops = append([]opIn{}, in.Ops[cut[0]:cut[1]]...)
		out = append(out, hx.J(c))
	}
	if in.Conc > 2 {
		c := in
		c.Conc = 2
		out = append(out, hx.J(c))
	}
	return out
}

func init() {
	hx.Register(&hx.Prop{
		ID:      "C35",
		Imports: "From Akita Require Import Lib.Base C35.Model C35.Exec.",
		Rule: "random recorder sessions on a real SQLite file: 1..3 tables drawn from 4 struct shapes (all integer widths, uint64, float32/64, " +
			"bool, strings, one or two location-tagged fields, ignored fields, unique/index tags), batch size 1 / mid-stream / never full " +
			"(verif-tagged setter), 1..40 inserts with explicit Flush calls interleaved, values incl. quotes, SQL fragments, unicode, location strings incl. the empty string (also as the FIRST location resolved), a single space, a 760-byte one and non-ASCII ones, " +
			"int64/uint64 extremes, infinities, -0; then Close and read back with the datareader (location ids resolved) plus the raw " +
			"location table. Concurrent sessions: 40..120 inserts split over 2/4/8 goroutines. Directed: uint64 >= 2^63, complex128 (known " +
			"findings). Non-trivial: >= 3 inserts and a batch size that triggers a mid-stream flush. Distinct = distinct input hash.",
		Gen: gen, Run: run, Shrink: shrink,
	})
}
