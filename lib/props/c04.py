"""C04 — parallel engine preserves time order and phase order."""
from props import P

P("C04",
  title="Parallel engine preserves time order and phase order",
  design_ref="DESIGN.md §3 C04",
  technique="Coq small-step interleaving semantics (Lib/Lts.v) of ParallelEngine: per-worker primary/secondary queues, queue channels "
            "(FIFO), determineWhatToRun mirrored exactly, emptyQueueChan, runEventsUntilConflict (one pop = one step, one goroutine per "
            "event), Schedule as receive-queue / push-and-return steps, WaitGroup barrier; one inductive invariant for every scheduler "
            "oracle; verified trace acceptor par_trace_ok; scripted programs on the real engine under -race with GOMAXPROCS in {1,2,4,16}",
  level_text="For every program (children scheduled at now+delay), every number of queues >= 1, every initial event list and EVERY "
             "interleaving: c04_exactly_once (scheduled = handled + live at all times; handled = scheduled when Run returns), "
             "c04_round_times_monotone, c04_no_overlap_across_times (the acceptor par_trace_ok accepts every model trace: an event starts "
             "only if no scheduled-and-unfinished event is earlier, and all executing handlers share its time and phase; the engine never "
             "panics), c04_secondary_round_clean (a secondary round at t is chosen, under the pause lock, only when nothing is executing and every queued primary "
             "is later than t, incl. primaries spawned by primaries at t or injected by a paused controller), c04_phase_guaranteed (acceptor phase_guaranteed_ok accepts every execution incl. an external Pause/Schedule-at-now/Continue controller: a live same-instant primary at a secondary start was scheduled by a secondary of that instant), c04_reordered_pause_refuted (determineWhatToRun before pauseLock.Lock loses it). Link to the tie's deterministic rounds function: c04_rounds_schedule_independent_partial (every round the engine chooses is the round `rounds` chooses on the pending multiset, `rounds` unfolds to that choice + next_pending, all multiset-invariant) and c04_queue_accounting / c04_queue_accounting_ctl (every queue is in its channel, in a handler's or the controller's Schedule call, or taken by the round); and, without a controller, the FULL statement c04_rounds_schedule_independent / c04_two_schedules_same_rounds: for every interleaving the (time, phase) sequence of the rounds, the members of every round (multiset) and the pending multiset at every boundary are those of the deterministic iteration, and equal `rounds` on the initial events when Run returns (snapshot + channel-discipline + child-conservation invariants). Built-in hypothesis: a handler's scheduled events are a function of the handled event alone (no state shared between handlers of one round) — for handlers that share state the engine gives no order inside a round, the root of known finding F-C04-1. c04_sibling_secondary_corner_refuted: witness interleaving of the "
             "literal phase clause — confirmed on the real engine (known finding).",
  level_note="partial: the Go scheduler, WaitGroup, channel, mutex and memory-model semantics are assumed (modelled steps atomic and "
             "sequentially consistent); real interleavings are sampled, not enumerated. Queue = time-ordered FIFO list (heap is C01's subject). "
             "The external controller only schedules while it holds the pause (documented protocol); Schedule calls from other goroutines during a round are not modelled.",
  assumptions=["Go memory model: channel send/receive, sync.Mutex, sync.RWMutex and WaitGroup operations are atomic and sequentially consistent at the modelled granularity",
               "EventQueueImpl behaves as a (time, seq)-ordered FIFO list",
               "event times stay below 2^64 - 1 (the value earliestTimeInQueueGroup uses for 'empty')",
               "the label log order is the order of the logging calls (one mutex-protected append); a handler 'starts' at its first statement"],
  trusted=["modelled, not verified: timing/parallelengine.go (Run, determineWhatToRun, earliestTimeInQueueGroup, runRound, emptyQueueChan, "
           "runEventsUntilConflict, tempWorkerRun, Schedule, hasMoreEvents), timing/eventqueue.go (EventQueueImpl as a sorted list)"],
  race=True, quick_shards=8,
  )
