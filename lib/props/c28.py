"""C28 — LRU sets behave as a recency-ordered key map."""
from props import P

P("C28",
  title="LRU sets behave as a recency-ordered key map",
  design_ref="DESIGN.md §3 C28",
  technique="Coq proof (invariant + simulation to a recency-list/key-map reference over arbitrary histories) + exact "
            "model/impl correspondence by vm_compute",
  level_text="under construction",
  level_note="under construction",
  quick_shards=8,
  assumptions=[],
  trusted=[],
  )
