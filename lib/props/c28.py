"""C28 — LRU sets behave as a recency-ordered key map."""
from props import P

P("C28",
  title="LRU sets behave as a recency-ordered key map",
  design_ref="DESIGN.md §3 C28",
  technique="Coq proof (representation invariant + simulation by a recency-list/binding-history reference model, by induction "
            "over arbitrary operation histories and any way count) + exact model/impl correspondence by vm_compute",
  level_text="Theorems c28_* prove about the Gallina model of lruset.go/lruset_json.go (NewSet, Lookup, UpdateKey, Remove, Evict, "
             "Visit with the sort.Search halving loop as written, MarshalJSON/UnmarshalJSON at the level of the decoded fields, "
             "KeyString): the representation invariant (visit list duplicate free, in range, strictly sorted by last visit; "
             "stamps <= counter; len(lastVisits) = wayCount) holds after NewSet n and is preserved by every operation, panicking "
             "Visits included (c28_invariant_init/_step, c28_visitlist_sorted); along EVERY history on NewSet n, any n, every result "
             "equals what the reference model (recency list, LRU first + binding history) prescribes and the states stay related "
             "(c28_refinement, c28_refinement_step); the binary search returns the first index whose stamp exceeds the target on a "
             "monotone predicate (c28_search_first_true), hence the end position; Evict returns the listed way with the earliest "
             "last visit (c28_evict_lru), and the stamps are the visit times read off the history (c28_stamp_is_last_visit_time), so "
             "Evict returns the least recently visited listed way in the literal sense (c28_evict_least_recently_visited); Visit makes a way last with all others stamped earlier (c28_visit_mru); Lookup returns "
             "the way of the most recent operation mentioning the key (c28_lookup_last_bound, independent backward scan of the "
             "history); the only panic is Visit outside [0,wayCount) and the search fuel never runs out "
             "(c28_panic_iff_way_out_of_range); the JSON round trip always preserves the recency state (c28_json_roundtrip_order) "
             "and is the identity (hence observationally equal on every later history) when keys are valid UTF-8 "
             "(c28_json_roundtrip_partial, c28_json_roundtrip_history), which holds for every KeyString key (c28_keystring_valid); "
             "the unrestricted round-trip statement is refuted (c28_json_roundtrip_refuted, known finding F-C28-1); KeyString is "
             "injective on 64-bit pairs (c28_keystring_injective). c28_model_agreement_implies_property links the two evaluators. "
             "The model is compared result by result (panics, null-vs-[] and map-entry order of every snapshot included) with the "
             "real Set on every run, the restored Set replacing the one under test after each round trip.",
  level_note="Trusted: Coq kernel + vm_compute; the Go harness that drives lruset.Set, recovers panics and decodes MarshalJSON output "
             "field by field; the hand-written model (tied by exact equality, including Sets restored from arbitrary snapshots where "
             "the binary search runs on unsorted lists, out-of-range entries and counters at 2^64-1). JSON text is modelled after "
             "decoding by encoding/json (field values, null vs empty, entry order, keys coerced to valid UTF-8), not byte by byte.",
  quick_shards=8,
  assumptions=["the uint64 visit counter does not wrap (fewer than 2^64 Visit calls); stated as no_wrap / count_visits bound, the "
               "model itself wraps (w64) and the wrap is tied through snapshots with visit_count near 2^64",
               "keys are valid UTF-8 for the statements that go through JSON (all KeyString keys are ASCII); without it the round "
               "trip loses bindings: known finding F-C28-1",
               "Go int way ids/way counts are unbounded Z in the model (no arithmetic is performed on them); NewSet with a count "
               "too large for memory is outside the model; copying a Set value shares its slices and map (aliasing not modelled)"],
  trusted=["modelled, not verified: mem/vm/lruset/lruset.go, lruset_json.go; encoding/json (sorted map keys, U+FFFD coercion, "
           "null vs []) and sort.Search are modelled from their documented behaviour and tied by the harness"],
  )
