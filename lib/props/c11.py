from props import P

P("C11",
  title="Ports are bounded FIFO channels with accurate capacity and notifications",
  design_ref="DESIGN.md §3 C11",
  technique="Coq proof (lockstep refinement of the port model to a two-list reference with exact expected callbacks; "
            "invariant preservation and trace laws by induction over call histories) + exact model/impl correspondence by vm_compute",
  level_text="Lib/Port.v models defaultPort as two Lib/Fifo.v buffers plus the ordered list of callbacks each call makes "
             "(conn.NotifySend, comp.NotifyRecv, comp.NotifyPortFree, conn.NotifyAvailable); panics are explicit outcomes, "
             "distinguishing panics that leave the port mutex held. For every history of the 11 port operations on ports of any "
             "capacities: c11_reachable_well_formed / c11_bounded (sizes never exceed capacity, configuration never changes), "
             "c11_fifo / c11_fifo_general (accepted deliveries = retrieved ++ stored, same for the outgoing side), c11_sizes "
             "(NumIncoming/NumOutgoing/CanSend/CanDeliver/Peek match the contents and are silent), c11_notify_iff (each of the four "
             "notifications is emitted if and only if the corresponding empty->non-empty / full->not-full edge occurred, never "
             "twice), c11_notify_history (callback log of a run = edges along its trajectory). "
             "c11_retrieve_incoming_old_refuted is the regression witness of the defect fixed in /repo (nil message at a full head). "
             "c11_model_agreement_implies_property links the exact tie to the reference acceptor used as holds_on.",
  level_note="Trusted: Coq kernel + vm_compute; the Go harness (real messaging.NewPort with a stub owner and a stub connection "
             "that log callbacks and check the port argument; panics recovered; a 60 ms probe decides whether a panic left the "
             "port mutex held); the hand-written model of port.go tied by exact per-call equality of return value and callback list.",
  assumptions=["a connection is plugged into the port (conn != nil); without one Send / RetrieveIncoming dereference nil",
               "port names are mapped injectively to numbers by the harness (the model only compares names)",
               "callbacks do not re-enter the port (the stubs only log); calls are sequential (the port mutex is not modelled beyond 'left locked by a panic')",
               "hooks (HookPosPortMsg*) and SaveCheckpoint/LoadCheckpoint are not part of this model (checkpointing is C07)"],
  quick_shards=8,
  trusted=["modelled, not verified: messaging/port.go (CanSend, Send, CanDeliver, Deliver, RetrieveIncoming, RetrieveOutgoing, "
           "PeekIncoming, PeekOutgoing, NumIncoming, NumOutgoing, NotifyAvailable, NewPort, msgMustBeValid) over queueing/buffer.go (C14 model)"],
  )
