"""C07 — checkpoint archives are canonical; mismatches are rejected, never panic."""
from props import P

P("C07",
  title="Checkpoint archives are canonical and mismatches are rejected",
  design_ref="DESIGN.md §3 C07",
  technique="Coq proof over an executable model of the archive writer/reader (incl. url.PathEscape/Unescape), "
            "Simulation.Save/LoadCheckpoint and the seven entity loaders at the level of decoded tar entries and payload views "
            "+ exact model/impl correspondence by vm_compute",
  level_text="c07_canonical: for EVERY simulation (any number/kind of entities, any registration order of the rebuilt one, distinct "
             "names) save -> load -> save writes the identical entry list (name-sorted, per-entity payloads equal), via "
             "c07_entity_canonical (all seven entity kinds, sorted storage units / page tables / event snapshots) and "
             "c07_read_write (read(write b es) = (b, sort es), PathUnescape(PathEscape n) = n). c07_no_panic: load_all never returns "
             "Panic for ANY archive, registries and rebuilt simulation (proved for the fixed loaders; "
             "c07_port_overflow_old_refuted is the pre-fix witness). One c07_mismatch_rejected_* theorem per kind: malformed "
             "archive (non-regular/unknown entry, missing/duplicate/empty build id, duplicate entity), build id, entity set "
             "(both directions), component spec, port capacities, overflow, storage capacity/unit, page size, unknown "
             "message/event type or handler, and the general c07_mismatch_rejected_entity lifting any per-entity mismatch to "
             "load_all = Err; c07_load_succeeds (a compatible rebuilt simulation loads) and c07_load_ok_no_mismatch (a successful load "
             "implies no listed mismatch). PARTIAL below the payload level: gzip/tar/JSON/binary byte decoding is Go's; 'never panics on "
             "arbitrary bytes' there is sampled (bit flips, truncation, garbage), not proved; the link theorem c07_model_agreement_implies_property_partial is complete for "
             "whole simulations with the archive as written and for single-entity probes, and gives only no-panic for damaged archives.",
  level_note="Trusted: Coq kernel + vm_compute; the hand-written model (C07/Model.v), tied on every run on ~700 cases: real "
             "simulation.Simulation assemblies (components, event-driven components, ports with buffered messages, storages, page "
             "tables, engine queue, ID generator) saved, rebuilt in a random order, loaded and saved again with archive BYTES "
             "compared; 16 kinds of single-point configuration mutations (exact error kind compared); 22 kinds of damaged "
             "archives; ~110 directed and random payload probes per loader. Payload bytes are mapped to the model's payload views "
             "by the harness (views.go) using the same DTO shapes as the loaders.",
  assumptions=["sha256 of the Spec JSON is treated as injective (spec hashes are compared as strings; two different "
               "specs with one hash would be accepted by the code and by the model alike)",
               "entity names are byte strings; Go maps (storage units, per-process page tables) have distinct keys; the rebuilt "
               "simulation has distinct entity names (registerEntity panics otherwise)",
               "opaque blobs (message/event bodies, component State, pages, storage unit bytes) are compared by a 64-bit "
               "fingerprint in the tie; their own round trip is property C08"],
  trusted=["Go standard library byte decoders, not modelled: compress/gzip, archive/tar, encoding/json, encoding/binary "
           "(a stream they reject is the model's KBroken / PMalformed input)",
           "modelled, not verified: simulation/archive.go, simulation/checkpoint.go, modeling/component_checkpoint.go, "
           "modeling/eventdriven_checkpoint.go, messaging/port_checkpoint.go, mem/storage_checkpoint.go, "
           "mem/vm/pagetable_checkpoint.go, timing/serialengine_checkpoint.go, timing/idgenerator_checkpoint.go, net/url path "
           "escaping"],
  quick_shards=8,
  )
