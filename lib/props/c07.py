"""C07 — checkpoint archives are canonical; mismatches are rejected, never panic."""
from props import P

P("C07",
  title="Checkpoint archives are canonical and mismatches are rejected",
  design_ref="DESIGN.md §3 C07",
  technique="Coq proof over an executable model of the archive writer/reader, Simulation.Save/LoadCheckpoint and the "
            "seven entity loaders at the level of decoded tar entries and payload views + exact model/impl "
            "correspondence by vm_compute",
  level_text="(stage a) model + exact tie; theorems follow.",
  level_note="partial below the payload level: the gzip/tar/JSON byte decoders are Go's.",
  assumptions=["sha256 of the Spec JSON is treated as injective (spec hashes are compared as strings; two different "
               "specs with one hash would be accepted by the code and by the model alike)"],
  trusted=["Go standard library byte decoders, not modelled: compress/gzip, archive/tar, encoding/json, encoding/binary"],
  quick_shards=8,
  )
