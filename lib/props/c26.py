"""C26 — page tables behave as a per-process map with deterministic lookups."""
from props import P

P("C26",
  title="Page tables behave as a per-process map with deterministic lookups",
  design_ref="DESIGN.md §3 C26",
  technique="Coq proof (invariant + refinement of the element-list/key-map structure to a finite map, for all operation "
            "histories and all map-iteration oracles) + exact model/impl correspondence by vm_compute",
  level_text="Theorems c26_* prove over every history of insert/remove/find/update/reverse-lookup/save/load/round-trip on any "
             "number of processes: the (element list, key map) structure of every process table stays consistent; results and "
             "state refine the map (pid, vaddr) -> page with the real panic outcomes; reverse lookup is sound and complete; every "
             "result is independent of the Go map iteration order (all permutation oracles) after the fix, while the pre-fix "
             "loop is refuted; a checkpoint round trip at any point leaves every later result unchanged. The model is compared "
             "result-for-result with vm.PageTable on every run (several fresh tables per history, and with round trips woven in).",
  level_note="c26_model_agreement_implies_property transfers the map refinement to every observed result list. "
             "Trusted: Coq kernel + vm_compute; the Go harness; the hand-written model of pagetable.go / pagetable_checkpoint.go "
             "(tied by exact equality of every operation result incl. saved DTOs).",
  assumptions=["Go map iteration order = an arbitrary permutation of the keys, chosen afresh for each range statement (oracle)",
               "a *list.Element pointer is modelled by a per-process-table fresh element id",
               "JSON encode/decode of the checkpoint DTO is the identity on (log2, [(pid, pages)]) (uint64/bool fields only); "
               "malformed JSON input is out of scope",
               "theorems about loaded checkpoints assume the DTO has the shape SaveCheckpoint writes (distinct pids, distinct "
               "vaddrs per process, pages carrying their process's pid); hand-made malformed DTOs are tied exactly but excluded from the map statement"],
  trusted=["modelled, not verified: mem/vm/pagetable.go (Insert/Remove/Find/Update/ReverseLookup/getTable/alignToPage, processTable.*), "
           "mem/vm/pagetable_checkpoint.go (Save/LoadCheckpoint); mutex locking is not modelled (single-threaded histories)"],
  )
