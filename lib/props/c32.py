"""C32 — traces are well-formed task trees."""
from props import P

P("C32",
  title="Traces are well-formed task trees",
  design_ref="DESIGN.md §3 C32, §13 (trace view)",
  technique="Coq proof of a trace acceptor (trace_wf <-> declarative WF) and of the tracing API's helper layer "
            "(registries, reset helpers: pairing theorem) + trace inclusion: traces recorded from random assemblies of "
            "real library components, with resets in the middle of traffic, are evaluated by the acceptor in Coq",
  level_text="Theorems: trace_wf_iff_WF (the executable acceptor decides the declarative well-formedness: unique starts, "
             "exactly one end at quiescence with end >= start, tags/milestones inside a started task's lifetime, one kind per "
             "location); c32_registry_pairing (receive/complete/reset helpers start and end each req_in once with one task ID "
             "and release the registry key). The API-layer model is compared event for event with the real tracing package; "
             "the component call sites are covered by trace inclusion on sampled assemblies only.",
  level_note="PARTIAL: the call sites in mem/ are not modelled; they are sampled by running real assemblies (requester agent, "
             "ROB, four cache kinds, ideal/banked/DRAM memory) with a recording tracer on every component and buffer tracing on "
             "every port and evaluating trace_wf on the recorded event list inside Coq (the Coq verdict is also compared with an "
             "independent Go implementation of the acceptor). Sampling found five defects: three were fixed in /repo (write-through "
             "cache, ROB, writeback req_out/evict), a writeback residual, DRAM and tracing-without-buffer-tracing are known findings; "
             "back-pressure variants (one-slot port buffers, a slow single-bank memory under a deep ROB, a memory module driven directly with one-slot Control buffers, back-to-back control verbs, a requester that retrieves acknowledgements late, and a requester that stops retrieving data responses for a window so that resets fall on a module blocked on a full Top port) and translation stacks [address translator] -> 0..2 TLBs -> [MMU cache] -> MMU/GMMU are sampled too (four more defects fixed: TLB and MMU cache control-path milestones, GMMU remote-walk req_in never closed, TLB Reset re-ending a finalized req_out). Trusted: Coq kernel + vm_compute; the Go harness (recorder; numbering of kind/location strings; task IDs of sampled traces renumbered 1,2,3.. in order of first appearance, which the acceptor cannot tell apart since it compares IDs only for equality); the "
             "shared memasm assembly builder.",
  assumptions=["quiescence of a control history means: the history ends with Enable+Reset of every module, top-down and then bottom-up, "
               "and the agent could issue all of it (a reset of one lower module alone legitimately strands the requests of the modules "
               "above it; mid-traffic resets therefore reset the top k modules)",
               "an End for an ID that was never started is not an error (EndTaskOnReset emits unconditionally; consumers ignore it)"],
  trusted=["modelled, not verified: tracing/api.go helpers, registry.go, incoming/outgoingbuffertracer.go hooks",
           "sampled, not modelled: tracing call sites under mem/ (partial)"],
  quick_shards=8,
  )
