from props import P

P("C22",
  title="DRAM issues commands in protocol-legal order and timing",
  design_ref="DESIGN.md §3 C22",
  technique="Coq proof over an exact model of the bank kernels (arbitrary scheduler oracle, arbitrary timing table) + exact tie + acceptor on real command streams",
  level_text="placeholder",
  level_note="placeholder",
  quick_shards=8,
  assumptions=[],
  trusted=[],
  )
