import json
import os
import re

from props import P


def translate(check):
    """Regenerate, from the REAL builder, the timing tables of every preset of presets.go into
    build/gen/C22/GenC22.v and let Coq evaluate the Spec-vs-table obligations on them."""
    import verif
    gen = os.path.join(verif.BUILD, "gen", "C22" + verif.ALT)
    os.makedirs(gen, exist_ok=True)
    rc, out, _ = verif.build_harness("C22")
    if rc != 0:
        return False, "harness does not build: " + out[-400:]
    inp = os.path.join(gen, "dump.json")
    json.dump({"case": {"dump": True, "spec": {"preset": "Default"}}}, open(inp, "w"))
    rc, out, _ = verif.run_harness("C22", ["replay", "C22", "-file", inp, "-out", os.path.join(gen, "run")], timeout=300)
    if rc != 0:
        return False, "preset dump failed: " + out[-400:]
    rec = json.loads(open(os.path.join(gen, "run", "cases.jsonl")).readline())
    tables = rec["observed"]
    # every preset declared in presets.go must have been dumped
    src = open(os.path.join(verif.REPO, "mem", "dram", "presets.go")).read()
    declared = re.findall(r"^var\s+(\w+)\s*=\s*Spec\{", src, re.M)
    missing = [d for d in declared if d not in tables]
    if missing or not declared:
        return False, "presets.go declares presets the harness does not know: %s" % missing
    lines = ["(* GENERATED on every check from /repo/mem/dram (builder.generateTiming via the verif export). Do not edit. *)",
             "From Akita Require Import Lib.Base C22.Model C22.Exec.", "Local Open Scope N_scope.", ""]
    names = sorted(tables)
    for n in names:
        lines.append("Definition tb_%s : tables := %s." % (n, tables[n]))
    lines.append("Definition gen_presets : list tables := [%s]." % "; ".join("tb_" + n for n in names))
    lines.append("(* table[ACT->RD/WR] = tRCD - tAL (tRCDRD/tRCDWR for GDDR/HBM), [ACT->PRE] = tRAS, [PRE->ACT] = tRP, [ACT->ACT] = tRC = tRAS + tRP *)")
    lines.append("Example gen_presets_ok : forallb table_facts gen_presets = true.")
    lines.append("Proof. vm_compute. reflexivity. Qed.")
    open(os.path.join(gen, "GenC22.v"), "w").write("\n".join(lines) + "\n")
    rc, out, _ = verif.sh(["coqc", "-Q", os.path.join(verif.COQ, "theories"), "Akita", "-Q", gen, "GenC22", "GenC22.v"],
                          cwd=gen, timeout=600)
    check.cov["generated_obligations"] = {"file": os.path.join(gen, "GenC22.v"), "presets": names,
                                          "declared_in_presets_go": declared, "rc": rc}
    if rc != 0:
        return False, "a preset's generated table contradicts its Spec: " + out[-600:]
    return True, ""


P("C22",
  title="DRAM issues commands in protocol-legal order and timing",
  design_ref="DESIGN.md §3 C22",
  technique="Coq proof over an exact model of the DRAM bank kernels (arbitrary scheduler oracle, arbitrary timing table and tFAW) + exact "
            "model/implementation tie on the kernels and on whole runs + verified acceptor on real command streams; preset tables regenerated from the real builder on every run",
  level_text="PARTIAL (completion is sampled; c22_completion_partial proves the bank-kernel part of liveness: a ready offer is issued at once, and a queue entry that is the sole persistent offer is issued as its column command after finitely many ticks, after ANY history and for ANY geometry — the scheduler, queue admission, refresh and the respond stage are named as missing). Proved, closed, for every timing table, every tFAW and every oracle: c22_state_machine_legal with its readings "
             "c22_row_activated_before_access and c22_precharged_before_activate, c22_min_separation (ANY two issued commands, any table entry of the relation "
             "same bank / other bank of the group / same rank / other rank), c22_tfaw (four-activate window), c22_init_state + c22_flat_index_bijection (the state Build installs is well-formed, all closed, history-free and bankFlatIndex is a bijection onto the nr*nbg*nb slots, for ARBITRARY geometry) and hence c22_clean_start (legal + all separations + tFAW for every clean start, no computed side condition), c22_acceptor_sound (the boolean evaluators used on "
             "observed streams mean the same declarative statements), c22_run_is_trace, c22_model_agreement_implies_property (for oracle runs of the real kernels from a clean state, agreement with the model implies the property predicate on the observed stream). Tie: (1) the real kernels (tickBanks, getReadyCommand incl. tFAW, "
             "startCommand, updateTiming, reached through verif-tagged wrappers) driven by a random oracle from clean and arbitrary bank states must agree with the "
             "model on every readiness decision, every progress flag and the final bank-level state; (2) real dram.Comp runs under contended traffic for every preset "
             "and page policy: the issued stream (derived from the existing command-issue milestones + the component State) replayed through the model must reproduce "
             "every issue decision and the sampled/final bank-level State exactly, and the stream itself (engine cycles) must satisfy the automaton, every pairwise "
             "separation of the table the real builder generated, tFAW, and the Spec-vs-table facts; (3) the tables of every preset in presets.go are regenerated and "
             "checked in Coq on every run (translate step). 'Every request completes and reads return the last written data' is checked per run by the harness, "
             "also for requesters that do not wait between accesses to the same bytes (program order); known finding F-C22-1: the scheduler keeps no same-address order (a younger read/write can overtake an older write/read to the same bytes).",
  level_note="Not modelled: the FR-FCFS scheduler and queues (an arbitrary oracle in the theorems; its real choices are replayed in the tie), refresh (a global stall: "
             "ticks without issue), address decoding, the completion timeline. Found while building the generator, outside the quantifier: with tRAS < tRCD (no real "
             "device) FR-FCFS precharges a freshly activated row before its access can issue, for ever (livelock); the generator keeps tRAS >= tRCD + 8.",
  assumptions=["bank coordinates of queued commands are in range (guaranteed by mapAddress: masks are 2^floor(log2 n) - 1)",
               "TickCount and activate stamps do not wrap (2^64 ticks)",
               "separations are stated in TickCount ticks; engine cycles never advance slower than TickCount (re-checked per run: cycles_dominate)"],
  trusted=["modelled, not verified: mem/dram bank_ops.go (tickBank(s), getRequiredCommandKind, getReadyCommand, canActivateUnderTFAW, startCommand, updateTiming, "
           "recordActivateTimestamp), comp.go bankFlatIndex/findBankState, the bank-level part of banktickmw.go",
           "verif-tagged read-only export mem/dram/verif_export.go (tables + kernel wrappers); the harness's derivation of the issued stream from milestones and State",
           "completion/data check of the requester in the Go harness"],
  quick_shards=8,
  translate=translate,
  )
