"""C21 — reorder buffers release responses in arrival order."""
from props import P

P("C21",
  title="Reorder buffers release responses in arrival order",
  design_ref="DESIGN.md §3 C21",
  technique="Coq proof (ghost-instrumented invariant through bottomUp/parseBottom/topDown, the width loops, Tick and arbitrary "
            "environment scripts incl. control verbs and checkpoint round trips) + exact tick-level model/impl correspondence by vm_compute (port traffic incl. generated IDs)",
  level_text="Theorems c21_* prove for every buffer size, width, port capacity and every environment script (any lower-unit "
             "completion order, delay, duplicate / wrong-kind / stray answers, any back-pressure, any Pause/Drain/Enable/Reset/"
             "unsupported control traffic, checkpoint round trips at any instant; a Reset forgets the accepted-but-unanswered "
             "requests, the statements cover everything accepted before and after it): the k-th response put on Top "
             "answers the k-th accepted request (in order), goes to its source with RspTo = its ID and the right kind, carries "
             "the data of the last DataReady the lower unit returned for that request's own shadow id, the k-th shadow request "
             "carries that request's payload, and lower-unit responses are routed to the unique live transaction with that id. "
             "Control verbs: a Tick that ends Paused leaves the table and all four data-port buffers untouched (c21_pause_freezes); "
             "while not Enabled nothing is accepted and no shadow request is sent (c21_no_acceptance_unless_enabled); Drain is taken "
             "silently and its acknowledgement is emitted only from Draining with an EMPTY table, to the remembered requester/ID, "
             "leaving the component Paused (c21_drain_ack_only_when_empty); Reset empties exactly the table and the two incoming "
             "buffers and forgets exactly the table's requests (c21_reset_discards_exactly); after a Reset, for any continuation, no "
             "released response belongs to a discarded transaction and the later responses answer, in acceptance order and each with "
             "the lower unit's result for its own shadow id, the requests accepted after the Reset (c21_reset_epoch). "
             "The tick-level model is compared exactly with the real component (all messages drained from Top and Bottom, "
             "generated IDs relative to the generator, progress flag, transaction count, control state, control responses and the Control outgoing-buffer length after every Tick) on every run; holds_on additionally checks on the observations alone that Paused ticks keep the transaction count, Draining ticks do not raise it, and every Drain / Reset acknowledgement was emitted by a Tick that ended Paused / Enabled with an empty table (emission ticks reconstructed from the buffer lengths).",
  level_note="c21_model_agreement_implies_property transfers c21_in_order to the observed Top traffic of every case on which the check succeeds. "
             "Trusted: Coq kernel + vm_compute; the Go harness (scripted requester and out-of-order lower unit); the hand-written "
             "model of middleware.go. Ghost fields (accepted list, released list, per-transaction recorded answers) are never read "
             "by the model functions.",
  assumptions=["Component.SaveCheckpoint/LoadCheckpoint is the identity on the modelled State fields (checked by the tie: round trips "
               "are taken mid-run with requests in flight); ports and the ID generator are not part of a component checkpoint",
               "only memprotocol.AccessReq messages arrive at Top (anything else panics in topDown)",
               "timing.GetIDGenerator() is the sequential generator; tracing calls are no-ops without hooks (checked by the exact ID tie)",
               "ports are bounded FIFOs (C11); the component is driven by Tick() with messages delivered/drained at the ports"],
  trusted=["modelled, not verified: mem/rob/middleware.go (Tick, runPipeline, topDown, parseBottom, bottomUp, "
           "findTransactionByBottomID, buildShadowReq, buildTopRsp, processControlMsg, completePendingDrain, handlePause/Drain/Enable/Reset/Unsupported)"],
  )
