"""Per-property configuration of the checks (text used in MANIFEST/evidence, knobs)."""
from props import P

P("C24",
  title="Interleaved address conversion is consistent and order-preserving",
  design_ref="DESIGN.md §3 C24",
  technique="Coq proof (div/mod uniqueness over N with explicit 2^64 wrap, Go int conversions) + exact model/impl "
            "correspondence by vm_compute on converter, ConvertAddress, both port mappers and the bank dispatch of a real component",
  level_text="Theorems c24_* prove, for every size s>=1, element count 1<=n<2^63 with s*n<2^64, index, offset and 64-bit address: "
             "the (fixed) converter accepts exactly the owned addresses, is strictly increasing and one-to-one on them, maps stripe k "
             "of element i contiguously onto [k*s,(k+1)*s), has the explicit two-sided inverse to_external (onto), and panics on "
             "addresses below the offset / owned by another element / for indices outside [0,n) / for size or count 0 "
             "(c24_owned_bijection_ordered, c24_reject_foreign, c24_accepts_iff_owned, c24_degenerate_config_panics); "
             "ConvertExternalToInternal and ConvertAddress agree (c24_entry_points_agree); the interleaved port mapper picks index i "
             "exactly for the addresses >= offset that converter i accepts IF AND ONLY IF n = 1 or offset is a multiple of s*n "
             "(c24_mapper_agrees, c24_mapper_agrees_iff), names the owner rotated by offset/s when offset is a multiple of s "
             "(c24_mapper_rotation), with vm_compute witnesses c24_mapper_agrees_refuted, c24_round_overflow_refuted (s*n wraps) "
             "and the pre-fix regression c24_monotone_old_refuted; c24_banked_find / c24_select_bank_in_range cover the banked mapper and the "
             "bank selector. c24_model_agreement_implies_property links Exec.holds_on (converter, mapper, banked mapper and bank-dispatch "
             "clauses on the observed outputs) to the model.",
  level_note="Trusted: Coq kernel + vm_compute; the Go harness that calls mem.InterleavingConverter / mem.ConvertAddress / "
             "InterleavedAddressPortMapper.Find / BankedAddressPortMapper.Find and, for the unexported selectBank/bankSelectionAddress, "
             "builds a real simplebankedmemory component, delivers one read request and reads the chosen bank from the State JSON; "
             "the hand-written model (tied by exact equality on directed boundary sweeps, values near 2^64, wrapping size*count, "
             "negative Go ints, and random inputs).",
  assumptions=[
      "uint64 arithmetic of Go = arithmetic modulo 2^64; uint64(int) and int(uint64) are two's-complement reinterpretations on a 64-bit "
      "platform; log.Panic, integer division by zero and index out of range are all the outcome Panic",
      "no-overflow side condition of the bijection theorems: 1 <= s, 1 <= n < 2^63, s*n < 2^64 (c24_round_overflow_refuted shows the "
      "statement is false of the code when s*n wraps); surjectivity is stated for internal addresses whose preimage is < 2^64",
      "configuration constraint for the mapper clause: InterleavedAddressPortMapper has no offset field (it computes address/s mod n), "
      "so mapper and converters agree exactly when n = 1 or offset is a multiple of s*n (proved as an equivalence). No configuration in "
      "/repo violates it: Offset / BankAddrOffset is never set to a non-zero value outside this harness (README example uses Offset: 0; "
      "all mappers are built without address limitation and are paired with offset 0). holds_on checks the agreement only under this "
      "condition, the rotation law under offset mod s = 0, and nothing about the mapper otherwise",
      "the agreement compares addresses at or above the offset; below the offset every converter rejects while the mapper still answers",
  ],
  trusted=["modelled, not verified: mem/addressconverter.go (ConvertExternalToInternal), mem/addrconv.go (ConvertAddress), "
           "mem/addresstoportmapper.go (InterleavedAddressPortMapper.Find, BankedAddressPortMapper.Find), "
           "mem/simplebankedmemory/comp.go (selectBank, bankSelectionAddress) + the range check in dispatchmw.go; "
           "SinglePortMapper is a constant and is not modelled"],
  )
