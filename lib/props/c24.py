"""Per-property configuration of the checks (text used in MANIFEST/evidence, knobs)."""
from props import P

P("C24",
  title="Interleaved address conversion is consistent and order-preserving",
  design_ref="DESIGN.md §3 C24",
  technique="Coq proof (div/mod over N with explicit 2^64 wrap) + exact model/impl correspondence by vm_compute",
  level_text="under construction",
  level_note="under construction",
  assumptions=[],
  trusted=[],
  )
