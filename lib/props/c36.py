"""C36 — the trace database records exactly the traced tasks."""
from props import P

P("C36",
  title="The trace database records exactly the traced tasks",
  design_ref="DESIGN.md §3 C36",
  technique="Coq proof (invariant over call histories of the DBTracer state machine, refinement to a declarative "
            "row specification) + exact model/impl correspondence on the four SQLite tables by vm_compute",
  level_text="Theorems c36_* prove, for every history of task events (including tags before the start, repeated ends, ends of "
             "unknown IDs, reused IDs) interleaved with StartTracing/StopTracing calls in ANY order and ended by Terminate, that the model of DBTracer leaves in the database exactly one trace row "
             "(ID, parent, kind, what, location, start, end) for each task that was running at some point while tracing was on, "
             "its tags and its milestones (first of every instant) with it, and one segment per tracing window. The model is "
             "compared row for row with a real DBTracer writing through datarecording into a real SQLite file on every run; "
             "c36_model_agreement_implies_property links the two case evaluators.",
  level_note="Trusted: Coq kernel + vm_compute; the Go harness (clock, calls, SQL read-back with the location join); the "
             "hand-written model of dbtracer.go; datarecording + database/sql + SQLite as the identity on rows (times < 2^53, "
             "IDs < 2^63, fewer than 100000 buffered rows so that only the tracer's own Flush calls write).",
  assumptions=["a task is started with valid fields and only while no task with the same ID is running (IDs may be reused after the "
               "end); ends, tags and milestones are unconstrained: an end of an ID that is not running records nothing, a tag/milestone "
               "that mentions an ID while no such task runs waits for the next start of the ID (any end of the ID discards it); "
               "the clock never goes back; nothing is called after Terminate",
               "times < 2^53 (float64 columns), IDs < 2^63 (SQLite integers)"],
  trusted=["modelled, not verified: tracing/dbtracer.go; the recorder is modelled as buffer-then-flush per table",
           "the mutex is not modelled (single-threaded histories)"],
  )
