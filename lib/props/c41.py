"""C41 — generated IDs are unique; the sequential counter is reproducible."""
from props import P

P("C41",
  title="Generated IDs are unique and the sequential counter is reproducible",
  design_ref="DESIGN.md §3 C41",
  technique="Coq proof (state machine of the generator with the exact checkpoint text; interleaving model of any number of threads "
            "with an atomic fetch-and-add, induction over every schedule) + exact model/implementation correspondence on API "
            "scripts + concurrent stress evaluated by the property predicate",
  level_text="Model: uint64 counter with wrap, Generate, SaveCheckpoint (exact JSON bytes incl. newline), LoadCheckpoint (of an "
             "earlier text through a parser of the canonical text; of a DTO; of malformed text), kind mismatch errors, "
             "Set/GetIDGeneratorNextID, the parallel generator rejecting checkpoints and panicking on Set/Get. Theorems: "
             "c41_sequential_deterministic (fresh generator: IDs are 1..n for every n < 2^64), c41_sequence_unique_nonzero (from any "
             "counter c: c+1..c+n, NoDup, nonzero while c+n < 2^64), c41_restore_continues and c41_save_generate_restore_replays "
             "(the text written by Save, loaded into ANY sequential generator, makes every later ID equal the one the saved "
             "generator would hand out; proved through render/parse of the decimal text), c41_failed_load_changes_nothing, "
             "c41_concurrent_unique_nonzero (EVERY interleaving of atomic adds by any number of threads, < 2^64 calls: IDs are "
             "exactly c0+1..c0+N, distinct, nonzero, no ID given to two threads), c41_load_store_mutation_refuted (non-atomic "
             "load/store: two threads get ID 1), c41_wrap_witness (the 2^64-th call returns 0). Tie: exact on random API scripts "
             "(IDs, checkpoint bytes, errors, panics, next_id read back by encoding/json); stress runs with GOMAXPROCS=16 on both "
             "generator kinds whose summary must equal the closed form justified by c41_concurrent_unique_nonzero.",
  level_note="Trusted: Coq kernel + vm_compute; the Go harness; the hand-written model. The concurrent part is a proof about the "
             "interleaving model under the named atomicity assumption; the real sync/atomic is only exercised by the stress "
             "(observed data: distinct && nonzero && exactly 1..N). encoding/json decoding of arbitrary text is not modelled "
             "(only the canonical text and a DTO view). c41_model_agreement_implies_property proves check_case -> holds_on for scripts inside the property's range (wf_case).",
  quick_shards=8,
  assumptions=["sync/atomic.AddUint64 is one indivisible fetch-and-add returning the new value (Go memory model)",
               "fewer than 2^64 IDs are handed out between explicit counter settings (after that the counter wraps and hands out 0: c41_wrap_witness)"],
  trusted=["modelled, not verified: timing/idgenerator.go, timing/idgenerator_checkpoint.go",
           "not modelled: the idGeneratorInstantiated/mutex singleton protocol (Use*/GetIDGenerator) beyond 'fresh generator of the chosen kind'"],
  )
