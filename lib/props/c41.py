"""C41 — generated IDs are unique; the sequential counter is reproducible."""
from props import P

P("C41",
  title="Generated IDs are unique and the sequential counter is reproducible",
  design_ref="DESIGN.md §3 C41",
  technique="Coq proof (state machine of the generator + checkpoint text; interleaving model of k threads with an atomic "
            "fetch-and-add, induction over every schedule) + exact model/impl correspondence on API scripts + concurrent stress",
  level_text="TBD",
  level_note="TBD",
  assumptions=["sync/atomic.AddUint64 is one indivisible fetch-and-add returning the new value (Go memory model)"],
  trusted=["modelled, not verified: timing/idgenerator.go, timing/idgenerator_checkpoint.go"],
  )
