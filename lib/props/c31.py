"""C31 — endpoints packetize and reassemble losslessly."""
from props import P

P("C31",
  title="Endpoints packetize and reassemble losslessly",
  design_ref="DESIGN.md §3 C31",
  technique="Coq proof (ceil-division arithmetic; reassembly invariant over arbitrary event sequences with a pigeonhole bound "
            "on arrivals; refinement of the middleware tick to the event machine) + exact model/impl correspondence on two real "
            "endpoints with scripted back-pressure and permuted / withheld flits",
  level_text="Theorems c31_count / c31_packetize prove, for every byte count, dyadic overhead and flit size >= 1, that the model of "
             "msgMetaToFlits makes exactly ceil((bytes + ceil(bytes*overhead)) / flit) >= 1 flits numbered 0..n-1, each carrying the "
             "metadata unchanged. c31_deliver_only_complete, c31_once, c31_right_port, c31_complete_is_assembled and c31_no_merge prove, "
             "for the model of recv/assemble/tryDeliver after ANY number of ticks in ANY environment and for ANY interleaving / reordering "
             "of flits of messages with unique IDs (no flit twice), that a device receives a message only after all its flits arrived, at most "
             "once, at the port named by its destination, with the sent metadata, that a complete message is assembled by the next tick, and "
             "that entries of different messages never share counts. The model (both middlewares, tick by tick, including the 16-message / "
             "64-flit back-pressure) is compared tick-for-tick with two real endpoint components on every run.",
  level_note="Trusted: Coq kernel + vm_compute; the Go harness (plays the devices and the network around two real endpoint.Comp, prints "
             "the cases); the hand-written model of outgoingmw.go / incomingmw.go; float64 overhead arithmetic is modelled exactly only for "
             "dyadic overheads with bytes*numerator < 2^53 (the generator stays inside that range). Tracing hooks are not modelled.",
  assumptions=["EncodingOverhead is a dyadic rational num/2^exp and bytes*num < 2^53, so that float64(bytes)*overhead and math.Ceil are exact",
               "message IDs are unique among messages in flight and the network hands every flit to the endpoint at most once "
               "(hypothesis wf_arrivals; that is C29's subject); port names and traffic-class strings are interned as numbers",
               "a Go panic (division by a zero flit size, negative make length, unknown destination port) is the outcome None"],
  trusted=["modelled, not verified: noc/networking/switching/endpoint/outgoingmw.go (msgMetaToFlits, sendFlitOut, prepareMsg, prepareFlits), "
           "incomingmw.go (recv, assemble, tryDeliver)"],
  quick_shards=8,
  )
