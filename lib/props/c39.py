from props import P

P("C39",
  title="Source tools only serve the recorded source, within bounds",
  design_ref="DESIGN.md §3 C39",
  technique="Coq proof (structural induction over byte strings, maps and archive entry lists; sorted-permutation uniqueness for the "
            "map-iteration oracle) + exact model/impl correspondence by vm_compute",
  level_text="c39_no_escape: for EVERY request string, what code_read / code_ls / /api/code/read accept is a valid, non-escaping path and any content "
             "served is the content recorded under exactly that key; c39_listing_only_recorded: a listing names only recorded keys; c39_only_recorded: every key of the served tree comes from a recorded archive entry "
             "and is valid, for every map-iteration order; c39_archive_deterministic: WriteArchive's entry list is independent of the iteration "
             "oracle; c39_archive_roundtrip; c39_caps: ReadArchive never returns a file above the per-file cap or a total above the archive cap. "
             "PARTIAL: tar/gzip encoding and decoding are assumed (the model works on decoded entries), RE2 matching is tied for literal queries only.",
  level_note="Trusted: Coq kernel + vm_compute; the harness (it builds hostile archives with archive/tar and decodes them itself to feed the model); "
             "the hand-written models of path.Clean, fs.ValidPath, fstest.MapFS, sourcefs and the code tools, tied by exact equality of the "
             "tools' whole output text.",
  assumptions=["archive/tar + compress/gzip: writing then reading entries is the identity on (type, name, content) and distinct entry lists give distinct bytes",
               "regexp (RE2) matching is assumed; the tie uses QuoteMeta'd literal queries, for which matching is substring containment",
               "humanBytes is modelled below 1 KiB only; bufio.Scanner's 1 MiB token limit is not modelled (no such line is generated)",
               "fstest.MapFS holds no symlinks (OpenTraceSource creates regular entries only)"],
  trusted=["assumed, not modelled: archive/tar, compress/gzip, base64, database/sql + SQLite (source table), regexp, encoding/json of the HTTP handlers",
           "modelled, not verified: path.Clean, path.Join, utf8.ValidString, fs.ValidPath, fstest.MapFS.Open/ReadDir, fs.WalkDir, sourcefs.WriteArchive/"
           "ReadArchive/OpenTraceSource, codetools.go runCodeRead/runCodeLs/runCodeSearch, code.go httpCodeRead"],
  coq_timeout=3000,
  )
