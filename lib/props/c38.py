from props import P

P("C38",
  title="Outbound LLM connections never reach internal addresses",
  design_ref="DESIGN.md §3 C38",
  technique="Coq proof (structural case analysis over the bytes of the whole 2^32 / 2^128 address spaces; induction over the "
            "client's redirect loop with an adversarial resolver) + exact model/impl correspondence by vm_compute",
  level_text="c38_classify_complete/_exact: every address of 127/8, 10/8, 172.16/12, 192.168/16, 169.254/16, 224.0.0/24, 0.0.0.0, ::1, ::, "
             "fc00::/7, fe80::/10, ff?2::/16 (numeric CIDR specification) is classified internal by the model of isInternalIP in the 4-byte, "
             "IPv4-mapped 16-byte and 16-byte encodings, and nothing else is. c38_guard_refuses/_allow_characterised, c38_redirect_rechecked, "
             "c38_dial_by_vetted_ip/_dial_refuses, c38_no_internal_connect: for every resolver behaviour (including rebinding between check "
             "and dial), redirect chain and proxy choice, the modelled handler+client opens no connection to any encoding of an internal "
             "address unless the opt-in is set; c38_spec_equals_model and c38_model_agreement_implies_property link the CIDR-based evaluator to the model. PARTIAL: DNS, net/url parsing and the net/http client loop are assumed (the model of the "
             "loop is tied only through CheckRedirect with a scripted transport and through end-to-end requests to a local server).",
  level_note="Trusted: Coq kernel + vm_compute; the harness (it calls url.Parse/net.LookupIP itself to feed the model the parsed URL and "
             "the resolver's answer); the hand-written model of chat.go tied by exact equality on the address sweep, URL/dial literals, "
             "proxy-target matching, redirect chains and end-to-end hit counts; a resolver stub installed as net.DefaultResolver replays multi-address names "
             "and DNS rebinding between URL check and dial against a local server.",
  assumptions=["'private' = RFC 1918 + RFC 4193 ranges, 'link-local' = 169.254/16, fe80::/10 and link-local multicast 224.0.0/24, ff?2::/16 "
               "(what net.IP.IsPrivate/IsLinkLocal* document); CGNAT 100.64/10, site-local fec0::/10, IPv4-compatible ::a.b.c.d, NAT64 and 6to4 "
               "embeddings are outside the statement and are classified public by the code (tied, not claimed)",
               "net.LookupIP / net.DefaultResolver.LookupIP return every address the subsequent connect could use; IP-literal dial targets are not re-resolved",
               "for proxied requests final egress control is delegated to the proxy (the target is re-validated before proxying); "
               "a dial whose host equals a configured proxy host is unchecked by design (any port)",
               "keep-alive reuse of an already vetted connection opens no new connection"],
  trusted=["assumed, not modelled: net/url parsing, DNS resolution, net.SplitHostPort, net/http redirect following and Transport dialing",
           "modelled, not verified: chat.go isInternalIP, guardLLMURL, guardedDialContext, dialTargetIsProxy, proxyForLLMRequest, CheckRedirect; "
           "net.IP To4/Equal/IsLoopback/IsPrivate/IsUnspecified/IsLinkLocalUnicast/IsLinkLocalMulticast as documented byte patterns"],
  )
