from props import P

P("C37",
  title="The trace query tool cannot modify the trace",
  design_ref="DESIGN.md §3 C37",
  technique="Coq proof (structural induction over byte strings and result sets) + exact model/impl correspondence by vm_compute "
            "+ end-to-end oracle on a real SQLite trace file (file/-wal hashes, directory listing, logical dump, pool checks)",
  level_text="c37_single_select_or_with / c37_rejects_semicolon: for EVERY query text what sanitizeReadonlySQL lets through has no ';', begins "
             "with SELECT/WITH and carries a LIMIT; c37_row_cap / c37_byte_cap / c37_rows_are_prefix / c37_cell_cap: for every result set "
             "the formatted text has at most rowCap rows, is a prefix of the result and (after the fix commit) is within byteCap as a whole; "
             "c37_only_filtered_reaches_sqlite, c37_result_caps: runDataQuery around an arbitrary SQLite. PARTIAL: c37_db_unchanged_partial "
             "assumes that a single SELECT/WITH statement under PRAGMA query_only cannot write (an assumption about SQLite, exercised by the "
             "end-to-end corpus, not proved); c37_pool_restored_partial assumes the deferred PRAGMA query_only=OFF executes.",
  level_note="Trusted: Coq kernel + vm_compute; the harness (it builds the trace file, hashes it, and reads the reference result set of the "
             "sanitized statement on a read-only copy to feed the model); the hand-written model of agentloop.go tied by exact equality on the "
             "filter, the formatter (through real sql.Rows) and the tool's whole output.",
  assumptions=["SQLite: one statement without ';' that begins with SELECT/WITH, run on a connection with PRAGMA query_only=ON, does not change the database or create files",
               "fmt %g / %v renderings of float and other driver values are taken as given (CFloat carries the rendered text)",
               "unicode.ToUpper maps exactly s,S,U+017F to S and i,I,U+0131 to I among the letters of SELECT/WITH; RE2 (?i)limit folds ASCII only",
               "the deferred PRAGMA query_only=OFF runs on the (possibly expired) request context; with mattn/go-sqlite3 it still executes "
               "(the interrupt issued for an expired context precedes the statement); replayed 400+ times, never left on"],
  trusted=["assumed, not modelled: SQLite and database/sql (statement execution, query_only, connection pool), strings.TrimSpace/ToUpper on non-ASCII beyond the listed runes",
           "modelled, not verified: agentloop.go sanitizeReadonlySQL, formatRows, cellToString/rawCellToString, runDataQuery"],
  coq_timeout=3000,
  )
