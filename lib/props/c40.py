"""C40 — monitor requests never race with a running simulation."""
from props import P

P("C40",
  title="Monitor requests never race with a running simulation",
  design_ref="DESIGN.md §3 C40",
  technique="Coq interleaving model (Lib/Lts.v) of engine ∥ HTTP-handler goroutine with per-variable access labels and lock sets; race = "
            "reachable state with two conflicting next accesses and no common lock; inductive invariant for every oracle on the parallel "
            "engine, witness interleavings elsewhere; real monitor endpoints hammered over HTTP while the engine runs, in a race-instrumented "
            "subprocess whose race log is parsed into per-endpoint verdicts; outcome equality with an unmonitored run",
  level_text="c40_inspection_safe_parallel: for every handler program, every sequence of pause/continue/state/now/tick/component+field "
             "inspection/buffers requests and EVERY interleaving, the parallel engine has no racy reachable state; c40_basic_requests_safe: pause/continue/state/buffers are race-free on both engines for every interleaving. c40_inspection_needs_control_mutex_refuted: if /api/continue can interleave with a (user-paused) inspection — engineControlMu not held across it — a racy state is reachable on both engines; the lock-scope fact the model relies on is re-extracted from monitoring2/monitor.go (go/ast) on every run and compared in check_case, and a directed held-inspection history (user pause, engine observed idle, inspection held open by a client that stops reading, concurrent /api/continue) observes deterministically whether events are handled while the inspection is in progress. Witnesses: c40_now_races, "
             "c40_tick_races, c40_serial_inspection_races (serial engine), c40_progress_races (both engines) — all confirmed by the race "
             "detector on the real code (known findings, one classifier per endpoint).",
  level_note="partial: the engine is modelled with one handler at a time (round-internal parallelism is C04); lock sets are assigned to "
             "accesses by reading the code (nowLock, queue check-out, port lock, progress-bar mutex, TickScheduler lock, pauseLock); the race "
             "detector samples real interleavings.",
  assumptions=["the tie requires every endpoint the race detector implicates to be one the model says may race (sound direction); that a possible race manifests in a given run depends on the Go scheduler and is not required (it made the check flaky)", "Go memory model; the race detector reports exactly the unsynchronised conflicting accesses it observes",
               "goseth's serializer only reads the component's fields"],
  trusted=["modelled, not verified: monitoring2/monitor.go (pauseEngine, continueEngine, apiEngineState, now, tick, listComponentDetails, "
           "listFieldValue, hangDetectorBuffers, listProgressBars, pauseForInspection), timing/serialengine.go, timing/parallelengine.go "
           "(which variable each operation touches and under which lock)",
           "the race-log parser (attribution of a report to an endpoint by handler frame names)"],
  race=True, quick_shards=2,
  )
