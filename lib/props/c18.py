from props import P

P("C18",
  title="Memory agents follow the control protocol under any history",
  design_ref="DESIGN.md §3 C18, §13 (control view)",
  technique="Coq-verified acceptor of the control-protocol automaton (parametrised by the agent's verb-support matrix) + trace inclusion "
            "of histories recorded at the ports of the twelve real agents",
  level_text="PARTIAL. Proved (closed, for every matrix and every accepted history): c18_one_response_in_order (exactly one response per control "
             "request, carrying its command and ID, in request order), c18_unsupported_refused, c18_illegal_refused (Invalidate/Flush while running "
             "are refused as 'must be paused or drained', accepted once paused), c18_paused_silent (no data response between a Pause/Drain "
             "acknowledgement and the next Enable/Reset acknowledgement except while a Drain is the oldest unanswered command), "
             "c18_drain_quiescent_paused, c18_reset_quiescent_enabled (incl. no later response to a pre-reset request), "
             "c18_queued_served_after_enable, c18_answered_at_most_once; and, for the exact tick-level model of the ideal memory controller's control path "
             "(Ideal.ideal_tick, compared tick by tick with the real component), c18_ideal_one_response_in_order, c18_ideal_verbs, "
             "c18_ideal_drain_quiescent_paused, c18_ideal_reset_quiescent_enabled for every input sequence. Tie: every history recorded at the Control/Top ports of the twelve "
             "real agents (own Builders, scripted requester, delaying lower-module stub) is evaluated by the acceptor inside Coq on every run. "
             "The agents' internals are NOT modelled: the theorems speak about accepted histories, and the real agents are tied to them only "
             "on the histories exercised.",
  level_note="Unmodelled: the data paths and control middlewares of (idealmemcontroller: data path only), dram, simplebankedmemory, cache/writeback, "
             "cache/writethroughcache, vm/tlb, vm/mmuCache, vm/mmu, vm/gmmu, vm/addresstranslator, rob, datamover (tied by trace inclusion only). "
             "Refinements of the literal statement that the real protocol forces and the acceptor makes explicit: (1) data responses are allowed "
             "while a Drain is being carried out even if a Pause was acknowledged before it; (2) agents start a queued command in the very tick in "
             "which they acknowledge the previous one, so the 'quiescent and paused/enabled' sample after a Drain/Reset acknowledgement is taken at the "
             "end of that tick and only when no further control request was already queued (ENoSample otherwise); (3) 'quiescent' is each agent's own "
             "documented quiescence condition (the IsQuiescent of its TestControlContract). Known finding: write-back Pause->Flush with reads outstanding.",
  assumptions=["one requester issues the control requests of a history over one connection (so request order = delivery order)",
               "the support matrix is the VerbSupport constructor the agent's TestControlContract passes to RunContract, evaluated by the real memcontrolprotocol package",
               "message IDs are unique (sequential generator)"],
  trusted=["modelled as an abstract automaton, not verified: the twelve agents' control and data middlewares",
           "harness observation points: port hooks (send/deliver) on the agent's Control and request ports, engine after-event hook for the state sample, "
           "per-agent quiescent/paused predicates read from the exported State (cache/writeback 'paused' = CacheState 4)"],
  quick_shards=8,
  )
