import json
import os
import re

from props import P


def translate(check):
    """Regenerate the site list from the repository under check and compile the
    obligation `unregistered gen_sites = []` against C03/Sites.v."""
    import verif
    rc, out, _ = verif.build_harness("C03")
    if rc != 0:
        return False, "harness does not build: " + out[-400:]
    rc, out, wall = verif.sh([verif.harness_bin("C03"), "mapsites", verif.REPO], timeout=900, env=verif.goenv())
    if rc != 0:
        return False, "site listing failed: " + out[-600:]
    try:
        sites = json.loads(out[out.index("["):])
    except ValueError:
        return False, "cannot parse site list: " + out[-300:]
    keys = ["%s|%s|%s|%s|%d|%s" % (s["kind"], s["pkg"], s["func"], s["expr"], s["n"], s.get("shape", "")) for s in sites
            if "acceptance" not in s["pkg"]]
    gdir = os.path.join(verif.BUILD, "gen", "C03" + verif.ALT)
    os.makedirs(gdir, exist_ok=True)
    with open(os.path.join(gdir, "GenSites.v"), "w") as f:
        f.write("(* GENERATED from %s by harness/internal/c03/sites.go - do not edit *)\n" % verif.REPO)
        f.write("From Coq Require Import String List.\nImport ListNotations.\nFrom Akita Require Import C03.Sites.\n")
        f.write("Local Open Scope string_scope.\nDefinition gen_sites : list string := [\n")
        f.write(";\n".join('  "%s"' % k.replace('"', '""') for k in keys))
        f.write("\n].\nDefinition missing := Eval vm_compute in unregistered gen_sites.\nPrint missing.\n")
        f.write("Theorem gen_sites_registered : unregistered gen_sites = [].\nProof. vm_compute. reflexivity. Qed.\n")
        f.write("Print Assumptions gen_sites_registered.\n")
    rc, out, _ = verif.sh(["coqc", "-Q", os.path.join(verif.COQ, "theories"), "Akita", "-Q", gdir, "GenC03", "GenSites.v"],
                          cwd=gdir, timeout=600)
    check.cov["generated_sites"] = len(keys)
    check.cov["site_listing_wall_s"] = round(wall, 1)
    check.cov["obligations"] = check.cov.get("obligations", 0) + 1
    if rc == 0 and "Closed under the global context" in out:
        check.cov["discharged"] = check.cov.get("discharged", 0) + 1
        check.cov.setdefault("theorems", []).append("GenSites.gen_sites_registered (regenerated)")
        return True, ""
    m = re.search(r"missing\s*=\s*\[(.*?)\]\s*:\s*list string", out, re.S)
    return False, "unregistered nondeterminism-relevant site(s) in the source: " + (m.group(1).strip() if m else out[-400:])


P("C03",
  title="Serial simulations are deterministic",
  design_ref="DESIGN.md §3 C03",
  technique="Coq proofs of iteration-order independence per site class + source-regenerated site list checked in Coq (translator) "
            "+ fresh-process differential replay of scripted and library simulations",
  level_text="For every place where library code consults an unordered or external source the check regenerates, from the current source "
             "(go/types), the list of map-range / go / select / wall-clock / rand sites and proves in Coq (vm_compute, lifted by "
             "c03_unregistered_empty_means_all_registered) that each is in the registry of classified sites; each class has an unbounded "
             "order-independence theorem over ALL iteration orders (c03_sorted_keys_, c03_commutative_loop_, c03_existential_, c03_map_build_). "
             "The modelled framework has no oracle (c03_framework_functional) and is tied exactly to the real engine across processes. "
             "PARTIAL: that each registered site really has the shape of its class is by inspection (recorded in Sites.v); whole assemblies are "
             "covered by the differential (3 fresh processes, different GOMAXPROCS: event trace incl. IDs, all final payloads).",
  level_note="Trusted: Coq kernel + vm_compute; the go/types site lister (data only); manual classification of the registered sites; "
             "Go runtime determinism outside map iteration/goroutines/time (single-threaded serial engine).",
  assumptions=["classification of each registered site is by code inspection", "library assemblies are sampled, not proved"],
  trusted=["translator: harness/internal/c03/sites.go (golang.org/x/tools/go/packages + go/types); emits data only",
           "modelled, not verified: the loop bodies at the registered sites"],
  translate=translate,
  quick_shards=8,
  )
