"""C35 — the data recorder persists every entry exactly once."""
from props import P

P("C35",
  title="The data recorder persists every entry exactly once",
  design_ref="DESIGN.md §3 C35",
  technique="Coq model of sqliteWriter (tables, batch counter, location interning, flush with a map-iteration-order oracle) with an "
            "inductive invariant over operation histories; small-step interleaving model (Lib/Lts.v) of InsertData ∥ Flush before and "
            "after the fix; exact tie on SQLite contents read back with the datareader",
  level_text="see Property.v",
  level_note="partial: database/sql + SQLite value mapping assumed to be the identity on the storable domain (checked on every run by the "
             "read-back tie); one connection / one transaction flag assumed for the concurrent model.",
  assumptions=["database/sql + glebarez/go-sqlite store and return int64, uint64 < 2^63, bool, float64, float32 (as float64) and strings without NUL unchanged",
               "SELECT * without ORDER BY returns rows in insertion (rowid) order",
               "sync.Mutex operations are atomic and sequentially consistent"],
  trusted=["modelled, not verified: datarecording/datarecorder.go (InsertData, Flush/flushLocked, insertEntryForTable, getLocationID, "
           "flushLocationTable, Close), datarecording/datareader.go is used as the observer (Query, restoreStrLocation)",
           "verif-tagged hook datarecording.SetBatchSizeForVerif"],
  race=True, quick_shards=4,
  )
