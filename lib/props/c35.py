"""C35 — the data recorder persists every entry exactly once."""
from props import P

P("C35",
  title="The data recorder persists every entry exactly once",
  design_ref="DESIGN.md §3 C35",
  technique="Coq model of sqliteWriter (tables, batch counter, location interning, flush with a map-iteration-order oracle) with an "
            "inductive invariant over operation histories; small-step interleaving model (Lib/Lts.v) of InsertData ∥ Flush before and "
            "after the fix; exact tie on SQLite contents read back with the datareader",
  level_text="c35_seq_exactly_once: for every set of table shapes, batch size, history of InsertData/Flush calls and EVERY map iteration "
             "order per flush (oracle), then Close: unless a call panicked, each table's rows (location ids resolved as the reader does) are "
             "exactly its inserted entries, in order, once, every non-ignored field unchanged, no buffer left. c35_no_panic: no call panics when names are distinct and every entry has its table's shape with storable plain and string location fields. c35_location_bijection: ids "
             "are 1..n in row order, strings distinct, every stored id is a key. c35_value_domain_refuted (uint64 >= 2^63, complex: known "
             "findings). c35_concurrent_old_refuted: two witness schedules of the pre-fix InsertData||Flush (double BEGIN panic; silently "
             "lost entry); c35_concurrent_fixed / c35_concurrent_fixed_exactly_once: for ANY number of goroutines, any InsertData/Flush calls, any batch size and EVERY schedule of the fixed code (lock; BEGIN; writes; COMMIT; unlock): no panic (no BEGIN inside / COMMIT outside a transaction), the mutex holder is the only goroutine between BEGIN and COMMIT, the recorder is the sequential recorder applied to the completed calls in effect order (linearizability), and after all goroutines finish and Close runs each table holds exactly the multiset of entries inserted into it; c35_concurrent_fixed_3 kept as an exhaustive regression example.",
  level_note="partial: database/sql + SQLite value mapping assumed to be the identity on the storable domain (checked on every run by the "
             "read-back tie); one connection / one transaction flag assumed for the concurrent model.",
  assumptions=["database/sql + glebarez/go-sqlite store and return int64, uint64 < 2^63, bool, float64, float32 (as float64) and strings without NUL unchanged",
               "SELECT * without ORDER BY returns rows in insertion (rowid) order",
               "sync.Mutex operations are atomic and sequentially consistent"],
  trusted=["modelled, not verified: datarecording/datarecorder.go (InsertData, Flush/flushLocked, insertEntryForTable, getLocationID, "
           "flushLocationTable, Close), datarecording/datareader.go is used as the observer (Query, restoreStrLocation)",
           "verif-tagged hook datarecording.SetBatchSizeForVerif"],
  race=True, quick_shards=8,
  )
