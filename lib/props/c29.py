"""C29 — networks deliver every message exactly once with metadata intact."""
from props import P

P("C29",
  title="Networks deliver every message exactly once with metadata intact",
  design_ref="DESIGN.md §3 C29, §13 (network view)",
  technique="Coq-verified trace acceptor over device-port events (accepts tr = true -> Declarative tr) + trace inclusion of REAL "
            "network runs (mesh 2D/3D, PCIe trees, NVLink/PCIe hybrids, generic switch graphs; serial engine, scripted devices that "
            "send and drain, run to quiescence) + exact tie of the traffic inside the network to the C30/C31 models (flits per message, "
            "switches visited) + abstract bounded-channel network with arbitration oracle (conservation, deadlock freedom, termination)",
  level_text="Theorems: c29_accepts_sound (the acceptor every real run is checked against is sound for the declarative statement), with corollaries "
             "c29_metadata_intact (every receive is at the destination port and identical - ID, Src, Dst, RspTo, TrafficClass, TrafficBytes - to a strictly earlier send), "
             "c29_no_duplicates, c29_all_delivered_at_end; at the abstract level (bounded FIFO channels, arbitrary arbitration oracle, devices always accept) "
             "c29_conservation (nothing lost or duplicated under any schedule) and c29_delivery_progress (no deadlock under a channel ranking, every move brings a "
             "packet closer, every maximal execution hands every packet to its device exactly once, and one exists within measure moves); c29_mesh_channel_ranking "
             "discharges the ranking hypothesis for dimension-order mesh routing and c29_mesh_delivery_progress instantiates the abstract network with the mesh "
             "(one numbered bounded channel per switch output port, routes from the C30 model of FindPort): for every grid, capacities >= 1, message set and "
             "arbitration, executions are finite, never deadlock, conserve the messages and every maximal execution delivers every message exactly once; "
             "c29_tree_delivery_progress is the same for every tree (PCIe: nodes numbered in creation order with parent(v) < v, an up and a down channel per link, "
             "up-then-down shortest-path routing, depth-based channel ranking); c29_tree_routes_are_c30_tables proves that on every graph that is a tree up to node "
             "numbering the table C30's Floyd-Warshall model computes names, port-accurately, exactly the next node of that tree route (and its distance is the "
             "route length), so the tree theorem speaks about the tables the code computes; c29_tree_certificate_sound makes the tree hypotheses decidable and the "
             "check evaluates the certificate on the graph of every generated PCIe network. c29_buffer_series_refines_one_fifo / c29_buffer_series_progress prove that the "
             "series of bounded FIFO buffers a flit crosses between two arbitration points (send-out, port out, port in, pipeline stages, route, forward) refines ONE "
             "bounded FIFO of capacity = the sum (order kept, nothing lost or duplicated) and is as live as it; the check verifies on every run that one-lane switches "
             "keep per (input port, output port) arrival order. Every run of the check executes real mesh 2D/3D, PCIe, NVLink/PCIe and generic "
             "networks to quiescence, feeds the device-port event list to the acceptor inside Coq, and ties flit counts and switch paths of the real traffic to the C31/C30 models.",
  level_note="PARTIAL: the switch middlewares are not modelled line by line: each buffer on a flit's way is taken to be a bounded FIFO that hands its head on when "
             "the next has room (then the series is one FIFO channel by c29_buffer_series_refines_one_fifo, and the channel network is proved deadlock-free and exactly-once for "
             "meshes and trees); tick-level timing, the round-robin arbitration cursor and the tracing hooks are abstracted by the arbitration oracle. With more than one lane "
             "per port (NumInputChannel > 1: mesh bandwidth > 1, generic links with 2 channels) queueing.Pipeline can emit flits of one port in a different order than they "
             "entered (observed in most such runs, tag switch-reordered-flits); this does not affect exactly-once delivery (reassembly counts flits) but the FIFO refinement "
             "is then only a bounded-bag refinement, which is not formalised. Covered throughout by trace inclusion of real runs. NVLink hybrids and "
             "general graphs (rings can deadlock with bounded buffers) have no progress theorem, only the tie.",
  assumptions=["message IDs handed to the network are unique and the sending port is the message's Src (generator obligation, re-checked by the acceptor)",
               "devices keep draining their ports (the scripted devices drain 1-2 messages per port every 1-3 ticks)",
               "port names and traffic-class strings are interned as numbers",
               "a run that is still producing events after 50,000 cycles (normal runs quiesce within ~1,000) is cut, not closed by End, and therefore rejected",
               "configurations the connectors reject at build time (PCIe v1 x1: flit size rounds to 0; Ethernet links: non-ideal connections are unimplemented) are not generated"],
  trusted=["modelled abstractly, not verified: noc/networking/switching/switches (receivepipelinemw.go, routeforwardsendmw.go), "
           "directconnection; modelled exactly and tied: endpoint (C31), routing tables (C30), bandwidth-first router with ideal links"],
  quick_shards=8,
  )
