from props import P

P("C06",
  title="Checkpoint/restore at any time boundary is invisible",
  design_ref="DESIGN.md §3 C06",
  technique="Coq proof (bisimulation up to sequence renumbering over an abstract serial simulation, induction over run length) "
            "+ exact model/impl tie on scripted simulations + differential cut/save/rebuild/load/continue on library assemblies",
  level_text="c06_framework_invisible proves, for every world type, handler program, boundary and run length, that "
             "run-to-boundary; save (time + both queues in pop order + encoded world); load into a fresh simulation; run "
             "yields the same remaining trace, outcome and final state as the uninterrupted run, which is the concatenation "
             "(c06_restore_rebuilds_pop_order: re-pushing a pop-order snapshot re-assigns sequence numbers but reproduces the pop order; "
             "c06_renumbering_bisimulation). c06_heap_queue_refines_canonical proves that the heap-backed queue of C01 (Lib/Engine, tied exactly to timing/eventqueue.go) refines the canonical sorted queue for every push/pop sequence, so the framework theorems hold of the real queue structure; c06_heap_engine_run_refines_abstract / _run_until_ lift this to whole runs of the heap engine (same handled events, outcome, related end states for every handler program) and c06_heap_engine_checkpoint_invisible states the property on the heap engine itself (RunUntil any boundary; drain both heaps in pop order; re-push into fresh heaps; Run = the uninterrupted continuation) for every engine reachable from NewSerialEngine by Schedule calls (c06_heap_engine_from_new_related); c06_sorted_snapshot_is_pop_order: any strictly sorted permutation of the heap slice (what unsafeEventQueue.snapshot's sort.Slice returns) is that pop order. The abstract simulation (Lib/AbsSim) is tied exactly to timing.SerialEngine + "
             "simulation.SaveCheckpoint/LoadCheckpoint on scripted handler programs (full handled trace with event IDs, counters, ID counter). "
             "PARTIAL for library components: completeness of each component's State w.r.t. hidden Go fields is shown only by the "
             "differential (event-trace suffix incl. IDs + every entity's final payload equal) on ideal/banked memories, both cache "
             "families and the full virtual-memory stack, cut at 3 (quick) or 12 (thorough) sampled distinct event times plus between/beyond (scripts: 4 sampled / every event time).",
  level_note="Trusted: Coq kernel + vm_compute; Go harness (script interpreter, assemblies in harness/internal/asm, event-trace hook, "
             "archive reader); the world codec round trip is a hypothesis of the framework theorem (discharged per State type by C08); "
             "the heap inside timing.eventqueue is related to the canonical (time,seq)-sorted list by c06_heap_queue_refines_canonical (over C01's heap model).",
  assumptions=["component State JSON round trip (C08)", 
               "library assemblies are sampled, not proved"],
  trusted=["modelled, not verified: timing/serialengine.go (Schedule, Run, RunUntil, nextEvent), timing/eventqueue.go (abstracted), "
           "timing/serialengine_checkpoint.go, simulation/checkpoint.go (save/load order), timing/idgenerator_checkpoint.go (counter)",
           "library components (caches, memories, TLB/MMU, ports, connections, storage, page table) are covered by the differential only"],
  quick_shards=8,
  )
