"""C16 — memory hierarchies are transparent to requesters."""
from props import P

P("C16",
  title="Memory hierarchies are transparent to requesters",
  design_ref="DESIGN.md §3 C16, §13 Appendix E (memory requester view)",
  technique="Coq proof of the byte kernels (masked merge = flat write) with an exact tie through the real controllers/caches; "
            "Coq-verified requester-view acceptor (accepts_sound) with trace inclusion over random real assemblies",
  level_text="L0: merge_is_flat_write proves for every store/address/data/mask that the read-modify-write of the ideal controller, the banked memory and the "
             "(fixed) DRAM controller, and the in-line merges of both cache families, equal the flat masked write. "
             "L1: c16_ideal_transparent: the tick-level model of the ideal controller (tied tick by tick to the real component, incl. back-pressure) never produces a response the automaton rejects, for every schedule. "
             "L2: accepts_sound proves that every accepted requester-port history satisfies the declarative statement (fresh well-formed requests, "
             "byte-disjoint in flight; every response answers a request in flight with the matching kind, addressed to its sender; read data = the "
             "latest acknowledged write to each byte in acknowledgement order, zero if none; nothing unanswered at the end).",
  level_note="PARTIAL for whole components (the ideal controller is modelled exactly): the pipelines of the write-back and write-through caches, the ROB, the banked memory and the DRAM command "
             "scheduler are not modelled deterministically; the tie for them is trace inclusion: every requester-port history recorded from random real "
             "assemblies (compositions, geometries, interleaving, masks, PIDs, concurrency) must be accepted by the Coq acceptor (vm_compute).",
  assumptions=["no two in-flight requests touch the same byte (enforced by the recording agent at issue time, re-checked by the acceptor)",
               "one address space: a line is always accessed with the same PID",
               "latencies >= 1 for write-through pipelines (a 0-stage queueing.Pipeline never releases its items; see C15)"],
  trusted=["modelled, not verified: masked-write loops of idealmemcontroller/memmiddleware.go, simplebankedmemory/tickfinalizemw.go, dram/respondmw.go, "
           "cache/writeback/bankstage.go (writeData), writebufferstage.go (combineData), writethroughcache/bottomparser.go (mergeMSHRData), bankstage.go",
           "harness/internal/memasm (recording requester agent, assembly builder)"],
  )
