"""C19 — cache directories stay well-formed."""
from props import P

P("C19",
  title="Cache directories stay well-formed",
  design_ref="DESIGN.md §3 C19",
  technique="Coq proof of the directory kernels and of the guarded directory operations (invariant by induction over operation lists) "
            "+ exact kernel correspondence by vm_compute + runtime evaluation of the Coq predicate dir_wf on states of the real caches",
  level_text="The model mirrors mem/cache/directory_ops.go function by function (splitmix64 set index with 64-bit wrap, panics as None). "
             "Theorems c19_* prove: Reset yields a well-formed directory; Visit keeps each recency list a permutation of the ways; FindVictim returns "
             "the least-recently-used way that is neither locked nor read, and falls back to LRUOrder[0] (which the callers' guard then refuses) only when every way is busy; "
             "Lookup is sound and, in a well-formed directory, complete and unique; every guarded directory-level operation of the write-back cache (with the auxiliary invariant 'locked blocks are valid', needed because its bank stage re-validates) "
             "and of the write-through family preserves dir_wf, by induction over arbitrary operation lists; the pre-fix Invalidate and the pre-fix PID-keeping install are refuted.",
  level_note="PARTIAL for 'every reachable state of the real caches': the pipelines of writeback/ and writethroughcache/ (MSHR, bank stages, "
             "write buffer, flusher, control middleware) are not modelled; instead the Coq function dir_wf is evaluated on directory snapshots "
             "taken from real caches every few engine events under random workloads and control histories (a plain-Go replica watches every state and adds any state it dislikes to the samples); directed window sweeps (same-line re-access at every gap after a miss, "
             "cold / re-cooled caches, control verbs inside the fill window) are sampled after every handled event.",
  assumptions=["uint64 arithmetic of Go = arithmetic modulo 2^64; index-out-of-range and division by zero are the outcome None",
               "guards of the directory-level operations are those of directorystage.go / directory.go / writepolicy.go / bankstage.go (read from the code, "
               "not extracted): install only after a lookup miss into the FindVictim way when it is neither locked nor read; readers-- only after a readers++"],
  trusted=["modelled, not verified: mem/cache/directory_ops.go",
           "not modelled (runtime-checked only): which directory operations the cache pipelines issue and when"],
  )
