from props import P

P("C09",
  title="No lost wakeups: a simulation never stalls with deliverable messages",
  design_ref="DESIGN.md §3 C09",
  technique="Coq: executable whole-simulation model evaluated by vm_compute (exact trace tie with the real engine), concrete "
            "refutation witness, and an inductive invariant of a connection in an arbitrary environment, parametric in the tick guard",
  level_text="C09/Model.v is an executable model of a whole simulation: the serial engine's primary/secondary queues ((time, FIFO) "
             "order, primary first), TickScheduler.TickNow/TickLater with the dedup guard as repaired in /repo (GuardNew, fix f717b29c) "
             "or as it was (GuardOld), the event-driven pendingWakeup guard, DirectConnection ticks (Lib/Conn.v) with TickLater on "
             "progress, ports (Lib/Port.v) with all four callbacks routed as in the code, and scripted ticking / event-driven "
             "components (timer sends, relays, drain limits). c09_request_leaves_tick_pending (scheduler invariant: every "
             "TickNow/TickLater leaves a tick event pending), c09_inv and c09_quiescent_clean: for a connection in an ARBITRARY "
             "environment (any sends/retrievals on its ports by any components, any timing, any capacities), a deliverable outgoing "
             "head implies a pending tick, hence none exists at queue exhaustion (clause 1, every topology); they use C10's "
             "tick_progress and the port edge lemmas. c09_draining_component_clean (clause 2): for a draining component in an "
             "arbitrary environment, unread input implies a pending tick/wake-up event of that component. Regression: c09_old_refuted "
             "(the two-connection / event-driven-relay topology whose run under the old guard ended with both queues empty and a "
             "deliverable message stranded), c09_ticknow_old_refuted, c09_witness_repaired_clean; the witness input stays in "
             "corpus/C09 and in the directed set. c09_world_projects (C09/ProjectN.v, ContractN.v): for worlds with ANY number of connections (each port plugged into one), any "
             "components/scripts/capacities, and every connection x, every run of the executable world model is a run of the abstract "
             "connection system for x (x's ports as a sub-list of the global ports, x's scheduler, x's pending ticks), so the invariant "
             "and clause 1 carry over to the executable model with no checked hypothesis: the engine contract (nothing dispatched before "
             "the current time or past a pending tick; component events primary, connection events secondary) is proved an invariant of "
             "the model's own queues (c09_engine_contract_invariant). c09_world_projects_one_connection is the special case. c09_component_projects "
             "(C09/Drain.v, ProjectK.v) is the same for clause 2: for every harness-built world and every component k that drains its "
             "inputs (one drain/relay entry per port; no drain limit for an event-driven k, none or >= 1 for a ticking k), every "
             "un-halted run of the executable model is a run of the abstract draining-component system estep for k (k's incoming "
             "buffers, scheduler / pendingWakeup, pending events; the activation split into the individual RetrieveIncoming calls; "
             "everything else environment), so its invariant holds (c09_draining_component_steps_clean) and k's incoming buffers are "
             "all empty when no event of k is pending at the end; again with no checked hypothesis. Not covered: a scripted component "
             "that does not drain (drain limit 0 on a ticking one, any limit on an event-driven one) is outside clause 2; the coarse "
             "dstep system of c09_draining_component_clean is kept as an abstract statement and is not the target of a projection.",
  level_note="Trusted: Coq kernel + vm_compute; the Go harness (builds the topology with the real API, scripted Ticker / "
             "EventProcessor mirroring C09.Model.activate, engine BeforeEvent hook for the trace); the hand-written world model, tied "
             "by exact equality of the full (time, handler) trace and of every port's final state on 500 (quick) random topologies. "
             "The abstract connection-in-environment system of the invariant proof shares tick/port/scheduler definitions with the "
             "executable model; that runs of the executable model are runs of the abstract connection system is a theorem "
             "(c09_world_projects), and so is the same for the abstract draining-component system (c09_component_projects).",
  assumptions=["all handlers run on the serial engine; clock periods divide 10^12 ps; times stay far below 2^64 (no wrap: C42)",
               "every port has an owner and is plugged into exactly one direct connection; port names are distinct",
               "scripted components only: a component's activation = fire due timers, drain, flush (C09/Model.v activate); "
               "relays are cut after 3 hops so that relay cycles terminate",
               "the guard datum (lastHandledTime, hasHandledTick) is part of the component checkpoint; checkpoint/restore itself is C06/C07"],
  quick_shards=8,
  trusted=["modelled, not verified: modeling/ticker.go (TickNow, TickLater, TickingComponent.Handle/NotifyRecv/NotifyPortFree), "
           "modeling/eventdriven.go (ScheduleWakeAt/Now, Handle, NotifyRecv/NotifyPortFree), timing/serialengine.go (Schedule, "
           "nextEvent order), noc/directconnection/comp.go, messaging/port.go"],
  )
