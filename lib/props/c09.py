from props import P

P("C09",
  title="No lost wakeups: a simulation never stalls with deliverable messages",
  design_ref="DESIGN.md §3 C09",
  technique="Coq proof + exact model/impl correspondence by vm_compute",
  level_text="placeholder",
  level_note="placeholder",
  assumptions=[],
  trusted=[],
  )
