"""C13 — event-driven components wake no later than requested."""
from props import P

P("C13",
  title="Event-driven components wake no later than requested",
  design_ref="DESIGN.md §3 C13",
  technique="Coq proof (invariant of the pendingWakeup guard by induction over arbitrary request/notify/dispatch histories) "
            "+ exact model/implementation correspondence by vm_compute on per-component projections of runs of real "
            "EventDrivenComponents in a real SerialEngine",
  level_text="Model: one EventDrivenComponent (pendingWakeup with MaxUint64 = nothing pending, its queued timer events, "
             "ScheduleWakeAt, ScheduleWakeNow, NotifyRecv, NotifyPortFree, Handle resetting the guard before the processor runs, "
             "engine.Schedule's past-time panic after the guard was overwritten) against an adversarial environment. Theorems for "
             "every history: c13_guard_invariant (pendingWakeup != MaxUint64 -> a timer event with that time is queued; no queued "
             "event in the past), c13_no_later (after an accepted request for t, in every continuation the next processor run is at "
             "a time <= t, and until then an event <= t is queued and time has not passed t), c13_past_request_panics, "
             "c13_notify_now_or_earlier (after a notification the next run is at exactly the current instant), "
             "c13_notify_never_panics, c13_runs_monotone; regression lemmas for the mutations 'guard not reset in Handle' and "
             "'<= -> <', and the MaxUint64 non-dedup witness. Tie: scripted runs (1-3 components, optionally wired through real messaging ports and a real noc/directconnection so that notifications come from real deliveries/retrievals; processors issuing requests on "
             "themselves and each other, primary/secondary environment events, earlier/later/equal/repeated requests, past requests) "
             "projected per component (a run = an invocation of the processor, recorded by the processor itself, not the dispatch of a timer event) and replayed step by step; directed and random histories include wake requests of every kind (real Deliver -> NotifyRecv, real outgoing retrieval -> NotifyPortFree, ScheduleWakeNow, ScheduleWakeAt(now)) that reach a component at instant T after its processor already ran at T — from a poked zero-latency primary/secondary peer, a peer component handled later in the instant, or the connection's secondary tick — with and without a later wake-up pending (the processor must run again at T); holds_on re-evaluates both clauses on the observed history; c13_model_agreement_implies_property proves check_case -> holds_on.",
  level_note="Trusted: Coq kernel + vm_compute; the Go harness (engine wrapper, hooks, projection); the hand-written model of "
             "eventdriven.go. The engine contract is the legality condition of histories (checked by the replay on every real run, "
             "proved for the engine model under C01). Checkpoint save/load of the guard is out of scope (C06).",
  quick_shards=8,
  assumptions=["engine contract (C01): time never decreases, no pending event is skipped, each scheduled event is dispatched once"],
  trusted=["modelled, not verified: modeling/eventdriven.go (ScheduleWakeAt, ScheduleWakeNow, Handle, NotifyRecv, NotifyPortFree)",
           "not modelled: eventdriven_checkpoint.go, the component mutex"],
  )
