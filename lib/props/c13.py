"""C13 — event-driven components wake no later than requested."""
from props import P

P("C13",
  title="Event-driven components wake no later than requested",
  design_ref="DESIGN.md §3 C13",
  technique="Coq proof (invariant of the pendingWakeup guard by induction over arbitrary request/notify/dispatch histories) "
            "+ exact model/impl correspondence by vm_compute on projected histories of real EventDrivenComponents in a real SerialEngine",
  level_text="TBD",
  level_note="TBD",
  assumptions=["engine contract (C01): time never decreases, no pending event is skipped, each scheduled event is dispatched once"],
  trusted=["modelled, not verified: modeling/eventdriven.go"],
  )
