"""C34 — aggregate tracers compute exact statistics."""
from props import P

P("C34",
  title="Aggregate tracers compute exact statistics",
  design_ref="DESIGN.md §3 C34",
  technique="Coq proof (invariants over event histories; union length = number of covered unit instants) "
            "+ exact model/impl correspondence through the tracing API by vm_compute",
  level_text="Theorems c34_* prove, for every well-formed time-ordered stream of task start/end/tag events (any overlap "
             "structure, any durations), that the model of TotalTimeTracer reports the sum of the filtered tasks' durations, "
             "AverageTimeTracer floor(sum/count), BusyTimeTracer (at quiescence or after TerminateAllTasks) the number of "
             "unit instants covered by the union of the intervals, and TagCountTracer per name the number of tags and of "
             "distinct tracked tasks. The model (uint64 wrap, Go maps, list elements with stale pointers) is compared "
             "output-for-output with the real tracers fed through tracing.StartTask/EndTask/AddTaskTag on every run; "
             "c34_model_agreement_implies_property links the two case evaluators.",
  level_note="Trusted: Coq kernel + vm_compute; the Go harness (domain clock, CollectTrace, getters); the hand-written model "
             "of the four tracer files (tied by exact equality on well-formed and ill-formed streams).",
  assumptions=["a stream is time-ordered with unique task starts/ends and times < 2^64; sums of durations < 2^64",
               "the uint64 task counter of AverageTimeTracer does not wrap (needs 2^64 completed tasks)",
               "busy time is specified at quiescence (every tracked task ended) or after TerminateAllTasks"],
  trusted=["modelled, not verified: tracing/totaltimetracer.go, averagetimetracer.go, busytimetracer.go, tagcounttracer.go; "
           "locks are not modelled (single-threaded streams)"],
  )
