from props import P

P("C25",
  title="Address translation stacks translate correctly",
  design_ref="DESIGN.md §3 C25, §13 (translation view)",
  technique="Coq proof of the translator's address arithmetic (exact tie to the real address translator and TLB) + Coq-verified acceptor of the "
            "translation view with trace inclusion of histories recorded at every component boundary of real stacks",
  level_text="PARTIAL. Kernels, exact: c25_paddr_correct (for every page size 2^k, k<64, aligned frame, 64-bit vaddr: physical address = frame + vaddr mod 2^k, "
             "offset preserved, same frame; requested page = aligned page containing vaddr), c25_paddr_panics_refuted (k>=64 panics: modulo by 1<<k = 0), c25_model_agreement_implies_property (link of the two evaluators for translator probes); the "
             "model's at_vpage/at_paddr/tlb_set_id/inval_match are compared output-for-output with a real address translator and a real TLB on every run. "
             "Stacks, for every accepted history: c25_response_matches_request (every level's response answers a request delivered to that level, goes to its "
             "source, for the page containing the requested address), c25_page_current_or_permitted, c25_access_reaches_mapped_address (translated access = "
             "frame + offset of a current or not-yet-invalidated mapping), c25_invalidate_effective (after an acknowledged invalidation of (pid,page) and until it "
             "is remapped, only the current mapping is used), c25_answered (at the end every request of every level and every access is answered). Tie: histories "
             "of real stacks (address translator, 1-3 TLBs, optional MMU cache, MMU or GMMU) are evaluated by the acceptor inside Coq.",
  level_note="Unmodelled internals (tied by trace inclusion only): TLB pipeline/MSHR/LRU sets, MMU cache table, MMU/GMMU walk scheduling, address translator "
             "transaction table. Page-table updates are made with the stack quiescent before the Pause->Invalidate->Enable sequence of every caching level (an update "
             "racing with in-flight walks is outside what an acknowledged invalidation can cover); remaps without invalidation are exercised under traffic. "
             "All levels of a stack share one page size. Defects found here and fixed in /repo: MMU cache and GMMU answered with the wrong RspTo (requests never answered above them).",
  assumptions=["all components of a stack are configured with the same page size 2^k as the page table",
               "frames are aligned to the page size and below 2^64 - 2^k (otherwise the 64-bit sum wraps; the model has the wrap, the theorem excludes it)",
               "an invalidation is acknowledged when every caching level (each TLB, the MMU cache) has acknowledged its Invalidate"],
  trusted=["modelled as an abstract automaton, not verified: vm/tlb, vm/mmuCache, vm/mmu, vm/gmmu, vm/addresstranslator internals",
           "harness observation points: port hooks at each level's Top port and at the translator's Top/Bottom ports; the translator's own "
           "InflightReqToBottom table is read to pair a translated access with its top request"],
  quick_shards=4,
  )
