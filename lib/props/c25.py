from props import P

P("C25",
  title="Address translation stacks translate correctly",
  design_ref="DESIGN.md §3 C25, §13 (translation view)",
  technique="Coq proof of the translator's address arithmetic (exact tie to the real address translator and TLB) + Coq-verified acceptor of the "
            "translation view with trace inclusion of histories recorded at every component boundary of real stacks",
  level_text="PARTIAL. Kernels, exact: c25_paddr_correct (for every page size 2^k, k<64, aligned frame, 64-bit vaddr: physical address = frame + vaddr mod 2^k, "
             "offset preserved, same frame; requested page = aligned page containing vaddr), c25_paddr_panics_refuted (k>=64 panics), c25_model_agreement_implies_property and "
             "c25_kernel_agreement_implies_property (check_case -> holds_on for all kernel probes); at_vpage/at_paddr/tlb_set_id/inval_match are compared output-for-output with a real "
             "address translator and a real TLB on every run. Stacks, for EVERY accepted history (= every order and delay of the lower levels' answers): "
             "c25_response_matches_request, c25_page_current_or_permitted, c25_access_reaches_mapped_address, c25_invalidate_effective, c25_invalidate_effective_access, c25_answered, "
             "c25_answered_at_most_once, c25_translation_exactly_once (every translation request of every level: exactly one response, to its source, with its ID, for its page, with a current or "
             "not-yet-invalidated mapping), c25_access_exactly_once (every access: forwarded exactly once to frame+offset, then answered exactly once to its requester under its ID), "
             "c25_coalesced_one_below (below each TLB at most one request per (PID,page) is outstanding: coalesced lookups share one request below and are all answered). The acceptor is "
             "accepts_stack = translation view + identifiers never reused + the coalescing clause. Tie: histories of real stacks (address translator, 1-3 TLBs, optional MMU cache, MMU or GMMU), "
             "incl. directed 3-5-way coalesced misses with remap+invalidation in between, are evaluated by the acceptor inside Coq. The liveness half of 'exactly once' is the EEnd clause: "
             "the run is observed to reach engine quiescence (sampled per run); no fairness assumption is expressible in the trace model.",
  level_note="Unmodelled internals (tied by trace inclusion only): TLB pipeline/MSHR/LRU sets, MMU cache table, MMU/GMMU walk scheduling, address translator "
             "transaction table. Page-table updates are made with the stack quiescent before the Pause->Invalidate->Enable sequence of every caching level (an update "
             "racing with in-flight walks is outside what an acknowledged invalidation can cover); remaps without invalidation are exercised under traffic. "
             "All levels of a stack share one page size. Defects found here and fixed in /repo: MMU cache and GMMU answered with the wrong RspTo (requests never answered above them).",
  assumptions=["all components of a stack are configured with the same page size 2^k as the page table",
               "frames are aligned to the page size and below 2^64 - 2^k (otherwise the 64-bit sum wraps; the model has the wrap, the theorem excludes it)",
               "an invalidation is acknowledged when every caching level (each TLB, the MMU cache) has acknowledged its Invalidate"],
  trusted=["modelled as an abstract automaton, not verified: vm/tlb, vm/mmuCache, vm/mmu, vm/gmmu, vm/addresstranslator internals",
           "harness observation points: port hooks at each level's Top port and at the translator's Top/Bottom ports; the translator's own "
           "InflightReqToBottom table is read to pair a translated access with its top request"],
  quick_shards=4,
  )
