"""C30 — routing tables give loop-free shortest routes to every device."""
from props import P

P("C30",
  title="Routing tables give loop-free shortest routes to every device",
  design_ref="DESIGN.md §3 C30",
  technique="Coq proof (Floyd-Warshall invariant over walks with bounded intermediates, in-place loop = functional stage, "
            "descent of the computed distance along next hops; dimension-order descent for the mesh) + exact model/impl "
            "correspondence: real networks are built with the generic and mesh connectors, the real routing tables are read "
            "through routing.Table.FindPort and walked hop by hop over the wiring read back from the switches' port complexes",
  level_text="Theorems: c30_fw_is_functional (the in-place triple loop = the functional recurrence; panics iff some node has no remote), "
             "c30_fw_shortest (for EVERY finite graph the computed distance is the length of a shortest walk, 2n with a nil next hop iff unreachable), "
             "c30_next_hop_descends (next hop = neighbour through the recorded port, exactly one step closer), c30_route_loop_free_shortest "
             "(following the tables reaches every reachable node in dist hops, never repeating a node, and no walk is shorter), c30_tables_reach_every_device "
             "(for every sequence of connector calls leaving all switches connected to all devices EstablishRoute does not panic and walking the switches' tables "
             "port by port reaches the device after exactly dist switches, none twice), c30_mesh_manhattan "
             "(dimension-order routing stays in the grid and arrives after exactly Manhattan-distance hops), c30_reuse_equals_fresh (after fix 45fd431d a "
             "reused connector computes the routes of a fresh one, for every history), c30_reuse_old_refuted (pre-fix regression). The model is compared "
             "with the real routing tables, the real wiring and real hop-by-hop walks on every run.",
  level_note="Trusted: Coq kernel + vm_compute; the Go harness (builds real networks with the generic and mesh connectors, reads "
             "routing.Table.FindPort and State.PortComplexes back); the hand-written model of floydwarshall.go / connector.go / mesh_routing_table.go.",
  assumptions=["distances are Go uint32; the model uses unbounded naturals (no wrap below 2^29 nodes)",
               "a Go panic (index out of range, nil dereference) is the outcome None"],
  trusted=["modelled, not verified: networkconnector/floydwarshall.go, connector.go (node lists, NewNetwork, remote lists), "
           "mesh/mesh_routing_table.go FindPort and the direction wiring of mesh.go (tied by the real hop-by-hop walk); "
           "BandwidthFirstRouter is not modelled"],
  quick_shards=8,
  )
