"""C30 — routing tables give loop-free shortest routes to every device."""
from props import P

P("C30",
  title="Routing tables give loop-free shortest routes to every device",
  design_ref="DESIGN.md §3 C30",
  technique="Coq proof (Floyd-Warshall invariant over walks with bounded intermediates, in-place loop = functional stage, "
            "descent of the computed distance along next hops; dimension-order descent for the mesh) + exact model/impl "
            "correspondence: real networks are built with the generic and mesh connectors, the real routing tables are read "
            "through routing.Table.FindPort and walked hop by hop over the wiring read back from the switches' port complexes",
  level_text="under construction",
  level_note="under construction",
  assumptions=["distances are Go uint32; the model uses unbounded naturals (no wrap below 2^29 nodes)",
               "a Go panic (index out of range, nil dereference) is the outcome None"],
  trusted=["modelled, not verified: networkconnector/floydwarshall.go, connector.go (node lists, NewNetwork, remote lists), "
           "mesh/mesh_routing_table.go FindPort and the direction wiring of mesh.go (tied by the real hop-by-hop walk); "
           "BandwidthFirstRouter is not modelled"],
  quick_shards=8,
  )
