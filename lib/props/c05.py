"""C05 — Pause is a quiescent point."""
from props import P

P("C05",
  title="Pause is a quiescent point",
  design_ref="DESIGN.md §3 C05",
  technique="Coq small-step interleaving semantics (Lib/Lts.v: threads, atomic steps, mutex, atomic flag, condition variable; "
            "scheduler oracle) of SerialEngine.Run/waitForResume/Pause/Continue and ParallelEngine.Run/tempWorkerRun/Pause/Continue; "
            "invariants by induction over every oracle; trace acceptors; deterministic channel-handshake replay on both real engines",
  level_text="c05_parallel_quiescent: for every program, initial queue, alternating Pause/Continue script and EVERY interleaving, "
             "no handler is executing when Pause returns and none starts before Continue is called (pause lock held across the round); "
             "c05_two_pausers_quiescent: the same with TWO pauser goroutines whose Pause calls may overlap a round (lock owner explicit), for every interleaving; c05_two_pausers_flag_refuted: an 'already paused' flag swapped before pauseLock lets the second Pause return under an executing handler. c05_monitor_alternates: the monitor only issues alternating scripts. c05_serial_refuted: two witness interleavings on the "
             "serial engine (flag loaded 0 -> Pause returns -> handler starts; Pause returns while a handler runs) — confirmed on the "
             "real engine by handshake replay (known finding). c05_serial_at_most_one: what the serial engine does guarantee, for every "
             "interleaving. c05_continue_live (serial): events are conserved (handled = scheduled as multisets when Run returns) and, "
             "for every finite program, from any reachable state with the controller finished and the flag clear the engine reaches the end of Run (the waiter holds pauseMu from its re-check of the flag until it is registered on the condition variable); c05_serial_nolock_lost_wakeup_refuted: Pause/Continue without pauseMu lose the wake-up (deadlocked witness state). The tie includes a liveness stress (thousands of Pause/spin/Continue cycles with a progress watchdog, in a subprocess).",
  level_note="partial: Go's sync.Mutex / sync.Cond / sync/atomic / WaitGroup / channel semantics are assumed (each modelled step atomic, "
             "sequentially consistent); real interleavings are replayed for specific schedules and sampled under stress, not enumerated. "
             "The parallel model merges check-out, pop and goroutine spawn of a round into one step (justified in C04's finer model).",
  assumptions=["Go memory model: sync.Mutex, sync.Cond, atomic.Load/StoreInt32, WaitGroup and channel operations are atomic and sequentially consistent at the modelled granularity",
               "event queues behave as time-ordered FIFO lists (heap correctness is C01's subject)",
               "the label log order is the order of the logging calls (one mutex-protected append)"],
  trusted=["modelled, not verified: timing/serialengine.go (Run, RunUntil shares the loop, waitForResume, dispatchNext, Pause, Continue), "
           "timing/parallelengine.go (Run, runRound, tempWorkerRun, Pause, Continue), monitoring2/monitor.go (pauseEngine, continueEngine, pauseForInspection)",
           "goroutine-stack polling (runtime.Stack) used to detect 'engine parked / blocked on the pause lock'"],
  quick_shards=4,
  )
