from props import P

P("C43",
  title="Spec/State validation admits only losslessly serializable types",
  design_ref="DESIGN.md §3 C43, §2.4 Lib/Json.v",
  technique="Coq proof over a type universe (reflect descriptors) with an executable model of encoding/json + exact model/impl "
            "correspondence on generated types and values by vm_compute",
  level_text="placeholder",
  level_note="placeholder",
  assumptions=[],
  trusted=[],
  )
