from props import P

P("C43",
  title="Spec/State validation admits only losslessly serializable types",
  design_ref="DESIGN.md §3 C43, §2.4 Lib/Json.v",
  technique="Coq proof over a universe of reflect type descriptors with an executable model of encoding/json "
            "(Lib/Json.v, lossless_sound) and of the reflective walk of modeling/validate.go; exact model/impl "
            "correspondence on reflect.StructOf-generated and hand-written types and random values by vm_compute",
  level_text="c43_sound_on_plain: for EVERY type descriptor accepted by the model of ValidateSpec/ValidateState that is plain (no "
             "unexported non-skipped field, no omitempty on a slice/map, no two fields sharing a JSON name after embedded "
             "promotion, no ,string option, only the hand-modelled custom marshalers) and EVERY well-formed value, "
             "decode(encode v) = Some v (via Lib/JsonProofs.lossless_sound, induction over types and values, no size bound). "
             "c43_rejects_contains_hidden / c43_rejects_hidden_state: a struct whose state is invisible to the encoder (only unexported "
             "fields, or exported ones tagged json:\"-\", or embedded structs without exported fields) is rejected wherever it "
             "occurs in the checkpointed part — top, field, slice/array/map element, behind pointer-receiver JSON methods "
             "(c43_rejects_hidden(+_nested,_in_slice) are the all-unexported special cases); c43_rejects_disallowed_kind, c43_spec_rejects_nested_struct. The unrestricted "
             "statement is FALSE of the code: c43_mixed_fields_refuted, c43_duplicate_name_refuted, c43_omitempty_refuted give "
             "accepted-yet-lossy witnesses (recorded known findings F-C43-1..3; the generator always includes them). "
             "c43_model_agreement_implies_property links check_case to holds_on on plain types.",
  level_note="Trusted: Coq kernel + vm_compute; the hand-written models of encoding/json (Lib/Json.v) and of validate.go "
             "(C43/Model.v), both tied on every run: each generated type goes through the real ValidateSpec/ValidateState and 2-3 "
             "random values of it through the real json.Marshal/Unmarshal, compared exactly with the model's verdict and "
             "round-trip result; the reflect.Type -> descriptor translator (harness/internal/jm). Not modelled: the ,string "
             "option (flagged, excluded from plain; omitzero IS modelled), case-insensitive key matching and duplicate object keys on "
             "decode (never produced by the encoder), float text (opaque tokens), recursive types as values: since fix e1ef1362 the validator rejects a type that "
             "contains itself (before it, the walk never returned: F-C43-4); hand-written recursive types (through a slice, a map, "
             "mutually through an array of slices) are validated in a child process with a 1 MiB stack bound and a deadline, their "
             "back-edge is the descriptor TOther, which the model rejects.",
  assumptions=["a Go value is represented by its tree of field values; slices/maps distinguish nil from empty; map values are "
               "listed in the order encoding/json emits them (sorted by key text)",
               "well-formed values: integers within their kind, strings valid UTF-8, floats finite and not -0 "
               "(opaque tokens), json:\"-\" fields are outside the value by the code's own declaration"],
  trusted=["modelled, not verified: modeling/validate.go (validateValue, validateFieldType, validateStructType, "
           "serializesToEmpty); encoding/json Marshal/Unmarshal for the kinds the validator accepts (Lib/Json.v)",
           "reflect.StructOf cannot build embedded unexported structs or methods: those shapes are hand-written types in "
           "harness/internal/c43"],
  )
