"""C12 — ticking components tick on clock edges, once per instant, while busy."""
from props import P

P("C12",
  title="Ticking components tick on clock edges, once per instant, while busy",
  design_ref="DESIGN.md §3 C12",
  technique="Coq proof (invariant of the TickScheduler dedup guard by induction over arbitrary call/dispatch histories; clock "
            "arithmetic imported from the C42 model and its exactness lemmas) + exact model/implementation correspondence by "
            "vm_compute on per-component projections of runs of real TickingComponents in a real SerialEngine",
  level_text="Model: one TickScheduler/TickingComponent (hasScheduledTick, nextTickTime, lastHandledTime/hasHandledTick, its queued tick events, TickNow, TickLater, "
             "NotifyRecv, NotifyPortFree, Handle with an arbitrary progress bit, engine.Schedule's past-time panic, uint64 wrap) "
             "against an adversarial environment that advances engine time, issues calls (also from inside Tick()) and dispatches "
             "the earliest tick event. Theorems, for every frequency 1 Hz..1 THz and every such history whose next clock edges are "
             "representable: c12_on_edge (tick times are multiples of the period), c12_once_per_instant and "
             "c12_no_duplicate_tick_events (strictly increasing tick times; no two queued tick events share a time), "
             "c12_progress_reticks (after Tick() returned true the NEXT tick is exactly at the next edge and cannot be skipped), "
             "c12_notify_later_edge (after NotifyRecv/NotifyPortFree/TickLater the tick at the next edge is dispatched or still "
             "queued with time not beyond it, and no tick lies strictly in between), c12_no_panic; c12_on_edge_once_per_instant_all_histories (clauses 1-2 for EVERY legal non-panicking history over 64-bit times, wrap-around of ThisTick/NextTick included, no range hypothesis); c12_tick_now_where (TickNow as repaired by fix f717b29c: a tick at this edge or the next one is queued after every call, "
             "also in the instant whose tick already ran - witness c12_tick_now_after_handled_next_edge_witness; the pre-fix drop is "
             "kept as regression lemma c12_tick_now_old_refuted, cf. F-C09-1); "
             "regression lemmas refute the mutations >= -> > and NextTick -> ThisTick and show the silent stop at the 2^64 wrap. "
             "Tie: scripted multi-component runs (1-4 components, mixed and non-dividing periods, primary/secondary, self calls, optionally real messaging ports and a real noc/directconnection whose own TickScheduler is projected and replayed too, "
             "duplicate same-instant requests, overflow panics) are projected per component and replayed step by step by the model "
             "(every Schedule call, every dispatched tick time, legality of every step, empty queue at completion); holds_on "
             "re-evaluates the four clauses on the observed history without the model.",
  level_note="Trusted: Coq kernel + vm_compute; the Go harness (engine wrapper recording Schedule calls, engine hooks recording "
             "dispatches, projection per component); the hand-written model of ticker.go. The engine is not modelled here: its "
             "contract (time monotone, no pending event skipped, each event dispatched once, handlers not re-entered) is the legality "
             "condition of histories, checked on every real run by the replay and proved for the engine model under C01. "
             "c12_model_agreement_implies_property proves check_case -> holds_on for cases inside the representable range (wf_case). Checkpoint restore of the guard is out of scope (C06).",
  quick_shards=8,
  assumptions=["engine contract (C01): time never decreases, no pending event is skipped, each scheduled event is dispatched once, handlers are not re-entered",
               "clauses 3-4 (and the link theorem) quantify over histories in which every engine time t has least_multiple_gt(period, t) < 2^64; beyond that the code wraps and silently stops re-ticking (modelled, tied, witnessed); clauses 1-2 are also proved without this hypothesis"],
  trusted=["modelled, not verified: modeling/ticker.go (TickScheduler.TickNow/TickLater, TickingComponent.NotifyRecv/NotifyPortFree/Handle); timing/freq.go via C42's model",
           "not modelled: TickScheduler.snapshot/restore (checkpoint), the mutex (serial engine: single goroutine)"],
  )
