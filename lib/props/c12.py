"""C12 — ticking components tick on clock edges, once per instant, while busy."""
from props import P

P("C12",
  title="Ticking components tick on clock edges, once per instant, while busy",
  design_ref="DESIGN.md §3 C12",
  technique="Coq proof (invariant of the TickScheduler dedup guard by induction over arbitrary call/dispatch histories, "
            "clock arithmetic from the C42 model) + exact model/impl correspondence by vm_compute on projected histories "
            "of real TickingComponents in a real SerialEngine",
  level_text="TBD",
  level_note="TBD",
  assumptions=["engine contract (C01): time never decreases, no pending event is skipped, each scheduled event is dispatched once, handlers are not re-entered"],
  trusted=["modelled, not verified: modeling/ticker.go"],
  )
