from props import P

P("C01",
  title="Serial engine dispatches every event once, in time/phase/FIFO order",
  design_ref="DESIGN.md §3 C01",
  technique="Coq proof over an executable model of eventHeap/unsafeEventQueue/SerialEngine (Lib/Engine.v) for all handler "
            "programs + exact trace correspondence with timing.SerialEngine by vm_compute",
  level_text="(stage a) model and exact tie; theorems follow",
  level_note="Trusted: Coq kernel + vm_compute; the Go harness (script interpreter, trace recording); the hand-written model.",
  quick_shards=8,
  assumptions=["nextSeq and event times are unbounded naturals (a uint64 wrap needs 2^64 pushes / times near 2^64)"],
  trusted=["modelled, not verified: timing/eventqueue.go (eventHeap, unsafeEventQueue), timing/serialengine.go (Schedule, Run, RunUntil, dispatchNext, nextEvent, nextEventTime)"],
  )
