from props import P

P("C01",
  title="Serial engine dispatches every event once, in time/phase/FIFO order",
  design_ref="DESIGN.md §3 C01",
  technique="Coq proof over an executable model of eventHeap/unsafeEventQueue/SerialEngine (Lib/Engine.v) for all handler "
            "programs + exact trace correspondence with timing.SerialEngine by vm_compute",
  level_text="Theorems c01_* hold for EVERY event type, EVERY handler program H that never schedules in the past, every engine state "
             "satisfying the invariant e_ok (any initial Schedule calls give one: c01_initial_schedule_ok) and runs of any length: "
             "c01_exactly_once (handled entries are a permutation of queued-at-start + scheduled, identities distinct), c01_time_monotone, "
             "c01_handled_is_due_first / c01_primary_before_secondary (a secondary at t is handled only when every pending primary, incl. ones "
             "spawned at t, is later), c01_fifo_same_class + c01_seq_is_schedule_order + c01_fifo_schedule_order, c01_run_returns_empty, "
             "c01_no_panic_invariant_kept, c01_schedule_past_panics, c01_set_current_time (clock moved after the due event => dispatchNext panics, event dropped). "
             "c01_scripts_are_programs + c01_scripts_terminate: the scripts of the tie satisfy the hypotheses and end within the model's fuel. "
             "c01_model_agreement_implies_property links Exec.check_case to Exec.holds_on on well-formed cases. The binary heap is modelled with the code's index arithmetic and proved: "
             "c01_heap_push / c01_heap_pop_min (shape invariant kept, pop returns the (time,seq)-minimum) and c01_heap_refines_sorted (push = sorted "
             "insertion, pop = head, drain = sorted list). The model is compared step-for-step with timing.SerialEngine on every run "
             "(handled event, clock, returned Schedule calls, outcome incl. panic, queued events after via SaveCheckpoint).",
  level_note="Trusted: Coq kernel + vm_compute; the Go harness (script interpreter on the Go side, trace recording through hooks/handlers, checkpoint parsing); "
             "the hand-written model of eventqueue.go/serialengine.go (tied by exact trace equality). holds_on is an independent reference "
             "priority-queue walk over the observed trace (keyed by the harness' uids); the link theorem covers well-formed cases (no negative offset, clock not set past a queued event).",
  quick_shards=8,
  assumptions=["nextSeq and event times are unbounded naturals (a uint64 wrap needs 2^64 pushes / times near 2^64)",
               "handlers only call Schedule/CurrentTime on the engine (no Pause/SetCurrentTime/nested Run) and every event targets a registered handler",
               "single-threaded use: no concurrent Schedule while Run executes (C05 covers Pause)"],
  trusted=["modelled, not verified: timing/eventqueue.go (eventHeap, unsafeEventQueue), timing/serialengine.go (Schedule, Run, RunUntil, dispatchNext, nextEvent, nextEventTime)"],
  )
