from props import P

P("C20",
  title="Storage is a bounded flat byte array",
  design_ref="DESIGN.md §3 C20",
  technique="Coq proof (refinement of the unit-map model to a flat write log, induction over histories) + exact model/impl correspondence by vm_compute",
  level_text="Theorems c20_* prove, for every capacity, every unit size > 0 and every history of reads, writes, checkpoint "
             "round trips into a fresh storage, saves kept aside and restored later into the current dirty storage (rollback), truncated and re-shaped checkpoint loads (induction over the history, refinement relation Ref): every "
             "result of the model of mem.Storage equals that of a zero-initialised flat array of `capacity` bytes in which an access "
             "with addr+len > capacity (computed without wrap) is an error leaving the state unchanged, and the contents agree at "
             "every address (c20_flat); results do not depend on the unit size (c20_unit_size_irrelevant); rejected accesses return "
             "the same storage (c20_out_of_range_errors); save is independent of map iteration order and load(save) reproduces the "
             "contents (c20_checkpoint_roundtrip); a stream loaded into ANY storage of the same shape replaces its contents (c20_load_replaces); strict prefixes and foreign shapes are rejected (c20_bad_stream_rejected). "
             "c20_*_old_refuted are regression lemmas for the pre-fix code. The model is compared operation by operation with "
             "mem.Storage on every run; holds_on evaluates the flat array only; c20_model_agreement_implies_property links them.",
  level_note="Trusted: Coq kernel + vm_compute; the Go harness; the hand-written model of storage.go / storage_checkpoint.go "
             "(tied by exact equality incl. the checkpoint byte stream). Not modelled: the mutexes (single-threaded histories), "
             "in-range reads longer than 2^20 bytes are not executed against the implementation.",
  assumptions=["uint64 arithmetic of Go = arithmetic modulo 2^64; `addr % 0` is a run-time panic"],
  quick_shards=8,
  trusted=["modelled, not verified: mem/storage.go, mem/storage_checkpoint.go"],
  )
