from props import P

P("C20",
  title="Storage is a bounded flat byte array",
  design_ref="DESIGN.md §3 C20",
  technique="Coq proof (refinement of the unit-map model to a flat write log, induction over histories) + exact model/impl correspondence by vm_compute",
  level_text="see Property.v",
  level_note="",
  assumptions=["uint64 arithmetic of Go = arithmetic modulo 2^64; `addr % 0` is a run-time panic"],
  quick_shards=8,
  trusted=["modelled, not verified: mem/storage.go, mem/storage_checkpoint.go"],
  )
