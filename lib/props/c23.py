"""C23 — data movers copy exactly the requested range."""
from props import P

P("C23",
  title="Data movers copy exactly the requested range",
  design_ref="DESIGN.md §3 C23",
  technique="Coq proof over an executable model of the chunk buffer and of the transfer steps with an adversarial memory "
            "environment + exact correspondence by vm_compute (helper functions through a verif export; the real component "
            "tick by tick between two scripted byte memories); refutation witnesses for the known findings",
  level_text="Proved for every script of the model (any moves, any order/delay of the two memories, any back-pressure): "
             "c23_serial_one_ack (arrived moves = acknowledged ++ in-progress ++ waiting, in order; each ack carries the ID of the "
             "move it closes and goes to its requester; no move acknowledged twice; one at a time, also with arbitrary injected "
             "responses); when every ByteSize is a multiple of both granularities, c23_nothing_else_written and "
             "c23_transfer_structure; and c23_copy_exact / c23_copy_exact_in_domain (when an acknowledgment is sent the destination "
             "range holds exactly the bytes of the source range, for every order in which the memories answer) with "
             "c23_source_stable (the source range is not written while the move is in progress, so these are the bytes held at "
             "acceptance) for every move that is between the two sides OR inside one side with non-overlapping ranges. "
             "c23_domain_is_complement_of_findings: for accepted moves the hypothesis of the copy theorem is exactly the negation "
             "of the three known-finding shapes (F-C23-1 size not a multiple, F-C23-2 buffer below a granularity, F-C23-3 same "
             "side overlapping), each with its _refuted witness confirmed on the real component. The run-time classifier of F-C23-2 is "
             "NARROWER than the theorem's cls_buffer: it matches only a buffer below the DESTINATION granularity (the recorded defect); "
             "a buffer below the SOURCE granularity streams correctly on the real code, is outside the proved domain, and is covered by "
             "directed and random cases of the tie (a failure there is reported, not classified). Model and implementation are "
             "compared exactly: every helper result (incl. panics), and per tick all drained requests with their generated IDs, "
             "acknowledgments, progress and active flags, the memory images at every acknowledgment and at the end. "
             "F-C23-3 is left as a known finding: rejecting overlapping same-side moves at parse time would turn moves that work "
             "today (destination below the source, or a buffer that holds the whole range) into panics, and reading the whole "
             "source before the first write deadlocks whenever ByteSize exceeds BufferSize. The real repair is a direction-aware "
             "(descending) copy for forward overlaps, which changes readFromSrc, writeToDst and the forward-only sliding buffer "
             "(bufferMoveOffsetForwardTo) - well beyond a 20-line patch.",
  level_note="Trusted: Coq kernel + vm_compute; the Go harness (scripted memories, verif export wrappers that only convert types); "
             "the hand-written model of comp.go / ctrlparsemw.go / datatransfermw.go.",
  assumptions=["no control traffic (the data mover stays Enabled); single-port mappers on both sides",
               "the memories answer every read with their current content and apply every write when they answer it, "
               "each request answered exactly once, in any order and after any delay",
               "c23_copy_exact / c23_source_stable: no responses are injected (the memories answer exactly the requests they were sent), "
               "nobody but the data mover writes the two memories",
               "sequential ID generator; tracing calls are no-ops without hooks (checked by the exact ID tie)"],
  trusted=["modelled, not verified: mem/datamover/comp.go (buffer helpers, alignAddress, resolveByteGranularity), ctrlparsemw.go "
           "(parseFromCP, finishTransaction), datatransfermw.go (Tick and the four steps); ctrlmiddleware.go is not modelled"],
  )
