"""C23 — data movers copy exactly the requested range."""
from props import P

P("C23",
  title="Data movers copy exactly the requested range",
  design_ref="DESIGN.md §3 C23",
  technique="Coq proof over an executable model of the chunk buffer and of the transfer steps with an adversarial memory "
            "environment + exact correspondence by vm_compute (helper functions through a verif export; the real component "
            "tick by tick between two scripted byte memories); refutation witnesses for the known findings",
  level_text="Proved for every script of the model (any moves, any order/delay of the two memories, any back-pressure): "
             "c23_serial_one_ack (arrived moves = acknowledged ++ in-progress ++ waiting, in order; each ack carries the ID of the "
             "move it closes and goes to its requester; no move acknowledged twice; one at a time, also with arbitrary injected "
             "responses); when every ByteSize is a multiple of both granularities, c23_nothing_else_written (every write request "
             "lies inside the destination range of an arrived move, on its destination side) and c23_transfer_structure; and for "
             "moves between the two sides with ranges inside the memories and memories that answer exactly the requests they were "
             "sent: c23_copy_exact (when an acknowledgment is sent the destination range holds exactly the bytes of the source "
             "range, for every order in which the memories answer) and c23_source_stable (the source memory is not written while "
             "the move is in progress, so these are the bytes held at acceptance). c23_unaligned_size_refuted, "
             "c23_small_buffer_refuted and c23_same_side_overlap_refuted (same-side move onto an overlapping range: smeared copy, "
             "F-C23-3) are the confirmed defects; same-side moves with disjoint ranges are covered by the tie only. Model and implementation are compared exactly: every helper "
             "result (incl. panics), and per tick all drained requests with their generated IDs, acknowledgments, progress and "
             "active flags, the memory images at every acknowledgment and at the end.",
  level_note="Trusted: Coq kernel + vm_compute; the Go harness (scripted memories, verif export wrappers that only convert types); "
             "the hand-written model of comp.go / ctrlparsemw.go / datatransfermw.go.",
  assumptions=["no control traffic (the data mover stays Enabled); single-port mappers on both sides",
               "the memories answer every read with their current content and apply every write when they answer it, "
               "each request answered exactly once, in any order and after any delay",
               "c23_copy_exact / c23_source_stable: moves go from one side to the other (same-side moves are covered by the tie only), "
               "no responses are injected, nobody but the data mover writes the two memories",
               "sequential ID generator; tracing calls are no-ops without hooks (checked by the exact ID tie)"],
  trusted=["modelled, not verified: mem/datamover/comp.go (buffer helpers, alignAddress, resolveByteGranularity), ctrlparsemw.go "
           "(parseFromCP, finishTransaction), datatransfermw.go (Tick and the four steps); ctrlmiddleware.go is not modelled"],
  )
