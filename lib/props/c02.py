from props import P

P("C02",
  title="RunUntil boundaries do not change what runs or in what order",
  design_ref="DESIGN.md §3 C02",
  technique="Coq proof over the executable engine model (Lib/Engine.v: run_until, run, run_segments) for all handler programs and "
            "all boundary lists + exact correspondence with timing.SerialEngine.RunUntil/Run by vm_compute",
  level_text="(stage a) model and exact tie; theorems follow",
  level_note="Trusted: Coq kernel + vm_compute; the Go harness (script interpreter, trace recording); the hand-written model.",
  quick_shards=8,
  assumptions=["nextSeq and event times are unbounded naturals (a uint64 wrap needs 2^64 pushes / times near 2^64)"],
  trusted=["modelled, not verified: timing/serialengine.go (RunUntil, Run, nextEventTime, dispatchNext, nextEvent, Schedule), timing/eventqueue.go"],
  )
