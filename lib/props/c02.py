from props import P

P("C02",
  title="RunUntil boundaries do not change what runs or in what order",
  design_ref="DESIGN.md §3 C02",
  technique="Coq proof over the executable engine model (Lib/Engine.v: run_until, run, run_segments) for all handler programs and "
            "all boundary lists + exact correspondence with timing.SerialEngine.RunUntil/Run by vm_compute",
  level_text="c02_concat: for EVERY handler program (even panicking ones), engine state and boundary list (any order, repeats), if a single Run "
             "ends within the fuel bound then RunUntil b1;..;RunUntil bk;Run ends too, all calls but the last return, the concatenated logs "
             "equal the single Run's log and the final outcome/handler state/engine state are equal (induction over the boundary list with "
             "c02_run_until_split). c02_segment_exact: for programs that never schedule in the past, a returning RunUntil(t) handled exactly the "
             "entries with time <= t among queued-before + scheduled-during, left exactly the later ones queued, clock = last handled time; "
             "c02_driver_segments_exact chains this over the driver; c02_run_until_safe; c02_concat_scripts discharges the fuel hypothesis for every script "
             "of the tie; c02_model_agreement_implies_property links Exec.check_case to Exec.holds_on on well-formed cases. The model is compared with timing.SerialEngine "
             "(segments and a fresh single Run: steps, clock, queued events after every call, outcome).",
  level_note="Trusted: Coq kernel + vm_compute; the Go harness (script interpreter on the Go side, trace recording, checkpoint parsing); the hand-written "
             "model of serialengine.go (tied by exact equality). holds_on checks the observed segments against the observed single Run, independent of the model.",
  quick_shards=8,
  assumptions=["nextSeq and event times are unbounded naturals (a uint64 wrap needs 2^64 pushes / times near 2^64)",
               "handlers only call Schedule/CurrentTime on the engine; single-threaded use (no Pause during the calls)"],
  trusted=["modelled, not verified: timing/serialengine.go (RunUntil, Run, nextEventTime, dispatchNext, nextEvent, Schedule), timing/eventqueue.go"],
  )
