from props import P

P("C14",
  title="Buffers behave as bounded FIFO queues",
  design_ref="DESIGN.md §3 C14",
  technique="Coq proof (refinement of a slice-level model of queueing.Buffer[T] to a bounded FIFO list, by induction over "
            "operation histories; invariants; trace-level FIFO law) + exact model/impl correspondence by vm_compute",
  level_text="Lib/Fifo.v models Buffer[T] at the level of Go slice values (nil vs empty slice, int capacity incl. 0 and negative, "
             "log.Panic as an explicit outcome). c14_refines_bounded_fifo proves, for every history of the 16 operations "
             "(Push/Pop/Peek/UpdateFront/Clear/Elements/Restore/Size/Capacity/CanPush/Name/Marshal/Unmarshal/rejected JSON/"
             "JSON round trip/snapshot+restore) from every state, that every result and the stored (name, cap, contents) equal "
             "those of the abstract bounded list; c14_bounded (contents <= capacity at every point), c14_push (refused iff full, "
             "else appended), c14_pop_peek (oldest element / zero value), c14_fifo_order (initial ++ accepted pushes = popped ++ "
             "final, over all push/pop/peek/query histories), c14_update_front_clear, c14_json_roundtrip (exact, incl. null vs []), "
             "c14_snapshot_restore (under the guard Restore imposes) and c14_oversize_json_guard_needed (witness that UnmarshalJSON "
             "admits an oversize object on which Restore panics - the C07 defect seen from the buffer). "
             "c14_model_agreement_implies_property links the exact tie to the specification acceptor used as holds_on.",
  level_note="Trusted: Coq kernel + vm_compute; the Go harness (runs the history on a real Buffer[uint64], recovers panics, parses "
             "MarshalJSON output into (name, cap, null-or-array)); the hand-written model of buffer.go/buffer_json.go, tied by exact "
             "call-by-call equality on directed per-capacity scripts and random histories. Hooks (HookPosBufPush/Pop) are not modelled.",
  assumptions=["buffer names are valid UTF-8 (encoding/json replaces invalid bytes by U+FFFD, so such a name would not survive a JSON round trip)",
               "element type is instantiated at uint64 in the tie (the Go code is parametric in T; the model is parametric in A and its zero value)",
               "a single goroutine uses the buffer and Buffer values are not copied while in use (a copy shares the backing array)"],
  quick_shards=8,
  trusted=["modelled, not verified: queueing/buffer.go (all methods), queueing/buffer_json.go; encoding/json is used as a black box at the DTO level"],
  )
