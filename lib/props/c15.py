from props import P

P("C15",
  title="Pipelines conserve items, respect lanes and never strand an item",
  design_ref="DESIGN.md §3 C15",
  technique="Coq proof (invariants and a one-tick progress lemma over the two-phase Tick, induction over rounds) + exact model/impl correspondence by vm_compute",
  level_text="Theorems c15_* prove, for every lane width, stage count >= 1, per-item delay, accept pattern (each attempt guarded by "
             "CanAccept) and sink oracle (one arbitrary boolean per CanPush call), by induction over the rounds of a history: "
             "no two records share a (stage, lane) in any snapshot (c15_lane_exclusive, via exactness of the occupancy table through "
             "the passes of advanceItems); accepted = pushed + resident as multisets, hence exactly once for distinct items "
             "(c15_conservation, c15_exactly_once); with a ready sink one Tick pushes exactly the due records and advances every "
             "other record by one step (c15_tick_ready_exact), so an item leaves stages+delay ticks after acceptance (c15_latency) "
             "and from any reachable state every record leaves within (stages-1-stage)+cycles ready ticks (c15_eventually_leaves); "
             "a one-lane pipeline is FIFO (c15_fifo_width1). c15_single_stage_dwell_old_refuted is the regression lemma for the "
             "pre-fix code. The model (two-phase Tick with swap removal, occupancy passes) is compared round by round with "
             "queueing.Pipeline (accept flags, pushes, moved flag, Stages() snapshot). holds_on evaluates lane exclusivity, per-round "
             "conservation, latency (lower bound always, exact under ready rounds), progress from every observed snapshot and FIFO on the "
             "implementation's observations; c15_model_agreement_implies_property proves that agreement with the model implies the whole predicate (delays >= 0); c15_never_early is the latency lower bound for any sink.",
  level_note="Trusted: Coq kernel + vm_compute; the Go harness (scripted sink); the hand-written model of pipeline.go. "
             "Accept without a free lane is outside the API contract and not modelled; JSON restore of hand-made states is out of scope.",
  quick_shards=8,
  assumptions=["Accept/AcceptWithDelay are called only when CanAccept() is true (every caller in the repository does so)"],
  trusted=["modelled, not verified: queueing/pipeline.go"],
  )
