from props import P

P("C15",
  title="Pipelines conserve items, respect lanes and never strand an item",
  design_ref="DESIGN.md §3 C15",
  technique="Coq proof (invariants and a one-tick progress lemma over the two-phase Tick, induction over rounds) + exact model/impl correspondence by vm_compute",
  level_text="see Property.v",
  level_note="",
  quick_shards=8,
  assumptions=["Accept/AcceptWithDelay are called only when CanAccept() is true (every caller in the repository does so)"],
  trusted=["modelled, not verified: queueing/pipeline.go"],
  )
