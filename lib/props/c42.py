"""Per-property configuration of the checks (text used in MANIFEST/evidence, knobs)."""
from props import P








P("C42",
  title="Clock arithmetic is exact",
  design_ref="DESIGN.md §3 C42",
  technique="Coq proof (lia/nia over N with explicit 2^64 wrap) + exact model/impl correspondence by vm_compute",
  level_text="Theorems c42_* prove, for every frequency 1 Hz..1 THz and every 64-bit time whose result fits, that the "
             "model of Freq.Period/Cycle/ThisTick/NextTick/NCyclesLater returns the least multiple >= t / > t, "
             "tick + n*period and floor(t/period). The model (explicit uint64 wrap, panics as None) is compared "
             "output-for-output with timing.Freq on every run; c42_model_agreement_implies_property links the two evaluators.",
  level_note="Trusted: Coq kernel + vm_compute; Go harness that calls timing.Freq and prints the cases; the hand-written "
             "model of freq.go (tied by exact equality on directed boundary sweeps and random inputs).",
  assumptions=["uint64 arithmetic of Go = arithmetic modulo 2^64; integer division by zero and log.Panic are the outcome None"],
  trusted=["modelled, not verified: timing/freq.go (Period, Cycle, ThisTick, NextTick, NCyclesLater); HalfTick/NoEarlierThan are thin wrappers and not modelled"],
  )
