from props import P

P("C33",
  title="Observing a simulation does not change it",
  design_ref="DESIGN.md §3 C33",
  technique="Coq proof (relational simulation lemma over the abstract serial simulation: handlers respecting an ID-erasing relation) "
            "+ exact tie on scripted runs with/without an ID-consuming engine hook + differential over observer configurations on library assemblies",
  level_text="c33_framework_invariant: any two simulations whose handler programs respect a world/event relation preserving time and class "
             "handle related events in the same order with the same outcome. c33_observers_invisible instantiates it: for every script and ANY "
             "observers that only consume generated IDs around events (arbitrary functions of state and event), the handled events are equal "
             "apart from IDs, at the same times, with equal final time and component counters. The model is tied exactly (traces incl. IDs) to the "
             "real SerialEngine with and without an ID-eating hook. c33_heap_engine_invariant / c33_heap_engine_initial state the framework theorem on the "
             "heap engine of Lib/Engine (the C01/C02 model with the real binary heap, via C06/EngineBridge run_rel): engines built from "
             "NewSerialEngine by pointwise related Schedule calls stay related through Run. PARTIAL for library components: that their tracing call sites (NumHooks()>0 "
             "paths, tracing registries) do not feed back into behaviour is shown only by the differential over 8 observer configurations on the memory assemblies and 6 on real networks (switches + endpoints under one-switch output-port contention, generic graphs, PCIe, NVLink hybrids, 2D/3D meshes: bare / component hooks / aggregate tracers / port hooks / engine hook / all).",
  level_note="Trusted: Coq kernel + vm_compute; Go harness (assemblies, fingerprints). Assumes observers touch the simulation only through the "
             "ID generator; components treat IDs opaquely (the script handler never branches on an ID).",
  assumptions=["observers interact with simulation state only by consuming IDs", "library components' hook-guarded paths are sampled, not proved"],
  trusted=["modelled, not verified: timing/serialengine.go dispatch with hooks, timing/idgenerator.go; tracing/*, port/buffer tracing hooks and "
           "component NumHooks paths are covered by the differential only"],
  quick_shards=8,
  )
