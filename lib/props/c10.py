from props import P

P("C10",
  title="Direct connections deliver exactly once, intact, in order",
  design_ref="DESIGN.md §3 C10",
  technique="Coq proof + exact model/impl correspondence by vm_compute",
  level_text="placeholder",
  level_note="placeholder",
  assumptions=[],
  trusted=[],
  )
