from props import P

P("C10",
  title="Direct connections deliver exactly once, intact, in order",
  design_ref="DESIGN.md §3 C10",
  technique="Coq proof (a tick is a labelled sequence of head-to-tail moves; transfer law by induction over moves, schedule-level "
            "law by induction over arbitrary action histories; progress by an invariant of the round-robin loop) + exact "
            "model/impl correspondence by vm_compute",
  level_text="Lib/Conn.v models middleware.Tick/forwardMany over Lib/Port.v ports: plug-order port list, name->index map (last "
             "plug wins), round-robin cursor, head-of-line blocking on CanDeliver, Deliver before RetrieveOutgoing, panic on an "
             "unplugged destination, callbacks logged in order. c10_tick_transfer: every tick is a sequence of moves (src port, dst "
             "port, msg); each goes to the port named by Dst; every port's incoming buffer grows by exactly the messages moved to it "
             "and its outgoing buffer loses exactly the messages moved from it, from the head, in order, unmodified. "
             "c10_conservation_order / c10_per_source_fifo: for EVERY schedule of owner sends (when CanSend), owner retrievals (or "
             "stalls) and connection ticks, from any state: sent = delivered ++ still-outgoing per source and delivered = retrieved "
             "++ still-incoming per destination, as ordered lists (so: at most once, exactly once unless still buffered, intact, "
             "right port only, per-source FIFO, backpressure only delays). c10_progress: after a tick no port has a deliverable "
             "head left (a deliverable head is delivered in that tick) and the cursor advances by one mod n.",
  level_note="Trusted: Coq kernel + vm_compute; the Go harness (real DirectConnection + real ports, scripted sender/receiver "
             "TickingComponents on the real serial engine with the action log taken in real order through engine/port hooks, and "
             "direct Send/RetrieveIncoming/conn.Tick() schedules); the hand-written tick model, tied by exact equality of every "
             "send outcome, retrieved message, per-tick delivery log, per-port snapshot and cursor. holds_on is an independent "
             "trace predicate (right port, no duplicate, per-source / per-destination prefix order, counts = final buffer sizes, and - for "
             "engine runs, which go on until the event queue is exhausted - no outgoing head left whose destination has room); "
             "c10_model_agreement_implies_property (C10/Link.v) proves check_case -> holds_on for runs whose accepted sends carry distinct "
             "IDs (wf_case), the quiescence clause under final_clean (the model's final state has no deliverable head = C09's conclusion).",
  assumptions=["ports plugged into one connection have distinct names (the model keeps Go's 'last PlugIn wins' map semantics, the "
               "harness never plugs duplicates)",
               "message identities are unique per run (used by holds_on to read 'exactly once' off the logs)",
               "the schedule-level theorems treat component behaviour as arbitrary: any interleaving of sends, retrievals and "
               "ticks; liveness of tick scheduling is C09's subject (known finding F-C09-1)"],
  quick_shards=8,
  trusted=["modelled, not verified: noc/directconnection/comp.go (PlugIn order / portMap, middleware.Tick, forwardMany), "
           "messaging/port.go via Lib/Port.v"],
  )
