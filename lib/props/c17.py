"""C17 — flushing write-back caches makes backing memory current."""
from props import P

P("C17",
  title="Flushing write-back caches makes backing memory current",
  design_ref="DESIGN.md §3 C17, §13 Appendix E",
  technique="Coq proof of the flusher's block selection / finalisation over every directory and filter, exact tie on snapshots through a verif hook "
            "and on real pre/post-flush directories; end-to-end differential against the Coq reference memory (C16 acceptor state)",
  level_text="c17_selects_exactly / c17_marks_exactly prove for every directory state and every filter (empty, address list, PID, both) that "
             "prepareBlockToFlushList records exactly the valid dirty matching blocks and that finalizeFlushing cleans exactly those, keeps every block "
             "valid/tagged as before and leaves non-matching dirty blocks dirty. c17_memory_current: writing back coherent selected lines as masked writes "
             "makes memory equal to the reference on those lines.",
  level_note="PARTIAL end to end: the pre-flush quiesce, the bank/write-buffer path of the write-backs and the control middleware are not modelled; they are "
             "exercised on real hierarchies: random workload, Drain+Flush of every write-back level through the Control ports, then every written line of the "
             "backing Storage is compared in Coq with the reference memory computed by the verified requester-view automaton, and the real post-flush "
             "directory must equal finalize(select(pre-flush directory)) exactly. Runs have 1-4 rounds (workload, Drain+Flush, Enable, ...) so that state carried from one flush to the next is exercised; "
             "the hook tie also processes sequences of flush requests through the flusher's own intake.",
  assumptions=["no two in-flight requests touch the same byte; a line is always accessed with the same PID",
               "the flush is issued after a Drain acknowledgement (the protocol's legal order)"],
  trusted=["modelled, not verified: cache/writeback/flusher.go (prepareBlockToFlushList, marking loop of finalizeFlushing)",
           "verif hook mem/cache/writeback/verif_export.go (calls the two unexported functions on a snapshot)",
           "harness/internal/memasm"],
  )
