"""C27 — MMU auto-allocation never aliases physical memory."""
from props import P

P("C27",
  title="MMU auto-allocation never aliases physical memory",
  design_ref="DESIGN.md §3 C27",
  technique="Coq proof (invariant over all tick scripts of the MMU model built on the C26 page-table model) "
            "+ exact tick-level model/impl correspondence by vm_compute; refutation witness for non-uniform tables",
  level_text="Theorems c27_* prove, for every uniform pre-populated table (every page a frame of the MMU's page size), every "
             "configuration and every tick script (any request stream incl. concurrent walks of one page, any back-pressure): "
             "every answer carries the page bound to its (process, virtual page) and that binding never changes; no auto-allocated "
             "page overlaps any other page of the table; allocation terminates. c27_mixed_sizes_refuted exhibits the confirmed "
             "overlap with an unaligned / larger pre-inserted page (known finding). The tick-level model is compared exactly "
             "(responses, cursor, walks in flight, final table) with the real MMU component driven through its real Top port.",
  level_note="c27_model_agreement_implies_property transfers the one-mapping statement to the responses observed on the real MMU. "
             "Trusted: Coq kernel + vm_compute; the Go harness; the hand-written model of translationmw.go (tied exactly per tick).",
  assumptions=["the MMU stays Enabled (no control traffic) and is the only writer of the page table during the run",
               "MMU Log2PageSize = page table log2 page size < 64 (the builder panics otherwise; uint64(1)<<64 = 0 would make the allocation loop spin)",
               "uniform table: every pre-inserted page has PageSize = 2^log2, PAddr and VAddr multiples of it",
               "port buffers are bounded FIFOs (C11); tracing calls have no effect on behaviour"],
  trusted=["modelled, not verified: mem/vm/mmu/translationmw.go (Tick, walkPageTable, finalizePageWalk, doPageWalkHit, parseFromTop, "
           "startWalking, createDefaultPage, allocatePhysicalPage); the page table is the C26 model"],
  )
