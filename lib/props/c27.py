"""C27 — MMU auto-allocation never aliases physical memory."""
from props import P

P("C27",
  title="MMU auto-allocation never aliases physical memory",
  design_ref="DESIGN.md §3 C27",
  technique="Coq proof (invariant over all tick scripts of the MMU model built on the C26 page-table model) "
            "+ exact tick-level model/impl correspondence by vm_compute; refutation witness for non-uniform tables",
  level_text="Theorems c27_* prove, for EVERY initial page table satisfying the boolean condition alias_okb (every frame that meets "
             "the physical range of a pre-inserted page is the PAddr of some pre-inserted page: mixed page sizes, unaligned and "
             "empty pages, frames shared by several processes are all allowed), every configuration and every tick script (any "
             "interleaving of walks of any number of processes, concurrent walks of one page, any back-pressure): no auto-allocated "
             "page overlaps any other page, overlapping pages with distinct keys are both pre-inserted, every answer carries the page "
             "bound to its (process, virtual page) and that binding never changes, the condition is inductive, allocation "
             "terminates (c27_no_alias_general, c27_one_mapping_general, c27_alloc_terminates; uniform tables are the special case "
             "c27_no_overlap / c27_one_mapping). The condition is necessary one allocation at a time (c27_condition_necessary_step) "
             "and the F-C27-1 witnesses violate exactly it (c27_mixed_sizes_refuted, c27_refuted_witness_violates_condition). "
             "The tick-level model is compared exactly (responses, cursor, walks in flight, final table) with the real MMU "
             "component driven through its real Top port, on uniform, conforming non-uniform and violating initial tables.",
  level_note="c27_model_agreement_implies_property transfers the one-mapping statement to the responses observed on the real MMU. "
             "Trusted: Coq kernel + vm_compute; the Go harness; the hand-written model of translationmw.go (tied exactly per tick).",
  assumptions=["the MMU stays Enabled (no control traffic) and is the only writer of the page table during the run",
               "MMU Log2PageSize = page table log2 page size < 64 (the builder panics otherwise; uint64(1)<<64 = 0 would make the allocation loop spin)",
               "initial table: alias_okb log2 (pages) = true (c27_no_alias_general); that the allocation cursor actually reaches an unclaimed frame "
               "is shown for the two F-C27-1 witnesses only (necessity in general is proved per allocation, not per history)",
               "port buffers are bounded FIFOs (C11); tracing calls have no effect on behaviour"],
  trusted=["modelled, not verified: mem/vm/mmu/translationmw.go (Tick, walkPageTable, finalizePageWalk, doPageWalkHit, parseFromTop, "
           "startWalking, createDefaultPage, allocatePhysicalPage); the page table is the C26 model"],
  )
