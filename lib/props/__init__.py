"""Per-property configuration: one module lib/props/cXX.py per property, each calling P("Cxx", ...)."""
import glob
import importlib
import os

PROPS = {}
NOT_APPLICABLE = {}


def P(pid, **kw):
    PROPS[pid] = kw


for _f in sorted(glob.glob(os.path.join(os.path.dirname(__file__), "c[0-9]*.py"))):
    importlib.import_module("props." + os.path.basename(_f)[:-3])
