#!/usr/bin/env python3
"""Evaluate seeded property-breaking changes kept under /verif/seeded/<Cxx>-<k>/.

  seedtest.py verify <dir>   confirm the change: in a scratch worktree of /repo apply patch.diff, build, run the
                             touched packages' existing tests, run the demonstration (must FAIL); without the patch the
                             demonstration must PASS.  Updates meta.json["confirmed"].
  seedtest.py check  <dir> [--tier quick|thorough]
                             run ./check <property> against the worktree with the patch applied (VERIF_REPO=...); records
                             caught / missed in meta.json["check_result"].
  seedtest.py all            verify + check every directory under /verif/seeded.

meta.json: {"property": "C06", "breaks": "...", "needs": "...", "demo": {"<file in dir>": "<path in repo>"},
            "demo_cmd": "go test -vet=off -count=1 -run TestSeed ./timing/", "test_pkgs": ["./timing/..."],
            "ran": [...], "confirmed": {...}, "check_result": {...}}
"""
import json
import os
import shutil
import subprocess
import sys
import tempfile
import time

ROOT = os.path.dirname(os.path.dirname(os.path.abspath(__file__)))
REPO = "/repo"


def env():
    e = dict(os.environ)
    e["GOFLAGS"] = "-mod=mod"
    e["GOPROXY"] = "off"
    e.pop("GOTOOLCHAIN", None)
    e.pop("GOSUMDB", None)
    return e


def sh(cmd, cwd, timeout=1800, extra=None):
    e = env()
    if extra:
        e.update(extra)
    p = subprocess.run(cmd, cwd=cwd, shell=isinstance(cmd, str), env=e, timeout=timeout,
                       stdout=subprocess.PIPE, stderr=subprocess.STDOUT, text=True, errors="replace")
    return p.returncode, p.stdout


class Worktree:
    def __enter__(self):
        self.base = tempfile.mkdtemp(prefix="seedwt-", dir="/tmp")
        self.path = os.path.join(self.base, "wt")
        sh(["git", "-C", REPO, "worktree", "add", "-q", self.path, "HEAD"], cwd="/")
        return self.path

    def __exit__(self, *a):
        sh(["git", "-C", REPO, "worktree", "remove", "--force", self.path], cwd="/")
        shutil.rmtree(self.base, ignore_errors=True)


def load(d):
    return json.load(open(os.path.join(d, "meta.json")))


def save(d, m):
    json.dump(m, open(os.path.join(d, "meta.json"), "w"), indent=1)


def put_demo(d, m, wt):
    for src, dst in m.get("demo", {}).items():
        os.makedirs(os.path.dirname(os.path.join(wt, dst)), exist_ok=True)
        shutil.copyfile(os.path.join(d, src), os.path.join(wt, dst))


def verify(d):
    m = load(d)
    res = {"at": time.strftime("%Y-%m-%dT%H:%M:%S")}
    with Worktree() as wt:
        put_demo(d, m, wt)
        rc, out = sh(m["demo_cmd"], cwd=wt)
        res["demo_without_patch"] = "pass" if rc == 0 else "FAIL: " + out[-400:]
        rc, out = sh(["git", "apply", os.path.join(d, "patch.diff")], cwd=wt)
        res["patch_applies"] = rc == 0
        rc, out = sh("go build ./...", cwd=wt)
        res["builds"] = rc == 0
        tries = 0
        for tries in range(1, 1 + int(m.get("demo_tries", 3))):  # schedule-dependent demos may need a retry
            rc, out = sh(m["demo_cmd"], cwd=wt)
            if rc != 0:
                break
        res["demo_with_patch"] = ("fails (as intended), try %d" % tries) if rc != 0 else "PASSES (not a demonstration)"
        # existing tests, unedited: remove the demo first
        for dst in m.get("demo", {}).values():
            os.remove(os.path.join(wt, dst))
        pk = " ".join(m.get("test_pkgs", ["./..."]))
        rc, out = sh("go test -vet=off -count=1 %s 2>&1 | grep -v 'no test files'" % pk, cwd=wt, timeout=3000)
        bad = [l for l in out.splitlines() if l.startswith("--- FAIL") or (l.startswith("FAIL") and "build failed" not in l and l.strip() != "FAIL")]
        res["existing_tests"] = "pass" if not bad else "FAIL: " + "; ".join(bad[:5])
    res["ok"] = (res["demo_without_patch"] == "pass" and res["patch_applies"] and res["builds"]
                 and res["demo_with_patch"].startswith("fails") and res["existing_tests"] == "pass")
    m["confirmed"] = res
    save(d, m)
    print(os.path.basename(d), "confirmed" if res["ok"] else "NOT CONFIRMED", json.dumps(res)[:600])
    return res["ok"]


def check(d, tier="quick"):
    m = load(d)
    props = m["property"] if isinstance(m["property"], list) else [m["property"]]
    out_all = {}
    with Worktree() as wt:
        rc, out = sh(["git", "apply", os.path.join(d, "patch.diff")], cwd=wt)
        if rc != 0:
            print("patch does not apply", out)
            return False
        for pid in props:
            t0 = time.time()
            rc, out = sh([os.path.join(ROOT, "check"), pid, "--tier", tier], cwd=ROOT, timeout=7200,
                         extra={"VERIF_REPO": wt})
            viol = [l for l in out.splitlines() if l.startswith("VIOLATION")]
            out_all[pid] = {"tier": tier, "exit": rc, "caught": rc == 1 and bool(viol),
                            "violation_lines": viol[:3], "wall_s": round(time.time() - t0, 1),
                            "with_failing_input": bool(viol) and "no-failing-input-found" not in viol[0],
                            "tail": out.splitlines()[-4:]}
            print(os.path.basename(d), pid, "CAUGHT" if out_all[pid]["caught"] else "MISSED", viol[:1])
    m.setdefault("check_result", {}).update(out_all)
    save(d, m)
    return all(v["caught"] for v in out_all.values())


def main():
    a = sys.argv[1:]
    if not a:
        print(__doc__)
        return 2
    tier = "quick"
    if "--tier" in a:
        tier = a[a.index("--tier") + 1]
    if a[0] == "verify":
        return 0 if verify(os.path.abspath(a[1])) else 1
    if a[0] == "check":
        return 0 if check(os.path.abspath(a[1]), tier) else 1
    if a[0] == "all":
        ok = True
        for n in sorted(os.listdir(os.path.join(ROOT, "seeded"))):
            d = os.path.join(ROOT, "seeded", n)
            if os.path.exists(os.path.join(d, "meta.json")):
                ok = verify(d) and ok
                ok = check(d, tier) and ok
        return 0 if ok else 1
    return 2


if __name__ == "__main__":
    sys.exit(main())
