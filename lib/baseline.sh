#!/bin/bash
# Runs the pinned baseline test command of /root/.vp/BASELINE.json on /repo (build tag off) and reports every
# stable_pass test that did not pass.  Output: /tmp/baseline.gotest.json (not kept).
out=${1:-/tmp/baseline.gotest.json}
: > "$out"
for m in $(cat /w/out/gomods.txt); do
  MF=$(cd /repo/$m && . /w/out/goenv.sh && gomodflag)
  (cd /repo/$m && go test $MF -json -vet=off -count=1 -timeout 25m ./...) >> "$out" 2>&1
done
python3 - "$out" <<'PY'
import json, sys
res = {}
for l in open(sys.argv[1], errors="replace"):
    try:
        e = json.loads(l)
    except Exception:
        continue
    if e.get("Test") and e.get("Action") in ("pass", "fail", "skip"):
        res[e["Package"] + "::" + e["Test"]] = e["Action"]
b = json.load(open("/root/.vp/BASELINE.json"))
want = b["stable_pass"]
bad = [t for t in want if res.get(t) != "pass"]
print("baseline: %d stable_pass tests, %d passing, %d not passing" % (len(want), len(want) - len(bad), len(bad)))
for t in bad[:40]:
    print("  NOT PASSING:", t, res.get(t))
sys.exit(1 if bad else 0)
PY
