#!/usr/bin/env python3
"""Driver library for the /verif checks (stdlib only).

A check for property Cxx:
  1. builds the Coq dependency cone of theories/Cxx/{Property,Exec}.vo (full .vo),
     re-runs coqc on Property.v to capture `Print Assumptions` of every theorem;
  2. (optional) regenerates source-derived Coq data from /repo (translator);
  3. builds the Go harness against /repo's working tree (-tags verif), runs the
     implementation on generated cases, writes cases_<k>.v;
  4. evaluates, inside Coq (vm_compute), `check_case` (model = implementation) and
     `holds_on` (the property predicate on the implementation's own behaviour);
  5. decides, prints KNOWN-FINDING / VIOLATION lines, writes evidence/Cxx.json.
"""
import concurrent.futures
import fcntl
import glob
import hashlib
import json
import os
import re
import shutil
import subprocess
import sys
import time

ROOT = os.path.dirname(os.path.dirname(os.path.abspath(__file__)))
COQ = os.path.join(ROOT, "coq")
HARNESS = os.path.join(ROOT, "harness")
BUILD = os.path.join(ROOT, "build")
BINDIR = os.path.join(BUILD, "bin")
REPO = os.path.abspath(os.environ.get("VERIF_REPO", "/repo"))
# A scratch copy/worktree of /repo can be checked (mutation self-tests) without touching /repo:
#   VERIF_REPO=/tmp/x/wt ./check Cxx      -> separate go.mod (-modfile), binary, run dir; evidence is NOT written.
ALT = "" if REPO == "/repo" else "-" + hashlib.sha256(REPO.encode()).hexdigest()[:8]
NCPU = os.cpu_count() or 4

STD_AXIOMS = {
    # axioms declared by Coq's standard library; allowed if named in the trusted base
    "functional_extensionality_dep", "classic", "proof_irrelevance", "JMeq_eq",
    "eq_rect_eq", "propositional_extensionality", "constructive_definite_description",
    "constructive_indefinite_description", "excluded_middle_informative",
}

FORBIDDEN = re.compile(
    r"\b(Admitted|admit|Axiom|Axioms|Parameter|Parameters|Conjecture|Conjectures|"
    r"bypass_check|Admit Obligations)\b|Unset\s+Guard|Unset\s+Positivity|"
    r"Unset\s+Universe\s+Checking|type-in-type|impredicative-set")


def goenv():
    e = dict(os.environ)
    e["GOFLAGS"] = "-mod=mod"
    e["GOPROXY"] = "off"
    # plain `go` (1.23) auto-switches to the cached 1.26 toolchain required by /repo
    e.pop("GOTOOLCHAIN", None)
    e.pop("GOSUMDB", None)
    e.setdefault("GOMAXPROCS", str(NCPU))
    return e


class Lock:
    def __init__(self, name):
        os.makedirs(BUILD, exist_ok=True)
        self.path = os.path.join(BUILD, name + ".lock")

    def __enter__(self):
        self.f = open(self.path, "w")
        fcntl.flock(self.f, fcntl.LOCK_EX)
        return self

    def __exit__(self, *a):
        fcntl.flock(self.f, fcntl.LOCK_UN)
        self.f.close()


def sh(cmd, cwd=None, timeout=None, env=None):
    t0 = time.time()
    try:
        p = subprocess.run(cmd, cwd=cwd, env=env, timeout=timeout,
                           stdout=subprocess.PIPE, stderr=subprocess.STDOUT, text=True,
                           errors="replace")
        return p.returncode, p.stdout, time.time() - t0
    except subprocess.TimeoutExpired as ex:
        out = ex.stdout or ""
        if isinstance(out, bytes):
            out = out.decode("utf8", "replace")
        return 124, out + "\n[timeout after %ss]" % timeout, time.time() - t0


# ------------------------------------------------------------------ Coq side

def coq_sources():
    fs = sorted(glob.glob(os.path.join(COQ, "theories", "**", "*.v"), recursive=True))
    return [os.path.relpath(f, COQ) for f in fs]


def write_coqproject():
    lines = ["-Q theories Akita", ""] + coq_sources()
    txt = "\n".join(lines) + "\n"
    path = os.path.join(COQ, "_CoqProject")
    old = open(path).read() if os.path.exists(path) else None
    if old != txt:
        open(path, "w").write(txt)
        return True
    return False


def forbidden_scan():
    bad = []
    for f in coq_sources():
        for i, line in enumerate(open(os.path.join(COQ, f), errors="replace"), 1):
            if FORBIDDEN.search(line):
                bad.append("%s:%d: %s" % (f, i, line.strip()))
    return bad


def coq_make(targets=None, timeout=3600):
    """Full .vo build (never -vos) of the given targets (or everything)."""
    with Lock("coq"):
        changed = write_coqproject()
        mk = os.path.join(COQ, "Makefile")
        if changed or not os.path.exists(mk):
            rc, out, _ = sh(["coq_makefile", "-f", "_CoqProject", "-o", "Makefile"], cwd=COQ, timeout=120)
            if rc != 0:
                return rc, out
        cmd = ["make", "-j%d" % NCPU]
        if targets:
            cmd += targets
        rc, out, _ = sh(cmd, cwd=COQ, timeout=timeout)
        return rc, out


def property_obligations(pid, timeout=900):
    """Re-run coqc on Cxx/Property.v; parse Print Assumptions output."""
    src = os.path.join("theories", pid, "Property.v")
    text = open(os.path.join(COQ, src)).read()
    theorems = re.findall(r"^\s*(?:Theorem|Corollary)\s+([A-Za-z0-9_']+)", text, re.M)
    printed = re.findall(r"^\s*Print Assumptions\s+([A-Za-z0-9_'.]+)\s*\.", text, re.M)
    cmd = ["coqc", "-Q", "theories", "Akita", src]
    with Lock("coq"):
        rc, out, wall = sh(cmd, cwd=COQ, timeout=timeout)
    res = {"theorems": theorems, "printed": printed, "rc": rc, "cmd": "cd coq && " + " ".join(cmd),
           "wall_s": round(wall, 2), "axioms": {}, "closed": [], "output_tail": out[-2000:]}
    if rc != 0:
        return res
    # split output into one block per Print Assumptions, in order
    blocks = re.split(r"(?=^Closed under the global context|^Axioms:)", out, flags=re.M)
    blocks = [b for b in blocks if b.startswith("Closed under") or b.startswith("Axioms:")]
    for name, b in zip(printed, blocks):
        if b.startswith("Closed under"):
            res["closed"].append(name)
        else:
            ax = re.findall(r"^([A-Za-z0-9_'.]+)\s*:", b, re.M)
            res["axioms"][name] = ax
    res["nblocks"] = len(blocks)
    return res


# ------------------------------------------------------------------ Go side

def harness_bin(pid):
    return os.path.join(BINDIR, "harness-" + pid.lower() + ALT)


def alt_modfile():
    d = os.path.join(BUILD, "gomod" + ALT)
    os.makedirs(d, exist_ok=True)
    txt = open(os.path.join(HARNESS, "go.mod")).read().replace("=> /repo", "=> " + REPO)
    open(os.path.join(d, "go.mod"), "w").write(txt)
    shutil.copyfile(os.path.join(REPO, "go.sum"), os.path.join(d, "go.sum"))
    return os.path.join(d, "go.mod")


def build_harness(pid, timeout=1200, race=False):
    """One binary per property (cmd/cXX), rebuilt from /repo's working tree on every run."""
    with Lock("harness"):
        os.makedirs(BINDIR, exist_ok=True)
        cmd = ["go", "build", "-tags", "verif"]
        if ALT:
            cmd.append("-modfile=" + alt_modfile())
        else:
            try:
                shutil.copyfile(os.path.join(REPO, "go.sum"), os.path.join(HARNESS, "go.sum"))
            except OSError:
                pass
        if race:
            cmd.append("-race")
        cmd += ["-o", harness_bin(pid), "./cmd/" + pid.lower()]
        rc, out, wall = sh(cmd, cwd=HARNESS, timeout=timeout, env=goenv())
        return rc, out, wall


def run_harness(pid, args, timeout=1800):
    return sh([harness_bin(pid)] + args, timeout=timeout, env=goenv())


def eval_shards(rundir, timeout=1800):
    """coqc every cases_<k>.v in parallel; returns (mism, pviol, errors)."""
    files = sorted(glob.glob(os.path.join(rundir, "cases_*.v")))
    # the case files import modules by name: make sure each is compiled (on a fresh tree a module that
    # is not a dependency of the property's Property/Exec targets would otherwise be missing)
    mods = set()
    for f in files[:1]:
        with open(f, errors="replace") as fh:
            head = fh.read(4000)
        for line in head.splitlines():
            line = line.strip()
            if line.startswith("From Akita Require") and line.endswith("."):
                for name in line[:-1].split()[3:]:
                    if name not in ("Import", "Export"):
                        mods.add("theories/" + name.replace(".", "/") + ".vo")
    mods = sorted(t for t in mods if os.path.exists(os.path.join(COQ, t[:-1])))
    if mods:
        rc, out = coq_make(mods, timeout=timeout)
        if rc != 0:
            return [], [], ["imports of the case files do not build: " + out[-1200:]]

    def one(f):
        rc, out, wall = sh(["coqc", "-Q", os.path.join(COQ, "theories"), "Akita", os.path.basename(f)],
                           cwd=rundir, timeout=timeout)
        return f, rc, out, wall

    mism, pviol, errors = [], [], []
    with concurrent.futures.ThreadPoolExecutor(max_workers=NCPU) as ex:
        for f, rc, out, wall in ex.map(one, files):
            if rc != 0:
                errors.append("%s: rc=%d %s" % (os.path.basename(f), rc, out[-1500:]))
                continue
            m = re.search(r"mism\s*=\s*\[(.*?)\]\s*:\s*list N", out, re.S)
            p = re.search(r"pviol\s*=\s*\[(.*?)\]\s*:\s*list N", out, re.S)
            if not m or not p:
                errors.append("%s: cannot parse coqc output: %s" % (os.path.basename(f), out[-800:]))
                continue
            mism += [int(x) for x in re.findall(r"\d+", m.group(1))]
            pviol += [int(x) for x in re.findall(r"\d+", p.group(1))]
    return sorted(mism), sorted(pviol), errors


def load_cases(rundir):
    out = []
    p = os.path.join(rundir, "cases.jsonl")
    if os.path.exists(p):
        for line in open(p):
            out.append(json.loads(line))
    return out


def known_findings():
    p = os.path.join(ROOT, "known_findings.json")
    if not os.path.exists(p):
        return []
    return json.load(open(p))


# ------------------------------------------------------------------ the check

class Check:
    def __init__(self, pid, cfg, tier, seed):
        self.pid, self.cfg, self.tier, self.seed = pid, cfg, tier, seed
        self.t0 = time.time()
        self.rundir = os.path.join(BUILD, "run", pid + ALT)
        self.lines = []
        self.violations = 0
        self.known_printed = []
        self.broken = []
        self.cov = {}
        self.assumptions = list(cfg.get("assumptions", []))

    def say(self, s):
        print(s, flush=True)

    # -- replay files
    def write_replay(self, kind, case=None, extra=None):
        os.makedirs(os.path.join(ROOT, "replay"), exist_ok=True)
        h = hashlib.sha256(json.dumps(case, sort_keys=True).encode()).hexdigest()[:10] if case else "none"
        path = os.path.join(ROOT, "replay", "%s-%d-%s.json" % (self.pid, self.seed, h))
        rec = {"property": self.pid, "seed": self.seed, "tier": self.tier, "kind": kind,
               "broken": self.broken, "case": case.get("input") if case else None,
               "observed": case.get("observed") if case else None,
               "replay_cmd": "./check %s --replay %s" % (self.pid, path)}
        if extra:
            rec.update(extra)
        json.dump(rec, open(path, "w"), indent=1)
        return path

    def violation(self, path, nofail=False):
        self.violations += 1
        self.say("VIOLATION property=%s replay=%s%s" % (self.pid, path, " no-failing-input-found" if nofail else ""))

    # -- steps
    def step_proofs(self):
        bad = forbidden_scan()
        if bad:
            self.broken.append("forbidden-construct: " + "; ".join(bad[:5]))
        targets = ["theories/%s/Property.vo" % self.pid, "theories/%s/Exec.vo" % self.pid]
        targets += self.cfg.get("extra_targets", [])
        rc, out = coq_make(targets, timeout=self.cfg.get("coq_timeout", 3000))
        if rc != 0:
            m = re.findall(r'File "\./([^"]+)", line (\d+)', out)
            self.broken.append("coq-build: " + (", ".join("%s:%s" % x for x in m[:3]) or out[-600:]))
            self.cov.update({"obligations": 0, "discharged": 0})
            return False
        ob = property_obligations(self.pid)
        n_ob = len(ob["printed"])
        disc = list(ob["closed"])
        used_axioms = {}
        for name, axs in ob["axioms"].items():
            short = [a.split(".")[-1] for a in axs]
            if all(a in STD_AXIOMS for a in short):
                disc.append(name)
                used_axioms[name] = axs
            else:
                self.broken.append("theorem %s depends on non-standard axioms %s" % (name, axs))
        if ob["rc"] != 0:
            self.broken.append("Property.v does not compile: " + ob["output_tail"][-400:])
        missing = [t for t in ob["theorems"] if t not in ob["printed"]]
        if missing:
            self.broken.append("theorems without Print Assumptions: %s" % missing)
        self.cov.update({
            "obligations": n_ob, "discharged": len(disc),
            "theorems": ob["printed"], "axioms_reported": used_axioms,
            "checker_cmd": "make -C coq %s && %s" % (" ".join(targets), ob["cmd"]),
            "proof_wall_s": ob["wall_s"],
        })
        if len(disc) != n_ob:
            self.broken.append("only %d of %d obligations discharged" % (len(disc), n_ob))
        return not self.broken

    def step_thorough_coqchk(self):
        if self.tier != "thorough" or not self.cfg.get("coqchk", True):
            return
        cmd = ["coqchk", "-silent", "-o", "-Q", "theories", "Akita", "Akita.%s.Property" % self.pid]
        rc, out, wall = sh(cmd, cwd=COQ, timeout=self.cfg.get("coqchk_timeout", 1500))
        self.cov["coqchk"] = {"cmd": " ".join(cmd), "rc": rc, "wall_s": round(wall, 1), "tail": out[-1500:]}
        if rc not in (0, 124):
            self.broken.append("coqchk failed: " + out[-300:])

    def step_translate(self):
        tr = self.cfg.get("translate")
        if tr:
            ok, msg = tr(self)
            if not ok:
                self.broken.append("generated-obligation: " + msg)

    def gen_and_eval(self, replay=None):
        rc, out, wall = build_harness(self.pid, race=self.cfg.get("race", False))
        if rc != 0:
            self.broken.append("harness does not build against /repo: " + out[-800:])
            return None
        shards = NCPU if self.tier == "thorough" else self.cfg.get("quick_shards", 4)
        if replay:
            args = ["replay", self.pid, "-file", replay, "-out", self.rundir]
        else:
            args = ["gen", self.pid, "-seed", str(self.seed), "-tier", self.tier, "-out", self.rundir,
                    "-shards", str(shards), "-corpus", os.path.join(ROOT, "corpus", self.pid)]
        rc, out, wall = run_harness(self.pid, args, timeout=self.cfg.get("gen_timeout", 2400))
        self.cov["impl_wall_s"] = round(wall, 2)
        if rc != 0:
            self.broken.append("harness run failed (rc=%d): %s" % (rc, out[-1200:]))
            return None
        t = time.time()
        mism, pviol, errors = eval_shards(self.rundir, timeout=self.cfg.get("eval_timeout", 2400))
        self.cov["model_wall_s"] = round(time.time() - t, 2)
        if errors:
            self.broken.append("model evaluation failed: " + " | ".join(errors)[:1500])
            return None
        return load_cases(self.rundir), mism, pviol

    def shrink(self, case):
        """Greedy shrinking through `harness shrink` + coqc; returns a (smaller) failing case."""
        cur = case
        sdir = os.path.join(BUILD, "run", self.pid + ALT + "-shrink")
        for _ in range(self.cfg.get("shrink_rounds", 25)):
            tmp = os.path.join(sdir, "cur.json")
            os.makedirs(sdir, exist_ok=True)
            json.dump({"case": cur["input"]}, open(tmp, "w"))
            rc, out, _ = run_harness(self.pid, ["shrink", self.pid, "-file", tmp, "-out", sdir], timeout=600)
            if rc != 0:
                break
            cands = load_cases(sdir)
            if not cands:
                break
            _, pviol, errors = eval_shards(sdir, timeout=600)
            if errors or not pviol:
                break
            nxt = [c for c in cands if c["index"] in pviol and not self.is_known(c)]
            if not nxt:
                break
            cur = nxt[0]
        shutil.rmtree(sdir, ignore_errors=True)
        return cur

    def is_known(self, case):
        k = case.get("known")
        if not k:
            return None
        for e in known_findings():
            if e.get("property") == self.pid and e.get("classifier") == k and e.get("status") == "known":
                return e
        return None

    def decide(self, cases, mism, pviol):
        byidx = {c["index"]: c for c in cases}
        unlisted = []
        for i in pviol:
            c = byidx[i]
            e = self.is_known(c)
            if e:
                if e["id"] not in self.known_printed:
                    self.known_printed.append(e["id"])
                    self.say("KNOWN-FINDING: property=%s %s [%s]" % (self.pid, e["what"], e["id"]))
            else:
                unlisted.append(c)
        if unlisted:
            c = self.shrink(unlisted[0])
            path = self.write_replay("failing-input", c,
                                     {"predicate": "Exec.holds_on = false on the implementation's observed behaviour",
                                      "failing_cases_this_run": len(unlisted)})
            self.violation(path)
            return
        # mismatches on cases that exhibit a listed finding are expected only if the
        # model keeps the defect too; the models are faithful, so any mismatch counts.
        if mism:
            self.broken.append("correspondence %s.Exec.check_case: model and implementation differ on %d case(s)"
                               % (self.pid, len(mism)))
            c = byidx[mism[0]]
            path = self.write_replay("no-failing-input-found", c,
                                     {"first_differing_case_index": mism[0], "differing_cases": len(mism)})
            self.violation(path, nofail=True)
            return
        if self.broken:
            path = self.write_replay("no-failing-input-found", None)
            self.violation(path, nofail=True)

    def coverage_from_cases(self, cases, mism, pviol):
        nontriv = {c["hash"] for c in cases if c.get("nontrivial")}
        hist = {}
        for c in cases:
            for t in c.get("tags") or []:
                hist[t] = hist.get(t, 0) + 1
        samples = []
        for c in cases[:2] + cases[len(cases) // 2: len(cases) // 2 + 1] + cases[-1:]:
            s = {"input": c["input"], "observed": c["observed"]}
            txt = json.dumps(s)
            if len(txt) > 3000:
                s = {"input_truncated": json.dumps(c["input"])[:1500], "observed_truncated": json.dumps(c["observed"])[:1500]}
            samples.append(s)
        meta = {}
        mp = os.path.join(self.rundir, "meta.json")
        if os.path.exists(mp):
            meta = json.load(open(mp))
        self.cov.update({
            "evaluations": len(cases), "distinct_nontrivial": len(nontriv),
            "rule": meta.get("rule", ""), "samples": samples,
            "traces_validated_against_impl": len(cases) - len(mism),
            "model_impl_mismatches": len(mism), "property_failures_on_impl": len(pviol),
            "input_distribution": dict(sorted(hist.items())),
        })

    def write_evidence(self):
        tb = ["Coq 8.16.1 kernel incl. the vm_compute reduction machine (no native_compute)",
              "axioms reported by Print Assumptions: %s" % (json.dumps(self.cov.get("axioms_reported")) if self.cov.get("axioms_reported") else "none (all theorems closed under the global context)"),
              "correspondence harness /verif/harness (Go; generators, projection of observables, Coq-term printer)",
              "model evaluated inside Coq by vm_compute on the harness-written cases_<k>.v (no extraction)"]
        tb += self.cfg.get("trusted", [])
        self.cov["trusted_base"] = tb
        self.cov.setdefault("obligations", 0)
        self.cov.setdefault("discharged", 0)
        self.cov.setdefault("checker_cmd", "make -C coq")
        self.cov["known_findings_reported"] = self.known_printed
        self.cov["broken"] = self.broken
        ev = {"property_id": self.pid, "tier": self.tier, "seed": self.seed, "level": "proof",
              "coverage": self.cov, "assumptions": self.assumptions,
              "wall_s": round(time.time() - self.t0, 2), "violations": self.violations}
        os.makedirs(os.path.join(ROOT, "evidence"), exist_ok=True)
        json.dump(ev, open(os.path.join(ROOT, "evidence", self.pid + ".json"), "w"), indent=1)

    def run(self, replay=None):
        self.step_proofs()
        self.step_translate()
        res = None
        if self.cfg.get("harness", True):
            res = self.gen_and_eval(replay)
        if res is not None:
            cases, mism, pviol = res
            self.coverage_from_cases(cases, mism, pviol)
            if replay:
                if pviol and not all(self.is_known(c) for c in cases if c["index"] in pviol):
                    self.violation(replay)
                elif mism:
                    self.violation(replay, nofail=True)
                elif self.broken:
                    self.violation(self.write_replay("no-failing-input-found", None), nofail=True)
                else:
                    self.say("replay %s: property holds and model agrees on this case" % replay)
            else:
                self.decide(cases, mism, pviol)
        else:
            if self.broken:
                path = self.write_replay("no-failing-input-found", None)
                self.violation(path, nofail=True)
        if not replay:
            self.step_thorough_coqchk()
            if self.broken and self.violations == 0:
                self.violation(self.write_replay("no-failing-input-found", None), nofail=True)
        if not replay and not ALT:
            self.write_evidence()
        ok = self.violations == 0
        self.say("%s %s tier=%s seed=%d obligations=%s/%s cases=%s wall=%.1fs" % (
            self.pid, "OK" if ok else "FAIL", self.tier, self.seed, self.cov.get("discharged"),
            self.cov.get("obligations"), self.cov.get("evaluations"), time.time() - self.t0))
        if self.broken:
            for b in self.broken:
                self.say("  broken: " + b[:600])
        return 0 if ok else 1


def setup():
    """Build everything that can be built (make -k): a property whose own files do not
    compile is reported by its own check, it must not take the other checks down."""
    t0 = time.time()
    with Lock("coq"):
        write_coqproject()
        sh(["coq_makefile", "-f", "_CoqProject", "-o", "Makefile"], cwd=COQ, timeout=120)
        rc, out, _ = sh(["make", "-k", "-j%d" % NCPU], cwd=COQ, timeout=12000)
    print(out[-3000:])
    if rc != 0:
        bad = sorted(set(re.findall(r'File "\./([^"]+)", line', out)))
        print("coq build: some files failed (their checks will report it):", bad)
    import props
    failed = []
    for pid in sorted(props.PROPS):
        if not props.PROPS[pid].get("harness", True):
            continue
        rc, out, wall = build_harness(pid, race=props.PROPS[pid].get("race", False))
        if rc != 0:
            print(out[-1500:])
            failed.append(pid)
    if failed:
        print("harness build failed for", failed, "(their checks will report it)")
    print("setup done in %.1fs" % (time.time() - t0))
    return 0
