#!/usr/bin/env python3
"""Regenerate the two tables of DESIGN.md §17 (known findings, defects repaired) from known_findings.json."""
import json, os, re
ROOT = os.path.dirname(os.path.dirname(os.path.abspath(__file__)))
kf = json.load(open(os.path.join(ROOT, "known_findings.json")))
p = os.path.join(ROOT, "DESIGN.md")
s = open(p).read()

def clean(w):
    w = re.sub(r"^(known|fixed): property=C\d+ ", "", w)
    return w.replace("|", "\\|").replace("\n", " ")

def table(header, rows):
    return header + "\n" + "".join(rows)

known = ["| %s | %s | `%s` | %s |\n" % (f["property"], f["id"], f.get("classifier", ""), clean(f["what"]))
         for f in kf if f["status"] == "known"]
fixed = ["| %s | %s | %s | %s |\n" % (f["property"], f["id"], f.get("commit", ""), clean(f["what"]))
         for f in kf if f["status"] == "fixed"]

def replace_table(s, head, rows):
    i = s.index(head)
    j = i + len(head) + 1
    k = j
    while s.startswith("|", k):
        k = s.index("\n", k) + 1
    sep = s[j:s.index("\n", j) + 1]
    return s[:j] + sep + "".join(rows) + s[k:]

s = replace_table(s, "| property | id | classifier | what fails |", known)
s = replace_table(s, "| property | id | commit | what failed |", fixed)
open(p, "w").write(s)
print("known", len(known), "fixed", len(fixed))
