#!/usr/bin/env python3
"""Regenerates /verif/MANIFEST.json from lib/props.py (run after editing props.py)."""
import json
import os
import sys

ROOT = os.path.dirname(os.path.dirname(os.path.abspath(__file__)))
sys.path.insert(0, os.path.join(ROOT, "lib"))
import props  # noqa: E402

ALL = ["C%02d" % i for i in range(1, 44)]
BASE = json.load(open("/root/.vp/BASELINE.json"))["cmd"] if os.path.exists("/root/.vp/BASELINE.json") else ""

m = {
    "version": 1,
    "setup_cmd": "./check --setup",
    "hooks": {
        "guard": "verif",
        "enable": "go build -tags verif (the harness module /verif/harness replaces github.com/sarchlab/akita/v5 => /repo)",
        "baseline_off_cmd": BASE,
        "source_commits": sorted(set(sum([json.load(open(f)) for f in sorted(__import__("glob").glob(os.path.join(ROOT, "hooks", "*.json")))], []))),
        "add_only": True,
    },
    "engines": [{"name": "coq-proof+correspondence", "path": "check",
                 "serves_properties": sorted(props.PROPS),
                 "kind_free_text": "Coq 8.16.1 theorems over executable Gallina models; models tied to /repo on every run by a Go "
                                   "harness whose observed behaviour is evaluated against the model inside Coq (vm_compute)"}],
    "checks": [],
    "not_applicable": [],
    "notes": "See DESIGN.md. known_findings.json lists recorded defects; fix: commits are recorded there as fixed entries.",
}
for pid in sorted(props.PROPS):
    p = props.PROPS[pid]
    m["checks"].append({
        "property_id": pid,
        "quick_cmd": "./check %s --tier quick" % pid,
        "thorough_cmd": "./check %s --tier thorough" % pid,
        "evidence_file": "/verif/evidence/%s.json" % pid,
        "replay_cmd_template": "./check %s --replay {path}" % pid,
        "engine": "coq-proof+correspondence",
        "level_claimed": {"category": "proof", "text": p["level_text"], "design_ref": p.get("design_ref", "DESIGN.md §3")},
        "level_note": p["level_note"],
        "technique": p["technique"],
    })
NA = getattr(props, "NOT_APPLICABLE", {})
for pid in ALL:
    if pid not in props.PROPS:
        m["not_applicable"].append({"property_id": pid,
                                    "reason": NA.get(pid, "not yet built: check under construction; claimed in DESIGN.md, no command registered yet")})
json.dump(m, open(os.path.join(ROOT, "MANIFEST.json"), "w"), indent=1)
# known_findings.json is the committed merge of known_findings/Cxx.json fragments
import glob
kf = []
for f in sorted(glob.glob(os.path.join(ROOT, "known_findings", "C*.json"))):
    kf += json.load(open(f))
json.dump(kf, open(os.path.join(ROOT, "known_findings.json"), "w"), indent=1)
hk = []
for f in sorted(glob.glob(os.path.join(ROOT, "hooks", "*.json"))):
    hk += json.load(open(f))

print("wrote MANIFEST.json with %d checks, %d not_applicable" % (len(m["checks"]), len(m["not_applicable"])))
