#!/bin/bash
# Runs every registered check once (tier $1, default quick) and prints one line per property.
cd "$(dirname "$0")/.."
tier=${1:-quick}
for f in lib/props/c[0-9]*.py; do
  p=$(basename $f .py | tr a-z A-Z)
  s=$(date +%s)
  out=$(./check $p --tier $tier 2>&1)
  rc=$?
  e=$(date +%s)
  echo "$p rc=$rc wall=$((e-s))s $(echo "$out" | grep -c '^VIOLATION') violation(s) $(echo "$out" | grep -c '^KNOWN-FINDING') known | $(echo "$out" | tail -n 1 | cut -c1-120)"
done
