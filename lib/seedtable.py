#!/usr/bin/env python3
"""Prints the markdown table of seeded changes and which checks caught them (from seeded/*/meta.json)."""
import json, os, glob
ROOT = os.path.dirname(os.path.dirname(os.path.abspath(__file__)))
rows = []
for d in sorted(glob.glob(os.path.join(ROOT, "seeded", "*", "meta.json"))):
    m = json.load(open(d))
    name = os.path.basename(os.path.dirname(d))
    conf = m.get("confirmed", {})
    cr = m.get("check_result", {})
    res = []
    for pid, r in sorted(cr.items()):
        if r.get("caught"):
            res.append("%s: caught (%s)" % (pid, "failing input" if r.get("with_failing_input") else "no-failing-input-found"))
        else:
            res.append("%s: MISSED" % pid)
    rows.append("| %s | %s | %s | %s | %s |" % (name, m.get("breaks", "").replace("|", "/"), m.get("needs", "").replace("|", "/"),
                "yes" if conf.get("ok") else ("no: " + json.dumps({k: v for k, v in conf.items() if k != "at"})[:80] if conf else "not yet run"),
                "; ".join(res) or "not yet run"))
import sys
HEAD = "| seeded change | what it breaks | what it needs to manifest | confirmed (demo fails with / passes without, builds, existing tests pass) | result of `./check` on the changed tree |"
table = HEAD + "\n|---|---|---|---|---|\n" + "\n".join(rows) + "\n"
if "--update" in sys.argv:  # replace the table inside DESIGN.md in place
    p = os.path.join(ROOT, "DESIGN.md")
    s = open(p).read()
    i = s.index(HEAD)
    k = i
    while s.startswith("|", k):
        k = s.index("\n", k) + 1
    open(p, "w").write(s[:i] + table + s[k:])
    print("DESIGN.md: %d rows" % len(rows))
else:
    print(table, end="")
