#!/usr/bin/env python3
"""seedreg.py <Cxx> <k> <breaks> <needs> [prop,prop...] — copy /tmp/seed/<Cxx>/out/<k>/ into seeded/<Cxx>-<k>/ with meta.json."""
import json, os, re, shutil, sys
pid, k, breaks, needs = sys.argv[1], int(sys.argv[2]), sys.argv[3], sys.argv[4]
props = sys.argv[5].split(",") if len(sys.argv) > 5 else pid
src = '/tmp/seed/%s/out/%d' % (pid, k)
dst = os.path.join(os.path.dirname(os.path.dirname(os.path.abspath(__file__))), 'seeded', '%s-%d' % (pid, k))
os.makedirs(dst, exist_ok=True)
notes = open(os.path.join(src, 'notes.md')).read()
demo = {}
for f in sorted(os.listdir(src)):
    p = os.path.join(src, f)
    if os.path.isfile(p) and not f.endswith(('.log', '.txt')) and os.path.getsize(p) < 400000:
        shutil.copyfile(p, os.path.join(dst, f))
    if f.endswith('_test.go') or (f.endswith('.go') and 'demo' in f):
        m = re.search(re.escape(f) + r"`?\s*(?:->|→|goes to|goes in|goes at)\s*`?((?:[\w\-]+/)+[\w\-\.]*\.go)", notes)
        if not m:
            m = re.search(r"(?:->|→)\s*`?((?:[\w\-]+/)+[\w\-\.]*_test\.go)", notes)
        demo[f] = m.group(1) if m else None
pk = sorted({'./' + os.path.dirname(d) + '/' for d in demo.values() if d})
core = ["./timing/...", "./modeling/...", "./simulation/...", "./messaging/...", "./queueing/...", "./mem/...", "./noc/...",
        "./tracing/...", "./datarecording/...", "./monitoring2/...", "./daisen2/...", "./sourcefs/..."]
json.dump({"property": props, "breaks": breaks, "needs": needs, "demo": demo,
           "demo_cmd": "go test -vet=off -count=1 -run 'Seed' " + " ".join(pk), "test_pkgs": core,
           "origin": "fresh sub-agent given only the property text and a scratch worktree (see notes.md)"},
          open(os.path.join(dst, 'meta.json'), 'w'), indent=1)
print(pid, k, demo, pk)
