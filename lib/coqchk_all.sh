#!/bin/bash
# Re-checks every compiled Property module (and everything it depends on) with the independent checker
# and prints the axioms the whole development relies on.  Do not run ./check concurrently (it rewrites .vo files).
cd "$(dirname "$0")/../coq"
mods=$(for i in $(seq -w 1 43); do echo -n "Akita.C$i.Property "; done)
coqchk -silent -o -Q theories Akita $mods
