(** C19 — proofs about the directory kernels and the guarded directory operations. *)
From Akita Require Import Lib.Base C19.Model.
From Coq Require Import Permutation.
Local Open Scope Z_scope.

(** * Small list facts *)

Lemma zth_Some_range {A} (l : list A) i x : zth l i = Some x -> 0 <= i < Z.of_nat (length l).
Proof.
  unfold zth. destruct (i <? 0) eqn:E; [discriminate|]. intro H.
  assert (Hn : (Z.to_nat i < length l)%nat) by (apply nth_error_Some; congruence). lia.
Qed.

Lemma zth_in {A} (l : list A) i x : zth l i = Some x -> In x l.
Proof. unfold zth. destruct (i <? 0); [discriminate|]. apply nth_error_In. Qed.

Lemma upd_nat_length {A} (l : list A) n x : length (upd_nat l n x) = length l.
Proof. revert n; induction l as [|y l IH]; intros [|n]; cbn; auto. Qed.

Lemma zupd_length {A} (l : list A) i x : length (zupd l i x) = length l.
Proof. unfold zupd. destruct (i <? 0); auto using upd_nat_length. Qed.

Lemma nth_upd_nat_same {A} (l : list A) n x : (n < length l)%nat -> nth_error (upd_nat l n x) n = Some x.
Proof. revert n; induction l as [|y l IH]; intros [|n] H; cbn in *; try lia; auto. apply IH. lia. Qed.

Lemma nth_upd_nat_other {A} (l : list A) n m x : n <> m -> nth_error (upd_nat l n x) m = nth_error l m.
Proof.
  revert n m; induction l as [|y l IH]; intros [|n] [|m] H; cbn; auto; try congruence.
Qed.

Lemma zth_zupd_same {A} (l : list A) i x y : zth l i = Some y -> zth (zupd l i x) i = Some x.
Proof.
  intro H. pose proof (zth_Some_range _ _ _ H) as R. unfold zth, zupd in *.
  destruct (i <? 0) eqn:E; [lia|]. apply nth_upd_nat_same. lia.
Qed.

Lemma zth_zupd_other {A} (l : list A) i j x : i <> j -> zth (zupd l i x) j = zth l j.
Proof.
  intro H. unfold zth, zupd. destruct (j <? 0) eqn:Ej; auto.
  destruct (i <? 0) eqn:Ei; auto. apply nth_upd_nat_other. lia.
Qed.

(** * DirectoryVisit keeps the recency list a permutation of the ways *)

Lemma count_remove_first_same w l :
  count_z w (remove_first w l) = Nat.pred (count_z w l).
Proof.
  induction l as [|x l IH]; cbn; auto.
  destruct (x =? w) eqn:E; cbn; [reflexivity|]. rewrite E. exact IH.
Qed.

Lemma count_remove_first_other w v l : v <> w ->
  count_z v (remove_first w l) = count_z v l.
Proof.
  intro H. induction l as [|x l IH]; cbn; auto.
  destruct (x =? w) eqn:E.
  - assert (x = w) by lia. subst. destruct (w =? v) eqn:E2; [lia|reflexivity].
  - cbn. rewrite IH. reflexivity.
Qed.

Lemma count_app v a b : count_z v (a ++ b) = (count_z v a + count_z v b)%nat.
Proof. induction a as [|x a IH]; cbn; auto. destruct (x =? v); rewrite IH; lia. Qed.

Lemma length_remove_first w l : (0 < count_z w l)%nat ->
  length (remove_first w l) = Nat.pred (length l).
Proof.
  induction l as [|x l IH]; cbn; [lia|].
  destruct (x =? w) eqn:E; [reflexivity|]. intro H. cbn. rewrite IH by exact H.
  destruct l; cbn in *; [lia|reflexivity].
Qed.

Lemma lru_ok_spec ways lru :
  lru_ok ways lru = true <->
  length lru = ways /\ forall j, (j < ways)%nat -> count_z (Z.of_nat j) lru = 1%nat.
Proof.
  unfold lru_ok. rewrite andb_true_iff, Nat.eqb_eq, forallb_forall. split; intros [H1 H2]; split; auto.
  - intros j Hj. apply Nat.eqb_eq. apply H2. apply in_seq. lia.
  - intros j Hj. apply in_seq in Hj. apply Nat.eqb_eq. apply H2. lia.
Qed.

Theorem visit_lru_ok ways lru w :
  lru_ok ways lru = true -> 0 <= w < Z.of_nat ways ->
  lru_ok ways (remove_first w lru ++ [w]) = true.
Proof.
  intros H Hw. apply lru_ok_spec in H. destruct H as [HL HC]. apply lru_ok_spec.
  assert (Hcw : count_z w lru = 1%nat).
  { replace w with (Z.of_nat (Z.to_nat w)) by lia. apply HC. lia. }
  split.
  - rewrite app_length, length_remove_first by lia. cbn. destruct lru; cbn in *; lia.
  - intros j Hj. rewrite count_app. cbn.
    destruct (w =? Z.of_nat j) eqn:E.
    + assert (w = Z.of_nat j) by lia. subst. rewrite count_remove_first_same, Hcw. reflexivity.
    + rewrite count_remove_first_other by lia. rewrite HC by exact Hj. reflexivity.
Qed.

(** the visited way becomes most recently used, the others keep their order *)
Lemma remove_first_filter w l : (count_z w l <= 1)%nat ->
  remove_first w l = filter (fun x => negb (x =? w)) l.
Proof.
  induction l as [|x l IH]; cbn; auto. destruct (x =? w) eqn:E; cbn; intro H.
  - clear IH. assert (Hc : count_z w l = 0%nat) by lia. clear H.
    induction l as [|y l IH]; cbn in *; auto. destruct (y =? w) eqn:E2; [discriminate|]. cbn. f_equal. auto.
  - f_equal. auto.
Qed.

(** lru_ok is the same as being a permutation of [0..ways-1] *)
Lemma count_z_in w l : (0 < count_z w l)%nat <-> In w l.
Proof.
  induction l as [|x l IH]; cbn; [split; [lia|tauto]|].
  destruct (x =? w) eqn:E; split; intro H.
  - left. lia.
  - lia.
  - right. apply IH. exact H.
  - destruct H as [H|H]; [lia|]. apply IH. exact H.
Qed.

Lemma count_z_nodup l : (forall w, (count_z w l <= 1)%nat) -> NoDup l.
Proof.
  induction l as [|x l IH]; intro H; constructor.
  - intro Hin. apply count_z_in in Hin. specialize (H x). cbn in H. rewrite Z.eqb_refl in H. lia.
  - apply IH. intro w. specialize (H w). cbn in H. destruct (x =? w); lia.
Qed.

Theorem lru_ok_perm ways lru :
  lru_ok ways lru = true -> Permutation lru (map Z.of_nat (seq 0 ways)).
Proof.
  intro H. apply lru_ok_spec in H. destruct H as [HL HC].
  assert (Hincl : incl (map Z.of_nat (seq 0 ways)) lru).
  { intros x Hx. apply in_map_iff in Hx. destruct Hx as [j [<- Hj]]. apply in_seq in Hj.
    apply count_z_in. rewrite HC by lia. lia. }
  assert (Hnd : NoDup (map Z.of_nat (seq 0 ways))).
  { apply FinFun.Injective_map_NoDup; [intros a b; lia|apply seq_NoDup]. }
  apply Permutation_sym. apply NoDup_Permutation_bis; auto.
  rewrite map_length, seq_length. lia.
Qed.

(** * DirectoryFindVictim *)

Lemma scan_victim_some bs lru w :
  scan_victim bs lru = Some (Some w) ->
  In w lru /\ exists b, zth bs w = Some b /\ busy b = false /\
  (* it is the least recently used among the non-busy ways *)
  exists pre post, lru = pre ++ w :: post /\
     forall v, In v pre -> exists bv, zth bs v = Some bv /\ busy bv = true.
Proof.
  induction lru as [|x lru IH]; cbn; [discriminate|].
  destruct (zth bs x) as [b|] eqn:Eb; [|discriminate].
  destruct (busy b) eqn:Ebusy.
  - intro H. destruct (IH H) as [Hin [b' [Hz [Hb [pre [post [Hl Hpre]]]]]]].
    split; [right; exact Hin|]. exists b'. repeat split; auto.
    exists (x :: pre), post. split; [cbn; congruence|].
    intros v [->|Hv]; eauto.
  - intro H. injection H as <-. split; [left; reflexivity|]. exists b. repeat split; auto.
    exists [], lru. split; [reflexivity|]. intros v [].
Qed.

Lemma scan_victim_none bs lru :
  scan_victim bs lru = Some None ->
  forall v, In v lru -> exists bv, zth bs v = Some bv /\ busy bv = true.
Proof.
  induction lru as [|x lru IH]; cbn; [intros _ v []|].
  destruct (zth bs x) as [b|] eqn:Eb; [|discriminate].
  destruct (busy b) eqn:Ebusy; [|discriminate].
  intros H v [->|Hv]; eauto.
Qed.

Lemma scan_victim_total bs lru :
  (forall v, In v lru -> exists b, zth bs v = Some b) -> scan_victim bs lru <> None.
Proof.
  induction lru as [|x lru IH]; cbn; intro H; [discriminate|].
  destruct (H x (or_introl eq_refl)) as [b ->]. destruct (busy b); [|discriminate].
  apply IH. intros v Hv. apply H. right. exact Hv.
Qed.
