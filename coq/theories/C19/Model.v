(** C19 — model of mem/cache/directory_ops.go (DirectorySetID / DirectoryLookup /
    DirectoryFindVictim / DirectoryVisit / DirectoryReset) over a
    [DirectoryState], the well-formedness predicate [dir_wf] evaluated on the
    real caches' states, and the directory-level operations that the
    write-back and write-through caches perform, with the callers' guards.

    Go [int] values (set / way indices, ReadCount) are [Z]; [uint64]/[uint32]
    values are [N] with explicit 64-bit wrap where the code can overflow
    (the splitmix64 finalizer).  A Go run-time panic (index out of range,
    integer division by zero) is the outcome [None]. *)
From Akita Require Import Lib.Base.
Local Open Scope Z_scope.

(** cache.BlockState (field order of state_helpers.go). *)
Record block := B {
  b_pid : N; b_tag : N; b_way : Z; b_set : Z; b_caddr : N;
  b_valid : bool; b_dirty : bool; b_rc : Z; b_locked : bool;
  b_mask : option (list bool) }.

(** cache.SetState: the blocks (index = way) and the recency order
    (front = least recently used). *)
Record cset := S { s_blocks : list block; s_lru : list Z }.

(** cache.DirectoryState. *)
Definition dir := list cset.

(** Slice indexing with a Go [int]: out of range (incl. negative) panics. *)
Definition zth {A} (l : list A) (i : Z) : option A :=
  if i <? 0 then None else nth_error l (Z.to_nat i).

Fixpoint upd_nat {A} (l : list A) (n : nat) (x : A) : list A :=
  match l, n with
  | [], _ => []
  | _ :: r, O => x :: r
  | y :: r, Datatypes.S k => y :: upd_nat r k x
  end.

Definition zupd {A} (l : list A) (i : Z) (x : A) : list A :=
  if i <? 0 then l else upd_nat l (Z.to_nat i) x.

(** DirectorySetID: splitmix64 finalizer of the block id, modulo numSets.
    Division by a zero block size / zero set count traps. *)
Definition mix64 (h : N) : N :=
  let h := N.lxor h (N.shiftr h 33) in
  let h := w64 (h * 18397679294719823053)%N in      (* 0xff51afd7ed558ccd *)
  let h := N.lxor h (N.shiftr h 33) in
  let h := w64 (h * 14181476777654086739)%N in      (* 0xc4ceb9fe1a85ec53 *)
  N.lxor h (N.shiftr h 33).

Definition set_id (addr bs ns : N) : option Z :=
  if (bs =? 0)%N then None
  else if (ns =? 0)%N then None
  else Some (Z.of_N (mix64 (addr / bs) mod ns)%N).

Definition block_matches (pid addr : N) (b : block) : bool :=
  b_valid b && (b_tag b =? addr)%N && (b_pid b =? pid)%N.

(** index of the first block satisfying [f], or -1 *)
Fixpoint find_way (f : block -> bool) (bs : list block) (i : Z) : Z :=
  match bs with
  | [] => -1
  | b :: r => if f b then i else find_way f r (i + 1)
  end.

(** DirectoryLookup: (setID, wayID, found); wayID = -1 when not found. *)
Definition lookup (d : dir) (ns bs pid addr : N) : option (Z * Z * bool) :=
  match set_id addr bs ns with
  | None => None
  | Some sid =>
      match zth d sid with
      | None => None
      | Some s =>
          let w := find_way (block_matches pid addr) (s_blocks s) 0 in
          Some (sid, w, 0 <=? w)
      end
  end.

Definition busy (b : block) : bool := b_locked b || negb (b_rc b =? 0).

(** the scan of DirectoryFindVictim over LRUOrder: [None] = panic (a listed
    way is not a block index), [Some None] = every way busy. *)
Fixpoint scan_victim (bs : list block) (lru : list Z) : option (option Z) :=
  match lru with
  | [] => Some None
  | w :: r =>
      match zth bs w with
      | None => None
      | Some b => if busy b then scan_victim bs r else Some (Some w)
      end
  end.

(** DirectoryFindVictim: (setID, wayID); falls back to LRUOrder[0]. *)
Definition find_victim (d : dir) (ns bs addr : N) : option (Z * Z) :=
  match set_id addr bs ns with
  | None => None
  | Some sid =>
      match zth d sid with
      | None => None
      | Some s =>
          match scan_victim (s_blocks s) (s_lru s) with
          | None => None
          | Some (Some w) => Some (sid, w)
          | Some None =>
              match s_lru s with
              | [] => None
              | w0 :: _ => Some (sid, w0)
              end
          end
      end
  end.

(** DirectoryVisit: remove the first occurrence of the way (if any), append it. *)
Fixpoint remove_first (w : Z) (l : list Z) : list Z :=
  match l with
  | [] => []
  | x :: r => if x =? w then r else x :: remove_first w r
  end.

Definition visit_set (s : cset) (w : Z) : cset :=
  S (s_blocks s) (remove_first w (s_lru s) ++ [w]).

Definition visit (d : dir) (sid w : Z) : option dir :=
  match zth d sid with
  | None => None
  | Some s => Some (zupd d sid (visit_set s w))
  end.

(** DirectoryReset. *)
Definition fresh_block (ways bs : N) (i j : nat) : block :=
  B 0 0 (Z.of_nat j) (Z.of_nat i)
    (w64 (w64 (N.of_nat i * ways + N.of_nat j) * bs))%N
    false false 0 false None.

Definition fresh_set (ways bs : N) (i : nat) : cset :=
  S (map (fresh_block ways bs i) (seq 0 (N.to_nat ways)))
    (map Z.of_nat (seq 0 (N.to_nat ways))).

Definition reset (ns ways bs : N) : dir :=
  map (fresh_set ways bs) (seq 0 (N.to_nat ns)).

(** * Well-formedness, as a boolean function (evaluated on real states) *)

Fixpoint count_z (w : Z) (l : list Z) : nat :=
  match l with
  | [] => O
  | x :: r => if x =? w then Datatypes.S (count_z w r) else count_z w r
  end.

(** the recency list names each way 0..ways-1 exactly once *)
Definition lru_ok (ways : nat) (lru : list Z) : bool :=
  Nat.eqb (length lru) ways &&
  forallb (fun j => Nat.eqb (count_z (Z.of_nat j) lru) 1) (seq 0 ways).

(** no later block is valid with the same (PID, tag) *)
Fixpoint nodup_valid (bs : list block) : bool :=
  match bs with
  | [] => true
  | b :: r =>
      (if b_valid b then negb (existsb (block_matches (b_pid b) (b_tag b)) r) else true)
      && nodup_valid r
  end.

Definition block_ok (ns bs : N) (sid : Z) (b : block) : bool :=
  (0 <=? b_rc b) &&
  (if b_valid b then
     match set_id (b_tag b) bs ns with
     | Some h => (h =? sid) && ((b_tag b) mod bs =? 0)%N
     | None => false
     end
   else true).

Definition set_ok (ns ways bs : N) (sid : Z) (s : cset) : bool :=
  Nat.eqb (length (s_blocks s)) (N.to_nat ways) &&
  lru_ok (N.to_nat ways) (s_lru s) &&
  forallb (block_ok ns bs sid) (s_blocks s) &&
  nodup_valid (s_blocks s).

Fixpoint sets_ok (ns ways bs : N) (sid : Z) (d : list cset) : bool :=
  match d with
  | [] => true
  | s :: r => set_ok ns ways bs sid s && sets_ok ns ways bs (sid + 1) r
  end.

Definition dir_wf (ns ways bs : N) (d : dir) : bool :=
  Nat.eqb (length d) (N.to_nat ns) && sets_ok ns ways bs 0 d.

(** * Directory-level operations of the two caches, with the callers' guards *)

Definition upd_block (d : dir) (sid w : Z) (f : block -> block) : dir :=
  match zth d sid with
  | None => d
  | Some s =>
      match zth (s_blocks s) w with
      | None => d
      | Some b => zupd d sid (S (zupd (s_blocks s) w (f b)) (s_lru s))
      end
  end.

Definition get_block (d : dir) (sid w : Z) : option block :=
  match zth d sid with
  | None => None
  | Some s => zth (s_blocks s) w
  end.

Definition set_tag (pid tag : N) (lock : bool) (b : block) : block :=
  B pid tag (b_way b) (b_set b) (b_caddr b) true (b_dirty b) (b_rc b) lock (b_mask b).
Definition set_tag_evict (pid tag : N) (b : block) : block :=
  B pid tag (b_way b) (b_set b) (b_caddr b) (b_valid b) false (b_rc b) true (b_mask b).
(** write-through install before the fix commit: the PID is NOT updated *)
Definition set_tag_keep_pid (tag : N) (b : block) : block :=
  B (b_pid b) tag (b_way b) (b_set b) (b_caddr b) true (b_dirty b) (b_rc b) true (b_mask b).
Definition set_locked (l : bool) (b : block) : block :=
  B (b_pid b) (b_tag b) (b_way b) (b_set b) (b_caddr b) (b_valid b) (b_dirty b) (b_rc b) l (b_mask b).
Definition set_valid (v : bool) (b : block) : block :=
  B (b_pid b) (b_tag b) (b_way b) (b_set b) (b_caddr b) v (if v then b_dirty b else false) (b_rc b) (b_locked b)
    (if v then b_mask b else None).
Definition set_dirty (dt : bool) (b : block) : block :=
  B (b_pid b) (b_tag b) (b_way b) (b_set b) (b_caddr b) (b_valid b) dt (b_rc b) (b_locked b) (b_mask b).
Definition add_rc (k : Z) (b : block) : block :=
  B (b_pid b) (b_tag b) (b_way b) (b_set b) (b_caddr b) (b_valid b) (b_dirty b) (b_rc b + k) (b_locked b) (b_mask b).
Definition finish_write (b : block) : block :=   (* bank stage: valid, unlocked, dirty *)
  B (b_pid b) (b_tag b) (b_way b) (b_set b) (b_caddr b) true true (b_rc b) false (b_mask b).
Definition finish_fill (b : block) : block :=    (* bank stage: valid, unlocked *)
  B (b_pid b) (b_tag b) (b_way b) (b_set b) (b_caddr b) true (b_dirty b) (b_rc b) false (b_mask b).

Inductive op :=
| OInstall (pid tag : N) (evict : bool)
    (** miss path of both caches (fetch / writeToBank / fetchFromBottom /
        evict): victim := FindVictim; guard: lookup misses, victim not busy *)
| OInstallKeepPid (tag : N) (pid : N)
    (** write-through full-line write miss BEFORE the fix: tag set, PID kept *)
| OWriteHit (pid tag : N)
    (** write hit: guard found, not locked, no readers; lock + visit *)
| OReadHit (pid tag : N)
    (** read hit: guard found, not locked; readers++ ; visit *)
| OReadDone (sid w : Z)
    (** bank stage finished a read hit: guard readers > 0; readers-- *)
| OFinishWrite (sid w : Z)
    (** write-back bank stage (finalizeWriteHit): guard locked; valid := true, dirty, unlocked *)
| OFinishFill (sid w : Z)
    (** write-back bank stage (finalizeBankWriteFetched): guard locked; valid := true, unlocked *)
| OUnlock (sid w : Z)
    (** write-through bank stage (finalizeWriteTrans / finalizeWriteFetchedTrans): unlocked, validity untouched *)
| OEvictHit (pid tag : N)
    (** write-evict hit: guard found, not locked, no readers; valid := false *)
| OInvalidate (addrs : list N) (pid : N)
    (** write-back control Invalidate with filter, after the fix: locked blocks are skipped *)
| OInvalidateAll (addrs : list N) (pid : N)
    (** write-through control Invalidate (and the write-back one BEFORE the fix): locked blocks too *)
| OMarkClean (sid w : Z)                   (** flusher finalisation *)
| OReset.

Definition inv_match (bs : N) (addrs : list N) (pid : N) (b : block) : bool :=
  b_valid b &&
  ((pid =? 0)%N || (b_pid b =? pid)%N) &&
  (match addrs with
   | [] => true
   | _ => existsb (fun a => (a / bs * bs =? b_tag b)%N) addrs
   end).

Definition invalidate_set (skip_locked : bool) (bs : N) (addrs : list N) (pid : N) (s : cset) : cset :=
  S (map (fun b => if inv_match bs addrs pid b && negb (skip_locked && b_locked b) then set_valid false b else b)
         (s_blocks s)) (s_lru s).

(** one operation; a failed guard (or an index panic) leaves the state as it is
    — in the caches the transaction stalls and retries. *)
Definition step (ns ways bs : N) (d : dir) (o : op) : dir :=
  match o with
  | OInstall pid tag evict =>
      match lookup d ns bs pid tag, find_victim d ns bs tag with
      | Some (_, _, false), Some (sid, w) =>
          match get_block d sid w with
          | Some v =>
              (* evict: only a valid dirty victim is evicted (needEviction) *)
              if busy v || negb ((tag mod bs =? 0)%N) || (evict && negb (b_valid v && b_dirty v)) then d
              else
                let d1 := upd_block d sid w
                            (if evict then set_tag_evict pid tag else set_tag pid tag true) in
                match visit d1 sid w with Some d2 => d2 | None => d end
          | None => d
          end
      | _, _ => d
      end
  | OInstallKeepPid tag pid =>
      match lookup d ns bs pid tag, find_victim d ns bs tag with
      | Some (_, _, false), Some (sid, w) =>
          match get_block d sid w with
          | Some v =>
              if busy v || negb ((tag mod bs =? 0)%N) then d
              else
                let d1 := upd_block d sid w (set_tag_keep_pid tag) in
                match visit d1 sid w with Some d2 => d2 | None => d end
          | None => d
          end
      | _, _ => d
      end
  | OWriteHit pid tag =>
      match lookup d ns bs pid tag with
      | Some (sid, w, true) =>
          match get_block d sid w with
          | Some b =>
              if busy b then d
              else match visit (upd_block d sid w (set_locked true)) sid w with
                   | Some d2 => d2 | None => d end
          | None => d
          end
      | _ => d
      end
  | OReadHit pid tag =>
      match lookup d ns bs pid tag with
      | Some (sid, w, true) =>
          match get_block d sid w with
          | Some b =>
              if b_locked b then d
              else match visit (upd_block d sid w (add_rc 1)) sid w with
                   | Some d2 => d2 | None => d end
          | None => d
          end
      | _ => d
      end
  | OReadDone sid w =>
      match get_block d sid w with
      | Some b => if 0 <? b_rc b then upd_block d sid w (add_rc (-1)) else d
      | None => d
      end
  | OFinishWrite sid w =>
      match get_block d sid w with
      | Some b => if b_locked b then upd_block d sid w finish_write else d
      | None => d
      end
  | OFinishFill sid w =>
      match get_block d sid w with
      | Some b => if b_locked b then upd_block d sid w finish_fill else d
      | None => d
      end
  | OUnlock sid w => upd_block d sid w (set_locked false)
  | OEvictHit pid tag =>
      match lookup d ns bs pid tag with
      | Some (sid, w, true) =>
          match get_block d sid w with
          | Some b => if busy b then d else upd_block d sid w (set_valid false)
          | None => d
          end
      | _ => d
      end
  | OInvalidate addrs pid => map (invalidate_set true bs addrs pid) d
  | OInvalidateAll addrs pid => map (invalidate_set false bs addrs pid) d
  | OMarkClean sid w => upd_block d sid w (set_dirty false)
  | OReset => reset ns ways bs
  end.

Definition run (ns ways bs : N) (d : dir) (ops : list op) : dir :=
  fold_left (step ns ways bs) ops d.
