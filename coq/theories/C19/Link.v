(** C19 — link between the two evaluators on the FindVictim / Lookup kernel
    cases: agreement with the model implies the property predicate. *)
From Akita Require Import Lib.Base C19.Model C19.Proofs C19.Proofs2 C19.Exec.
Local Open Scope Z_scope.

Lemma scan_first_free bs : forall lru,
  match scan_victim bs lru with
  | Some (Some w) => first_free bs lru = Some w
  | Some None => first_free bs lru = None
  | None => True
  end.
Proof.
  induction lru as [|x lru IH]; cbn [scan_victim]; [reflexivity|].
  destruct (zth bs x) as [b|] eqn:Eb; [|exact I].
  unfold first_free in *. cbn [filter]. rewrite Eb.
  destruct (busy b) eqn:Ebusy; cbn [negb]; [exact IH|reflexivity].
Qed.

Lemma zz_eqb_eq a b : zz_eqb a b = true -> a = b.
Proof. destruct a, b. unfold zz_eqb. cbn. intro H. apply andb_true_iff in H. f_equal; lia. Qed.

Theorem victim_agreement_implies_property d ns bs addr o :
  check_case (KVictim d ns bs addr o) = true -> holds_on (KVictim d ns bs addr o) = true.
Proof.
  cbn [check_case holds_on]. intro H. destruct o as [[sid w]|]; [|reflexivity].
  destruct (find_victim d ns bs addr) as [[sid' w']|] eqn:Ev; [|discriminate].
  cbn [opt_eqb] in H. apply zz_eqb_eq in H. injection H as -> ->.
  unfold find_victim in Ev. destruct (set_id addr bs ns) as [h|]; [|discriminate].
  destruct (zth d h) as [s|] eqn:Es; [|discriminate].
  pose proof (scan_first_free (s_blocks s) (s_lru s)) as Hsf.
  destruct (scan_victim (s_blocks s) (s_lru s)) as [[v|]|] eqn:Esc; [| |discriminate].
  - injection Ev as <- <-. rewrite Es, Hsf. rewrite Z.eqb_refl. cbn [andb].
    destruct (scan_victim_some _ _ _ Esc) as [_ [b [Hb [Hbusy _]]]]. rewrite Hb.
    unfold busy in Hbusy. apply orb_false_iff in Hbusy. destruct Hbusy as [-> Hr].
    apply negb_false_iff in Hr. rewrite Hr. reflexivity.
  - destruct (s_lru s) as [|w0 rest] eqn:El; [discriminate|]. injection Ev as <- <-.
    rewrite Es, El, Hsf. apply Z.eqb_refl.
Qed.

Lemma lk_eqb_eq a b : lk_eqb a b = true -> a = b.
Proof.
  destruct a as [[s1 w1] f1], b as [[s2 w2] f2]. cbn. intro H.
  apply andb_true_iff in H. destruct H as [H H3]. apply andb_true_iff in H. destruct H as [H1 H2].
  assert (f1 = f2) by (destruct f1, f2; cbn in H3; congruence). f_equal; [f_equal; lia|assumption].
Qed.

Theorem lookup_agreement_implies_property d ns bs pid addr o :
  check_case (KLookup d ns bs pid addr o) = true -> holds_on (KLookup d ns bs pid addr o) = true.
Proof.
  cbn [check_case holds_on]. intro H. destruct o as [[[sid w] found]|]; [|reflexivity].
  destruct (lookup d ns bs pid addr) as [r|] eqn:El; [|discriminate].
  cbn [opt_eqb] in H. apply lk_eqb_eq in H. subst r.
  destruct (lookup_sound _ _ _ _ _ _ _ _ El) as [_ [s [Hs Hf]]]. rewrite Hs. destruct found.
  - destruct Hf as [b [Hb [V [T P]]]]. rewrite Hb. apply block_matches_iff. auto.
  - destruct Hf as [-> Hn]. cbn. apply negb_true_iff.
    destruct (existsb (block_matches pid addr) (s_blocks s)) eqn:E; [|reflexivity].
    apply existsb_exists in E. destruct E as [x [Hx Hm]]. rewrite (Hn x Hx) in Hm. discriminate.
Qed.
