(** C19 — case evaluators: exact tie of the directory kernels and the runtime
    invariant check of [dir_wf] on states of the real caches. *)
From Akita Require Import Lib.Base C19.Model.
Local Open Scope Z_scope.

Definition bool_eqb (a b : bool) : bool := if a then b else negb b.

Definition block_eqb (a b : block) : bool :=
  (b_pid a =? b_pid b)%N && (b_tag a =? b_tag b)%N && (b_way a =? b_way b) &&
  (b_set a =? b_set b) && (b_caddr a =? b_caddr b)%N &&
  bool_eqb (b_valid a) (b_valid b) && bool_eqb (b_dirty a) (b_dirty b) &&
  (b_rc a =? b_rc b) && bool_eqb (b_locked a) (b_locked b) &&
  opt_eqb (list_eqb bool_eqb) (b_mask a) (b_mask b).

Definition cset_eqb (a b : cset) : bool :=
  list_eqb block_eqb (s_blocks a) (s_blocks b) && list_eqb Z.eqb (s_lru a) (s_lru b).

Definition dir_eqb : dir -> dir -> bool := list_eqb cset_eqb.

Inductive case :=
| KSetId (addr bs ns : N) (o : option Z)
| KLookup (d : dir) (ns bs pid addr : N) (o : option (Z * Z * bool))
| KVictim (d : dir) (ns bs addr : N) (o : option (Z * Z))
| KVisit (d : dir) (sid w : Z) (o : option dir)
| KReset (ns ways bs : N) (o : dir)
    (** samples of the directory of a real cache (geometry, state), and whether
        the run panicked *)
| Snaps (panicked : bool) (l : list (N * N * N * dir)).

Definition lk_eqb (a b : Z * Z * bool) : bool :=
  let '(s1, w1, f1) := a in let '(s2, w2, f2) := b in
  (s1 =? s2) && (w1 =? w2) && bool_eqb f1 f2.
Definition zz_eqb (a b : Z * Z) : bool := (fst a =? fst b) && (snd a =? snd b).

(** model output = implementation output *)
Definition check_case (c : case) : bool :=
  match c with
  | KSetId addr bs ns o => opt_eqb Z.eqb (set_id addr bs ns) o
  | KLookup d ns bs pid addr o => opt_eqb lk_eqb (lookup d ns bs pid addr) o
  | KVictim d ns bs addr o => opt_eqb zz_eqb (find_victim d ns bs addr) o
  | KVisit d sid w o => opt_eqb dir_eqb (visit d sid w) o
  | KReset ns ways bs o => dir_eqb (reset ns ways bs) o
  | Snaps _ _ => true
  end.

(** the property clauses evaluated on the implementation's own outputs *)
Definition first_free (bs : list block) (lru : list Z) : option Z :=
  match filter (fun w => match zth bs w with Some b => negb (busy b) | None => false end) lru with
  | [] => None
  | w :: _ => Some w
  end.

Definition holds_on (c : case) : bool :=
  match c with
  | KSetId addr bs ns o =>
      match o with
      | Some h => (0 <=? h) && (h <? Z.of_N ns)
      | None => (bs =? 0)%N || (ns =? 0)%N
      end
  | KLookup d ns bs pid addr o =>
      match o with
      | None => true      (* panic: malformed input *)
      | Some (sid, w, found) =>
          match zth d sid with
          | None => false
          | Some s =>
              if found then
                match zth (s_blocks s) w with
                | Some b => block_matches pid addr b
                | None => false
                end
              else (w =? -1) && negb (existsb (block_matches pid addr) (s_blocks s))
          end
      end
  | KVictim d ns bs addr o =>
      match o with
      | None => true
      | Some (sid, w) =>
          match zth d sid with
          | None => false
          | Some s =>
              match first_free (s_blocks s) (s_lru s) with
              | Some w' => (w =? w') &&
                           match zth (s_blocks s) w with
                           | Some b => negb (b_locked b) && (b_rc b =? 0)
                           | None => false
                           end
              | None => match s_lru s with w0 :: _ => w =? w0 | [] => false end
              end
          end
      end
  | KVisit d sid w o =>
      match o, zth d sid with
      | Some d', Some s =>
          match zth d' sid with
          | Some s' =>
              let ways := length (s_blocks s) in
              list_eqb block_eqb (s_blocks s) (s_blocks s') &&
              (if lru_ok ways (s_lru s) && (0 <=? w) && (w <? Z.of_nat ways) then
                 lru_ok ways (s_lru s') &&
                 list_eqb Z.eqb (s_lru s') (filter (fun x => negb (x =? w)) (s_lru s) ++ [w])
               else true) &&
              Nat.eqb (length d) (length d')
          | None => false
          end
      | None, None => true
      | _, _ => false
      end
  | KReset ns ways bs o =>
      if (bs =? 0)%N || (ns =? 0)%N then true
      else dir_wf ns ways bs o &&
           forallb (fun s => forallb (fun b => negb (b_valid b) && negb (busy b)) (s_blocks s)) o
  | Snaps panicked l =>
      negb panicked &&
      forallb (fun '(ns, ways, bs, d) => dir_wf ns ways bs d) l
  end.
