(** C19 — well-formedness: Prop characterisation, Reset, Lookup, FindVictim,
    and preservation by every guarded directory operation. *)
From Akita Require Import Lib.Base C19.Model C19.Proofs.
Local Open Scope Z_scope.

(** * Prop-level reading of the boolean predicates *)

Definition same_line (x y : block) : Prop := b_tag x = b_tag y /\ b_pid x = b_pid y.

Definition NoDupValid (bs : list block) : Prop :=
  forall i j bi bj, i <> j -> nth_error bs i = Some bi -> nth_error bs j = Some bj ->
    b_valid bi = true -> b_valid bj = true -> ~ same_line bi bj.

Lemma block_matches_iff pid addr b :
  block_matches pid addr b = true <-> b_valid b = true /\ b_tag b = addr /\ b_pid b = pid.
Proof. unfold block_matches. rewrite !andb_true_iff, !N.eqb_eq. tauto. Qed.

Lemma nodup_valid_iff bs : nodup_valid bs = true <-> NoDupValid bs.
Proof.
  induction bs as [|b r IH]; cbn [nodup_valid].
  - split; [|reflexivity]. intros _ i j bi bj _ Hi. destruct i; discriminate.
  - rewrite andb_true_iff, IH. split.
    + intros [Hb Hr] i j bi bj Hij Hi Hj Vi Vj [Ht Hp].
      destruct i as [|i], j as [|j]; cbn [nth_error] in *; try lia.
      * injection Hi as <-. rewrite Vi in Hb. apply negb_true_iff in Hb.
        assert (Hex : existsb (block_matches (b_pid b) (b_tag b)) r = true).
        { apply existsb_exists. exists bj. split; [eapply nth_error_In; eauto|].
          apply block_matches_iff. auto. }
        congruence.
      * injection Hj as <-. rewrite Vj in Hb. apply negb_true_iff in Hb.
        assert (Hex : existsb (block_matches (b_pid b) (b_tag b)) r = true).
        { apply existsb_exists. exists bi. split; [eapply nth_error_In; eauto|].
          apply block_matches_iff. auto. }
        congruence.
      * apply (Hr i j bi bj); auto. split; auto.
    + intro H. split.
      * destruct (b_valid b) eqn:Vb; [|reflexivity]. apply negb_true_iff.
        destruct (existsb (block_matches (b_pid b) (b_tag b)) r) eqn:E; [|reflexivity]. exfalso.
        apply existsb_exists in E. destruct E as [x [Hin Hm]]. apply block_matches_iff in Hm.
        destruct Hm as [Vx [Ht Hp]]. apply In_nth_error in Hin. destruct Hin as [k Hk].
        apply (H 0%nat (Datatypes.S k) b x); auto. split; auto.
      * intros i j bi bj Hij Hi Hj. apply (H (Datatypes.S i) (Datatypes.S j)); auto.
Qed.

Definition BlockOk (ns bs : N) (sid : Z) (b : block) : Prop :=
  0 <= b_rc b /\ (b_valid b = true -> set_id (b_tag b) bs ns = Some sid /\ (b_tag b mod bs = 0)%N).

Lemma block_ok_iff ns bs sid b : block_ok ns bs sid b = true <-> BlockOk ns bs sid b.
Proof.
  unfold block_ok, BlockOk. rewrite andb_true_iff. split.
  - intros [H1 H2]. split; [lia|]. intro V. rewrite V in H2.
    destruct (set_id (b_tag b) bs ns) as [h|]; [|discriminate].
    apply andb_true_iff in H2. destruct H2 as [H2 H3]. split; [f_equal; lia|lia].
  - intros [H1 H2]. split; [lia|]. destruct (b_valid b); [|reflexivity].
    destruct (H2 eq_refl) as [-> H3]. apply andb_true_iff. split; lia.
Qed.

Definition SetOk (ns ways bs : N) (sid : Z) (s : cset) : Prop :=
  length (s_blocks s) = N.to_nat ways /\ lru_ok (N.to_nat ways) (s_lru s) = true /\
  (forall b, In b (s_blocks s) -> BlockOk ns bs sid b) /\ NoDupValid (s_blocks s).

Lemma set_ok_iff ns ways bs sid s : set_ok ns ways bs sid s = true <-> SetOk ns ways bs sid s.
Proof.
  unfold set_ok, SetOk. rewrite !andb_true_iff, Nat.eqb_eq, forallb_forall, nodup_valid_iff. split.
  - intros [[[H1 H2] H3] H4]. split; [exact H1|]. split; [exact H2|]. split; [|exact H4].
    intros x Hx. apply block_ok_iff. auto.
  - intros [H1 [H2 [H3 H4]]]. split; [split; [split; [exact H1|exact H2]|]|exact H4].
    intros x Hx. apply block_ok_iff. auto.
Qed.

Definition WF (ns ways bs : N) (d : dir) : Prop :=
  length d = N.to_nat ns /\ forall sid s, zth d sid = Some s -> SetOk ns ways bs sid s.

Lemma sets_ok_iff ns ways bs : forall d sid0,
  sets_ok ns ways bs sid0 d = true <->
  forall k s, nth_error d k = Some s -> SetOk ns ways bs (sid0 + Z.of_nat k) s.
Proof.
  induction d as [|s r IH]; intros sid0; cbn [sets_ok].
  - split; [|reflexivity]. intros _ k s Hk. destruct k; discriminate.
  - rewrite andb_true_iff, set_ok_iff, IH. split.
    + intros [H1 H2] k s' Hk. destruct k as [|k]; cbn [nth_error] in Hk.
      * injection Hk as <-. replace (sid0 + Z.of_nat 0) with sid0 by lia. exact H1.
      * replace (sid0 + Z.of_nat (Datatypes.S k)) with (sid0 + 1 + Z.of_nat k) by lia. apply H2. exact Hk.
    + intro H. split.
      * replace sid0 with (sid0 + Z.of_nat 0) by lia. apply H. reflexivity.
      * intros k s' Hk. replace (sid0 + 1 + Z.of_nat k) with (sid0 + Z.of_nat (Datatypes.S k)) by lia.
        apply H. exact Hk.
Qed.

Theorem dir_wf_iff ns ways bs d : dir_wf ns ways bs d = true <-> WF ns ways bs d.
Proof.
  unfold dir_wf, WF. rewrite andb_true_iff, Nat.eqb_eq, sets_ok_iff. split; intros [H1 H2]; (split; [exact H1|]).
  - intros sid s Hs. unfold zth in Hs. destruct (sid <? 0) eqn:E; [discriminate|].
    replace sid with (0 + Z.of_nat (Z.to_nat sid)) by lia. apply H2. exact Hs.
  - intros k s Hk. apply H2. unfold zth. destruct (0 + Z.of_nat k <? 0) eqn:E; [lia|].
    replace (Z.to_nat (0 + Z.of_nat k)) with k by lia. exact Hk.
Qed.

(** * Reset *)

Lemma count_z_map_seq j : forall n a, (a <= j < a + n)%nat ->
  count_z (Z.of_nat j) (map Z.of_nat (seq a n)) = 1%nat.
Proof.
  induction n as [|n IH]; intros a H; [lia|]. cbn [seq map count_z].
  destruct (Z.of_nat a =? Z.of_nat j) eqn:E.
  - f_equal. assert (Hz : forall m b, (j < b)%nat -> count_z (Z.of_nat j) (map Z.of_nat (seq b m)) = 0%nat).
    { induction m as [|m IHm]; intros b Hb; [reflexivity|]. cbn [seq map count_z].
      destruct (Z.of_nat b =? Z.of_nat j) eqn:E2; [lia|]. apply IHm. lia. }
    apply Hz. lia.
  - apply IH. lia.
Qed.

Lemma lru_ok_fresh ways : lru_ok ways (map Z.of_nat (seq 0 ways)) = true.
Proof.
  apply lru_ok_spec. split; [rewrite map_length, seq_length; reflexivity|].
  intros j Hj. apply count_z_map_seq. lia.
Qed.

Theorem reset_wf ns ways bs : (0 < bs)%N -> WF ns ways bs (reset ns ways bs).
Proof.
  intro Hbs. unfold WF, reset. split; [rewrite map_length, seq_length; reflexivity|].
  intros sid s Hs. unfold zth in Hs. destruct (sid <? 0); [discriminate|].
  rewrite nth_error_map in Hs. destruct (nth_error (seq 0 (N.to_nat ns)) (Z.to_nat sid)) as [i|]; [|discriminate].
  injection Hs as <-. unfold SetOk, fresh_set. cbn [s_blocks s_lru]. repeat split.
  - rewrite map_length, seq_length. reflexivity.
  - apply lru_ok_fresh.
  - apply in_map_iff in H. destruct H as [j [<- _]]. cbn. lia.
  - apply in_map_iff in H. destruct H as [j [<- _]]. cbn. discriminate.
  - apply in_map_iff in H. destruct H as [j [<- _]]. cbn. discriminate.
  - intros i0 j bi bj _ Hi _ Vi. rewrite nth_error_map in Hi.
    destruct (nth_error (seq 0 (N.to_nat ways)) i0); [|discriminate]. injection Hi as <-. discriminate.
Qed.

(** * Lookup *)

Lemma find_way_spec f : forall bs i0 w,
  find_way f bs i0 = w ->
  (w = -1 /\ forall b, In b bs -> f b = false) \/
  (i0 <= w /\ exists b, nth_error bs (Z.to_nat (w - i0)) = Some b /\ f b = true /\
     forall k bk, (k < Z.to_nat (w - i0))%nat -> nth_error bs k = Some bk -> f bk = false).
Proof.
  induction bs as [|b r IH]; intros i0 w H; cbn [find_way] in H.
  - left. split; [lia|]. intros b [].
  - destruct (f b) eqn:E.
    + subst w. destruct (Z_lt_ge_dec i0 0) as [Hneg|Hpos].
      * (* only reachable with a negative start index; never used *) right. split; [lia|].
        exists b. rewrite Z.sub_diag. cbn. split; [reflexivity|]. split; [exact E|]. intros k bk Hk. lia.
      * right. split; [lia|]. exists b. rewrite Z.sub_diag. cbn. split; [reflexivity|]. split; [exact E|].
        intros k bk Hk. lia.
    + destruct (IH _ _ H) as [[H1 H2]|[H1 [b' [H2 [H3 H4]]]]].
      * left. split; [exact H1|]. intros x [<-|Hx]; auto.
      * right. split; [lia|]. exists b'.
        replace (Z.to_nat (w - i0)) with (Datatypes.S (Z.to_nat (w - (i0 + 1)))) by lia.
        split; [exact H2|]. split; [exact H3|]. intros k bk Hk Hn. destruct k as [|k]; cbn in Hn.
        -- injection Hn as <-. exact E.
        -- apply (H4 k); [lia|exact Hn].
Qed.

Theorem lookup_sound d ns bs pid addr sid w found :
  lookup d ns bs pid addr = Some (sid, w, found) ->
  set_id addr bs ns = Some sid /\
  exists s, zth d sid = Some s /\
    if found
    then exists b, zth (s_blocks s) w = Some b /\ b_valid b = true /\ b_tag b = addr /\ b_pid b = pid
    else w = -1 /\ forall b, In b (s_blocks s) -> block_matches pid addr b = false.
Proof.
  unfold lookup. destruct (set_id addr bs ns) as [h|] eqn:Eh; [|discriminate].
  destruct (zth d h) as [s|] eqn:Es; [|discriminate]. intro H. injection H as <- Hw Hf.
  split; [reflexivity|]. exists s. split; [exact Es|].
  destruct (find_way_spec _ _ _ _ Hw) as [[H1 H2]|[H1 [b [H2 [H3 H4]]]]].
  - assert (Hf' : found = false) by (subst found; lia). rewrite Hf'. split; [exact H1|exact H2].
  - assert (Hf' : found = true) by (subst found; lia). rewrite Hf'. exists b. rewrite Z.sub_0_r in H2.
    apply block_matches_iff in H3. split; [|exact H3]. unfold zth. destruct (w <? 0) eqn:E; [lia|exact H2].
Qed.

(** in a well-formed directory a lookup miss means that NO block anywhere holds the line, and a hit is the only copy *)
Theorem lookup_complete ns ways bs d pid addr sid w found :
  WF ns ways bs d -> lookup d ns bs pid addr = Some (sid, w, found) ->
  forall sid' w' b, get_block d sid' w' = Some b -> block_matches pid addr b = true ->
    found = true /\ sid' = sid /\ w' = w.
Proof.
  intros [HL HS] Hl sid' w' b Hb Hm. destruct (lookup_sound _ _ _ _ _ _ _ _ Hl) as [Hsid [s [Hs Hf]]].
  unfold get_block in Hb. destruct (zth d sid') as [s'|] eqn:Es'; [|discriminate].
  destruct (HS _ _ Es') as [_ [_ [HB HN]]]. apply block_matches_iff in Hm. destruct Hm as [Vb [Tb Pb]].
  destruct (HB b (zth_in _ _ _ Hb)) as [_ Hhome]. destruct (Hhome Vb) as [Hh _]. rewrite Tb in Hh.
  assert (sid' = sid) by congruence. subst sid'. assert (s' = s) by congruence. subst s'.
  destruct found.
  - destruct Hf as [b0 [Hb0 [V0 [T0 P0]]]]. split; [reflexivity|]. split; [reflexivity|].
    destruct (Z.eq_dec w' w) as [|Hne]; [assumption|]. exfalso.
    pose proof (zth_Some_range _ _ _ Hb) as R1. pose proof (zth_Some_range _ _ _ Hb0) as R2.
    unfold zth in Hb, Hb0. destruct (w' <? 0); [discriminate|]. destruct (w <? 0); [discriminate|].
    apply (HN (Z.to_nat w') (Z.to_nat w) b b0); auto; [lia|]. split; congruence.
  - destruct Hf as [_ Hnone]. exfalso. specialize (Hnone b (zth_in _ _ _ Hb)).
    assert (block_matches pid addr b = true) by (apply block_matches_iff; auto). congruence.
Qed.

(** * FindVictim *)

Theorem find_victim_spec d ns bs addr sid w :
  find_victim d ns bs addr = Some (sid, w) ->
  set_id addr bs ns = Some sid /\
  exists s, zth d sid = Some s /\
    ((exists b, zth (s_blocks s) w = Some b /\ busy b = false /\
        exists pre post, s_lru s = pre ++ w :: post /\
          forall v, In v pre -> exists bv, zth (s_blocks s) v = Some bv /\ busy bv = true)
     \/
     ((forall v, In v (s_lru s) -> exists bv, zth (s_blocks s) v = Some bv /\ busy bv = true) /\
      exists rest, s_lru s = w :: rest)).
Proof.
  unfold find_victim. destruct (set_id addr bs ns) as [h|] eqn:Eh; [|discriminate].
  destruct (zth d h) as [s|] eqn:Es; [|discriminate].
  destruct (scan_victim (s_blocks s) (s_lru s)) as [[v|]|] eqn:Esc; [| |discriminate].
  - intro H. injection H as <- <-. split; [reflexivity|]. exists s. split; [exact Es|]. left.
    destruct (scan_victim_some _ _ _ Esc) as [_ [b [Hb [Hbusy Hpre]]]]. exists b. auto.
  - destruct (s_lru s) as [|w0 rest] eqn:El; [discriminate|]. intro H. injection H as <- <-.
    split; [reflexivity|]. exists s. split; [exact Es|]. right.
    split; [apply scan_victim_none; rewrite El; exact Esc|exists rest; exact El].
Qed.

(** the guard used by every caller: victim.IsLocked || victim.ReadCount > 0 *)
Definition caller_stalls (b : block) : bool := b_locked b || (0 <? b_rc b).

Lemma busy_caller b : 0 <= b_rc b -> busy b = caller_stalls b.
Proof. unfold busy, caller_stalls. intro H. destruct (b_locked b); cbn; [reflexivity|]. lia. Qed.

(** * Preservation of well-formedness *)

Lemma zth_upd_blocks_in (bl : list block) w b' x :
  In x (zupd bl w b') -> x = b' \/ In x bl.
Proof.
  unfold zupd. destruct (w <? 0); [auto|]. generalize (Z.to_nat w). intro n. revert n.
  induction bl as [|y bl IH]; intros [|n] H; cbn in *; auto.
  - destruct H as [<-|H]; auto.
  - destruct H as [<-|H]; auto. destruct (IH _ H); auto.
Qed.

(** replacing the block of one way *)
Lemma set_ok_replace ns ways bs sid s w b b' :
  SetOk ns ways bs sid s -> zth (s_blocks s) w = Some b ->
  BlockOk ns bs sid b' ->
  (b_valid b' = true ->
     forall j bj, j <> Z.to_nat w -> nth_error (s_blocks s) j = Some bj -> b_valid bj = true -> ~ same_line b' bj) ->
  SetOk ns ways bs sid (S (zupd (s_blocks s) w b') (s_lru s)).
Proof.
  intros [HL [HLru [HB HN]]] Hb Hok Hnew. pose proof (zth_Some_range _ _ _ Hb) as R.
  unfold SetOk. cbn [s_blocks s_lru]. split; [rewrite zupd_length; exact HL|]. split; [exact HLru|]. split.
  - intros x Hx. destruct (zth_upd_blocks_in _ _ _ _ Hx) as [->|Hin]; auto.
  - unfold zupd. destruct (w <? 0) eqn:Ew; [lia|]. set (n := Z.to_nat w) in *.
    intros i j bi bj Hij Hi Hj Vi Vj.
    destruct (Nat.eq_dec i n) as [->|Hin]; [|destruct (Nat.eq_dec j n) as [->|Hjn]].
    + rewrite nth_upd_nat_same in Hi by lia. injection Hi as <-.
      rewrite nth_upd_nat_other in Hj by lia. apply (Hnew Vi j bj); auto.
    + rewrite nth_upd_nat_same in Hj by lia. injection Hj as <-.
      rewrite nth_upd_nat_other in Hi by lia. intros [H1 H2]. apply (Hnew Vj i bi); auto. split; congruence.
    + rewrite nth_upd_nat_other in Hi, Hj by lia. apply (HN i j); auto.
Qed.

(** a change that keeps validity, tag and PID (flags / reader count) *)
Lemma set_ok_replace_flags ns ways bs sid s w b b' :
  SetOk ns ways bs sid s -> zth (s_blocks s) w = Some b ->
  b_tag b' = b_tag b -> b_pid b' = b_pid b -> (b_valid b' = true -> b_valid b = true) -> 0 <= b_rc b' ->
  SetOk ns ways bs sid (S (zupd (s_blocks s) w b') (s_lru s)).
Proof.
  intros Hs Hb Ht Hp Hv Hrc. pose proof Hs as [HL [HLru [HB HN]]].
  apply (set_ok_replace _ _ _ _ _ _ b); auto.
  - destruct (HB b (zth_in _ _ _ Hb)) as [_ Hhome]. split; [exact Hrc|]. intro V. rewrite Ht. auto.
  - intros V j bj Hj Hn Vj [H1 H2]. pose proof (zth_Some_range _ _ _ Hb) as R.
    unfold zth in Hb. destruct (w <? 0); [discriminate|].
    apply (HN (Z.to_nat w) j b bj); auto. split; congruence.
Qed.

Lemma wf_upd_set ns ways bs d sid s s' :
  WF ns ways bs d -> zth d sid = Some s -> SetOk ns ways bs sid s' -> WF ns ways bs (zupd d sid s').
Proof.
  intros [HL HS] Hs Hok. split; [rewrite zupd_length; exact HL|]. intros sid' t Ht.
  destruct (Z.eq_dec sid sid') as [<-|Hne].
  - rewrite (zth_zupd_same _ _ _ _ Hs) in Ht. injection Ht as <-. exact Hok.
  - rewrite zth_zupd_other in Ht by exact Hne. auto.
Qed.

Lemma wf_upd_block_flags ns ways bs d sid w f :
  WF ns ways bs d ->
  (forall b, b_tag (f b) = b_tag b /\ b_pid (f b) = b_pid b /\ (b_valid (f b) = true -> b_valid b = true)) ->
  (forall b, get_block d sid w = Some b -> 0 <= b_rc (f b)) ->
  WF ns ways bs (upd_block d sid w f).
Proof.
  intros Hwf Hf Hrc. unfold upd_block. destruct (zth d sid) as [s|] eqn:Es; [|exact Hwf].
  destruct (zth (s_blocks s) w) as [b|] eqn:Eb; [|exact Hwf].
  apply (wf_upd_set _ _ _ _ _ s); auto. destruct (Hf b) as [H1 [H2 H3]].
  apply (set_ok_replace_flags _ _ _ _ _ _ b); auto.
  - destruct Hwf as [_ HS]. auto.
  - apply Hrc. unfold get_block. rewrite Es. exact Eb.
Qed.

Lemma wf_visit ns ways bs d sid w d' :
  WF ns ways bs d -> (exists s b, zth d sid = Some s /\ zth (s_blocks s) w = Some b) ->
  visit d sid w = Some d' -> WF ns ways bs d'.
Proof.
  intros Hwf [s [b [Hs Hb]]] Hv. unfold visit in Hv. rewrite Hs in Hv. injection Hv as <-.
  apply (wf_upd_set _ _ _ _ _ s); auto. destruct Hwf as [_ HS]. destruct (HS _ _ Hs) as [HL [HLru [HB HN]]].
  unfold visit_set, SetOk. cbn [s_blocks s_lru]. split; [exact HL|]. split; [|split; [exact HB|exact HN]].
  apply visit_lru_ok; [exact HLru|]. pose proof (zth_Some_range _ _ _ Hb). lia.
Qed.

Lemma get_block_upd_same_set d sid w f s b :
  zth d sid = Some s -> zth (s_blocks s) w = Some b ->
  exists s', zth (upd_block d sid w f) sid = Some s' /\ zth (s_blocks s') w = Some (f b).
Proof.
  intros Hs Hb. unfold upd_block. rewrite Hs, Hb. eexists. split; [apply (zth_zupd_same _ _ _ _ Hs)|].
  cbn [s_blocks]. apply (zth_zupd_same _ _ _ _ Hb).
Qed.

(** install a new line into the victim way *)
Lemma wf_install ns ways bs d pid tag sid w f :
  WF ns ways bs d ->
  lookup d ns bs pid tag = Some (sid, -1, false) \/ (exists w0, lookup d ns bs pid tag = Some (sid, w0, false)) ->
  set_id tag bs ns = Some sid -> (tag mod bs = 0)%N ->
  (forall b, b_tag (f b) = tag /\ b_pid (f b) = pid /\ b_rc (f b) = b_rc b) ->
  WF ns ways bs (upd_block d sid w f).
Proof.
  intros Hwf Hmiss Hsid Hal Hf. unfold upd_block. destruct (zth d sid) as [s|] eqn:Es; [|exact Hwf].
  destruct (zth (s_blocks s) w) as [b|] eqn:Eb; [|exact Hwf].
  apply (wf_upd_set _ _ _ _ _ s); auto. pose proof Hwf as [_ HS]. pose proof (HS _ _ Es) as Hset.
  destruct (Hf b) as [Ht [Hp Hr]].
  assert (Hnone : forall x, In x (s_blocks s) -> block_matches pid tag x = false).
  { assert (Hl : exists w0, lookup d ns bs pid tag = Some (sid, w0, false)) by (destruct Hmiss; eauto).
    destruct Hl as [w0 Hl]. destruct (lookup_sound _ _ _ _ _ _ _ _ Hl) as [_ [s0 [Hs0 [_ Hn]]]].
    assert (s0 = s) by congruence. subst s0. exact Hn. }
  apply (set_ok_replace _ _ _ _ _ _ b); auto.
  - destruct Hset as [_ [_ [HB _]]]. destruct (HB b (zth_in _ _ _ Eb)) as [Hrc _].
    split; [lia|]. intros _. rewrite Ht. auto.
  - intros _ j bj _ Hj Vj [H1 H2]. specialize (Hnone bj (nth_error_In _ _ Hj)).
    assert (block_matches pid tag bj = true) by (apply block_matches_iff; repeat split; congruence). congruence.
Qed.

Lemma invalidate_set_ok ns ways bs sid k bsz addrs pid s :
  SetOk ns ways bs sid s -> SetOk ns ways bs sid (invalidate_set k bsz addrs pid s).
Proof.
  intros [HL [HLru [HB HN]]]. unfold invalidate_set, SetOk. cbn [s_blocks s_lru].
  split; [rewrite map_length; exact HL|]. split; [exact HLru|]. split.
  - intros x Hx. apply in_map_iff in Hx. destruct Hx as [b [<- Hb]]. destruct (HB b Hb) as [H1 H2].
    destruct (inv_match bsz addrs pid b && negb (k && b_locked b)); [|split; auto]. split; [exact H1|]. cbn. discriminate.
  - intros i j bi bj Hij Hi Hj Vi Vj. rewrite nth_error_map in Hi, Hj.
    destruct (nth_error (s_blocks s) i) as [xi|] eqn:Ei; [|discriminate].
    destruct (nth_error (s_blocks s) j) as [xj|] eqn:Ej; [|discriminate].
    injection Hi as <-. injection Hj as <-.
    destruct (inv_match bsz addrs pid xi && negb (k && b_locked xi)); [cbn in Vi; discriminate|].
    destruct (inv_match bsz addrs pid xj && negb (k && b_locked xj)); [cbn in Vj; discriminate|].
    apply (HN i j); auto.
Qed.

Lemma zth_map {A B} (f : A -> B) l i : zth (map f l) i = option_map f (zth l i).
Proof. unfold zth. destruct (i <? 0); [reflexivity|]. apply nth_error_map. Qed.

(** * the "locked blocks are valid" invariant of the write-back cache *)

Definition LV (d : dir) : Prop :=
  forall sid w b, get_block d sid w = Some b -> b_locked b = true -> b_valid b = true.

Lemma gb_upd_same d s w f b :
  get_block d s w = Some b -> get_block (upd_block d s w f) s w = Some (f b).
Proof.
  unfold get_block, upd_block. destruct (zth d s) as [st|] eqn:Es; [|discriminate]. intro Hb. rewrite Hb.
  rewrite (zth_zupd_same _ _ _ _ Es). cbn [s_blocks]. apply (zth_zupd_same _ _ _ _ Hb).
Qed.

Lemma gb_upd_other d s w f s' w' :
  (s, w) <> (s', w') -> get_block (upd_block d s w f) s' w' = get_block d s' w'.
Proof.
  intro Hne. unfold get_block, upd_block. destruct (zth d s) as [st|] eqn:Es; [|reflexivity].
  destruct (zth (s_blocks st) w) as [b|] eqn:Eb; [|reflexivity].
  destruct (Z.eq_dec s s') as [<-|Hs].
  - rewrite (zth_zupd_same _ _ _ _ Es). rewrite Es. cbn [s_blocks].
    apply zth_zupd_other. intro E. apply Hne. congruence.
  - rewrite zth_zupd_other by exact Hs. reflexivity.
Qed.

Lemma upd_block_none d s w f : get_block d s w = None -> upd_block d s w f = d.
Proof.
  unfold get_block, upd_block. destruct (zth d s) as [st|]; [|reflexivity]. intros ->. reflexivity.
Qed.

Lemma lv_upd_block d sid w f :
  LV d -> (forall b, get_block d sid w = Some b -> b_locked (f b) = true -> b_valid (f b) = true) ->
  LV (upd_block d sid w f).
Proof.
  intros Hlv Hf s' w' b' Hb' Hl. destruct (get_block d sid w) as [b|] eqn:Eb.
  - destruct (Z.eq_dec sid s') as [<-|Hs]; [destruct (Z.eq_dec w w') as [<-|Hw]|].
    + rewrite (gb_upd_same _ _ _ _ _ Eb) in Hb'. injection Hb' as <-. auto.
    + rewrite gb_upd_other in Hb' by congruence. eauto.
    + rewrite gb_upd_other in Hb' by congruence. eauto.
  - rewrite upd_block_none in Hb' by exact Eb. eauto.
Qed.

Lemma gb_visit d sid w d' s' w' : visit d sid w = Some d' -> get_block d' s' w' = get_block d s' w'.
Proof.
  unfold visit. destruct (zth d sid) as [s|] eqn:Es; [|discriminate]. intro H. injection H as <-.
  unfold get_block. destruct (Z.eq_dec sid s') as [<-|Hne].
  - rewrite (zth_zupd_same _ _ _ _ Es), Es. reflexivity.
  - rewrite zth_zupd_other by exact Hne. reflexivity.
Qed.

Lemma lv_visit d sid w d' : LV d -> visit d sid w = Some d' -> LV d'.
Proof. intros Hlv Hv s' w' b Hb. rewrite (gb_visit _ _ _ _ _ _ Hv) in Hb. eauto. Qed.

Lemma gb_invalidate k bs addrs pid d s w :
  get_block (map (invalidate_set k bs addrs pid) d) s w =
  option_map (fun b => if inv_match bs addrs pid b && negb (k && b_locked b) then set_valid false b else b)
             (get_block d s w).
Proof.
  unfold get_block. rewrite zth_map. destruct (zth d s) as [st|]; [|reflexivity]. cbn [option_map].
  unfold invalidate_set. cbn [s_blocks]. apply zth_map.
Qed.

(** the operations of the (fixed) write-back cache and of the write-through family *)
Definition wb_op (o : op) : bool :=
  match o with
  | OInstallKeepPid _ _ | OUnlock _ _ | OInvalidateAll _ _ | OEvictHit _ _ => false
  | _ => true
  end.
Definition wt_op (o : op) : bool :=
  match o with
  | OInstall _ _ true | OInstallKeepPid _ _ | OFinishWrite _ _ | OFinishFill _ _
  | OInvalidate _ _ | OMarkClean _ _ => false
  | _ => true
  end.

Lemma lookup_found_valid d ns bs pid tag sid w b :
  lookup d ns bs pid tag = Some (sid, w, true) -> get_block d sid w = Some b -> b_valid b = true.
Proof.
  intros Hl Hb. destruct (lookup_sound _ _ _ _ _ _ _ _ Hl) as [_ [s [Hs [b0 [Hb0 [V _]]]]]].
  unfold get_block in Hb. rewrite Hs in Hb. congruence.
Qed.

Theorem step_preserves_lv ns ways bs d o :
  wb_op o = true -> LV d -> LV (step ns ways bs d o).
Proof.
  intros Hop Hlv. destruct o as [pid tag ev|tag pid|pid tag|pid tag|sid w|sid w|sid w|sid w|pid tag|addrs pid|addrs pid|sid w|];
    cbn [step]; try discriminate.
  - destruct (lookup d ns bs pid tag) as [[[ls lw] [|]]|]; try exact Hlv.
    destruct (find_victim d ns bs tag) as [[sid w]|]; try exact Hlv.
    destruct (get_block d sid w) as [v|] eqn:Eg; try exact Hlv.
    destruct (busy v || negb (tag mod bs =? 0)%N || (ev && negb (b_valid v && b_dirty v))) eqn:G; [exact Hlv|].
    apply orb_false_iff in G. destruct G as [_ G3].
    match goal with |- LV (match visit ?d1 _ _ with _ => _ end) => destruct (visit d1 sid w) as [d2|] eqn:Ev; [|exact Hlv];
      apply (lv_visit d1 sid w d2); [|exact Ev] end.
    apply lv_upd_block; [exact Hlv|]. intros b Hb _. assert (b = v) by congruence. subst b.
    destruct ev; cbn; [|reflexivity]. cbn in G3. apply negb_false_iff in G3. apply andb_true_iff in G3. tauto.
  - destruct (lookup d ns bs pid tag) as [[[sid w] [|]]|] eqn:El; try exact Hlv.
    destruct (get_block d sid w) as [b|] eqn:Eg; try exact Hlv. destruct (busy b); [exact Hlv|].
    match goal with |- LV (match visit ?d1 _ _ with _ => _ end) => destruct (visit d1 sid w) as [d2|] eqn:Ev; [|exact Hlv];
      apply (lv_visit d1 sid w d2); [|exact Ev] end.
    apply lv_upd_block; [exact Hlv|]. intros b0 Hb0 _. cbn. eapply lookup_found_valid; eauto.
  - destruct (lookup d ns bs pid tag) as [[[sid w] [|]]|] eqn:El; try exact Hlv.
    destruct (get_block d sid w) as [b|] eqn:Eg; try exact Hlv. destruct (b_locked b); [exact Hlv|].
    match goal with |- LV (match visit ?d1 _ _ with _ => _ end) => destruct (visit d1 sid w) as [d2|] eqn:Ev; [|exact Hlv];
      apply (lv_visit d1 sid w d2); [|exact Ev] end.
    apply lv_upd_block; [exact Hlv|]. intros b0 Hb0 Hl. cbn in *. eauto.
  - destruct (get_block d sid w) as [b|] eqn:Eg; try exact Hlv. destruct (0 <? b_rc b); [|exact Hlv].
    apply lv_upd_block; [exact Hlv|]. intros b0 Hb0 Hl. cbn in *. eauto.
  - destruct (get_block d sid w) as [b|] eqn:Eg; try exact Hlv. destruct (b_locked b); [|exact Hlv].
    apply lv_upd_block; [exact Hlv|]. intros b0 _ Hl. cbn in Hl. discriminate.
  - destruct (get_block d sid w) as [b|] eqn:Eg; try exact Hlv. destruct (b_locked b); [|exact Hlv].
    apply lv_upd_block; [exact Hlv|]. intros b0 _ Hl. cbn in Hl. discriminate.
  - intros s' w' b' Hb' Hl. rewrite gb_invalidate in Hb'.
    destruct (get_block d s' w') as [b|] eqn:Eb; [|discriminate]. cbn [option_map] in Hb'. injection Hb' as Hb'. subst b'.
    pose proof (Hlv _ _ _ Eb) as Hb0.
    destruct (inv_match bs addrs pid b) eqn:Gi; destruct (b_locked b) eqn:Gl; cbn in Hl |- *;
      try rewrite Gl in Hl; try discriminate Hl; auto.
  - apply lv_upd_block; [exact Hlv|]. intros b0 Hb0 Hl. cbn in *. eauto.
  - intros s' w' b Hb Hl. exfalso. unfold get_block, reset in Hb. rewrite zth_map in Hb.
    destruct (zth (seq 0 (N.to_nat ns)) s') as [i|]; [|discriminate]. cbn [option_map] in Hb.
    unfold fresh_set in Hb. cbn [s_blocks] in Hb. rewrite zth_map in Hb.
    destruct (zth (seq 0 (N.to_nat ways)) w') as [j|]; [|discriminate]. cbn in Hb. injection Hb as <-. discriminate.
Qed.

(** every guarded operation preserves well-formedness; the validating bank-stage
    completions of the write-back cache additionally need "locked blocks are valid" *)
Theorem step_preserves_wf ns ways bs d o :
  (0 < bs)%N -> (forall t p, o <> OInstallKeepPid t p) ->
  (match o with OFinishWrite _ _ | OFinishFill _ _ => LV d | _ => True end) ->
  WF ns ways bs d -> WF ns ways bs (step ns ways bs d o).
Proof.
  intros Hbs Hnot Hlv Hwf.
  destruct o as [pid tag ev|tag pid|pid tag|pid tag|sid w|sid w|sid w|sid w|pid tag|addrs pid|addrs pid|sid w|];
    cbn [step]; try (exfalso; eapply Hnot; reflexivity).
  - (* OInstall *)
    destruct (lookup d ns bs pid tag) as [[[ls lw] [|]]|] eqn:El; try exact Hwf.
    destruct (find_victim d ns bs tag) as [[sid w]|] eqn:Ev; try exact Hwf.
    destruct (get_block d sid w) as [v|] eqn:Eg; try exact Hwf.
    destruct (busy v || negb (tag mod bs =? 0)%N || (ev && negb (b_valid v && b_dirty v))) eqn:Eguard; [exact Hwf|].
    apply orb_false_iff in Eguard. destruct Eguard as [Eguard _].
    apply orb_false_iff in Eguard. destruct Eguard as [Hbusy Hal]. apply negb_false_iff in Hal.
    destruct (find_victim_spec _ _ _ _ _ _ Ev) as [Hsid [s [Hs _]]].
    destruct (lookup_sound _ _ _ _ _ _ _ _ El) as [Hsid' _].
    assert (ls = sid) by congruence. subst ls.
    unfold get_block in Eg. rewrite Hs in Eg.
    set (f := if ev then set_tag_evict pid tag else set_tag pid tag true).
    assert (Hw1 : WF ns ways bs (upd_block d sid w f)).
    { apply (wf_install _ _ _ _ pid tag); auto; [right; eauto|lia|].
      intro b. unfold f. destruct ev; cbn; auto. }
    destruct (visit (upd_block d sid w f) sid w) as [d2|] eqn:Evis; [|exact Hwf].
    eapply wf_visit; [exact Hw1| |exact Evis].
    destruct (get_block_upd_same_set d sid w f s v Hs Eg) as [s' [H1 H2]]. eauto.
  - (* OWriteHit *)
    destruct (lookup d ns bs pid tag) as [[[sid w] [|]]|] eqn:El; try exact Hwf.
    destruct (get_block d sid w) as [b|] eqn:Eg; try exact Hwf.
    destruct (busy b); [exact Hwf|].
    assert (Hw1 : WF ns ways bs (upd_block d sid w (set_locked true))).
    { apply wf_upd_block_flags; auto. intros b0 Hb0. destruct Hwf as [_ HS].
      unfold get_block in Hb0. destruct (zth d sid) as [s|] eqn:Es; [|discriminate].
      destruct (HS _ _ Es) as [_ [_ [HB _]]]. destruct (HB b0 (zth_in _ _ _ Hb0)). cbn. lia. }
    destruct (visit (upd_block d sid w (set_locked true)) sid w) as [d2|] eqn:Evis; [|exact Hwf].
    eapply wf_visit; [exact Hw1| |exact Evis].
    unfold get_block in Eg. destruct (zth d sid) as [s|] eqn:Es; [|discriminate].
    destruct (get_block_upd_same_set d sid w (set_locked true) s b Es Eg) as [s' [H1 H2]]. eauto.
  - (* OReadHit *)
    destruct (lookup d ns bs pid tag) as [[[sid w] [|]]|] eqn:El; try exact Hwf.
    destruct (get_block d sid w) as [b|] eqn:Eg; try exact Hwf.
    destruct (b_locked b); [exact Hwf|].
    assert (Hw1 : WF ns ways bs (upd_block d sid w (add_rc 1))).
    { apply wf_upd_block_flags; auto. intros b0 Hb0. destruct Hwf as [_ HS].
      unfold get_block in Hb0. destruct (zth d sid) as [s|] eqn:Es; [|discriminate].
      destruct (HS _ _ Es) as [_ [_ [HB _]]]. destruct (HB b0 (zth_in _ _ _ Hb0)). cbn. lia. }
    destruct (visit (upd_block d sid w (add_rc 1)) sid w) as [d2|] eqn:Evis; [|exact Hwf].
    eapply wf_visit; [exact Hw1| |exact Evis].
    unfold get_block in Eg. destruct (zth d sid) as [s|] eqn:Es; [|discriminate].
    destruct (get_block_upd_same_set d sid w (add_rc 1) s b Es Eg) as [s' [H1 H2]]. eauto.
  - (* OReadDone *)
    destruct (get_block d sid w) as [b|] eqn:Eg; try exact Hwf.
    destruct (0 <? b_rc b) eqn:Erc; [|exact Hwf].
    apply wf_upd_block_flags; auto. intros b0 Hb0. assert (b0 = b) by congruence. subst b0. cbn. lia.
  - (* OFinishWrite *)
    destruct (get_block d sid w) as [b|] eqn:Eg; try exact Hwf.
    destruct (b_locked b) eqn:Eguard; [|exact Hwf].
    assert (Vb : b_valid b = true) by (eapply Hlv; eauto).
    unfold upd_block. unfold get_block in Eg. destruct (zth d sid) as [s|] eqn:Es; [|exact Hwf]. rewrite Eg.
    apply (wf_upd_set _ _ _ _ _ s); auto. destruct Hwf as [_ HS]. pose proof (HS _ _ Es) as Hset.
    destruct Hset as [_ [_ [HB _]]]. destruct (HB b (zth_in _ _ _ Eg)).
    apply (set_ok_replace_flags _ _ _ _ _ _ b); auto.
  - (* OFinishFill *)
    destruct (get_block d sid w) as [b|] eqn:Eg; try exact Hwf.
    destruct (b_locked b) eqn:Eguard; [|exact Hwf].
    assert (Vb : b_valid b = true) by (eapply Hlv; eauto).
    unfold upd_block. unfold get_block in Eg. destruct (zth d sid) as [s|] eqn:Es; [|exact Hwf]. rewrite Eg.
    apply (wf_upd_set _ _ _ _ _ s); auto. destruct Hwf as [_ HS]. pose proof (HS _ _ Es) as Hset.
    destruct Hset as [_ [_ [HB _]]]. destruct (HB b (zth_in _ _ _ Eg)).
    apply (set_ok_replace_flags _ _ _ _ _ _ b); auto.
  - (* OUnlock *)
    apply wf_upd_block_flags; auto. intros b0 Hb0. destruct Hwf as [_ HS].
    unfold get_block in Hb0. destruct (zth d sid) as [s|] eqn:Es; [|discriminate].
    destruct (HS _ _ Es) as [_ [_ [HB _]]]. destruct (HB b0 (zth_in _ _ _ Hb0)). cbn. lia.
  - (* OEvictHit *)
    destruct (lookup d ns bs pid tag) as [[[sid w] [|]]|] eqn:El; try exact Hwf.
    destruct (get_block d sid w) as [b|] eqn:Eg; try exact Hwf.
    destruct (busy b); [exact Hwf|].
    apply wf_upd_block_flags; auto.
    + intro b0. cbn. repeat split; auto. discriminate.
    + intros b0 Hb0. assert (b0 = b) by congruence. subst b0. destruct Hwf as [_ HS].
      unfold get_block in Eg. destruct (zth d sid) as [s|] eqn:Es; [|discriminate].
      destruct (HS _ _ Es) as [_ [_ [HB _]]]. destruct (HB b (zth_in _ _ _ Eg)). cbn. lia.
  - (* OInvalidate *)
    destruct Hwf as [HL HS]. split; [rewrite map_length; exact HL|]. intros sid s Hs.
    rewrite zth_map in Hs. destruct (zth d sid) as [s0|] eqn:Es; [|discriminate]. injection Hs as <-.
    apply invalidate_set_ok. auto.
  - (* OInvalidateAll *)
    destruct Hwf as [HL HS]. split; [rewrite map_length; exact HL|]. intros sid s Hs.
    rewrite zth_map in Hs. destruct (zth d sid) as [s0|] eqn:Es; [|discriminate]. injection Hs as <-.
    apply invalidate_set_ok. auto.
  - (* OMarkClean *)
    apply wf_upd_block_flags; auto. intros b0 Hb0. destruct Hwf as [_ HS].
    unfold get_block in Hb0. destruct (zth d sid) as [s|] eqn:Es; [|discriminate].
    destruct (HS _ _ Es) as [_ [_ [HB _]]]. destruct (HB b0 (zth_in _ _ _ Hb0)). cbn. lia.
  - (* OReset *)
    apply reset_wf. exact Hbs.
Qed.
