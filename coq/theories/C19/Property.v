(** C19 — cache directories stay well-formed.  Property theorems only. *)
From Akita Require Import Lib.Base C19.Model C19.Proofs C19.Proofs2.
From Coq Require Import Permutation.
Local Open Scope Z_scope.

(** DirectoryReset yields a well-formed directory (every geometry). *)
Theorem c19_reset_wf : forall ns ways bs, (0 < bs)%N -> dir_wf ns ways bs (reset ns ways bs) = true.
Proof. intros. apply dir_wf_iff. apply reset_wf. assumption. Qed.
Print Assumptions c19_reset_wf.

(** [dir_wf] means: the right number of sets; each set has [ways] blocks and
    lists each way exactly once in its recency order; reader counts are not
    negative; a valid block holds a line-aligned tag whose home set is the set
    it sits in; no two valid blocks of a set — hence of the directory — hold
    the same (PID, line). *)
Theorem c19_dir_wf_meaning : forall ns ways bs d, dir_wf ns ways bs d = true ->
  length d = N.to_nat ns /\
  forall sid s, zth d sid = Some s ->
    length (s_blocks s) = N.to_nat ways /\
    Permutation (s_lru s) (map Z.of_nat (seq 0 (N.to_nat ways))) /\
    (forall b, In b (s_blocks s) -> 0 <= b_rc b /\
       (b_valid b = true -> set_id (b_tag b) bs ns = Some sid /\ (b_tag b mod bs = 0)%N)) /\
    (forall i j bi bj, i <> j -> nth_error (s_blocks s) i = Some bi -> nth_error (s_blocks s) j = Some bj ->
       b_valid bi = true -> b_valid bj = true -> ~ (b_tag bi = b_tag bj /\ b_pid bi = b_pid bj)).
Proof.
  intros ns ways bs d H. apply dir_wf_iff in H. destruct H as [HL HS]. split; [exact HL|].
  intros sid s Hs. destruct (HS _ _ Hs) as [H1 [H2 [H3 H4]]]. split; [exact H1|].
  split; [apply lru_ok_perm; exact H2|]. split; [exact H3|exact H4].
Qed.
Print Assumptions c19_dir_wf_meaning.

(** DirectoryVisit keeps the recency list a list of every way exactly once,
    makes the visited way most recent and keeps the order of the others. *)
Theorem c19_visit_perm : forall ways lru w,
  lru_ok ways lru = true -> 0 <= w < Z.of_nat ways ->
  lru_ok ways (remove_first w lru ++ [w]) = true /\
  Permutation (remove_first w lru ++ [w]) (map Z.of_nat (seq 0 ways)) /\
  remove_first w lru = filter (fun x => negb (x =? w)) lru.
Proof.
  intros ways lru w H Hw. pose proof (visit_lru_ok ways lru w H Hw) as H2.
  split; [exact H2|]. split; [apply lru_ok_perm; exact H2|].
  apply remove_first_filter. apply lru_ok_spec in H. destruct H as [_ HC].
  replace w with (Z.of_nat (Z.to_nat w)) by lia. rewrite HC by lia. lia.
Qed.
Print Assumptions c19_visit_perm.

(** DirectoryFindVictim: the returned way is in the home set of the address;
    it is the least recently used way that is neither locked nor read whenever
    such a way exists; otherwise every listed way is busy, the result is
    LRUOrder[0], and the guard used by every caller (IsLocked || ReadCount > 0)
    refuses it (the transaction stalls). *)
Theorem c19_victim_not_busy : forall d ns bs addr sid w,
  find_victim d ns bs addr = Some (sid, w) ->
  set_id addr bs ns = Some sid /\
  exists s, zth d sid = Some s /\
    ((exists b, zth (s_blocks s) w = Some b /\ b_locked b = false /\ b_rc b = 0 /\
        exists pre post, s_lru s = pre ++ w :: post /\
          forall v, In v pre -> exists bv, zth (s_blocks s) v = Some bv /\ busy bv = true)
     \/
     ((forall v, In v (s_lru s) -> exists bv, zth (s_blocks s) v = Some bv /\ busy bv = true) /\
      (exists rest, s_lru s = w :: rest) /\
      forall b, zth (s_blocks s) w = Some b -> 0 <= b_rc b -> caller_stalls b = true)).
Proof.
  intros d ns bs addr sid w H. destruct (find_victim_spec _ _ _ _ _ _ H) as [H1 [s [Hs Hc]]].
  split; [exact H1|]. exists s. split; [exact Hs|]. destruct Hc as [[b [Hb [Hbusy Hpre]]]|[Hall [rest Hrest]]].
  - left. exists b. split; [exact Hb|]. unfold busy in Hbusy. apply orb_false_iff in Hbusy.
    destruct Hbusy as [Hl Hr]. apply negb_false_iff in Hr. split; [exact Hl|]. split; [lia|exact Hpre].
  - right. split; [exact Hall|]. split; [eauto|]. intros b Hb Hrc.
    destruct (Hall w) as [bv [Hbv Hbusy]]; [rewrite Hrest; left; reflexivity|].
    assert (bv = b) by congruence. subst bv. rewrite <- busy_caller by exact Hrc. exact Hbusy.
Qed.
Print Assumptions c19_victim_not_busy.

(** if some listed way is free, the victim is free *)
Theorem c19_victim_free_when_possible : forall d ns bs addr sid w s,
  find_victim d ns bs addr = Some (sid, w) -> zth d sid = Some s ->
  (exists v bv, In v (s_lru s) /\ zth (s_blocks s) v = Some bv /\ busy bv = false) ->
  exists b, zth (s_blocks s) w = Some b /\ busy b = false.
Proof.
  intros d ns bs addr sid w s H Hs [v [bv [Hin [Hbv Hfree]]]].
  destruct (find_victim_spec _ _ _ _ _ _ H) as [_ [s' [Hs' Hc]]]. assert (s' = s) by congruence. subst s'.
  destruct Hc as [[b [Hb [Hbusy _]]]|[Hall _]]; [eauto|].
  destruct (Hall v Hin) as [bv' [Hbv' Hb']]. assert (bv' = bv) by congruence. subst. congruence.
Qed.
Print Assumptions c19_victim_free_when_possible.

(** DirectoryLookup is sound; in a well-formed directory it is also complete
    over the whole directory and the hit is the only copy of the line. *)
Theorem c19_lookup_sound : forall d ns bs pid addr sid w found,
  lookup d ns bs pid addr = Some (sid, w, found) ->
  set_id addr bs ns = Some sid /\
  exists s, zth d sid = Some s /\
    if found
    then exists b, zth (s_blocks s) w = Some b /\ b_valid b = true /\ b_tag b = addr /\ b_pid b = pid
    else w = -1 /\ forall b, In b (s_blocks s) -> block_matches pid addr b = false.
Proof. exact lookup_sound. Qed.
Print Assumptions c19_lookup_sound.

Theorem c19_lookup_complete_unique : forall ns ways bs d pid addr sid w found,
  dir_wf ns ways bs d = true -> lookup d ns bs pid addr = Some (sid, w, found) ->
  forall sid' w' b, get_block d sid' w' = Some b ->
    b_valid b = true -> b_tag b = addr -> b_pid b = pid ->
    found = true /\ sid' = sid /\ w' = w.
Proof.
  intros ns ways bs d pid addr sid w found Hwf Hl sid' w' b Hb V T P.
  apply (lookup_complete ns ways bs d pid addr sid w found (proj1 (dir_wf_iff _ _ _ _) Hwf) Hl sid' w' b Hb).
  apply block_matches_iff. auto.
Qed.
Print Assumptions c19_lookup_complete_unique.

(** Every history of guarded directory-level operations of the WRITE-BACK cache
    (install on a miss into the FindVictim way — evicting only a valid dirty
    victim —, write/read hits, reader release, the validating bank-stage
    completions, Invalidate with any filter skipping locked blocks, flush
    clean-marking, Reset) keeps the directory well-formed, together with the
    auxiliary invariant "a locked block is valid" that the validating bank-stage
    completions rely on. *)
Theorem c19_ops_preserve_wf : forall ns ways bs ops d, (0 < bs)%N ->
  forallb wb_op ops = true ->
  dir_wf ns ways bs d = true -> LV d ->
  dir_wf ns ways bs (run ns ways bs d ops) = true /\ LV (run ns ways bs d ops).
Proof.
  intros ns ways bs ops. induction ops as [|o ops IH]; intros d Hbs Hops Hwf Hlv; [split; assumption|].
  cbn [forallb] in Hops. apply andb_true_iff in Hops. destruct Hops as [Ho Hops].
  unfold run. cbn [fold_left]. apply IH; auto.
  - apply dir_wf_iff. apply step_preserves_wf; auto.
    + intros t p E. subst o. discriminate.
    + destruct o; auto.
    + apply dir_wf_iff. exact Hwf.
  - apply step_preserves_lv; auto.
Qed.
Print Assumptions c19_ops_preserve_wf.

(** The same for the WRITE-THROUGH family (write-around / write-evict /
    write-through): install without eviction, hits, reader release, the
    non-validating bank-stage unlock, write-evict invalidation, Invalidate of
    every matching block (locked ones included), Reset. *)
Theorem c19_ops_preserve_wf_wt : forall ns ways bs ops d, (0 < bs)%N ->
  forallb wt_op ops = true ->
  dir_wf ns ways bs d = true -> dir_wf ns ways bs (run ns ways bs d ops) = true.
Proof.
  intros ns ways bs ops. induction ops as [|o ops IH]; intros d Hbs Hops Hwf; [exact Hwf|].
  cbn [forallb] in Hops. apply andb_true_iff in Hops. destruct Hops as [Ho Hops].
  unfold run. cbn [fold_left]. apply IH; auto. apply dir_wf_iff. apply step_preserves_wf; auto.
  - intros t p E. subst o. discriminate.
  - destruct o; try exact I; discriminate.
  - apply dir_wf_iff. exact Hwf.
Qed.
Print Assumptions c19_ops_preserve_wf_wt.

(** from Reset, every reachable state of either operation automaton is well-formed *)
Corollary c19_reachable_wf : forall ns ways bs ops, (0 < bs)%N ->
  (forallb wb_op ops = true \/ forallb wt_op ops = true) ->
  dir_wf ns ways bs (run ns ways bs (reset ns ways bs) ops) = true.
Proof.
  intros ns ways bs ops Hbs [H|H].
  - apply c19_ops_preserve_wf; auto; [apply c19_reset_wf; assumption|].
    apply (step_preserves_lv ns ways bs [] OReset eq_refl). intros sid w b Hb. unfold get_block, zth in Hb. destruct (sid <? 0); [discriminate|].
    destruct (Z.to_nat sid); discriminate.
  - apply c19_ops_preserve_wf_wt; auto. apply c19_reset_wf. assumption.
Qed.
Print Assumptions c19_reachable_wf.

(** regression: the write-back Invalidate BEFORE the fix invalidated locked
    blocks too; with a fill in flight (Pause is acknowledged without waiting),
    a later miss of the same line claims a second way and the bank stage then
    re-validates the first: two valid blocks with the same (PID, line) *)
Theorem c19_invalidate_locked_old_refuted :
  dir_wf 1 2 64 (run 1 2 64 (reset 1 2 64)
     [OInstall 1 0 false; OInvalidateAll [] 0; OInstall 1 0 false; OFinishFill 0 0; OFinishFill 0 1]) = false /\
  dir_wf 1 2 64 (run 1 2 64 (reset 1 2 64)
     [OInstall 1 0 false; OInvalidate [] 0; OInstall 1 0 false; OFinishFill 0 0; OFinishFill 0 1]) = true.
Proof. vm_compute. split; reflexivity. Qed.
Print Assumptions c19_invalidate_locked_old_refuted.

(** regression: the pre-fix write-through full-line install (tag set, PID of
    the victim kept) produces two valid blocks with the same (PID, line) *)
Theorem c19_install_keep_pid_old_refuted :
  exists d, dir_wf 1 2 64 d = true /\
            dir_wf 1 2 64 (step 1 2 64 d (OInstallKeepPid 0 2)) = false.
Proof.
  exists [S [B 0 0 0 0 0 true false 0 false None; B 0 0 1 0 64 false false 0 false None] [1; 0]].
  vm_compute. split; reflexivity.
Qed.
Print Assumptions c19_install_keep_pid_old_refuted.

Example c19_nonvacuous :
  let d0 := reset 2 2 64 in
  let d1 := run 2 2 64 d0 [OInstall 1 0 false; OFinishFill 0 0; OReadHit 1 0; OInstall 1 128 false;
                           OWriteHit 1 0; OReadDone 0 0; OWriteHit 1 0; OFinishWrite 0 0; OInvalidate [130%N] 1] in
  dir_wf 2 2 64 d1 = true /\ d1 <> d0 /\
  lru_ok 4 [2; 0; 3; 1] = true /\ remove_first 0 [2; 0; 3; 1] ++ [0] = [2; 3; 1; 0].
Proof. vm_compute. repeat split; try reflexivity. discriminate. Qed.

(** Link between the two evaluators on the FindVictim and Lookup kernel cases:
    whenever the real function's result equals the model's, the property
    predicate [Exec.holds_on] holds of the observed result. *)
From Akita Require Import C19.Exec C19.Link.
Theorem c19_model_agreement_implies_property : forall d ns bs pid addr ov ol,
  (check_case (KVictim d ns bs addr ov) = true -> holds_on (KVictim d ns bs addr ov) = true) /\
  (check_case (KLookup d ns bs pid addr ol) = true -> holds_on (KLookup d ns bs pid addr ol) = true).
Proof.
  intros. split; [apply victim_agreement_implies_property|apply lookup_agreement_implies_property].
Qed.
Print Assumptions c19_model_agreement_implies_property.
