(** C19 — cache directories stay well-formed.  Property theorems only. *)
From Akita Require Import Lib.Base C19.Model C19.Proofs.
From Coq Require Import Permutation.
Local Open Scope Z_scope.

(** DirectoryVisit keeps the recency list a list of every way exactly once. *)
Theorem c19_visit_perm : forall ways lru w,
  lru_ok ways lru = true -> 0 <= w < Z.of_nat ways ->
  lru_ok ways (remove_first w lru ++ [w]) = true /\
  Permutation (remove_first w lru ++ [w]) (map Z.of_nat (seq 0 ways)) /\
  remove_first w lru = filter (fun x => negb (x =? w)) lru.
Proof.
  intros ways lru w H Hw. pose proof (visit_lru_ok ways lru w H Hw) as H2.
  split; [exact H2|]. split; [apply lru_ok_perm; exact H2|].
  apply remove_first_filter. apply lru_ok_spec in H. destruct H as [_ HC].
  replace w with (Z.of_nat (Z.to_nat w)) by lia. rewrite HC by lia. lia.
Qed.
Print Assumptions c19_visit_perm.

Example c19_visit_nonvacuous :
  lru_ok 4 [2; 0; 3; 1] = true /\ remove_first 0 [2; 0; 3; 1] ++ [0] = [2; 3; 1; 0].
Proof. vm_compute. split; reflexivity. Qed.
