(** C41 — generated IDs are unique; the sequential counter is reproducible.
    Property theorems only. *)
From Akita Require Import Lib.Base C41.Model C41.Proofs.
Local Open Scope N_scope.

(** The sequential generator hands out the same sequence in every run: from a
    fresh generator the first [n] IDs are 1, 2, ..., n (any n < 2^64) — the result
    depends on nothing but the number of calls. *)
Theorem c41_sequential_deterministic : forall k n, N.of_nat n < two64 ->
  snd (gen_n (fresh k) n) = seqN 0 n /\ next_id (fst (gen_n (fresh k) n)) = N.of_nat n.
Proof.
  intros k n H. rewrite (gen_n_exact n (fresh k)) by (cbn [fresh next_id]; lia).
  cbn [fst snd next_id fresh]. split; [reflexivity|lia].
Qed.
Print Assumptions c41_sequential_deterministic.

(** From ANY counter value [c], [n] consecutive IDs are c+1..c+n: nonzero and
    pairwise distinct as long as fewer than 2^64 - c calls are made. *)
Theorem c41_sequence_unique_nonzero : forall s n, next_id s + N.of_nat n < two64 ->
  let ids := snd (gen_n s n) in
  ids = seqN (next_id s) n /\ NoDup ids /\ Forall (fun x => x <> 0) ids.
Proof.
  intros s n H. cbn zeta. rewrite (gen_n_exact n s H). cbn [snd].
  split; [reflexivity|]. split; [apply seqN_nodup|apply seqN_nonzero].
Qed.
Print Assumptions c41_sequence_unique_nonzero.

(** SaveCheckpoint writes [{"kind":"sequential","next_id":<counter>}] and leaves
    the counter alone; restoring that text into ANY sequential generator (whatever
    its counter, e.g. a rebuilt one) makes it continue the sequence exactly: every
    later ID equals the ID the saved generator would have handed out. *)
Theorem c41_restore_continues : forall s s2 i,
  gkind s = Seq -> next_id s < two64 -> gkind s2 = Seq ->
  let text := save_bytes (next_id s) in
  step s Save = (mk_st Seq (next_id s) (saves s ++ [text]), OSaved text) /\
  (nth_error (saves s2) i = Some text ->
   exists s2', step s2 (LoadSaved i) = (s2', OOk) /\ next_id s2' = next_id s /\
               forall n, snd (gen_n s2' n) = snd (gen_n s n)).
Proof.
  intros s s2 i Hk Hlt Hk2 text. split; [exact (save_step s Hk)|].
  intro Hnth. exact (restore_continues s s2 i Hk Hlt Hk2 Hnth).
Qed.
Print Assumptions c41_restore_continues.

(** ... in particular: save, keep generating, restore, generate again — the IDs
    after the restore repeat exactly the IDs handed out after the save. *)
Theorem c41_save_generate_restore_replays : forall s m n,
  gkind s = Seq -> next_id s < two64 ->
  let '(s1, _) := step s Save in
  let '(s2, ids_after_save) := gen_n s1 m in
  let '(s3, r) := step s2 (LoadSaved (length (saves s))) in
  r = OOk /\ snd (gen_n s3 n) = snd (gen_n s n) /\ snd (gen_n s1 n) = snd (gen_n s n).
Proof.
  intros s m n Hk Hlt. rewrite (save_step s Hk).
  set (s1 := mk_st Seq (next_id s) (saves s ++ [save_bytes (next_id s)])).
  destruct (gen_n s1 m) as [s2 ids1] eqn:Eg.
  assert (Hs2 : gkind s2 = Seq /\ saves s2 = saves s1) by exact (gen_n_frame m s1 s2 ids1 Eg).
  destruct Hs2 as [Hk2 Hsv].
  destruct (restore_continues s s2 (length (saves s)) Hk Hlt Hk2) as [s3 [Hst [_ Hc]]].
  { rewrite Hsv. unfold s1. cbn [saves]. rewrite nth_error_app2 by lia.
    rewrite Nat.sub_diag. reflexivity. }
  rewrite Hst. split; [reflexivity|]. split; [apply Hc|].
  apply gen_n_ext. reflexivity.
Qed.
Print Assumptions c41_save_generate_restore_replays.

(** A rejected LoadCheckpoint (wrong kind, malformed text, parallel generator)
    leaves the generator untouched. *)
Theorem c41_failed_load_changes_nothing : forall s o s' r,
  (o = LoadGarbage \/ (exists i, o = LoadSaved i) \/ (exists kd nid, o = LoadDTO kd nid)) ->
  step s o = (s', r) -> r = OErr -> s' = s.
Proof.
  intros s o s' r Ho H Hr. subst r.
  destruct Ho as [->|[[i ->]|[kd [nid ->]]]]; cbn [step] in H.
  - inversion H; reflexivity.
  - destruct (gkind s); [|inversion H; reflexivity].
    destruct (nth_error (saves s) i); [|inversion H; reflexivity].
    destruct (parse_saved l); inversion H; reflexivity.
  - destruct (gkind s); [|inversion H; reflexivity].
    destruct (list_eqb N.eqb kd kind_sequential); inversion H; reflexivity.
Qed.
Print Assumptions c41_failed_load_changes_nothing.

(** Concurrent use.  Assumption (named in the manifest): atomic.AddUint64 is one
    indivisible fetch-and-add.  Then for EVERY number of threads and EVERY
    interleaving [sched] (the list of thread ids in the order their Generate
    calls take effect) of fewer than 2^64 - c0 calls: the IDs handed out are
    exactly c0+1 .. c0+|sched| — all nonzero, pairwise distinct, and no ID is
    handed to two different threads. *)
Theorem c41_concurrent_unique_nonzero : forall c0 sched,
  c0 + N.of_nat (length sched) < two64 ->
  let s := crun Atomic (cinit c0) sched in
  NoDup (ids s) /\ Forall (fun x => x <> 0) (ids s) /\
  (forall x, In x (ids s) <-> c0 < x <= c0 + N.of_nat (length sched)) /\
  length (ids s) = length sched /\
  (forall i j x, In x (ids_of i s) -> In x (ids_of j s) -> i = j).
Proof.
  intros c0 sched H s.
  destruct (crun_atomic sched (cinit c0) H) as [_ Hids].
  cbn [cinit ctr] in Hids. unfold ids at 2 in Hids. cbn [cinit log map] in Hids.
  rewrite app_nil_r in Hids. fold s in Hids.
  assert (Hnd : NoDup (ids s)).
  { rewrite Hids. apply NoDup_rev. apply seqN_nodup. }
  split; [exact Hnd|]. split.
  { rewrite Hids. apply Forall_rev. apply seqN_nonzero. }
  split.
  { intro x. rewrite Hids, <- in_rev. apply seqN_in. }
  split.
  { rewrite Hids, rev_length. apply seqN_length. }
  intros i j x Hi Hj. apply ids_of_in in Hi. apply ids_of_in in Hj.
  exact (nodup_map_snd_owner (log s) i j x Hnd Hi Hj).
Qed.
Print Assumptions c41_concurrent_unique_nonzero.

(** Atomicity is necessary: if Generate were "load, then store old+1" (the
    mutation), the interleaving load0 load1 store0 store1 hands the ID 1 to both
    thread 0 and thread 1. *)
Theorem c41_load_store_mutation_refuted :
  let s := crun LoadStore (cinit 0) [0; 1; 0; 1]%nat in
  ids_of 0 s = [1] /\ ids_of 1 s = [1] /\ ~ NoDup (ids s).
Proof.
  cbn zeta. split; [reflexivity|]. split; [reflexivity|].
  intro H. vm_compute in H. inversion H as [|? ? Hn _]; subst. apply Hn. left. reflexivity.
Qed.
Print Assumptions c41_load_store_mutation_refuted.

(** Boundary of the property's range: the 2^64-th call wraps and hands out 0
    (reachable only through SetIDGeneratorNextID / a checkpoint with
    next_id = 2^64-1, never by counting). *)
Theorem c41_wrap_witness :
  snd (generate (mk_st Seq 18446744073709551615 [])) = 0.
Proof. reflexivity. Qed.
Print Assumptions c41_wrap_witness.

(** Regression lemmas for the mutations "counter starts at 0 is handed out" /
    "counter not restored": a generator returning the OLD value would hand out 0
    first; a load that ignores next_id would repeat IDs. *)
Theorem c41_first_id_is_one : snd (generate (fresh Seq)) = 1 /\ snd (generate (fresh Par)) = 1.
Proof. split; reflexivity. Qed.
Print Assumptions c41_first_id_is_one.

(** Non-vacuity: a concrete save / generate / restore / generate script. *)
Example c41_nonvacuous :
  snd (run (fresh Seq) [Gen; Gen; Save; Gen; Gen; LoadSaved 0; Gen; LoadDTO kind_sequential 40; Gen; GetNext])
  = [OId 1; OId 2; OSaved (save_bytes 2); OId 3; OId 4; OOk; OId 3; OOk; OId 41; OVal 41]
  /\ save_bytes 2 = [123; 34; 107; 105; 110; 100; 34; 58; 34; 115; 101; 113; 117; 101; 110; 116; 105; 97; 108; 34; 44;
                     34; 110; 101; 120; 116; 95; 105; 100; 34; 58; 50; 125; 10].
Proof. split; vm_compute; reflexivity. Qed.

(** The predicate evaluated on the implementation's observed results
    ([Exec.holds_on]) is implied by exact agreement with the model
    ([Exec.check_case]) for scripts that stay inside the property's range
    ([Exec.wf_case]: no explicit counter value within the script's length of 2^64-1). *)
From Akita Require Import C41.Exec C41.Link.
Theorem c41_model_agreement_implies_property : forall c,
  wf_case c = true -> check_case c = true -> holds_on c = true.
Proof. exact check_implies_holds. Qed.
Print Assumptions c41_model_agreement_implies_property.

(** Non-vacuity of the hypotheses of the restore and concurrency theorems. *)
Example c41_restore_nonvacuous :
  let s := fst (gen_n (fresh Seq) 7) in
  let s2 := mk_st Seq 1234 [save_bytes 3; save_bytes (next_id s)] in
  gkind s = Seq /\ next_id s = 7 /\ nth_error (saves s2) 1 = Some (save_bytes (next_id s)) /\
  snd (gen_n (fst (step s2 (LoadSaved 1))) 3) = [8; 9; 10].
Proof. vm_compute. repeat split. Qed.

Example c41_concurrent_nonvacuous :
  let s := crun Atomic (cinit 0) [2; 0; 1; 1; 0; 2; 2]%nat in
  ids_of 0 s = [5; 2] /\ ids_of 1 s = [4; 3] /\ ids_of 2 s = [7; 6; 1].
Proof. vm_compute. repeat split. Qed.

Example c41_link_nonvacuous :
  let c := CSeq Seq [Gen; Save; Gen; LoadSaved 0; Gen] [OId 1; OSaved (save_bytes 1); OId 2; OOk; OId 2] [1] in
  wf_case c = true /\ check_case c = true /\ holds_on c = true.
Proof. vm_compute. repeat split. Qed.

(** The headline statement under its DESIGN name: every ID handed out — by any
    number of concurrent callers in any interleaving, fewer than 2^64 calls from a
    fresh generator — is nonzero and distinct from every other one. *)
Theorem c41_unique_nonzero : forall sched, N.of_nat (length sched) < two64 ->
  let s := crun Atomic (cinit 0) sched in
  NoDup (ids s) /\ Forall (fun x => x <> 0) (ids s).
Proof.
  intros sched H s.
  destruct (c41_concurrent_unique_nonzero 0 sched) as [A [B _]]; [lia|]. split; assumption.
Qed.
Print Assumptions c41_unique_nonzero.
