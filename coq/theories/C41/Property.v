(** C41 — property theorems. *)
From Akita Require Import Lib.Base C41.Model C41.Proofs.
Local Open Scope N_scope.

Theorem c41_placeholder_init : next_id (fresh Seq) = 0.
Proof. reflexivity. Qed.
Print Assumptions c41_placeholder_init.
