(** C41 — case evaluators.
    [CSeq]: a script of API calls on a fresh generator of the given kind, with
            every observed result ([c_nids]: the next_id that Go's encoding/json
            reads back from each checkpoint text that was written).
    [CConc]: a stress run — [g] goroutines each calling Generate [n] times on a
            fresh generator — summarised by the harness (count, min, max,
            pairwise distinct, all nonzero). *)
From Akita Require Import Lib.Base C41.Model.
Local Open Scope N_scope.

Inductive case :=
| CSeq (k : kind) (ops : list op) (outs : list out) (nids : list N)
| CConc (k : kind) (g n : N) (count mn mx : N) (distinct nonzero : bool).

Definition out_eqb (a b : out) : bool :=
  match a, b with
  | OId x, OId y => x =? y
  | OSaved x, OSaved y => list_eqb N.eqb x y
  | OOk, OOk | OErr, OErr | OPanic, OPanic => true
  | OVal x, OVal y => x =? y
  | _, _ => false
  end.

(** the counter values the model has at its Save steps *)
Fixpoint model_nids (s : st) (ops : list op) : list N :=
  match ops with
  | [] => []
  | o :: r =>
      let '(s', x) := step s o in
      match x with
      | OSaved _ => next_id s :: model_nids s' r
      | _ => model_nids s' r
      end
  end.

Definition check_case (c : case) : bool :=
  match c with
  | CSeq k ops outs nids =>
      list_eqb out_eqb (snd (run (fresh k) ops)) outs
      && list_eqb N.eqb (model_nids (fresh k) ops) nids
  | CConc _ g n count mn mx distinct nonzero =>
      (* theorem c41_concurrent_exact: under EVERY interleaving the IDs handed out
         are exactly 1..g*n *)
      (count =? g * n) && distinct && nonzero &&
      (if g * n =? 0 then true else (mn =? 1) && (mx =? g * n))
  end.

(** ------------------------------------------------------------------ *)
(** The property itself on the observed results. *)

Definition max64 : N := 18446744073709551615.

(** [b] continues the sequence after counter value [a] *)
Definition succ_ok (a b : N) : bool :=
  if a =? max64 then true        (* 2^64 calls: outside the property's range *)
  else (b =? a + 1) && negb (b =? 0).

Fixpoint mem (x : N) (l : list N) : bool :=
  match l with [] => false | y :: r => (x =? y) || mem x r end.

(** [prev]: counter value according to the observations so far;
    [seg]: IDs handed out since the counter was last set explicitly;
    [nids]: next_id values read back from the checkpoints still to come;
    [saved]: those of the checkpoints already written. *)
Fixpoint walk (prev : N) (seg : list N) (saved nids : list N)
         (ops : list op) (outs : list out) : bool :=
  match ops, outs with
  | [], [] => true
  | o :: ops', x :: outs' =>
      match o, x with
      | Gen, OId n =>
          succ_ok prev n && (if prev =? max64 then true else negb (mem n seg))
          && walk n (n :: seg) saved nids ops' outs'
      | Save, OSaved _ =>
          match nids with
          | v :: nids' => (v =? prev) && walk prev seg (saved ++ [v]) nids' ops' outs'
          | [] => false
          end
      | LoadSaved i, OOk =>
          match nth_error saved i with
          | Some v => walk v [] saved nids ops' outs'
          | None => false
          end
      | LoadDTO _ nid, OOk => walk nid [] saved nids ops' outs'
      | SetNext n, OOk => walk n [] saved nids ops' outs'
      | GetNext, OVal v => (v =? prev) && walk prev seg saved nids ops' outs'
      | _, OErr | _, OPanic => walk prev seg saved nids ops' outs'   (* a failed call changes nothing *)
      | _, _ => false
      end
  | _, _ => false
  end.

Definition holds_on (c : case) : bool :=
  match c with
  | CSeq _ ops outs nids => walk 0 [] [] nids ops outs
  | CConc _ _ _ _ _ _ distinct nonzero => distinct && nonzero
  end.

(** well-formed for the link theorem: no explicit counter value is so large that
    the remaining calls could reach 2^64 - 1 (the property's range) *)
Fixpoint wf_ops (ops : list op) : bool :=
  match ops with
  | [] => true
  | o :: r =>
      (match o with
       | SetNext n | LoadDTO _ n => n + N.of_nat (length r) <? max64
       | _ => true
       end) && wf_ops r
  end.

Definition wf_case (c : case) : bool :=
  match c with
  | CSeq _ ops _ _ => (N.of_nat (length ops) <? max64) && wf_ops ops
  | CConc _ _ _ _ _ _ _ _ => true
  end.
