(** C41 — proofs about the ID generator model. *)
From Coq Require Import DecimalN.
From Akita Require Import Lib.Base C41.Model.
Local Open Scope N_scope.

(** [seqN c n] = c+1, c+2, ..., c+n *)
Fixpoint seqN (c : N) (n : nat) : list N :=
  match n with
  | O => []
  | S m => (c + 1) :: seqN (c + 1) m
  end.

Lemma seqN_in c n x : In x (seqN c n) <-> c < x <= c + N.of_nat n.
Proof.
  revert c. induction n as [|n IH]; intro c; cbn [seqN In].
  - split; [tauto|lia].
  - rewrite IH. split; [intros [<-|H]; lia|]. intro H.
    destruct (N.eq_dec (c + 1) x); [left; assumption|right; lia].
Qed.

Lemma seqN_nodup c n : NoDup (seqN c n).
Proof.
  revert c. induction n as [|n IH]; intro c; cbn [seqN]; constructor; [|apply IH].
  rewrite seqN_in. lia.
Qed.

Lemma seqN_length c n : length (seqN c n) = n.
Proof. revert c. induction n as [|n IH]; intro c; cbn [seqN length]; [reflexivity|rewrite IH; reflexivity]. Qed.

Lemma seqN_nonzero c n : Forall (fun x => x <> 0) (seqN c n).
Proof. apply Forall_forall. intros x Hx. apply seqN_in in Hx. lia. Qed.

(** ------------------------------------------------------------------ *)
(** Part 1: the sequential state machine *)

Lemma generate_small s : next_id s + 1 < two64 ->
  generate s = (mk_st (gkind s) (next_id s + 1) (saves s), next_id s + 1).
Proof. intro H. unfold generate. rewrite (w64_small _ H). reflexivity. Qed.

Lemma gen_n_exact n : forall s, next_id s + N.of_nat n < two64 ->
  gen_n s n = (mk_st (gkind s) (next_id s + N.of_nat n) (saves s), seqN (next_id s) n).
Proof.
  induction n as [|n IH]; intros s H.
  - cbn [gen_n seqN]. destruct s; cbn. rewrite N.add_0_r. reflexivity.
  - rewrite Nat2N.inj_succ in *. cbn [gen_n seqN]. rewrite generate_small by lia.
    rewrite IH by (cbn [next_id]; lia). cbn [gkind next_id saves].
    replace (next_id s + 1 + N.of_nat n) with (next_id s + N.succ (N.of_nat n)) by lia.
    reflexivity.
Qed.

Lemma gen_n_frame n : forall s s' xs, gen_n s n = (s', xs) -> gkind s' = gkind s /\ saves s' = saves s.
Proof.
  induction n as [|n IH]; intros s s' xs E.
  - inversion E; subst. split; reflexivity.
  - cbn [gen_n] in E. unfold generate in E.
    destruct (gen_n (mk_st (gkind s) (w64 (next_id s + 1)) (saves s)) n) as [s1 ys] eqn:E1.
    inversion E; subst. destruct (IH _ _ _ E1) as [A B]. cbn [gkind saves] in *. split; assumption.
Qed.

(** the IDs handed out depend on the counter only *)
Lemma gen_n_ext n : forall a b, next_id a = next_id b -> snd (gen_n a n) = snd (gen_n b n).
Proof.
  induction n as [|n IH]; intros a b E; [reflexivity|].
  cbn [gen_n]. unfold generate. rewrite E.
  specialize (IH (mk_st (gkind a) (w64 (next_id b + 1)) (saves a))
                 (mk_st (gkind b) (w64 (next_id b + 1)) (saves b)) eq_refl).
  destruct (gen_n (mk_st (gkind a) _ _) n), (gen_n (mk_st (gkind b) _ _) n).
  cbn [snd] in *. congruence.
Qed.

(** checkpoint text round trip *)
Lemma strip_prefix_app p l : strip_prefix p (p ++ l) = Some l.
Proof. induction p as [|x p IH]; cbn; [reflexivity|]. rewrite N.eqb_refl. exact IH. Qed.

Lemma read_uint_bytes u : read_uint (uint_bytes u ++ ck_suffix) = (u, ck_suffix).
Proof.
  induction u; cbn [uint_bytes app]; [reflexivity|..];
    cbn [read_uint]; rewrite IHu; reflexivity.
Qed.

Lemma to_uint_not_nil n : N.to_uint n <> Decimal.Nil.
Proof.
  intro E. pose proof (DecimalN.Unsigned.of_to n) as H. rewrite E in H.
  cbn in H. subst n. discriminate.
Qed.

Lemma parse_save n : n < two64 -> parse_saved (save_bytes n) = Some n.
Proof.
  intro H. unfold parse_saved, save_bytes, dec_bytes.
  rewrite strip_prefix_app, read_uint_bytes.
  pose proof (to_uint_not_nil n) as Hn. pose proof (DecimalN.Unsigned.of_to n) as Hr.
  destruct (N.to_uint n) eqn:E; [congruence|..]; rewrite Hr;
    replace (list_eqb N.eqb ck_suffix ck_suffix) with true by reflexivity;
    cbn [andb]; destruct (n <? two64) eqn:El; try reflexivity; lia.
Qed.

(** restoring a checkpoint written in state [s] makes any sequential generator
    continue exactly as [s] would have *)
Lemma restore_continues s s2 i : gkind s = Seq -> next_id s < two64 -> gkind s2 = Seq ->
  nth_error (saves s2) i = Some (save_bytes (next_id s)) ->
  exists s2', step s2 (LoadSaved i) = (s2', OOk) /\ next_id s2' = next_id s /\
              forall n, snd (gen_n s2' n) = snd (gen_n s n).
Proof.
  intros Hk Hlt Hk2 Hnth. cbn [step]. rewrite Hk2, Hnth, (parse_save _ Hlt).
  eexists. split; [reflexivity|]. split; [reflexivity|].
  intro n. apply gen_n_ext. reflexivity.
Qed.

Lemma save_step s : gkind s = Seq ->
  step s Save = (mk_st Seq (next_id s) (saves s ++ [save_bytes (next_id s)]), OSaved (save_bytes (next_id s))).
Proof. intro Hk. cbn [step]. rewrite Hk. reflexivity. Qed.

(** ------------------------------------------------------------------ *)
(** Part 2: every interleaving of atomic fetch-and-add steps *)

Lemma crun_atomic sched : forall s, ctr s + N.of_nat (length sched) < two64 ->
  ctr (crun Atomic s sched) = ctr s + N.of_nat (length sched) /\
  ids (crun Atomic s sched) = rev (seqN (ctr s) (length sched)) ++ ids s.
Proof.
  unfold crun. induction sched as [|i r IH]; intros s H.
  - cbn. split; [lia|reflexivity].
  - cbn [fold_left length seqN rev]. cbn [length] in H. rewrite Nat2N.inj_succ in *.
    assert (Hs : w64 (ctr s + 1) = ctr s + 1) by (apply w64_small; lia).
    assert (Hc : ctr (cstep Atomic s i) = ctr s + 1) by (cbn [cstep ctr]; exact Hs).
    assert (Hi : ids (cstep Atomic s i) = (ctr s + 1) :: ids s).
    { unfold ids. cbn [cstep log map snd]. rewrite Hs. reflexivity. }
    destruct (IH (cstep Atomic s i)) as [A B]; [rewrite Hc; lia|].
    rewrite A, B, Hc, Hi. split; [lia|]. rewrite <- app_assoc. reflexivity.
Qed.

Lemma nodup_map_snd_owner (l : list (nat * N)) i j a :
  NoDup (map snd l) -> In (i, a) l -> In (j, a) l -> i = j.
Proof.
  induction l as [|[k b] l IH]; cbn [map snd In]; intros Hnd Hi Hj; [tauto|].
  inversion Hnd as [|? ? Hnotin Hnd']; subst.
  destruct Hi as [Ei|Hi], Hj as [Ej|Hj].
  - congruence.
  - inversion Ei; subst. exfalso. apply Hnotin. apply in_map_iff. exists (j, a). auto.
  - inversion Ej; subst. exfalso. apply Hnotin. apply in_map_iff. exists (i, a). auto.
  - auto.
Qed.

Lemma ids_of_in i s a : In a (ids_of i s) <-> In (i, a) (log s).
Proof.
  unfold ids_of. rewrite in_map_iff. split.
  - intros [[k b] [E Hin]]. cbn in E. subst b. apply filter_In in Hin. destruct Hin as [Hin Hk].
    cbn in Hk. apply Nat.eqb_eq in Hk. subst k. exact Hin.
  - intro Hin. exists (i, a). split; [reflexivity|]. apply filter_In. split; [exact Hin|].
    cbn. apply Nat.eqb_refl.
Qed.
