(** C41 — proofs about the ID generator model. *)
From Akita Require Import Lib.Base C41.Model.
Local Open Scope N_scope.
