(** C41 — model of timing/idgenerator.go and timing/idgenerator_checkpoint.go.

    Part 1: the generator object as a sequential state machine
            (Generate, SaveCheckpoint, LoadCheckpoint, Get/SetIDGeneratorNextID),
            uint64 counter with explicit wrap-around, checkpoint as the exact
            JSON text written by encoding/json.
    Part 2: concurrent use — an interleaving model: any number of threads, an
            adversarial schedule decides which thread performs its next shared
            memory access.  In mode [Atomic] a Generate is ONE access
            (atomic.AddUint64: fetch-and-add, returns the new value); mode
            [LoadStore] is the mutation "load, then store old+1" (two accesses). *)
From Coq Require Import DecimalN.
From Akita Require Import Lib.Base.
Local Open Scope N_scope.

(** ------------------------------------------------------------------ *)
(** Part 1 *)

Inductive kind := Seq | Par.   (* sequentialIDGenerator / parallelIDGenerator *)

Record st := mk_st {
  gkind : kind;
  next_id : N;                  (* the uint64 field nextID *)
  saves : list (list N) }.      (* checkpoints written so far (JSON text as bytes) *)

Definition fresh (k : kind) : st := mk_st k 0 [].

(** Generate: atomic.AddUint64(&g.nextID, 1) returns the incremented value. *)
Definition generate (s : st) : st * N :=
  let n := w64 (next_id s + 1) in (mk_st (gkind s) n (saves s), n).

(** decimal rendering of a uint64 as encoding/json prints it *)
Fixpoint uint_bytes (u : Decimal.uint) : list N :=
  match u with
  | Decimal.Nil => []
  | Decimal.D0 r => 48 :: uint_bytes r
  | Decimal.D1 r => 49 :: uint_bytes r
  | Decimal.D2 r => 50 :: uint_bytes r
  | Decimal.D3 r => 51 :: uint_bytes r
  | Decimal.D4 r => 52 :: uint_bytes r
  | Decimal.D5 r => 53 :: uint_bytes r
  | Decimal.D6 r => 54 :: uint_bytes r
  | Decimal.D7 r => 55 :: uint_bytes r
  | Decimal.D8 r => 56 :: uint_bytes r
  | Decimal.D9 r => 57 :: uint_bytes r
  end.

Definition dec_bytes (n : N) : list N := uint_bytes (N.to_uint n).

(** [{"kind":"sequential","next_id":] *)
Definition ck_prefix : list N :=
  [123; 34; 107; 105; 110; 100; 34; 58; 34; 115; 101; 113; 117; 101; 110; 116; 105; 97; 108; 34; 44;
   34; 110; 101; 120; 116; 95; 105; 100; 34; 58].
(** [}] and the newline json.Encoder appends *)
Definition ck_suffix : list N := [125; 10].

Definition kind_sequential : list N := [115; 101; 113; 117; 101; 110; 116; 105; 97; 108].

(** sequentialIDGenerator.SaveCheckpoint *)
Definition save_bytes (n : N) : list N := ck_prefix ++ dec_bytes n ++ ck_suffix.

(** reading back the text written by [save_bytes] (only that canonical shape;
    other JSON goes through [LoadDTO], whose decoding is done by encoding/json) *)
Fixpoint strip_prefix (p l : list N) : option (list N) :=
  match p, l with
  | [], _ => Some l
  | x :: p', y :: l' => if x =? y then strip_prefix p' l' else None
  | _ :: _, [] => None
  end.

Fixpoint read_uint (l : list N) : Decimal.uint * list N :=
  match l with
  | c :: r =>
      let '(u, rest) := read_uint r in
      match c with
      | 48 => (Decimal.D0 u, rest) | 49 => (Decimal.D1 u, rest) | 50 => (Decimal.D2 u, rest)
      | 51 => (Decimal.D3 u, rest) | 52 => (Decimal.D4 u, rest) | 53 => (Decimal.D5 u, rest)
      | 54 => (Decimal.D6 u, rest) | 55 => (Decimal.D7 u, rest) | 56 => (Decimal.D8 u, rest)
      | 57 => (Decimal.D9 u, rest)
      | _ => (Decimal.Nil, l)
      end
  | [] => (Decimal.Nil, [])
  end.

Definition parse_saved (l : list N) : option N :=
  match strip_prefix ck_prefix l with
  | None => None
  | Some r =>
      let '(u, rest) := read_uint r in
      match u with
      | Decimal.Nil => None
      | _ => if list_eqb N.eqb rest ck_suffix && (N.of_uint u <? two64)
             then Some (N.of_uint u) else None
      end
  end.

Inductive op :=
| Gen
| Save
| LoadSaved (i : nat)                     (* LoadCheckpoint(text of the i-th Save) *)
| LoadDTO (kd : list N) (nid : N)         (* LoadCheckpoint of {"kind":kd,"next_id":nid} *)
| LoadGarbage                             (* LoadCheckpoint of text that is not a JSON object *)
| SetNext (n : N)                         (* SetIDGeneratorNextID *)
| GetNext.                                (* GetIDGeneratorNextID *)

Inductive out :=
| OId (n : N) | OSaved (text : list N) | OOk | OErr | OVal (n : N) | OPanic.

(** one API call; [OPanic] = Go panic (failed type assertion on the parallel generator) *)
Definition step (s : st) (o : op) : st * out :=
  match o with
  | Gen => let '(s', n) := generate s in (s', OId n)
  | Save =>
      match gkind s with
      | Seq => let b := save_bytes (next_id s) in
               (mk_st Seq (next_id s) (saves s ++ [b]), OSaved b)
      | Par => (s, OErr)
      end
  | LoadSaved i =>
      match gkind s, nth_error (saves s) i with
      | Seq, Some b =>
          match parse_saved b with
          | Some n => (mk_st Seq n (saves s), OOk)
          | None => (s, OErr)
          end
      | _, _ => (s, OErr)
      end
  | LoadDTO kd nid =>
      match gkind s with
      | Seq => if list_eqb N.eqb kd kind_sequential
               then (mk_st Seq nid (saves s), OOk) else (s, OErr)
      | Par => (s, OErr)
      end
  | LoadGarbage => (s, OErr)
  | SetNext n =>
      match gkind s with
      | Seq => (mk_st Seq n (saves s), OOk)
      | Par => (s, OPanic)
      end
  | GetNext =>
      match gkind s with
      | Seq => (s, OVal (next_id s))
      | Par => (s, OPanic)
      end
  end.

Fixpoint run (s : st) (ops : list op) : st * list out :=
  match ops with
  | [] => (s, [])
  | o :: r => let '(s', x) := step s o in
              let '(s'', xs) := run s' r in (s'', x :: xs)
  end.

(** the IDs handed out by [n] consecutive Generate calls *)
Fixpoint gen_n (s : st) (n : nat) : st * list N :=
  match n with
  | O => (s, [])
  | S m => let '(s', x) := generate s in
           let '(s'', xs) := gen_n s' m in (s'', x :: xs)
  end.

(** ------------------------------------------------------------------ *)
(** Part 2: interleaving model of concurrent Generate calls. *)

Inductive mode := Atomic | LoadStore.

Record cst := mk_cst {
  ctr : N;                       (* the shared uint64 *)
  regs : nat -> option N;        (* per thread: value loaded and not yet stored (LoadStore mode) *)
  log : list (nat * N) }.        (* (thread, ID returned), most recent first *)

Definition cinit (c0 : N) : cst := mk_cst c0 (fun _ => None) [].

Definition upd (r : nat -> option N) (i : nat) (v : option N) : nat -> option N :=
  fun j => if Nat.eqb i j then v else r j.

(** thread [i] performs its next shared-memory access *)
Definition cstep (m : mode) (s : cst) (i : nat) : cst :=
  match m with
  | Atomic =>
      let n := w64 (ctr s + 1) in mk_cst n (regs s) ((i, n) :: log s)
  | LoadStore =>
      match regs s i with
      | None => mk_cst (ctr s) (upd (regs s) i (Some (ctr s))) (log s)
      | Some v => let n := w64 (v + 1) in
                  mk_cst n (upd (regs s) i None) ((i, n) :: log s)
      end
  end.

Definition crun (m : mode) (s : cst) (sched : list nat) : cst := fold_left (cstep m) sched s.

Definition ids (s : cst) : list N := map snd (log s).
Definition ids_of (i : nat) (s : cst) : list N :=
  map snd (filter (fun p => Nat.eqb (fst p) i) (log s)).
