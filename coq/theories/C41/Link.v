(** C41 — agreement with the model implies the property predicate on the
    observed results ([Exec.check_case] -> [Exec.holds_on]). *)
From Akita Require Import Lib.Base C41.Model C41.Proofs C41.Exec.
Local Open Scope N_scope.

Lemma listN_eqb_eq' a b : list_eqb N.eqb a b = true -> a = b.
Proof. apply list_eqb_eq. intros x y. apply N.eqb_eq. Qed.

Lemma out_eqb_eq a b : out_eqb a b = true -> a = b.
Proof.
  destruct a, b; cbn; try discriminate; try reflexivity; intro H.
  - apply N.eqb_eq in H. congruence.
  - apply listN_eqb_eq' in H. congruence.
  - apply N.eqb_eq in H. congruence.
Qed.

Lemma outs_eqb_eq a b : list_eqb out_eqb a b = true -> a = b.
Proof.
  revert b. induction a as [|x a IH]; intros [|y b]; cbn; try discriminate; [reflexivity|].
  intro H. apply andb_true_iff in H. destruct H as [H1 H2].
  apply out_eqb_eq in H1. apply IH in H2. congruence.
Qed.

Lemma mem_false x l : Forall (fun y => y < x) l -> mem x l = false.
Proof.
  induction 1 as [|y l Hy Hl IH]; [reflexivity|]. cbn [mem]. rewrite IH.
  destruct (x =? y) eqn:E; [apply N.eqb_eq in E; lia|reflexivity].
Qed.

Lemma run_cons s o r : run s (o :: r) =
  (fst (run (fst (step s o)) r), snd (step s o) :: snd (run (fst (step s o)) r)).
Proof. cbn [run]. destruct (step s o) as [s' x]. cbn [fst snd]. destruct (run s' r) as [s'' xs]. reflexivity. Qed.

Lemma model_nids_cons s o r : model_nids s (o :: r) =
  match snd (step s o) with
  | OSaved _ => next_id s :: model_nids (fst (step s o)) r
  | _ => model_nids (fst (step s o)) r
  end.
Proof. cbn [model_nids]. destruct (step s o) as [s' x]. reflexivity. Qed.

(** [saved] (the next_id values of the checkpoints written so far) mirrors the model's texts *)
Definition saved_ok (saved : list N) (s : st) (rem : nat) : Prop :=
  saves s = map save_bytes saved /\ Forall (fun v => v + N.of_nat rem < max64) saved.

Lemma saved_weaken saved s rem : saved_ok saved s (S rem) -> forall s', saves s' = saves s -> saved_ok saved s' rem.
Proof.
  intros [A B] s' E. split; [congruence|]. eapply Forall_impl; [|exact B]. cbn. intros; lia.
Qed.

Lemma walk_ok : forall ops s seg saved,
  wf_ops ops = true -> next_id s + N.of_nat (length ops) < max64 ->
  Forall (fun y => y <= next_id s) seg -> saved_ok saved s (length ops) ->
  walk (next_id s) seg saved (model_nids s ops) ops (snd (run s ops)) = true.
Proof.
  induction ops as [|o r IH]; intros s seg saved Hwf Hb Hseg Hsv; [reflexivity|].
  cbn [wf_ops] in Hwf. apply andb_true_iff in Hwf. destruct Hwf as [Hwo Hwf].
  cbn [length] in Hb, Hsv. rewrite Nat2N.inj_succ in Hb.
  rewrite run_cons, model_nids_cons. cbn [snd].
  assert (Hne : (next_id s =? max64) = false) by (apply N.eqb_neq; lia).
  assert (Hsame : forall s', next_id s' = next_id s -> saves s' = saves s ->
            walk (next_id s) seg saved (model_nids s' r) r (snd (run s' r)) = true).
  { intros s' E1 E2. rewrite <- E1. apply IH; [exact Hwf|rewrite E1; lia|rewrite E1; exact Hseg|].
    exact (saved_weaken _ _ _ Hsv s' E2). }
  destruct o as [| |i|kd nid| |n|]; cbn [step].
  - (* Gen *)
    unfold generate. assert (Hw : w64 (next_id s + 1) = next_id s + 1).
    { apply w64_small. unfold max64, two64 in *. lia. }
    rewrite Hw. cbn [fst snd walk]. unfold succ_ok. rewrite Hne, N.eqb_refl.
    assert (Hnz : (next_id s + 1 =? 0) = false) by (apply N.eqb_neq; lia). rewrite Hnz.
    rewrite mem_false by (eapply Forall_impl; [|exact Hseg]; cbn; intros; lia).
    cbn [negb andb].
    apply (IH (mk_st (gkind s) (next_id s + 1) (saves s))); cbn [next_id].
    + exact Hwf.
    + lia.
    + constructor; [lia|]. eapply Forall_impl; [|exact Hseg]. cbn. intros; lia.
    + exact (saved_weaken _ _ _ Hsv _ eq_refl).
  - (* Save *)
    destruct (gkind s) eqn:Ek; cbn [fst snd walk].
    + rewrite N.eqb_refl. cbn [andb].
      apply (IH (mk_st Seq (next_id s) (saves s ++ [save_bytes (next_id s)]))); cbn [next_id];
        [exact Hwf|lia|exact Hseg|].
      destruct Hsv as [A B]. split.
      * cbn [saves]. rewrite map_app, A. reflexivity.
      * apply Forall_app. split; [eapply Forall_impl; [|exact B]; cbn; intros; lia|].
        constructor; [lia|constructor].
    + apply Hsame; reflexivity.
  - (* LoadSaved *)
    destruct (gkind s) eqn:Ek.
    + destruct Hsv as [A B].
      destruct (nth_error (saves s) i) as [b|] eqn:En.
      * rewrite A in En.
        assert (Hv : exists v, nth_error saved i = Some v /\ b = save_bytes v).
        { clear -En. revert i En. induction saved as [|x l IHl]; intros [|i] En; cbn in *; try discriminate.
          - inversion En; subst. eauto.
          - apply IHl. exact En. }
        destruct Hv as [v [Hnv ->]].
        assert (Hvb : v + N.of_nat (S (length r)) < max64).
        { rewrite Forall_forall in B. apply B. eapply nth_error_In. exact Hnv. }
        rewrite Nat2N.inj_succ in Hvb.
        rewrite parse_save by (unfold max64, two64 in *; lia).
        cbn [fst snd walk]. rewrite Hnv.
        apply (IH (mk_st Seq v (saves s))); cbn [next_id]; [exact Hwf|lia|constructor|].
        split; [exact A|]. eapply Forall_impl; [|exact B]. cbn. intros; lia.
      * cbn [fst snd walk]. apply Hsame; reflexivity.
    + cbn [fst snd walk]. apply Hsame; reflexivity.
  - (* LoadDTO *)
    destruct (gkind s) eqn:Ek.
    + destruct (list_eqb N.eqb kd kind_sequential) eqn:Ekd; cbn [fst snd walk].
      * apply N.ltb_lt in Hwo.
        apply (IH (mk_st Seq nid (saves s))); cbn [next_id]; [exact Hwf|lia|constructor|].
        exact (saved_weaken _ _ _ Hsv _ eq_refl).
      * apply Hsame; reflexivity.
    + cbn [fst snd walk]. apply Hsame; reflexivity.
  - (* LoadGarbage *)
    cbn [fst snd walk]. apply Hsame; reflexivity.
  - (* SetNext *)
    destruct (gkind s) eqn:Ek; cbn [fst snd walk].
    + apply N.ltb_lt in Hwo.
      apply (IH (mk_st Seq n (saves s))); cbn [next_id]; [exact Hwf|lia|constructor|].
      exact (saved_weaken _ _ _ Hsv _ eq_refl).
    + apply Hsame; reflexivity.
  - (* GetNext *)
    destruct (gkind s) eqn:Ek; cbn [fst snd walk].
    + rewrite N.eqb_refl. cbn [andb]. apply Hsame; reflexivity.
    + apply Hsame; reflexivity.
Qed.

Theorem check_implies_holds c : wf_case c = true -> check_case c = true -> holds_on c = true.
Proof.
  destruct c as [k ops outs nids|k g n count mn mx distinct nonzero]; cbn [wf_case check_case holds_on].
  - intros Hw H. apply andb_true_iff in Hw. destruct Hw as [Hlen Hwf].
    apply andb_true_iff in H. destruct H as [H1 H2].
    apply outs_eqb_eq in H1. apply listN_eqb_eq' in H2. subst outs nids.
    apply N.ltb_lt in Hlen.
    apply (walk_ok ops (fresh k) [] []); cbn [fresh next_id saves]; [exact Hwf|lia|constructor|].
    split; [reflexivity|constructor].
  - intros _ H. repeat (apply andb_true_iff in H; destruct H as [H ?]).
    subst. apply andb_true_iff. split; (assumption || reflexivity).
Qed.
