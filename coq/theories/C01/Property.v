(** C01 — property theorems (stage a placeholder: the engine of an empty schedule returns at once). *)
From Akita Require Import Lib.Base Lib.Engine C01.Model.

Theorem c01_empty_returns : forall p cap, r_out (run_script p cap []) = Done.
Proof. reflexivity. Qed.
Print Assumptions c01_empty_returns.
