(** C01 — the serial engine handles every scheduled event exactly once, in time / phase / FIFO order,
    and Run returns only when no event remains.  Property theorems only.

    Setting of every theorem: an arbitrary event type [E] with its time [etime] and class [esec],
    an arbitrary handler program [H : HS -> E -> HS * list E] (state of all handlers, handled event
    -> new state and the events passed to Schedule, in call order) that never schedules in the past
    ([H_ok]), an arbitrary engine state [en0] satisfying the engine invariant [e_ok] (heap shape,
    sequence numbers below nextSeq and distinct, primaries/secondaries in their own queue, clock not
    after any queued event) — [c01_initial_schedule_ok] shows that any list of initial Schedule calls on a
    fresh engine gives such a state — and any amount of fuel (= any run length).  "Terminates" is
    [r_out r = Done].  A queued entry is [(event, seq)] as in eventqueue.go; its identity is
    [ident] = (class, seq); [handled log] / [scheduled log] are the entries handled / queued by
    Schedule during the run, in order. *)
From Akita Require Import Lib.Base Lib.Engine Lib.EngineProofs Lib.EngineRunProofs C01.Model C01.Proofs.
From Coq Require Import Permutation Sorted.
Local Open Scope N_scope.

(* ------------------------------------------------------------------ the heap *)

(** eventHeap.up / Push keeps the heap shape and adds exactly the pushed entry. *)
Theorem c01_heap_push : forall (E : Type) (etime : E -> N) (h : list (@qev E)) (x : @qev E),
  heap_ok (qless etime) h ->
  heap_ok (qless etime) (hpush (qless etime) h x) /\ Permutation (hpush (qless etime) h x) (x :: h).
Proof.
  intros E etime h x Hok. split.
  - apply (hpush_ok _ (qless_asym etime) (qhle_trans etime)). exact Hok.
  - apply (hpush_perm _ (qless_asym etime) (qhle_trans etime)).
Qed.
Print Assumptions c01_heap_push.

(** popHeap returns the root, which is a (time, seq)-minimum, removes exactly it, and the
    remaining heap has the heap shape again. *)
Theorem c01_heap_pop_min : forall (E : Type) (etime : E -> N) (h : list (@qev E)),
  heap_ok (qless etime) h -> h <> [] ->
  exists m h', hpop (qless etime) h = Some (m, h') /\ hpeek h = Some m /\
    heap_ok (qless etime) h' /\ Permutation h (m :: h') /\
    (forall y, In y h -> qless etime y m = false).
Proof. intros E etime h. exact (hpop_spec _ (qless_asym etime) (qhle_trans etime) h). Qed.
Print Assumptions c01_heap_pop_min.

(** The heap refines the (time, seq)-sorted list: Push is sorted insertion, Pop/Peek take the
    head, and popping until empty yields the sorted list. *)
Theorem c01_heap_refines_sorted : forall (E : Type) (etime : E -> N),
  let less := qless etime in
  Repr less [] [] /\
  (forall h l x, Repr less h l -> (forall y, In y l -> less x y = true \/ less y x = true) ->
                 Repr less (hpush less h x) (sins less x l)) /\
  (forall h m l, Repr less h (m :: l) ->
                 exists h', hpop less h = Some (m, h') /\ hpeek h = Some m /\ Repr less h' l) /\
  (forall h l fuel, Repr less h l -> (length l <= fuel)%nat -> hdrain less fuel h = l).
Proof.
  intros E etime less. split; [apply repr_nil|]. split; [|split].
  - intros h l x. apply (repr_push _ (qless_asym etime) (qhle_trans etime) (qless_trans etime)).
  - intros h m l. apply (repr_pop _ (qless_asym etime) (qhle_trans etime)).
  - intros h l fuel. apply (repr_drain _ (qless_asym etime) (qhle_trans etime) (qless_trans etime) l h fuel).
Qed.
Print Assumptions c01_heap_refines_sorted.

(** Every well-formed queue (heap shape + distinct sequence numbers — part of the engine invariant
    [e_ok], hence true of every reachable queue) represents its contents sorted by (time, seq), and
    popping it until empty (also what SaveCheckpoint's snapshot reports) lists exactly that. *)
Theorem c01_queue_refines_sorted : forall (E : Type) (etime : E -> N) (q : @queue E),
  q_ok etime q ->
  Repr (qless etime) (q_heap q) (isort etime (q_heap q)) /\
  hdrain (qless etime) (length (q_heap q)) (q_heap q) = isort etime (q_heap q).
Proof. intros E etime q Hq. split; [apply q_ok_repr; exact Hq|apply q_drain_sorted; exact Hq]. Qed.
Print Assumptions c01_queue_refines_sorted.

(* ------------------------------------------------------------------ the engine *)

(** Any initial Schedule calls on a fresh engine succeed and give a state satisfying the invariant,
    with exactly those events queued; sequence numbers follow the call order. *)
Theorem c01_initial_schedule_ok : forall (E : Type) (etime : E -> N) (esec : E -> bool) (evs : list E),
  schedule_all etime esec new_engine evs = (start_en etime esec evs, start_xs etime esec evs, true) /\
  e_ok etime esec (start_en etime esec evs) /\
  Permutation (pending (start_en etime esec evs)) (start_xs etime esec evs) /\
  map fst (start_xs etime esec evs) = evs /\ e_now (start_en etime esec evs) = 0 /\
  StronglySorted (Rseq esec) (start_xs etime esec evs).
Proof.
  intros E etime esec evs. destruct (start_spec etime esec evs) as (A & B & C & D & F & G & _).
  split; [exact A|]. split; [exact B|]. split; [exact C|]. split; [exact D|]. split; [exact F|exact G].
Qed.
Print Assumptions c01_initial_schedule_ok.

(** Handlers that never schedule in the past never make Run panic, the invariant holds afterwards. *)
Theorem c01_no_panic_invariant_kept :
  forall (E : Type) (etime : E -> N) (esec : E -> bool) (HS : Type) (H : HS -> E -> HS * list E),
  H_ok etime H -> forall en0, e_ok etime esec en0 -> forall fuel hs,
  let r := run etime esec H fuel hs en0 in
  r_out r <> Panicked /\ e_ok etime esec (r_en r).
Proof.
  intros E etime esec HS H HH en0 Hok fuel hs r. split; [apply g_no_panic; assumption|].
  destruct (run_exec_J etime esec H HH en0 Hok fuel hs) as [_ HJ]. exact (J_ok _ _ _ _ _ HJ).
Qed.
Print Assumptions c01_no_panic_invariant_kept.

(** Exactly once: when Run terminates, the handled entries are a permutation of the entries that
    were queued at the start or queued by Schedule during the run, and these have pairwise distinct
    identities — every scheduled event is handled once, nothing else is handled. *)
Theorem c01_exactly_once :
  forall (E : Type) (etime : E -> N) (esec : E -> bool) (HS : Type) (H : HS -> E -> HS * list E),
  H_ok etime H -> forall en0, e_ok etime esec en0 -> forall fuel hs,
  let r := run etime esec H fuel hs en0 in
  r_out r = Done ->
  Permutation (handled (r_log r)) (pending en0 ++ scheduled (r_log r)) /\
  NoDup (map (ident esec) (pending en0 ++ scheduled (r_log r))).
Proof. intros E etime esec HS H HH en0 Hok fuel hs. exact (g_exactly_once etime esec H HH en0 Hok fuel hs). Qed.
Print Assumptions c01_exactly_once.

(** Simulated time never decreases across handled events (for runs of any length, terminated or
    not), starts no earlier than the clock, the clock shows the time of the event being handled and
    ends at the last handled event. *)
Theorem c01_time_monotone :
  forall (E : Type) (etime : E -> N) (esec : E -> bool) (HS : Type) (H : HS -> E -> HS * list E),
  H_ok etime H -> forall en0, e_ok etime esec en0 -> forall fuel hs,
  let r := run etime esec H fuel hs en0 in
  StronglySorted N.le (map (qtime etime) (handled (r_log r))) /\
  (forall x, In x (handled (r_log r)) -> e_now en0 <= qtime etime x) /\
  Forall (fun s => st_now s = qtime etime (st_ev s)) (r_log r) /\
  e_now (r_en r) = last (map (qtime etime) (handled (r_log r))) (e_now en0).
Proof. intros E etime esec HS H HH en0 Hok fuel hs. exact (g_time_monotone etime esec H HH en0 Hok fuel hs). Qed.
Print Assumptions c01_time_monotone.

(** Whatever is handled is due before everything else pending at that moment — pending = queued at
    the start or scheduled by an earlier step of the run, and not handled yet. *)
Theorem c01_handled_is_due_first :
  forall (E : Type) (etime : E -> N) (esec : E -> bool) (HS : Type) (H : HS -> E -> HS * list E),
  H_ok etime H -> forall en0, e_ok etime esec en0 -> forall fuel hs l1 s l2,
  r_log (run etime esec H fuel hs en0) = l1 ++ s :: l2 ->
  forall y, In y (pending en0 ++ scheduled l1) -> ~ In y (handled l1) -> y <> st_ev s ->
  before etime esec (st_ev s) y.
Proof. intros E etime esec HS H HH en0 Hok fuel hs. exact (g_due_first etime esec H HH en0 Hok fuel hs). Qed.
Print Assumptions c01_handled_is_due_first.

(** Primary before secondary: at the moment a secondary event with time t is handled, every pending
    primary — including primaries that handlers scheduled at t earlier in this very instant — has
    a time strictly after t. *)
Theorem c01_primary_before_secondary :
  forall (E : Type) (etime : E -> N) (esec : E -> bool) (HS : Type) (H : HS -> E -> HS * list E),
  H_ok etime H -> forall en0, e_ok etime esec en0 -> forall fuel hs l1 s l2,
  r_log (run etime esec H fuel hs en0) = l1 ++ s :: l2 -> esec (fst (st_ev s)) = true ->
  forall y, In y (pending en0 ++ scheduled l1) -> ~ In y (handled l1) -> esec (fst y) = false ->
  qtime etime (st_ev s) < qtime etime y.
Proof. intros E etime esec HS H HH en0 Hok fuel hs. exact (g_primary_before_secondary etime esec H HH en0 Hok fuel hs). Qed.
Print Assumptions c01_primary_before_secondary.

(** What "every primary before any secondary at an instant" cannot mean: a primary that a secondary's
    handler schedules at that same instant necessarily runs after that secondary (it did not exist
    before).  Witness: a secondary at t=3 schedules a primary at t=3 while another secondary at t=3
    is queued; the order handled is secondary(uid 0), primary(uid 2), its child primary(uid 3),
    secondary(uid 1) — the new primaries overtake the remaining secondary, as [c01_primary_before_secondary] demands. *)
Theorem c01_same_instant_primary_follows_its_secondary_parent :
  map (fun s => (s_sec (fst (st_ev s)), s_time (fst (st_ev s)), s_uid (fst (st_ev s))))
      (r_log (run_script [[[Sp 0 0 false]]] 5 [(3, 0, true, 2); (3, 0, true, 0)]))
  = [(true, 3, 0); (false, 3, 2); (false, 3, 3); (true, 3, 1)].
Proof. vm_compute. reflexivity. Qed.
Print Assumptions c01_same_instant_primary_follows_its_secondary_parent.

(** FIFO: of two handled events with the same time and class, the one handled later has the larger
    sequence number ... *)
Theorem c01_fifo_same_class :
  forall (E : Type) (etime : E -> N) (esec : E -> bool) (HS : Type) (H : HS -> E -> HS * list E),
  H_ok etime H -> forall en0, e_ok etime esec en0 -> forall fuel hs l1 s l2,
  r_log (run etime esec H fuel hs en0) = l1 ++ s :: l2 ->
  forall y, In y (handled l2) -> esec (fst y) = esec (fst (st_ev s)) ->
  qtime etime y = qtime etime (st_ev s) -> qseq (st_ev s) < qseq y.
Proof. intros E etime esec HS H HH en0 Hok fuel hs. exact (g_fifo etime esec H HH en0 Hok fuel hs). Qed.
Print Assumptions c01_fifo_same_class.

(** ... and sequence numbers follow the order of the Schedule calls (initial calls first, then the
    calls made by handlers, in run order), separately for each class. *)
Theorem c01_seq_is_schedule_order :
  forall (E : Type) (etime : E -> N) (esec : E -> bool) (HS : Type) (H : HS -> E -> HS * list E),
  H_ok etime H -> forall evs fuel hs,
  StronglySorted (Rseq esec)
    (start_xs etime esec evs ++ scheduled (r_log (run etime esec H fuel hs (start_en etime esec evs)))).
Proof. intros E etime esec HS H HH. exact (g_all_sched_sorted etime esec H HH). Qed.
Print Assumptions c01_seq_is_schedule_order.

(** Hence: two events of the same time and class are handled in the order they were scheduled. *)
Theorem c01_fifo_schedule_order :
  forall (E : Type) (etime : E -> N) (esec : E -> bool) (HS : Type) (H : HS -> E -> HS * list E),
  H_ok etime H -> forall evs fuel hs,
  let r := run etime esec H fuel hs (start_en etime esec evs) in
  r_out r = Done ->
  forall p a q b t, start_xs etime esec evs ++ scheduled (r_log r) = p ++ a :: q ++ b :: t ->
  esec (fst a) = esec (fst b) -> qtime etime a = qtime etime b ->
  exists p' q' t', handled (r_log r) = p' ++ a :: q' ++ b :: t'.
Proof. intros E etime esec HS H HH. exact (g_fifo_schedule_order etime esec H HH). Qed.
Print Assumptions c01_fifo_schedule_order.

(** Run returns normally only with both queues empty (and handlers only ever queue non-past events). *)
Theorem c01_run_returns_empty :
  forall (E : Type) (etime : E -> N) (esec : E -> bool) (HS : Type) (H : HS -> E -> HS * list E),
  H_ok etime H -> forall en0, e_ok etime esec en0 -> forall fuel hs,
  let r := run etime esec H fuel hs en0 in
  (r_out r = Done -> q_heap (e_p (r_en r)) = [] /\ q_heap (e_s (r_en r)) = []) /\
  (forall s y, In s (r_log r) -> In y (st_sched s) -> qtime etime (st_ev s) <= qtime etime y).
Proof.
  intros E etime esec HS H HH en0 Hok fuel hs r. split.
  - intro Hd. destruct (g_returns_empty etime esec H HH en0 Hok fuel hs Hd) as [_ Hq]. exact Hq.
  - exact (g_sched_future etime esec H HH en0 Hok fuel hs).
Qed.
Print Assumptions c01_run_returns_empty.

(** Schedule rejects a past time (log.Panic), leaves the engine unchanged; Run then stops with
    outcome Panicked at that handler. *)
Theorem c01_schedule_past_panics : forall (E : Type) (etime : E -> N) (esec : E -> bool) en e,
  etime e < e_now en -> schedule etime esec en e = None.
Proof. intros E etime esec en e. exact (schedule_past etime esec en e). Qed.
Print Assumptions c01_schedule_past_panics.

(** SetCurrentTime: moving the clock to a time not after any queued event keeps the invariant (all
    theorems above then apply); moving it after the event that is due first makes the next Run panic
    in dispatchNext ("cannot run event in the past") before any hook or handler runs, with that
    event removed from its queue and nothing else changed. *)
Theorem c01_set_current_time :
  forall (E : Type) (etime : E -> N) (esec : E -> bool) (HS : Type) (H : HS -> E -> HS * list E)
         (en : @engine E) (t : N) (fuel : nat) (hs : HS),
  e_ok etime esec en ->
  ((forall x, In x (pending en) -> t <= qtime etime x) -> e_ok etime esec (set_current_time en t)) /\
  (no_more_event en = false ->
   exists x en1, next_event etime en = Some (x, en1) /\
     (forall y, In y (pending en) -> qtime etime x <= qtime etime y) /\
     (qtime etime x < t ->
      run etime esec H (S fuel) hs (set_current_time en t) =
        mk_result Panicked [] hs (set_current_time en1 t))).
Proof.
  intros E etime esec HS H en t fuel hs Hok. split.
  - apply set_time_ok. exact Hok.
  - intro Hm. destruct (run_clock_ahead_panics etime esec H en t fuel hs Hok Hm) as (x & en1 & A & B & C).
    exists x, en1. split; [exact A|]. split; [exact B|]. intro Hlt. apply C. exact Hlt.
Qed.
Print Assumptions c01_set_current_time.

(** the driver of the correspondence check with SetCurrentTime(0) is the plain "Schedule*, Run" *)
Theorem c01_run_script_at_0 : forall p cap init, run_script_at p cap init 0 = run_script p cap init.
Proof. exact run_script_at_0. Qed.
Print Assumptions c01_run_script_at_0.

(** The handler scripts used by the correspondence check satisfy the hypothesis of the theorems
    whenever they contain no negative offset. *)
Theorem c01_scripts_are_programs : forall p, nonneg_prog p -> H_ok s_time (script_handler p).
Proof. exact script_H_ok. Qed.
Print Assumptions c01_scripts_are_programs.

(** ... and every such script run by the check terminates within the fuel the model gives it
    (so "Run terminates" is not a vacuous hypothesis for the whole script family); scripts with a
    negative offset end too, possibly by the Schedule panic. *)
Theorem c01_scripts_terminate : forall p cap init,
  r_out (run_script p cap init) <> OutOfFuel /\
  (nonneg_prog p -> r_out (run_script p cap init) = Done).
Proof. intros p cap init. split; [apply script_run_ends|apply script_run_done]. Qed.
Print Assumptions c01_scripts_terminate.

(* ------------------------------------------------------------------ non-vacuity *)

Definition ex_prog : program :=
  [ [ [Sp 0 1 true; Sp 0 1 false; Sp 2 0 false] ]; [ [Sp 0 0 true] ] ].
Definition ex_init : list ievent := [(0, 0, false, 3); (2, 1, true, 2); (2, 0, false, 1)].

Lemma ex_prog_nonneg : nonneg_prog ex_prog.
Proof.
  intros alts alt sp Ha Hb Hc. unfold ex_prog in Ha. cbn in Ha.
  repeat (destruct Ha as [<-|Ha]; [cbn in Hb; repeat (destruct Hb as [<-|Hb]; [cbn in Hc; repeat (destruct Hc as [<-|Hc]; [cbn; lia|]); destruct Hc|]); destruct Hb|]).
  destruct Ha.
Qed.

(** the hypotheses are satisfiable by a run with same-instant primary/secondary chains: the
    script terminates after 29 handled events, 26 of them scheduled from inside handlers *)
Example c01_nonvacuous :
  H_ok s_time (script_handler ex_prog) /\
  e_ok s_time s_sec (start_en s_time s_sec (init_events 0 ex_init)) /\
  let r := run_script ex_prog 30 ex_init in
  r_out r = Done /\ length (r_log r) = 29%nat /\ length (scheduled (r_log r)) = 26%nat.
Proof.
  split; [apply script_H_ok; exact ex_prog_nonneg|]. split.
  - destruct (start_spec s_time s_sec (init_events 0 ex_init)) as (_ & Hok & _). exact Hok.
  - vm_compute. repeat split; reflexivity.
Qed.

(* ------------------------------------------------------------------ link between the evaluators *)
From Akita Require Import C01.Exec C01.ProofsLink.

(** On every well-formed case (script without negative offsets, clock not set after a queued event —
    the inputs the property quantifies over) agreement of the model with the observed behaviour of
    timing.SerialEngine ([Exec.check_case]) implies the property predicate evaluated on the observed
    behaviour ([Exec.holds_on]: reference priority-queue walk keyed by the harness' own uids, hooks
    bracket every handler, Run returned with empty queues). *)
Theorem c01_model_agreement_implies_property : forall c, wf c -> check_case c = true -> holds_on c = true.
Proof. exact check_implies_holds. Qed.
Print Assumptions c01_model_agreement_implies_property.

(** the hypotheses of the link theorem are satisfiable (observations taken from the model itself) *)
Example c01_link_nonvacuous :
  let r := run_script_at ex_prog 30 ex_init 0 in
  let c := mk_case ex_prog 30 ex_init 0 true (out_code (r_out r)) (map (proj_step true) (r_log r))
             (e_now (r_en r)) (snapshot (e_p (r_en r))) (snapshot (e_s (r_en r))) in
  wf c /\ check_case c = true /\ holds_on c = true /\ length (o_steps c) = 29%nat.
Proof.
  cbv zeta. split; [|vm_compute; repeat split; reflexivity].
  split; [exact ex_prog_nonneg|]. intros e He. cbn [c_t0]. lia.
Qed.
