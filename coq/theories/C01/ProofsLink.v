(** C01 — link between the two evaluators of Exec.v: if the model agrees with the observed behaviour
    ([check_case]) on a well-formed case, then the property predicate evaluated on the observed
    behaviour ([holds_on], a reference priority-queue walk keyed by the harness' uids) holds. *)
From Akita Require Import Lib.Base Lib.Engine Lib.EngineProofs Lib.EngineRunProofs Lib.EngineTermination
  C01.Model C01.Proofs C01.Exec.
From Coq Require Import Permutation Sorted.
Local Open Scope N_scope.

Local Notation qt := (qtime s_time).
Local Notation qc := (qsec s_sec).
Local Notation eok := (e_ok s_time s_sec).
Local Notation bef := (before s_time s_sec).
Local Notation sqev := (@qev sev).

(* ------------------------------------------------------------------ boolean equalities *)
Lemma sev_eqb_eq a b : sev_eqb a b = true <-> a = b.
Proof.
  destruct a as [t1 h1 s1 b1 u1], b as [t2 h2 s2 b2 u2]. unfold sev_eqb. cbn [s_time s_hid s_sec s_bud s_uid].
  rewrite !andb_true_iff, !N.eqb_eq, Bool.eqb_true_iff. split.
  - intros [[[[-> ->] ->] ->] ->]. reflexivity.
  - intro H. inversion H. auto.
Qed.

Lemma ostep_eqb_eq a b : ostep_eqb a b = true <-> a = b.
Proof.
  destruct a as [e1 n1 l1 o1 k1], b as [e2 n2 l2 o2 k2]. unfold ostep_eqb. cbn [os_ev os_now os_sched os_ok os_hk].
  rewrite !andb_true_iff, !N.eqb_eq, Bool.eqb_true_iff, sev_eqb_eq, (list_eqb_eq sev_eqb sev_eqb_eq). split.
  - intros [[[[-> ->] ->] ->] ->]. reflexivity.
  - intro H. inversion H. auto.
Qed.

(* ------------------------------------------------------------------ sorted lists *)
Section Sorted.
  Context {A : Type}.
  Lemma ssorted_total (R : A -> A -> Prop) l a b :
    StronglySorted R l -> In a l -> In b l -> a = b \/ R a b \/ R b a.
  Proof.
    induction 1 as [|x l Hs IH Hf]; intros Ha Hb; [destruct Ha|].
    rewrite Forall_forall in Hf. destruct Ha as [<-|Ha], Hb as [<-|Hb]; auto.
  Qed.

  Lemma ssorted_and (R1 R2 : A -> A -> Prop) l :
    StronglySorted R1 l -> StronglySorted R2 l -> StronglySorted (fun a b => R1 a b /\ R2 a b) l.
  Proof.
    induction l as [|x l IH]; intros H1 H2; [constructor|].
    inversion H1; inversion H2; subst. constructor; [apply IH; assumption|].
    rewrite Forall_forall in *. intros y Hy. split; auto.
  Qed.

  Lemma ssorted_map_inv {B} (f : A -> B) (R : B -> B -> Prop) l :
    StronglySorted R (map f l) -> StronglySorted (fun a b => R (f a) (f b)) l.
  Proof.
    induction l as [|x l IH]; cbn [map]; intro H; [constructor|].
    inversion H; subst. constructor; [apply IH; assumption|].
    rewrite Forall_forall in *. intros y Hy. apply H3. apply in_map. exact Hy.
  Qed.
End Sorted.

(* ------------------------------------------------------------------ uids and sequence numbers agree *)
Definition uid (x : sqev) : N := s_uid (fst x).
Definition uidlt (a b : sev) : Prop := s_uid a < s_uid b.

(** [Ul n l]: among the queued entries [l] uids are below [n], identify the entry, and within a class
    are ordered like the sequence numbers *)
Definition Ul (n : N) (l : list sqev) : Prop :=
  (forall a, In a l -> uid a < n) /\
  (forall a b, In a l -> In b l -> uid a = uid b -> a = b) /\
  (forall a b, In a l -> In b l -> qc a = qc b -> uid a < uid b -> qseq a < qseq b).

Lemma Ul_incl n l l' : (forall x, In x l' -> In x l) -> Ul n l -> Ul n l'.
Proof. intros Hi (A & B & C). split; [|split]; intros; eauto. Qed.

Lemma U_schedule_all es : forall (en : sengine) n0 n1, eok en -> Ul n0 (pending en) ->
  (forall e, In e es -> e_now en <= s_time e) ->
  StronglySorted uidlt es -> (forall e, In e es -> n0 <= s_uid e < n1) -> n0 <= n1 ->
  Ul n1 (pending (fst (fst (schedule_all s_time s_sec en es)))).
Proof.
  intros en n0 n1 Hok (A & B & C) Ht Hs Hr Hn.
  pose proof (schedule_all_sorted s_time s_sec es en Hok Ht) as Hseq.
  destruct (schedule_all_spec s_time s_sec es en Hok Ht) as (en' & xs & Hsa & _ & P & _ & Hm & _ & Hrng & _).
  rewrite Hsa in *. cbn [fst snd] in *.
  apply (Ul_incl n1 (xs ++ pending en)).
  { intros x Hx. apply (Permutation_in _ P). exact Hx. }
  assert (Hsu : StronglySorted (fun a b : sqev => uid a < uid b) xs).
  { apply (ssorted_map_inv fst uidlt). rewrite Hm. exact Hs. }
  pose proof (ssorted_and _ _ _ Hsu Hseq) as Hboth.
  assert (Hnew : forall a, In a xs -> n0 <= uid a < n1).
  { intros a Ha. apply Hr. rewrite <- Hm. apply in_map. exact Ha. }
  split; [|split].
  - intros a Ha. apply in_app_or in Ha. destruct Ha as [Ha|Ha]; [apply Hnew; exact Ha|specialize (A a Ha); lia].
  - intros a b Ha Hb Hu. apply in_app_or in Ha. apply in_app_or in Hb.
    destruct Ha as [Ha|Ha], Hb as [Hb|Hb].
    + destruct (ssorted_total _ _ a b Hboth Ha Hb) as [Heq|[[H1 _]|[H1 _]]]; [exact Heq|lia|lia].
    + specialize (Hnew a Ha). specialize (A b Hb). lia.
    + specialize (Hnew b Hb). specialize (A a Ha). lia.
    + apply B; assumption.
  - intros a b Ha Hb Hc Hu. apply in_app_or in Ha. apply in_app_or in Hb.
    destruct Ha as [Ha|Ha], Hb as [Hb|Hb].
    + destruct (ssorted_total _ _ a b Hboth Ha Hb) as [Heq|[[_ H2]|[H1 _]]]; [subst; lia|apply H2; exact Hc|lia].
    + specialize (Hnew a Ha). specialize (A b Hb). lia.
    + pose proof (eok_lt s_time s_sec en Hok a Ha) as Hl. destruct (Hrng b Hb) as [Hb1 _]. rewrite Hc in Hl. lia.
    + apply C; assumption.
Qed.

Lemma spawn_all_uids now bud sps : forall hs,
  h_next hs <= h_next (fst (spawn_all now bud sps hs)) /\
  StronglySorted uidlt (snd (spawn_all now bud sps hs)) /\
  (forall e, In e (snd (spawn_all now bud sps hs)) -> h_next hs <= s_uid e < h_next (fst (spawn_all now bud sps hs))).
Proof.
  induction sps as [|sp r IH]; intro hs; cbn [spawn_all].
  - cbn. split; [lia|]. split; [constructor|intros e []].
  - destruct (h_cap hs =? 0).
    + cbn. split; [lia|]. split; [constructor|intros e []].
    + specialize (IH (mk_hst (h_next hs + 1) (h_cap hs - 1))).
      destruct (spawn_all now bud r _) as [hs' es]. cbn [fst snd h_next] in *.
      destruct IH as (I1 & I2 & I3). split; [lia|]. split.
      * constructor; [exact I2|]. rewrite Forall_forall. intros e He. specialize (I3 e He). unfold uidlt. cbn [s_uid]. lia.
      * intros e [<-|He]; [cbn [s_uid]; lia|specialize (I3 e He); lia].
Qed.

Lemma script_handler_uids p hs e :
  h_next hs <= h_next (fst (script_handler p hs e)) /\
  StronglySorted uidlt (snd (script_handler p hs e)) /\
  (forall y, In y (snd (script_handler p hs e)) -> h_next hs <= s_uid y < h_next (fst (script_handler p hs e))).
Proof.
  unfold script_handler.
  assert (T : h_next hs <= h_next (fst (hs, @nil sev)) /\ StronglySorted uidlt (snd (hs, @nil sev)) /\
              (forall y, In y (snd (hs, @nil sev)) -> h_next hs <= s_uid y < h_next (fst (hs, @nil sev)))).
  { cbn. split; [lia|]. split; [constructor|intros y []]. }
  destruct (s_bud e =? 0); [exact T|].
  destruct (nth_error p _) as [alts|]; [|exact T].
  destruct (nth_error alts _) as [alt|]; [|exact T]. apply spawn_all_uids.
Qed.

Lemma init_events_uids l : forall u,
  StronglySorted uidlt (init_events u l) /\
  (forall e, In e (init_events u l) -> u <= s_uid e < u + N.of_nat (length l)).
Proof.
  induction l as [|[[[t h] s] b] r IH]; intro u; cbn [init_events length].
  - split; [constructor|intros e []].
  - destruct (IH (u + 1)) as [I1 I2]. split.
    + constructor; [exact I1|]. rewrite Forall_forall. intros e He. specialize (I2 e He). unfold uidlt. cbn [s_uid]. lia.
    + intros e [<-|He]; [cbn [s_uid]; lia|specialize (I2 e He); lia].
Qed.

(* ------------------------------------------------------------------ the reference walk follows the model *)
Lemma take_out_perm x pend : In x pend ->
  exists rest, take_out x pend = Some rest /\ Permutation pend (x :: rest).
Proof.
  induction pend as [|y r IH]; intro Hin; [destruct Hin|]. cbn [take_out].
  destruct (sev_eqb x y) eqn:E.
  - apply sev_eqb_eq in E. subst. exists r. split; reflexivity.
  - destruct Hin as [->|Hin]; [rewrite (proj2 (sev_eqb_eq x x) eq_refl) in E; discriminate|].
    destruct (IH Hin) as (rest & Ht & P). rewrite Ht. exists (y :: rest). split; [reflexivity|].
    etransitivity; [apply perm_skip; exact P|apply perm_swap].
Qed.

Lemma bef_ord n L x y : Ul n L -> In x L -> In y L -> bef x y -> ord (fst x) (fst y) = true.
Proof.
  intros (A & B & C) Hx Hy Hb. unfold ord. unfold before, qtime, qsec in Hb.
  destruct Hb as [Hlt|[Heq [[Hp Hs]|[Hc Hsq]]]].
  - apply orb_true_iff. left. apply N.ltb_lt. exact Hlt.
  - apply orb_true_iff. right. rewrite (proj2 (N.eqb_eq _ _) Heq), Hp, Hs. reflexivity.
  - apply orb_true_iff. right. rewrite (proj2 (N.eqb_eq _ _) Heq). cbn [andb]. apply orb_true_iff. right.
    rewrite Hc, Bool.eqb_reflx. cbn [andb]. apply N.ltb_lt.
    destruct (N.lt_trichotomy (uid x) (uid y)) as [Hu|[Hu|Hu]]; [exact Hu| |].
    + apply B in Hu; auto. subst. lia.
    + assert (qseq y < qseq x) by (apply C; auto). lia.
Qed.

Section ExecInv.
  Context {E : Type} (etime : E -> N) (esec : E -> bool) {HS : Type} (H : HS -> E -> HS * list E).

  Lemma dispatch_unfold hs en x en1 :
    next_event etime en = Some (x, en1) -> qtime etime x <? e_now en1 = false ->
    dispatch_next etime esec H hs en =
      DStep (mk_step x (qtime etime x)
               (snd (fst (schedule_all etime esec (mke (qtime etime x) (e_p en1) (e_s en1)) (snd (H hs (fst x))))))
               (snd (schedule_all etime esec (mke (qtime etime x) (e_p en1) (e_s en1)) (snd (H hs (fst x))))))
            (fst (H hs (fst x)))
            (fst (fst (schedule_all etime esec (mke (qtime etime x) (e_p en1) (e_s en1)) (snd (H hs (fst x)))))).
  Proof.
    intros Hne Hlt. unfold dispatch_next. rewrite Hne, Hlt. destruct (H hs (fst x)) as [hs' out]. cbn [fst snd].
    destruct (schedule_all etime esec _ out) as [[en3 xs] ok]. reflexivity.
  Qed.

  Lemma exec_nil_inv G hs en hs' en' : exec etime esec H G hs en [] hs' en' -> hs' = hs /\ en' = en.
  Proof. intro Hex. inversion Hex as [|l ? ? ? ? ? _ _ Hl]; [auto|destruct l; discriminate]. Qed.

  Lemma exec_cons_inv G hs en s l hs' en' : exec etime esec H G hs en (s :: l) hs' en' ->
    exists hm em, step_rel etime esec H G hs en s hm em /\ exec etime esec H G hm em l hs' en'.
  Proof.
    intro Hex. change (s :: l) with ([s] ++ l) in Hex.
    apply exec_split in Hex. destruct Hex as (hm & em & H1 & H2).
    change [s] with ([] ++ [s]) in H1. apply exec_snoc_inv in H1. destruct H1 as (h0 & e0 & H0 & Hst).
    apply exec_nil_inv in H0. destruct H0 as [-> ->]. eauto.
  Qed.
End ExecInv.

Lemma walk_exec p hooks : H_ok s_time (script_handler p) ->
  forall l G hs en hs' en' pend,
  eok en -> Ul (h_next hs) (pending en) -> Permutation pend (map fst (pending en)) ->
  exec s_time s_sec (script_handler p) G hs en l hs' en' ->
  exists pend', walk hooks pend (e_now en) (map (proj_step hooks) l) = Some (pend', e_now en', true) /\
                Permutation pend' (map fst (pending en')).
Proof.
  intros HH. induction l as [|s l IH]; intros G hs en hs' en' pend Hok HU HP Hex.
  - apply exec_nil_inv in Hex. destruct Hex as [-> ->]. exists pend. split; [reflexivity|exact HP].
  - apply exec_cons_inv in Hex. destruct Hex as (hm & em & (Hg & Hmore & Hd & Hsok) & Hex).
    destruct (next_event_spec s_time s_sec en Hok Hmore) as (x & en1 & Hne & Hok1 & P1 & N1 & C1 & B1 & _).
    assert (Hxin : In x (pending en)).
    { eapply Permutation_in; [apply Permutation_sym; exact P1|left; reflexivity]. }
    assert (Hsub : forall y, In y (pending en1) -> In y (pending en)).
    { intros y Hy. eapply Permutation_in; [apply Permutation_sym; exact P1|right; exact Hy]. }
    assert (Hnow : e_now en <= qt x).
    { destruct Hok as (_ & _ & _ & _ & Hn). apply Hn. exact Hxin. }
    assert (Hlt : qt x <? e_now en1 = false) by (apply N.ltb_ge; lia).
    rewrite (dispatch_unfold s_time s_sec (script_handler p) hs en x en1 Hne Hlt) in Hd.
    set (en2 := mke (qt x) (e_p en1) (e_s en1)) in *.
    assert (Hok2 : eok en2).
    { destruct Hok1 as (A & B & C & D & _). split; [exact A|]. split; [exact B|]. split; [exact C|]. split; [exact D|].
      intros y Hy. change (pending en2) with (pending en1) in Hy. specialize (B1 y Hy). unfold before in B1.
      cbn [e_now en2]. lia. }
    destruct (script_handler_uids p hs (fst x)) as (Hn1 & Hso & Hrg).
    set (hr := script_handler p hs (fst x)) in *.
    assert (Hout : forall e, In e (snd hr) -> e_now en2 <= s_time e).
    { intros e He. cbn [e_now en2]. apply (HH hs (fst x) e). exact He. }
    pose proof (U_schedule_all (snd hr) en2 (h_next hs) (h_next (fst hr)) Hok2) as HU3.
    destruct (schedule_all_spec s_time s_sec (snd hr) en2 Hok2 Hout)
      as (en3 & xs & Hsa & Hok3 & P3 & N3 & Hm & _ & Hrng & _).
    rewrite Hsa in Hd, HU3. cbn [fst snd] in Hd, HU3.
    inversion Hd; subst s hm em. clear Hd.
    assert (HU2 : Ul (h_next hs) (pending en2)).
    { apply (Ul_incl _ (pending en)); [exact Hsub|exact HU]. }
    specialize (HU3 HU2 Hout Hso Hrg Hn1).
    (* the observed step *)
    cbn [map proj_step st_ev st_now st_sched st_ok walk os_ev os_now os_sched os_ok os_hk].
    assert (Hfx : In (fst x) pend).
    { eapply Permutation_in; [apply Permutation_sym; exact HP|]. apply in_map. exact Hxin. }
    destruct (take_out_perm (fst x) pend Hfx) as (rest & Hto & Pr). rewrite Hto.
    assert (Prest : Permutation rest (map fst (pending en1))).
    { apply (Permutation_cons_inv (a := fst x)). etransitivity; [apply Permutation_sym; exact Pr|].
      etransitivity; [exact HP|]. apply (Permutation_map fst) in P1. exact P1. }
    assert (C1' : forallb (ord (fst x)) rest = true).
    { apply forallb_forall. intros y Hy. apply (Permutation_in _ Prest) in Hy. apply in_map_iff in Hy.
      destruct Hy as (yq & <- & Hyq). apply (bef_ord (h_next hs) (pending en)); auto. }
    assert (C2' : (e_now en <=? s_time (fst x)) = true) by (apply N.leb_le; exact Hnow).
    assert (C3' : (qt x =? s_time (fst x)) = true) by (apply N.eqb_eq; reflexivity).
    assert (C4' : forallb (fun y => s_time (fst x) <=? s_time y) (map fst xs) = true).
    { apply forallb_forall. intros y Hy. rewrite Hm in Hy. apply N.leb_le. apply (Hout y Hy). }
    assert (C5' : (hook_code hooks true =? hook_code hooks true) = true) by apply N.eqb_refl.
    rewrite C1', C2', C3', C4', C5'. cbn [andb].
    change (s_time (fst x)) with (e_now en2). rewrite <- N3.
    apply (IH G (fst hr) en3 hs' en' (rest ++ map fst xs) Hok3 HU3); [|exact Hex].
    etransitivity; [apply Permutation_app_comm|].
    etransitivity; [apply Permutation_app_head; exact Prest|].
    rewrite <- map_app. apply Permutation_map. apply Permutation_sym. exact P3.
Qed.

(* ------------------------------------------------------------------ the link theorem *)

(** well-formed case: the script never passes a past time to Schedule and the clock is not set after
    a queued event (the inputs the property quantifies over) *)
Definition wf (c : case) : Prop :=
  nonneg_prog (c_prog c) /\ (forall e, In e (init_events 0 (c_init c)) -> c_t0 c <= s_time e).

Lemma check_implies_holds c : wf c -> check_case c = true -> holds_on c = true.
Proof.
  intros [Hp Ht] Hc. unfold check_case in Hc.
  set (evs := init_events 0 (c_init c)) in *.
  destruct (start_spec s_time s_sec evs) as (Hsa & Hok0 & P0 & Hm0 & Hn0 & _ & _).
  set (en0 := set_current_time (start_en s_time s_sec evs) (c_t0 c)).
  set (hs0 := mk_hst (N.of_nat (length (c_init c))) (c_cap c)).
  assert (Hr : run_script_at (c_prog c) (c_cap c) (c_init c) (c_t0 c) =
               run s_time s_sec (script_handler (c_prog c)) (script_fuel (c_cap c) (c_init c)) hs0 en0).
  { unfold run_script_at, script_start. fold evs. rewrite Hsa. reflexivity. }
  rewrite Hr in Hc. clear Hr.
  set (r := run s_time s_sec (script_handler (c_prog c)) (script_fuel (c_cap c) (c_init c)) hs0 en0) in *.
  apply andb_true_iff in Hc. destruct Hc as [Hc Hps]. apply andb_true_iff in Hc. destruct Hc as [Hc Hpp].
  apply andb_true_iff in Hc. destruct Hc as [Hc Hk]. apply andb_true_iff in Hc. destruct Hc as [Ho Hs].
  apply N.eqb_eq in Ho, Hk. apply (list_eqb_eq ostep_eqb ostep_eqb_eq) in Hs.
  apply (list_eqb_eq sev_eqb sev_eqb_eq) in Hpp, Hps.
  pose proof (script_H_ok _ Hp) as HH.
  assert (Hok : eok en0).
  { apply set_time_ok; [exact Hok0|]. intros x Hx. apply Ht. fold evs. rewrite <- Hm0. apply in_map.
    apply (Permutation_in _ P0). exact Hx. }
  assert (Hdone : r_out r = Done).
  { assert (H1 : r_out r <> OutOfFuel).
    { apply (run_enough_fuel s_time s_sec (script_handler (c_prog c)) (fun hs => N.to_nat (h_cap hs)) (script_allow (c_prog c))).
      pose proof (schedule_all_len s_time s_sec evs new_engine) as Hl. rewrite Hsa in Hl.
      unfold evs in Hl. rewrite init_events_length in Hl.
      change (pending en0) with (pending (start_en s_time s_sec evs)).
      cbn [pending new_engine e_p e_s q_heap q_empty app length] in Hl. cbn [hs0 h_cap]. unfold script_fuel, evs. lia. }
    assert (H2 : r_out r <> Panicked) by (apply run_no_panic; assumption).
    destruct (r_out r); congruence. }
  destruct (run_exec s_time s_sec (script_handler (c_prog c)) (script_fuel (c_cap c) (c_init c)) hs0 en0) as [Hex Hnm].
  fold r in Hex, Hnm. specialize (Hnm Hdone).
  assert (Hex' : exec s_time s_sec (script_handler (c_prog c)) Gtrue hs0 en0 (r_log r) (r_hs r) (r_en r)).
  { apply Hex. rewrite Hdone. discriminate. }
  apply no_more_pending in Hnm.
  assert (HU : Ul (h_next hs0) (pending en0)).
  { destruct (init_events_uids (c_init c) 0) as [Hso Hrg]. fold evs in Hso, Hrg.
    pose proof (U_schedule_all evs new_engine 0 (N.of_nat (length (c_init c))) (e_ok_new s_time s_sec)) as HU.
    rewrite Hsa in HU. cbn [fst] in HU. apply HU.
    - split; [intros a []|]. split; intros a b [].
    - intros e _. cbn. lia.
    - exact Hso.
    - intros e He. specialize (Hrg e He). lia.
    - lia. }
  assert (HP : Permutation evs (map fst (pending en0))).
  { rewrite <- Hm0. apply Permutation_map. apply Permutation_sym. exact P0. }
  destruct (walk_exec (c_prog c) (c_hooks c) HH (r_log r) Gtrue hs0 en0 (r_hs r) (r_en r) evs Hok HU HP Hex')
    as (pend' & Hw & Pp).
  rewrite Hnm in Pp. cbn [map] in Pp. apply Permutation_sym, Permutation_nil in Pp. subst pend'.
  unfold holds_on. fold evs. rewrite <- Hs. change (c_t0 c) with (e_now en0) at 1. rewrite Hw.
  rewrite <- Hk, N.eqb_refl. cbn [andb]. rewrite <- Ho, Hdone. cbn [out_code N.eqb].
  unfold queues_are. rewrite <- Hpp, <- Hps. unfold pending in Hnm. apply app_eq_nil in Hnm.
  destruct Hnm as [Hq1 Hq2]. unfold snapshot. rewrite Hq1, Hq2. reflexivity.
Qed.
