(** C01 — case evaluators for the correspondence check. *)
From Akita Require Export Lib.Base Lib.Engine C01.Model.
Local Open Scope N_scope.

(** one observed loop iteration of the real engine: the handled event, CurrentTime() seen by the
    handler, the events whose Schedule call returned (in call order), whether the handler returned *)
Record ostep := St { os_ev : sev; os_now : N; os_sched : list sev; os_ok : bool;
                     os_hk : N }.   (* calls seen for this event, as digits: 1 BeforeEvent hook, 2 handler, 3 AfterEvent hook *)

Record case := mk_case {
  c_prog : program; c_cap : N; c_init : list ievent;
  c_t0 : N;                 (* SetCurrentTime(t0) after the initial Schedule calls (0: none) *)
  c_hooks : bool;           (* a hook is attached (the hasHooks path of dispatchNext) *)
  o_out : N;                (* 0 = Run returned, 2 = panicked *)
  o_steps : list ostep;
  o_clock : N;              (* CurrentTime() afterwards *)
  o_pp : list sev;          (* SaveCheckpoint afterwards: primary queue in pop order *)
  o_ps : list sev }.        (* ... secondary queue *)

Definition sev_eqb (a b : sev) : bool :=
  (s_time a =? s_time b) && (s_hid a =? s_hid b) && Bool.eqb (s_sec a) (s_sec b) &&
  (s_bud a =? s_bud b) && (s_uid a =? s_uid b).

Definition ostep_eqb (a b : ostep) : bool :=
  sev_eqb (os_ev a) (os_ev b) && (os_now a =? os_now b) &&
  list_eqb sev_eqb (os_sched a) (os_sched b) && Bool.eqb (os_ok a) (os_ok b) && (os_hk a =? os_hk b).

(** dispatchNext: with hooks BeforeEvent, handler, AfterEvent (not reached when the handler panics) *)
Definition hook_code (hooks ok : bool) : N := if hooks then (if ok then 123 else 12) else 2.

Definition proj_step (hooks : bool) (s : @step sev) : ostep :=
  St (fst (st_ev s)) (st_now s) (map fst (st_sched s)) (st_ok s) (hook_code hooks (st_ok s)).

Definition out_code (o : outcome) : N :=
  match o with Done => 0 | OutOfFuel => 1 | Panicked => 2 end.

(** model output = implementation output *)
Definition check_case (c : case) : bool :=
  let r := run_script_at (c_prog c) (c_cap c) (c_init c) (c_t0 c) in
  (out_code (r_out r) =? o_out c) &&
  list_eqb ostep_eqb (map (proj_step (c_hooks c)) (r_log r)) (o_steps c) &&
  (e_now (r_en r) =? o_clock c) &&
  list_eqb sev_eqb (snapshot (e_p (r_en r))) (o_pp c) &&
  list_eqb sev_eqb (snapshot (e_s (r_en r))) (o_ps c).

(* ---------------------------------------------------------------- the property, on the observed behaviour *)

(** [ord x y]: when x and y are both pending, x has to be handled first
    (earlier time; same time: primary before secondary; same time and class: scheduled first —
    the harness hands out uids in Schedule-call order). *)
Definition ord (x y : sev) : bool :=
  (s_time x <? s_time y) ||
  ((s_time x =? s_time y) &&
   ((negb (s_sec x) && s_sec y) || (Bool.eqb (s_sec x) (s_sec y) && (s_uid x <? s_uid y)))).

Fixpoint take_out (x : sev) (l : list sev) : option (list sev) :=
  match l with
  | [] => None
  | y :: r => if sev_eqb x y then Some r
              else match take_out x r with Some r' => Some (y :: r') | None => None end
  end.

(** reference walk: [pend] = scheduled and not yet handled (in Schedule order) *)
Fixpoint walk (hooks : bool) (pend : list sev) (now : N) (steps : list ostep) : option (list sev * N * bool) :=
  match steps with
  | [] => Some (pend, now, true)
  | s :: r =>
      let x := os_ev s in
      match take_out x pend with
      | None => None                                    (* handled but not pending: twice / never scheduled *)
      | Some rest =>
          if forallb (ord x) rest                       (* x is due before everything else pending *)
             && (now <=? s_time x)                      (* time never decreases *)
             && (os_now s =? s_time x)                  (* the clock shows the event's time *)
             && forallb (fun y => s_time x <=? s_time y) (os_sched s)   (* only non-past Schedules return *)
             && (os_hk s =? hook_code hooks (os_ok s))                  (* hooks bracket the handler *)
          then
            if os_ok s then walk hooks (rest ++ os_sched s) (s_time x) r
            else match r with [] => Some (rest ++ os_sched s, s_time x, false) | _ => None end
          else None
      end
  end.

(** a panic is only acceptable when the script can pass a past time to Schedule *)
Definition has_negative_dt (p : program) : bool :=
  existsb (existsb (existsb (fun sp => (sp_dt sp <? 0)%Z))) p.

(** the pending event that is due first, and the others *)
Fixpoint find_min (cands all : list sev) : option (sev * list sev) :=
  match cands with
  | [] => None
  | x :: r => match take_out x all with
              | Some rest => if forallb (ord x) rest then Some (x, rest) else find_min r all
              | None => find_min r all
              end
  end.

Definition queues_are (c : case) (pend : list sev) : bool :=
  (* what is still queued = what the reference says is pending, in (time, schedule) order *)
  list_eqb sev_eqb (o_pp c) (fold_right (sins ord) [] (filter (fun y => negb (s_sec y)) pend)) &&
  list_eqb sev_eqb (o_ps c) (fold_right (sins ord) [] (filter s_sec pend)).

Definition holds_on (c : case) : bool :=
  match walk (c_hooks c) (init_events 0 (c_init c)) (c_t0 c) (o_steps c) with
  | None => false
  | Some (pend, now, ok) =>
      (o_clock c =? now) &&
      (if ok then
         if o_out c =? 0 then
           queues_are c pend && match pend with [] => true | _ => false end   (* Run returns only when empty *)
         else
           (* a panic outside any handler: only "cannot run event in the past", i.e. the clock was
              set after the event due first, which is then dropped *)
           match find_min pend pend with
           | Some (m, rest) => (o_out c =? 2) && (s_time m <? now) && queues_are c rest
           | None => false
           end
       else (o_out c =? 2) && has_negative_dt (c_prog c) && queues_are c pend)
  end.
