(** C01 — the serial engine model instantiated with a concrete, terminating handler script language.
    The engine itself (heap, queues, Schedule, nextEvent, dispatchNext, Run, RunUntil) is Lib/Engine.v.
    The script language is interpreted identically by the Go harness (harness/internal/engsim):
      an event carries (time, handler id, secondary?, budget, uid);
      handler h on an event with budget b > 0 picks alternative [b mod #alts] of its table and, for
      each entry (dt, target, secondary?) in order and while the global spawn allowance is not used up,
      schedules an event at CurrentTime()+dt (clamped at 0) for handler [target] with budget b-1 and
      the next fresh uid.  Budgets strictly decrease and the allowance is finite, so every script
      terminates; a negative dt makes Schedule panic (explicit outcome). *)
From Akita Require Export Lib.Base Lib.Engine.
Local Open Scope N_scope.

Record sev := V { s_time : N; s_hid : N; s_sec : bool; s_bud : N; s_uid : N }.
Record spawn := Sp { sp_dt : Z; sp_tgt : N; sp_sec : bool }.
Definition program := list (list (list spawn)).
Record hst := mk_hst { h_next : N; h_cap : N }.

Fixpoint spawn_all (now bud : N) (sps : list spawn) (hs : hst) : hst * list sev :=
  match sps with
  | [] => (hs, [])
  | sp :: r =>
      if h_cap hs =? 0 then (hs, []) else
      let e := V (Z.to_N (Z.of_N now + sp_dt sp)) (sp_tgt sp) (sp_sec sp) (bud - 1) (h_next hs) in
      let '(hs', es) := spawn_all now bud r (mk_hst (h_next hs + 1) (h_cap hs - 1)) in
      (hs', e :: es)
  end.

Definition script_handler (p : program) (hs : hst) (e : sev) : hst * list sev :=
  if s_bud e =? 0 then (hs, []) else
  match nth_error p (N.to_nat (s_hid e)) with
  | None => (hs, [])
  | Some alts =>
      match nth_error alts (N.to_nat (s_bud e mod N.of_nat (length alts))) with
      | None => (hs, [])
      | Some alt => spawn_all (s_time e) (s_bud e) alt hs
      end
  end.

(** initial Schedule calls on a fresh engine: (time, handler, secondary?, budget), uids 0,1,... *)
Definition ievent := (N * N * bool * N)%type.
Fixpoint init_events (uid : N) (l : list ievent) : list sev :=
  match l with
  | [] => []
  | (t, h, s, b) :: r => V t h s b uid :: init_events (uid + 1) r
  end.

Definition sengine := @engine sev.
Definition sresult := @result sev hst.

Definition script_start (cap : N) (init : list ievent) : hst * sengine * list (@qev sev) * bool :=
  let '(en, xs, ok) := schedule_all s_time s_sec new_engine (init_events 0 init) in
  (mk_hst (N.of_nat (length init)) cap, en, xs, ok).

Definition script_fuel (cap : N) (init : list ievent) : nat := S (length init + N.to_nat cap).

(** Schedule all initial events, then Run. *)
Definition run_script (p : program) (cap : N) (init : list ievent) : sresult :=
  let '(hs, en, _, _) := script_start cap init in
  run s_time s_sec (script_handler p) (script_fuel cap init) hs en.

(** the general driver of the correspondence check: initial Schedule calls, SetCurrentTime(t0), Run.
    [t0 = 0] is the plain case ([run_script_at_0]); a [t0] after some queued event makes
    dispatchNext panic ("cannot run event in the past"). *)
Definition run_script_at (p : program) (cap : N) (init : list ievent) (t0 : N) : sresult :=
  let '(hs, en, _, _) := script_start cap init in
  run s_time s_sec (script_handler p) (script_fuel cap init) hs (set_current_time en t0).

(** the queue contents in pop order, as unsafeEventQueue.snapshot (sort by less) reports them *)
Definition snapshot (q : @queue sev) : list sev :=
  map fst (hdrain (qless s_time) (length (q_heap q)) (q_heap q)).
