(** C01 — lemmas behind the property theorems: the generic engine facts of Lib/EngineProofs.v and
    Lib/EngineRunProofs.v put in the shape "initial Schedule calls on a fresh engine, then Run". *)
From Akita Require Import Lib.Base Lib.Engine Lib.EngineProofs Lib.EngineRunProofs C01.Model.
From Coq Require Import Permutation Sorted.
Local Open Scope N_scope.

Section Start.
  Context {E : Type} (etime : E -> N) (esec : E -> bool).
  Local Notation qt := (qtime etime).
  Local Notation qc := (qsec esec).
  Local Notation eok := (e_ok etime esec).

  (** the engine after the initial Schedule calls [evs] on a fresh engine, and the queued entries *)
  Definition start_en (evs : list E) : @engine E := fst (fst (schedule_all etime esec new_engine evs)).
  Definition start_xs (evs : list E) : list (@qev E) := snd (fst (schedule_all etime esec new_engine evs)).

  Lemma start_spec evs :
    schedule_all etime esec new_engine evs = (start_en evs, start_xs evs, true) /\
    eok (start_en evs) /\ Permutation (pending (start_en evs)) (start_xs evs) /\
    map fst (start_xs evs) = evs /\ e_now (start_en evs) = 0 /\
    StronglySorted (Rseq esec) (start_xs evs) /\
    (forall x, In x (start_xs evs) -> qseq x < cnext (start_en evs) (qc x)).
  Proof.
    assert (Ht : forall e, In e evs -> e_now (@new_engine E) <= etime e) by (intros; cbn; lia).
    pose proof (schedule_all_sorted etime esec evs new_engine (e_ok_new etime esec) Ht) as Hs.
    destruct (schedule_all_spec etime esec evs new_engine (e_ok_new etime esec) Ht)
      as (en & xs & Hsa & Hok & P & Hn & Hm & _ & Hrng & _).
    unfold start_en, start_xs. rewrite Hsa in *. cbn [fst snd] in *.
    change (pending new_engine) with (@nil (@qev E)) in P. rewrite app_nil_r in P.
    split; [reflexivity|]. split; [exact Hok|]. split; [exact P|]. split; [exact Hm|]. split; [exact Hn|].
    split; [exact Hs|]. intros x Hx. destruct (Hrng x Hx) as [_ Hr]. exact Hr.
  Qed.

End Start.

Section Generic.
  Context {E : Type} (etime : E -> N) (esec : E -> bool) {HS : Type} (H : HS -> E -> HS * list E).
  Local Notation qt := (qtime etime).
  Local Notation qc := (qsec esec).
  Local Notation eok := (e_ok etime esec).
  Local Notation bef := (before etime esec).
  Local Notation idt := (ident esec).

  Local Notation start_en := (start_en etime esec).
  Local Notation start_xs := (start_xs etime esec).
  Local Notation start_spec := (start_spec etime esec).

  Variable HH : H_ok etime H.

  Section FromState.
    (** any engine state satisfying the invariant (in particular [start_en evs]) *)
    Variables (en0 : @engine E) (Hok : eok en0) (fuel : nat) (hs : HS).
    Let r := run etime esec H fuel hs en0.

    Lemma run_exec_J : exec etime esec H (Gtrue) hs en0 (r_log r) (r_hs r) (r_en r) /\ J etime esec en0 (r_log r) (r_en r).
    Proof.
      destruct (run_exec etime esec H fuel hs en0) as [H1 _]. fold r in H1.
      assert (Hex : exec etime esec H Gtrue hs en0 (r_log r) (r_hs r) (r_en r)).
      { apply H1. apply run_no_panic; assumption. }
      split; [exact Hex|]. eapply exec_J; eauto.
    Qed.

    Lemma g_no_panic : r_out r <> Panicked.
    Proof. apply run_no_panic; assumption. Qed.

    Lemma g_exactly_once : r_out r = Done ->
      Permutation (handled (r_log r)) (pending en0 ++ scheduled (r_log r)) /\
      NoDup (map idt (pending en0 ++ scheduled (r_log r))).
    Proof.
      intro Hd. destruct (run_done_J etime esec H fuel hs en0 HH Hok Hd) as [HJ Hnil]. fold r in HJ, Hnil.
      pose proof (J_perm _ _ _ _ _ HJ) as P. pose proof (J_nd _ _ _ _ _ HJ) as Nd.
      rewrite Hnil in *. cbn [app] in *. split; [exact P|].
      eapply Permutation_NoDup; [apply Permutation_map; exact P|exact Nd].
    Qed.

    Lemma g_time_monotone :
      StronglySorted N.le (map qt (handled (r_log r))) /\
      (forall x, In x (handled (r_log r)) -> e_now en0 <= qt x) /\
      Forall (fun s => st_now s = qt (st_ev s)) (r_log r) /\
      e_now (r_en r) = last (map qt (handled (r_log r))) (e_now en0).
    Proof.
      destruct run_exec_J as [_ HJ].
      split; [exact (J_hsorted _ _ _ _ _ HJ)|]. split; [exact (J_lo _ _ _ _ _ HJ)|].
      split; [exact (J_snow _ _ _ _ _ HJ)|exact (J_clock _ _ _ _ _ HJ)].
    Qed.

    Lemma g_due_first l1 s l2 : r_log r = l1 ++ s :: l2 ->
      forall y, In y (pending en0 ++ scheduled l1) -> ~ In y (handled l1) -> y <> st_ev s -> bef (st_ev s) y.
    Proof.
      intros Hl. destruct run_exec_J as [Hex _]. rewrite Hl in Hex.
      eapply exec_order; eauto.
    Qed.

    Lemma g_primary_before_secondary l1 s l2 : r_log r = l1 ++ s :: l2 -> qc (st_ev s) = true ->
      forall y, In y (pending en0 ++ scheduled l1) -> ~ In y (handled l1) -> qc y = false ->
      qt (st_ev s) < qt y.
    Proof.
      intros Hl Hs y Hy Hn Hc.
      assert (Hne : y <> st_ev s) by (intro; subst; congruence).
      pose proof (g_due_first l1 s l2 Hl y Hy Hn Hne) as B. unfold before in B.
      destruct B as [B|[_ [[B _]|[B _]]]]; [exact B|congruence|congruence].
    Qed.

    Lemma g_fifo l1 s l2 : r_log r = l1 ++ s :: l2 ->
      forall y, In y (handled l2) -> qc y = qc (st_ev s) -> qt y = qt (st_ev s) -> qseq (st_ev s) < qseq y.
    Proof.
      intros Hl. destruct run_exec_J as [Hex _]. rewrite Hl in Hex.
      eapply exec_fifo; eauto.
    Qed.

    Lemma g_returns_empty : r_out r = Done -> pending (r_en r) = [] /\ q_heap (e_p (r_en r)) = [] /\ q_heap (e_s (r_en r)) = [].
    Proof.
      intro Hd. destruct (run_done_J etime esec H fuel hs en0 HH Hok Hd) as [_ Hnil]. fold r in Hnil.
      split; [exact Hnil|]. unfold pending in Hnil. apply app_eq_nil in Hnil. exact Hnil.
    Qed.

    Lemma g_sched_sorted : StronglySorted (Rseq esec) (scheduled (r_log r)) /\
      (forall y, In y (scheduled (r_log r)) -> cnext en0 (qc y) <= qseq y).
    Proof.
      destruct run_exec_J as [_ HJ]. split; [exact (J_ssorted _ _ _ _ _ HJ)|exact (J_fresh _ _ _ _ _ HJ)].
    Qed.

    Lemma g_sched_future : forall s y, In s (r_log r) -> In y (st_sched s) -> qt (st_ev s) <= qt y.
    Proof. destruct run_exec_J as [_ HJ]. exact (J_sfut _ _ _ _ _ HJ). Qed.
  End FromState.

  (** Schedule order = sequence order, for the whole history (initial calls, then handler calls) *)
  Lemma g_all_sched_sorted evs fuel hs :
    StronglySorted (Rseq esec) (start_xs evs ++ scheduled (r_log (run etime esec H fuel hs (start_en evs)))).
  Proof.
    destruct (start_spec evs) as (_ & Hok & _ & _ & _ & Hs & Hlt).
    destruct (g_sched_sorted (start_en evs) Hok fuel hs) as [Hs2 Hf].
    apply ssorted_app. split; [exact Hs|]. split; [exact Hs2|].
    intros a b Ha Hb Hc. specialize (Hlt a Ha). specialize (Hf b Hb). rewrite Hc in Hlt. lia.
  Qed.

  (** FIFO in terms of Schedule-call order *)
  Lemma g_fifo_schedule_order evs fuel hs :
    let r := run etime esec H fuel hs (start_en evs) in
    r_out r = Done ->
    forall p a q b t, start_xs evs ++ scheduled (r_log r) = p ++ a :: q ++ b :: t ->
    qc a = qc b -> qt a = qt b ->
    exists p' q' t', handled (r_log r) = p' ++ a :: q' ++ b :: t'.
  Proof.
    intros r Hd p a q b t Hsplit Hc Ht.
    destruct (start_spec evs) as (_ & Hok & P0 & _ & _ & _ & _).
    destruct (g_exactly_once (start_en evs) Hok fuel hs Hd) as [P Nd]. fold r in P, Nd.
    pose proof (g_all_sched_sorted evs fuel hs) as Hs. fold r in Hs. rewrite Hsplit in Hs.
    assert (Hab : qseq a < qseq b).
    { apply ssorted_app in Hs. destruct Hs as [_ [Hs _]]. inversion Hs as [|? ? _ Hf]; subst.
      rewrite Forall_forall in Hf. apply Hf; [|exact Hc]. apply in_or_app. right. left. reflexivity. }
    assert (Pall : Permutation (handled (r_log r)) (start_xs evs ++ scheduled (r_log r))).
    { etransitivity; [exact P|]. apply Permutation_app_tail. exact P0. }
    assert (Ha : In a (handled (r_log r))).
    { eapply Permutation_in; [apply Permutation_sym; exact Pall|]. rewrite Hsplit. apply in_or_app. right. left. reflexivity. }
    assert (Hb : In b (handled (r_log r))).
    { eapply Permutation_in; [apply Permutation_sym; exact Pall|]. rewrite Hsplit.
      apply in_or_app. right. right. apply in_or_app. right. left. reflexivity. }
    destruct (in_split _ _ Ha) as (h1 & h2 & Hh).
    rewrite Hh in Hb. apply in_app_or in Hb. destruct Hb as [Hb|[Hb|Hb]].
    - (* b handled before a: impossible *)
      exfalso. destruct (in_split _ _ Hb) as (h1a & h1b & Hh1). subst h1.
      unfold handled in Hh. rewrite <- app_assoc in Hh. cbn [app] in Hh.
      apply map_eq_app in Hh. destruct Hh as (l1 & l2' & Hl & Hm1 & Hm2).
      apply map_eq_cons in Hm2. destruct Hm2 as (s & l2 & Hl2 & Hsb & Hm3). subst l2'.
      assert (Hin : In a (handled l2)).
      { unfold handled. rewrite Hm3. apply in_or_app. right. left. reflexivity. }
      pose proof (g_fifo (start_en evs) Hok fuel hs l1 s l2 Hl a Hin) as Hf. rewrite Hsb in Hf.
      specialize (Hf Hc Ht). lia.
    - subst b. lia.
    - destruct (in_split _ _ Hb) as (h2a & h2b & Hh2). subst h2. exists h1, h2a, h2b. exact Hh.
  Qed.
End Generic.

(* ---------------------------------------------------------------- the script language *)

Definition nonneg_prog (p : program) : Prop :=
  forall alts alt sp, In alts p -> In alt alts -> In sp alt -> (0 <= sp_dt sp)%Z.

Lemma spawn_all_future now bud sps : forall hs,
  (forall sp, In sp sps -> (0 <= sp_dt sp)%Z) ->
  forall y, In y (snd (spawn_all now bud sps hs)) -> now <= s_time y.
Proof.
  induction sps as [|sp r IH]; intros hs Hnn y Hy; cbn [spawn_all] in Hy; [destruct Hy|].
  destruct (h_cap hs =? 0); [destruct Hy|].
  destruct (spawn_all now bud r _) as [hs' es] eqn:Er. cbn [snd] in Hy. destruct Hy as [<-|Hy].
  - cbn [s_time]. specialize (Hnn sp (or_introl eq_refl)). lia.
  - apply (IH (mk_hst (h_next hs + 1) (h_cap hs - 1))); [intros; apply Hnn; right; assumption|].
    rewrite Er. exact Hy.
Qed.

(** scripts without negative offsets never schedule in the past *)
Lemma script_H_ok p : nonneg_prog p -> H_ok s_time (script_handler p).
Proof.
  intros Hp hs e y Hy. unfold script_handler in Hy.
  destruct (s_bud e =? 0); [destruct Hy|].
  destruct (nth_error p (N.to_nat (s_hid e))) as [alts|] eqn:Ea; [|destruct Hy].
  destruct (nth_error alts _) as [alt|] eqn:Eb; [|destruct Hy].
  eapply spawn_all_future; [|exact Hy].
  intros sp Hsp. eapply Hp; eauto using nth_error_In.
Qed.

(* ---------------------------------------------------------------- scripts terminate *)
From Akita Require Import Lib.EngineTermination.

Lemma spawn_all_allow now bud sps : forall hs,
  (length (snd (spawn_all now bud sps hs)) + N.to_nat (h_cap (fst (spawn_all now bud sps hs))) <= N.to_nat (h_cap hs))%nat.
Proof.
  induction sps as [|sp r IH]; intro hs; cbn [spawn_all]; [cbn; lia|].
  destruct (N.eqb_spec (h_cap hs) 0) as [Hz|Hnz]; [cbn; lia|].
  specialize (IH (mk_hst (h_next hs + 1) (h_cap hs - 1))).
  destruct (spawn_all now bud r _) as [hs' es]. cbn [fst snd length h_cap] in *. lia.
Qed.

Lemma script_allow p hs e :
  (length (snd (script_handler p hs e)) + N.to_nat (h_cap (fst (script_handler p hs e))) <= N.to_nat (h_cap hs))%nat.
Proof.
  unfold script_handler. destruct (s_bud e =? 0); [cbn; lia|].
  destruct (nth_error p _) as [alts|]; [|cbn; lia].
  destruct (nth_error alts _) as [alt|]; [|cbn; lia]. apply spawn_all_allow.
Qed.

Lemma init_events_length l : forall uid, length (init_events uid l) = length l.
Proof. induction l as [|[[[t h] s] b] r IH]; intro uid; cbn [init_events length]; [reflexivity|]. rewrite IH. reflexivity. Qed.

Lemma run_script_eq p cap init :
  run_script p cap init =
  run s_time s_sec (script_handler p) (script_fuel cap init) (mk_hst (N.of_nat (length init)) cap)
      (start_en s_time s_sec (init_events 0 init)).
Proof.
  unfold run_script, script_start, start_en.
  destruct (schedule_all s_time s_sec new_engine (init_events 0 init)) as [[en xs] ok]. reflexivity.
Qed.

(** every script ends (returns or panics) within the fuel the correspondence check gives it *)
Lemma script_run_ends p cap init : r_out (run_script p cap init) <> OutOfFuel.
Proof.
  rewrite run_script_eq.
  apply (run_enough_fuel s_time s_sec (script_handler p) (fun hs => N.to_nat (h_cap hs)) (script_allow p)).
  pose proof (schedule_all_len s_time s_sec (init_events 0 init) new_engine) as Hl.
  unfold start_en. destruct (schedule_all s_time s_sec new_engine (init_events 0 init)) as [[en xs] ok].
  cbn [fst h_cap]. rewrite init_events_length in Hl. cbn [pending new_engine e_p e_s q_heap q_empty app length] in Hl.
  unfold script_fuel. lia.
Qed.

(** ... and a script without negative offsets returns normally *)
Lemma script_run_done p cap init : nonneg_prog p -> r_out (run_script p cap init) = Done.
Proof.
  intro Hp. pose proof (script_run_ends p cap init) as H1.
  assert (H2 : r_out (run_script p cap init) <> Panicked).
  { rewrite run_script_eq. apply run_no_panic; [apply script_H_ok; exact Hp|].
    destruct (start_spec s_time s_sec (init_events 0 init)) as (_ & Hok & _). exact Hok. }
  destruct (r_out (run_script p cap init)); congruence.
Qed.

(* ---------------------------------------------------------------- SetCurrentTime(0) is the plain run *)
Lemma run_script_at_0 p cap init : run_script_at p cap init 0 = run_script p cap init.
Proof.
  unfold run_script_at, run_script, script_start.
  pose proof (start_spec s_time s_sec (init_events 0 init)) as (Hsa & _ & _ & _ & Hn & _).
  unfold start_en in Hn. destruct (schedule_all s_time s_sec new_engine (init_events 0 init)) as [[en xs] ok].
  cbn [fst] in Hn. unfold set_current_time. rewrite <- Hn. destruct en; reflexivity.
Qed.
