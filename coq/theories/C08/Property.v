(** C08 — theorems (glue only). *)
From Akita Require Import Lib.Base Lib.Json C08.Model.
Local Open Scope N_scope.

Theorem c08_skeleton : decode_slice [] JNull = inr [].
Proof. reflexivity. Qed.
Print Assumptions c08_skeleton.
