(** C08 — runtime values survive serialization unchanged: theorems.
    The obligation over the library's own types is GENERATED on every run (GenTypes.v by
    reflection + GenOb.v, see lib/props/c08.py): [forallb lossless gen_types = true] by
    vm_compute, lifted to every well-formed value by [c08_lossless_sound]. *)
From Akita Require Import Lib.Base Lib.Json Lib.JsonProofs C08.Model C08.Exec C08.Proofs.
Local Open Scope N_scope.

(** every well-formed value (integers in range, valid UTF-8 strings, finite floats; fields
    tagged json:"-" are outside the value) of a lossless type comes back equal *)
Theorem c08_lossless_sound :
  forall t, lossless t = true -> forall v, wf t v = true -> decode t (encode t v) = Some v.
Proof. exact lossless_sound. Qed.
Print Assumptions c08_lossless_sound.

(** EncodeSlice/DecodeSlice: a heterogeneous list of registered, lossless element types comes
    back with the same concrete types (tags) and equal values, in the same order *)
Theorem c08_codec_slice_roundtrip :
  forall (r : registry) (xs : list elem),
    Forall (elem_ok r) xs -> slice_roundtrip r xs = inr (map untyped xs).
Proof. exact slice_roundtrip_ok. Qed.
Print Assumptions c08_codec_slice_roundtrip.

Theorem c08_codec_unknown_type_rejected :
  forall r tag t v, valid_utf8 tag = true -> reg_find r tag = None ->
                    slice_roundtrip r [(tag, t, v)] = inl (EUnknownType tag).
Proof. exact slice_unknown_type. Qed.
Print Assumptions c08_codec_unknown_type_rejected.

(** a State inside a component checkpoint *)
Theorem c08_component_state_roundtrip :
  forall t v, lossless t = true -> wf t v = true -> component_state_roundtrip t v = Some v.
Proof. exact component_state_ok. Qed.
Print Assumptions c08_component_state_roundtrip.

(** bounded buffers, multi-stage pipelines and LRU sets embedded in state: their DTOs are
    lossless for every lossless element type *)
Theorem c08_buffer_lossless : forall e, lossless e = true -> lossless (buffer_ty e) = true.
Proof. exact buffer_lossless. Qed.
Print Assumptions c08_buffer_lossless.

Theorem c08_pipeline_lossless : forall e, lossless e = true -> lossless (pipeline_ty e) = true.
Proof. exact pipeline_lossless. Qed.
Print Assumptions c08_pipeline_lossless.

Theorem c08_lruset_lossless : lossless lruset_ty = true.
Proof. exact lruset_lossless. Qed.
Print Assumptions c08_lruset_lossless.

(** outside the hypotheses the statement is false of the code: *)
Theorem c08_invalid_utf8_refuted : exists v, roundtrip TString v <> Some v.
Proof. exists (VStr [255]). rewrite invalid_utf8_altered. discriminate. Qed.
Print Assumptions c08_invalid_utf8_refuted.

Theorem c08_lruset_nil_keymap_refuted : exists v, roundtrip lruset_ty v <> Some v.
Proof.
  exists (VCustom (VStruct [VInt 0; VSlice None; VInt 0; VSlice None; VMap None])).
  rewrite lruset_nil_map_altered. discriminate.
Qed.
Print Assumptions c08_lruset_nil_keymap_refuted.

(** regression for the fixed omitempty fields: the old tag loses an empty non-nil slice *)
Theorem c08_omitempty_old_refuted :
  (exists v, wf t_rsp_old v = true /\ roundtrip t_rsp_old v <> Some v) /\ lossless t_rsp = true.
Proof.
  destruct omitempty_old as (_ & B & C & _). split; [|exact C].
  exists (VStruct [VSlice (Some [])]). split; [reflexivity|]. rewrite B. discriminate.
Qed.
Print Assumptions c08_omitempty_old_refuted.

Theorem c08_model_agreement_implies_property :
  forall c, lossless (c_ty c) = true -> wf (c_ty c) (c_val c) = true ->
            forallb (wf (c_ty c)) (c_rest c) = true -> valid_utf8 (c_tag c) = true ->
            check_case c = true -> holds_on c = true.
Proof. exact model_agreement_implies_property. Qed.
Print Assumptions c08_model_agreement_implies_property.

Example c08_codec_slice_roundtrip_nonvacuous :
  lossless t_msg = true /\ wf t_msg v_msg = true /\
  slice_roundtrip [(bs "pkg.Msg", t_msg)] [(bs "pkg.Msg", t_msg, v_msg)] = inr [(bs "pkg.Msg", v_msg)].
Proof. exact msg_example. Qed.
