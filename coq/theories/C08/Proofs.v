(** C08 — lemmas: the type-tagged codec and the component payload preserve the values of
    lossless types; the hand models of the three custom containers are lossless. *)
From Akita Require Import Lib.Base Lib.Json Lib.JsonProofs C08.Model C08.Exec.
Local Open Scope N_scope.

(* ------------------------------------------------------------------ type-tagged slices *)

(** every element is registered under its own tag with its own type, the type is lossless,
    the value well-formed and the tag valid UTF-8 (Go import paths and identifiers are) *)
Definition elem_ok (r : registry) (x : elem) : Prop :=
  match x with
  | (tag, t, v) =>
      reg_find r tag = Some t /\ lossless t = true /\ wf t v = true /\ valid_utf8 tag = true
  end.

Definition untyped (x : elem) : bytes * value := match x with (tag, _, v) => (tag, v) end.

Lemma shape_ok_encoded xs :
  forallb shape_ok
    (map (fun x : elem => match x with (tag, t, v) =>
            JObj [(k_type, JStr (sanitize tag)); (k_payload, encode t v)] end) xs) = true.
Proof.
  induction xs as [|[[tag t] v] xs IH]; [reflexivity|].
  cbn [map forallb]. rewrite IH. reflexivity.
Qed.

Lemma decode_elems_encoded r xs :
  Forall (elem_ok r) xs ->
  decode_elems r
    (map (fun x : elem => match x with (tag, t, v) =>
            JObj [(k_type, JStr (sanitize tag)); (k_payload, encode t v)] end) xs)
  = inr (map untyped xs).
Proof.
  induction 1 as [|[[tag t] v] xs Hx Hxs IH]; [reflexivity|].
  destruct Hx as (Hreg & Hl & Hwf & Hu).
  cbn [map decode_elems]. rewrite IH.
  change (assoc k_type [(k_type, JStr (sanitize tag)); (k_payload, encode t v)])
    with (Some (JStr (sanitize tag))).
  change (assoc k_payload [(k_type, JStr (sanitize tag)); (k_payload, encode t v)])
    with (Some (encode t v)).
  cbv beta iota. rewrite valid_utf8_sanitize by exact Hu. rewrite Hreg.
  rewrite (lossless_sound t Hl v Hwf). reflexivity.
Qed.

Lemma slice_roundtrip_ok r xs :
  Forall (elem_ok r) xs -> slice_roundtrip r xs = inr (map untyped xs).
Proof.
  intros H. unfold slice_roundtrip, encode_slice, decode_slice.
  rewrite shape_ok_encoded. apply decode_elems_encoded. exact H.
Qed.

(** a forgotten registration fails loudly: the first unregistered tag is reported *)
Lemma slice_unknown_type r tag t v :
  valid_utf8 tag = true -> reg_find r tag = None ->
  slice_roundtrip r [(tag, t, v)] = inl (EUnknownType tag).
Proof.
  intros Hu Hr. unfold slice_roundtrip, encode_slice, decode_slice.
  cbn [map forallb]. rewrite valid_utf8_sanitize by exact Hu.
  change (shape_ok (JObj [(k_type, JStr tag); (k_payload, encode t v)])) with true.
  cbn [andb decode_elems].
  change (assoc k_type [(k_type, JStr tag); (k_payload, encode t v)]) with (Some (JStr tag)).
  cbv beta iota. rewrite Hr. reflexivity.
Qed.

Lemma component_state_ok t v :
  lossless t = true -> wf t v = true -> component_state_roundtrip t v = Some v.
Proof.
  intros Hl Hwf. unfold component_state_roundtrip.
  change (assoc k_state [(k_state, encode t v)]) with (Some (encode t v)).
  apply lossless_sound; assumption.
Qed.

(* ------------------------------------------------------------------ the custom containers *)

Definition fx (go js : bytes) : finfo := mkF go true false (Some js) false false false false.

(** queueing.bufferState[T] *)
Definition buffer_ty (e : ty) : ty :=
  TCustom (mkC true true [])
    (TStruct [(fx (bs "Name") (bs "name"), TString); (fx (bs "Cap") (bs "cap"), TInt I64);
              (fx (bs "Elements") (bs "elements"), TSlice e)]).

(** queueing.pipelineState[T] with queueing.PipelineStage[T] *)
Definition stage_ty (e : ty) : ty :=
  TStruct [(fx (bs "Lane") (bs "lane"), TInt I64); (fx (bs "Stage") (bs "stage"), TInt I64);
           (fx (bs "Item") (bs "item"), e); (fx (bs "CycleLeft") (bs "cycle_left"), TInt I64)].

Definition pipeline_ty (e : ty) : ty :=
  TCustom (mkC true true [])
    (TStruct [(fx (bs "Width") (bs "width"), TInt I64); (fx (bs "NumStages") (bs "num_stages"), TInt I64);
              (fx (bs "Stages") (bs "stages"), TSlice (stage_ty e))]).

(** lruset.setJSON; UnmarshalJSON turns a nil key map into an empty one *)
Definition lruset_ty : ty :=
  TCustom (mkC true true [4%nat])
    (TStruct [(fx (bs "WayCount") (bs "way_count"), TInt I64);
              (fx (bs "VisitList") (bs "visit_list"), TSlice (TInt I64));
              (fx (bs "VisitCount") (bs "visit_count"), TInt U64);
              (fx (bs "LastVisits") (bs "last_visits"), TSlice (TInt U64));
              (fx (bs "KeyMap") (bs "key_map"), TMap MKStr (TInt I64))]).

Lemma buffer_lossless e : lossless e = true -> lossless (buffer_ty e) = true.
Proof.
  unfold lossless. intros H. vm_compute. vm_compute in H. rewrite H. reflexivity.
Qed.

Lemma pipeline_lossless e : lossless e = true -> lossless (pipeline_ty e) = true.
Proof.
  unfold lossless. intros H. vm_compute. vm_compute in H. rewrite H. reflexivity.
Qed.

Lemma lruset_lossless : lossless lruset_ty = true.
Proof. reflexivity. Qed.

(** values of the containers: nil and empty element lists are different values and both
    survive; the LRU set survives whenever its key map is non-nil *)
Lemma buffer_roundtrip e name cap (els : option (list value)) :
  lossless e = true ->
  wf (buffer_ty e) (VCustom (VStruct [VStr name; VInt cap; VSlice els])) = true ->
  roundtrip (buffer_ty e) (VCustom (VStruct [VStr name; VInt cap; VSlice els]))
  = Some (VCustom (VStruct [VStr name; VInt cap; VSlice els])).
Proof. intros H Hwf. apply lossless_roundtrip; [apply buffer_lossless; exact H|exact Hwf]. Qed.

(* ------------------------------------------------------------------ what is NOT preserved *)

(** a string that is not valid UTF-8 is rewritten (U+FFFD) *)
Lemma invalid_utf8_altered :
  roundtrip TString (VStr [255]) = Some (VStr [239; 191; 189]).
Proof. reflexivity. Qed.

(** the pre-fix shape of rob.transactionState.RspData (omitempty on a byte slice) *)
Definition t_rsp_old : ty :=
  TStruct [(mkF (bs "RspData") true false (Some (bs "rsp_data")) false true false false, TSlice (TInt U8))].
Definition t_rsp : ty :=
  TStruct [(mkF (bs "RspData") true false (Some (bs "rsp_data")) false false false false, TSlice (TInt U8))].

Lemma omitempty_old :
  lossless t_rsp_old = false /\
  roundtrip t_rsp_old (VStruct [VSlice (Some [])]) = Some (VStruct [VSlice None]) /\
  lossless t_rsp = true /\
  roundtrip t_rsp (VStruct [VSlice (Some [])]) = Some (VStruct [VSlice (Some [])]).
Proof. vm_compute. repeat split. Qed.

(** the nil key map of a zero lruset.Set comes back as an empty map *)
Lemma lruset_nil_map_altered :
  roundtrip lruset_ty (VCustom (VStruct [VInt 0; VSlice None; VInt 0; VSlice None; VMap None]))
  = Some (VCustom (VStruct [VInt 0; VSlice None; VInt 0; VSlice None; VMap (Some [])])).
Proof. reflexivity. Qed.

(* ------------------------------------------------------------------ link *)

Lemma ov_eqb_iff a b : ov_eqb a b = true <-> a = b.
Proof.
  destruct a as [x|], b as [y|]; cbn; split; intros H; try discriminate; try reflexivity.
  - apply value_eqb_eq in H. subst. reflexivity.
  - inversion H; subst. apply value_eqb_refl.
Qed.

Lemma ov_list_eq a b : list_eqb ov_eqb a b = true <-> a = b.
Proof. apply list_eqb_eq. exact ov_eqb_iff. Qed.

Lemma model_all_ok c :
  lossless (c_ty c) = true -> wf (c_ty c) (c_val c) = true ->
  forallb (wf (c_ty c)) (c_rest c) = true -> valid_utf8 (c_tag c) = true ->
  model_all c = Some (map (fun v => (c_tag c, v)) (c_val c :: c_rest c)).
Proof.
  intros Hl Hwf Hrest Hu. unfold model_all. rewrite slice_roundtrip_ok.
  - rewrite map_map. reflexivity.
  - apply Forall_forall. intros x Hx. apply in_map_iff in Hx. destruct Hx as (v & <- & Hv).
    cbn [elem_ok reg_find]. rewrite bytes_eqb_refl. repeat split; try assumption.
    destruct Hv as [<-|Hv]; [exact Hwf|]. rewrite forallb_forall in Hrest. exact (Hrest v Hv).
Qed.

Lemma model_agreement_implies_property c :
  lossless (c_ty c) = true -> wf (c_ty c) (c_val c) = true ->
  forallb (wf (c_ty c)) (c_rest c) = true -> valid_utf8 (c_tag c) = true ->
  check_case c = true -> holds_on c = true.
Proof.
  intros Hl Hwf Hrest Hu Hc. unfold holds_on. destruct (c_lib c); [|reflexivity].
  unfold check_case in Hc. apply andb_true_iff in Hc. destruct Hc as [Hc Hr].
  apply andb_true_iff in Hc. destruct Hc as [_ Hc].
  pose proof (model_all_ok c Hl Hwf Hrest Hu) as Hall.
  assert (Hm : model_dec c = Some (c_tag c, c_val c)).
  { unfold model_dec.
    destruct ((c_route c =? 1) || (c_route c =? 2)).
    - rewrite Hall. reflexivity.
    - destruct (c_route c =? 3).
      + rewrite component_state_ok by assumption. reflexivity.
      + rewrite lossless_roundtrip by assumption. reflexivity. }
  rewrite Hm in Hc. destruct (o_dec c) as [w|]; [|discriminate].
  apply andb_true_iff in Hc. destruct Hc as [Ht Hv].
  apply value_eqb_eq in Hv. subst w. cbn [ov_eqb opt_eqb]. rewrite value_eqb_refl. cbn [andb].
  rewrite bytes_eqb_sym, Ht. cbn [andb].
  destruct ((c_route c =? 1) || (c_route c =? 2)).
  - rewrite Hall in Hr. cbn [map] in Hr. apply andb_true_iff in Hr. destruct Hr as [Hr _].
    rewrite map_map in Hr. cbn [snd] in Hr. apply ov_list_eq in Hr. rewrite <- Hr. apply ov_list_eq. reflexivity.
  - apply andb_true_iff in Hr. destruct Hr as [R1 R2].
    destruct (c_rest c); [|discriminate]. destruct (o_rest c); [reflexivity|discriminate].
Qed.

(** non-vacuity: a message-like value with promoted metadata, a byte slice and a buffer *)
Definition t_msg : ty :=
  TStruct [(mkF (bs "MsgMeta") true true None false false false false,
            TStruct [(mkF (bs "ID") true false None false false false false, TInt U64);
                     (mkF (bs "Src") true false None false false false false, TString)]);
           (mkF (bs "Data") true false None false false false false, TSlice (TInt U8));
           (mkF (bs "Info") true false None true false false false, TOther KIface);
           (mkF (bs "Queue") true false (Some (bs "queue")) false false false false, buffer_ty (TInt I64))].
Definition v_msg : value :=
  VStruct [VStruct [VInt 7; VStr (bs "GPU[0].L1.Top")]; VSlice (Some []); VSkip;
           VCustom (VStruct [VStr (bs "Buf"); VInt 4; VSlice (Some [VInt (-1); VInt 2])])].

Lemma msg_example :
  lossless t_msg = true /\ wf t_msg v_msg = true /\
  slice_roundtrip [(bs "pkg.Msg", t_msg)] [(bs "pkg.Msg", t_msg, v_msg)] = inr [(bs "pkg.Msg", v_msg)].
Proof. vm_compute. repeat split. Qed.
