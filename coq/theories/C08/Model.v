(** C08 — the checkpoint encodings built on encoding/json (Lib/Json.v):
    internal/codec/registry.go (type-tagged slices of messages / events),
    modeling/component_checkpoint.go (State inside a component payload).
    Executable definitions only. *)
From Akita Require Import Lib.Base Lib.Json.
Local Open Scope N_scope.

Definition k_type : bytes := [116; 121; 112; 101].                       (* "type" *)
Definition k_payload : bytes := [112; 97; 121; 108; 111; 97; 100].       (* "payload" *)

(** a registry maps wire tags to concrete types (Registry.types) *)
Definition registry := list (bytes * ty).

Fixpoint reg_find (r : registry) (tag : bytes) : option ty :=
  match r with
  | [] => None
  | (k, t) :: r' => if bytes_eqb k tag then Some t else reg_find r' tag
  end.

(** one polymorphic element: its wire tag (= its concrete Go type), the descriptor of that
    type and the value *)
Definition elem := (bytes * ty * value)%type.

(** EncodeSlice: a JSON array of {"type": tag, "payload": <default JSON of the value>}.
    Encoding needs no registration. *)
Definition encode_slice (xs : list elem) : json :=
  JArr (map (fun x => match x with (tag, t, v) =>
                        JObj [(k_type, JStr (sanitize tag)); (k_payload, encode t v)] end) xs).

Inductive cerr := EShape | EUnknownType (tag : bytes) | EPayload (tag : bytes).

(** DecodeSlice: unmarshal into []typedPayload, then look every tag up and unmarshal the
    payload into a fresh value of the registered type. [null] is the nil slice. A missing
    payload member is the empty RawMessage, on which json.Unmarshal fails. *)
Fixpoint decode_elems (r : registry) (l : list json) : cerr + list (bytes * value) :=
  match l with
  | [] => inr []
  | x :: l' =>
      match x with
      | JObj ms =>
          let tag := match assoc k_type ms with Some (JStr s) => Some s | Some JNull | None => Some [] | _ => None end in
          match tag with
          | None => inl EShape
          | Some tag =>
              match reg_find r tag with
              | None => inl (EUnknownType tag)
              | Some t =>
                  match assoc k_payload ms with
                  | None => inl (EPayload tag)
                  | Some p =>
                      match decode t p with
                      | None => inl (EPayload tag)
                      | Some v =>
                          match decode_elems r l' with
                          | inl e => inl e
                          | inr vs => inr ((tag, v) :: vs)
                          end
                      end
                  end
              end
          end
      | JNull =>
          (* a null element leaves the typedPayload zero: tag "" *)
          match reg_find r [] with
          | None => inl (EUnknownType [])
          | Some _ => inl (EPayload [])
          end
      | _ => inl EShape
      end
  end.

(** type errors of the outer unmarshal are reported before any element is decoded *)
Definition shape_ok (x : json) : bool :=
  match x with
  | JNull => true
  | JObj ms =>
      match assoc k_type ms with Some (JStr _) | Some JNull | None => true | _ => false end
  | _ => false
  end.

Definition decode_slice (r : registry) (j : json) : cerr + list (bytes * value) :=
  match j with
  | JNull => inr []
  | JArr l => if forallb shape_ok l then decode_elems r l else inl EShape
  | _ => inl EShape
  end.

(** what a port / engine checkpoint round trip returns for the elements [xs] when the
    registry is [r] *)
Definition slice_roundtrip (r : registry) (xs : list elem) : cerr + list (bytes * value) :=
  decode_slice r (encode_slice xs).

(** component payload: State is marshalled on its own and embedded as a raw member *)
Definition k_state : bytes := [115; 116; 97; 116; 101].
Definition component_state_roundtrip (t : ty) (v : value) : option value :=
  match assoc k_state [(k_state, encode t v)] with
  | Some p => decode t p
  | None => None
  end.
