(** C08 — case evaluators for the correspondence check. *)
From Akita Require Import Lib.Base Lib.Json C08.Model.
Local Open Scope N_scope.

(** One case: a value [c_val] of type [c_ty] sent through one of the real encodings:
    route 0 = json.Marshal / json.Unmarshal directly (the marshalled document is observed),
    route 1 = a port checkpoint (message codec), 2 = the serial engine checkpoint (event
    codec), 3 = a modeling.Component checkpoint (State).  [c_tag] is the wire tag of the
    concrete type; [o_dec] the value that came back (None = an error), [o_tag] the concrete
    type that came back.  [c_lib] marks library types (the property ranges over them). *)
Record case := mk_case {
  c_lib : bool;
  c_route : N;
  c_tag : bytes;
  c_ty : ty;
  c_val : value;
  c_rest : list value;          (* routes 1, 2: further values of the same type, held behind
                                   [c_val] in the SAME port buffer / engine queue *)
  o_json : option json;
  o_dec : option value;
  o_rest : list (option value); (* what came back for [c_rest], in order *)
  o_tag : bytes }.

Definition ov_eqb := opt_eqb value_eqb.
Definition oj_eqb := opt_eqb json_eqb.

(** all elements of the buffer / queue go through ONE EncodeSlice / DecodeSlice *)
Definition model_all (c : case) : option (list (bytes * value)) :=
  match slice_roundtrip [(c_tag c, c_ty c)]
          (map (fun v => (c_tag c, c_ty c, v)) (c_val c :: c_rest c)) with
  | inr l => Some l
  | inl _ => None
  end.

Definition model_dec (c : case) : option (bytes * value) :=
  if (c_route c =? 1) || (c_route c =? 2) then
    match model_all c with
    | Some ((tag, v) :: _) => Some (tag, v)
    | _ => None
    end
  else if c_route c =? 3 then
    option_map (fun v => (c_tag c, v)) (component_state_roundtrip (c_ty c) (c_val c))
  else option_map (fun v => (c_tag c, v)) (roundtrip (c_ty c) (c_val c)).

(** model = implementation *)
Definition check_case (c : case) : bool :=
  (if c_route c =? 0 then oj_eqb (Some (encode (c_ty c) (c_val c))) (o_json c) else true) &&
  match model_dec c, o_dec c with
  | Some (tag, v), Some w => bytes_eqb tag (o_tag c) && value_eqb v w
  | None, None => true
  | _, _ => false
  end &&
  (if (c_route c =? 1) || (c_route c =? 2) then
     match model_all c with
     | Some (_ :: l) => list_eqb ov_eqb (map (fun tv => Some (snd tv)) l) (o_rest c)
                        && forallb (fun tv => bytes_eqb (fst tv) (c_tag c)) l
     | _ => forallb (fun o => match o with None => true | Some _ => false end) (o_rest c)
     end
   else is_nil (c_rest c) && is_nil (o_rest c)).

(** the property on the observed behaviour: every value comes back equal, as the same
    concrete type, in the same order *)
Definition holds_on (c : case) : bool :=
  if c_lib c
  then ov_eqb (o_dec c) (Some (c_val c)) && bytes_eqb (o_tag c) (c_tag c)
       && list_eqb ov_eqb (o_rest c) (map Some (c_rest c))
  else true.
