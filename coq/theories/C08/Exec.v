(** C08 — case evaluators for the correspondence check. *)
From Akita Require Import Lib.Base Lib.Json C08.Model.
Local Open Scope N_scope.

(** One case: a value [c_val] of type [c_ty] sent through one of the real encodings:
    route 0 = json.Marshal / json.Unmarshal directly (the marshalled document is observed),
    route 1 = a port checkpoint (message codec), 2 = the serial engine checkpoint (event
    codec), 3 = a modeling.Component checkpoint (State).  [c_tag] is the wire tag of the
    concrete type; [o_dec] the value that came back (None = an error), [o_tag] the concrete
    type that came back.  [c_lib] marks library types (the property ranges over them). *)
Record case := mk_case {
  c_lib : bool;
  c_route : N;
  c_tag : bytes;
  c_ty : ty;
  c_val : value;
  o_json : option json;
  o_dec : option value;
  o_tag : bytes }.

Definition ov_eqb := opt_eqb value_eqb.
Definition oj_eqb := opt_eqb json_eqb.

Definition model_dec (c : case) : option (bytes * value) :=
  if (c_route c =? 1) || (c_route c =? 2) then
    match slice_roundtrip [(c_tag c, c_ty c)] [(c_tag c, c_ty c, c_val c)] with
    | inr [(tag, v)] => Some (tag, v)
    | _ => None
    end
  else if c_route c =? 3 then
    option_map (fun v => (c_tag c, v)) (component_state_roundtrip (c_ty c) (c_val c))
  else option_map (fun v => (c_tag c, v)) (roundtrip (c_ty c) (c_val c)).

(** model = implementation *)
Definition check_case (c : case) : bool :=
  (if c_route c =? 0 then oj_eqb (Some (encode (c_ty c) (c_val c))) (o_json c) else true) &&
  match model_dec c, o_dec c with
  | Some (tag, v), Some w => bytes_eqb tag (o_tag c) && value_eqb v w
  | None, None => true
  | _, _ => false
  end.

(** the property on the observed behaviour: the value comes back equal, as the same
    concrete type *)
Definition holds_on (c : case) : bool :=
  if c_lib c then ov_eqb (o_dec c) (Some (c_val c)) && bytes_eqb (o_tag c) (c_tag c) else true.
