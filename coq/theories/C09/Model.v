(** C09 — an executable model of a whole simulation: the serial engine's two event
    queues, tick schedulers with their dedup guard (modeling/ticker.go), event-driven
    components with their pendingWakeup guard (modeling/eventdriven.go), direct
    connections ([Lib/Conn.v]) and ports ([Lib/Port.v]), and scripted components.

    Handlers are numbered: components first, then connections.  Ports are global,
    numbered from 0; port g is named g+1.  Times are picoseconds ([N], no 2^64 wrap:
    runs are short); every scheduler carries its period.

    The tick guard is a parameter ([GuardOld] = the code as it is, [GuardNew] = the
    candidate repair: a TickNow at an instant whose tick event was already handled
    schedules the next clock edge). *)
From Akita Require Import Lib.Base Lib.Fifo Lib.Port Lib.Conn.
Local Open Scope N_scope.

Inductive guard := GuardOld | GuardNew.

(** TickScheduler: hasScheduledTick, nextTickTime, period of freq, secondary;
    [s_handled] = time of the last tick event handled (used by GuardNew only). *)
Record sched := mk_sched {
  s_has : bool; s_next : N; s_period : N; s_sec : bool; s_handled : option N }.

(** Freq.ThisTick / Freq.NextTick for a period p >= 1 (C42) *)
Definition this_tick (p t : N) : N := (t + p - 1) / p * p.
Definition next_tick (p t : N) : N := (t / p + 1) * p.

Definition set_sched (s : sched) (t : N) : sched :=
  mk_sched true t (s_period s) (s_sec s) (s_handled s).

Definition handled_at (s : sched) (t : N) : bool :=
  match s_handled s with Some h => h =? t | None => false end.

(** TickNow: [None] = dropped by the guard, [Some t] = a tick event scheduled at t *)
Definition tick_now (g : guard) (now : N) (s : sched) : sched * option N :=
  match g with
  | GuardOld =>
      if s_has s && (now <=? s_next s) then (s, None)
      else let t := this_tick (s_period s) now in (set_sched s t, Some t)
  | GuardNew =>
      if s_has s && (now <? s_next s) then (s, None)
      else if s_has s && (now =? s_next s) then
        if handled_at s now
        then let t := next_tick (s_period s) now in (set_sched s t, Some t)
        else (s, None)
      else let t := this_tick (s_period s) now in (set_sched s t, Some t)
  end.

(** TickLater *)
Definition tick_later (now : N) (s : sched) : sched * option N :=
  let t := next_tick (s_period s) now in
  if s_has s && (t <=? s_next s) then (s, None) else (set_sched s t, Some t).

Definition mark_handled (s : sched) (t : N) : sched :=
  mk_sched (s_has s) (s_next s) (s_period s) (s_sec s) (Some t).

(** ------------------------------------------------------------------ *)
Inductive ckind := KTick | KEvent.

Record comp := mk_comp {
  k_kind : ckind;
  k_sched : sched;                       (* KTick *)
  k_pending : option N;                  (* KEvent: pendingWakeup (None = MaxUint64) *)
  k_ports : list nat;                    (* its ports (global numbers), in order *)
  k_drain : list (option nat);           (* per port: messages retrieved per activation (None = all) *)
  k_relay : list (option (nat * N));     (* per port: a retrieved message is re-sent on (port, to name) *)
  k_timers : list (N * nat * msg);       (* planned sends (time, port, message), by time *)
  k_pend : list (nat * msg) }.           (* sends waiting for CanSend *)

Record cnx := mk_cnx { x_sched : sched; x_ports : list nat; x_next : nat }.

Record world := mk_world {
  w_guard : guard;
  w_now : N;
  w_prim : list (N * nat);               (* primary queue: (time, handler), by (time, insertion) *)
  w_sec : list (N * nat);                (* secondary queue *)
  w_ports : list port;
  w_owner : list nat;                    (* port -> component *)
  w_connof : list nat;                   (* port -> connection *)
  w_comps : list comp;
  w_conns : list cnx;
  w_halt : bool }.                       (* a handler panicked *)

Fixpoint insert_evt (e : N * nat) (q : list (N * nat)) : list (N * nat) :=
  match q with
  | [] => [e]
  | x :: r => if fst x <=? fst e then x :: insert_evt e r else e :: q
  end.

Definition upd {A} (i : nat) (f : A -> A) (l : list A) : list A :=
  match nth_error l i with Some x => set_nth i (f x) l | None => l end.

Definition set_prim w q := mk_world (w_guard w) (w_now w) q (w_sec w) (w_ports w) (w_owner w) (w_connof w) (w_comps w) (w_conns w) (w_halt w).
Definition set_sec w q := mk_world (w_guard w) (w_now w) (w_prim w) q (w_ports w) (w_owner w) (w_connof w) (w_comps w) (w_conns w) (w_halt w).
Definition set_ports w p := mk_world (w_guard w) (w_now w) (w_prim w) (w_sec w) p (w_owner w) (w_connof w) (w_comps w) (w_conns w) (w_halt w).
Definition set_comps w c := mk_world (w_guard w) (w_now w) (w_prim w) (w_sec w) (w_ports w) (w_owner w) (w_connof w) c (w_conns w) (w_halt w).
Definition set_conns w c := mk_world (w_guard w) (w_now w) (w_prim w) (w_sec w) (w_ports w) (w_owner w) (w_connof w) (w_comps w) c (w_halt w).
Definition set_now w t := mk_world (w_guard w) t (w_prim w) (w_sec w) (w_ports w) (w_owner w) (w_connof w) (w_comps w) (w_conns w) (w_halt w).
Definition halt w := mk_world (w_guard w) (w_now w) (w_prim w) (w_sec w) (w_ports w) (w_owner w) (w_connof w) (w_comps w) (w_conns w) true.

Definition ncomps (w : world) : nat := length (w_comps w).

(** engine.Schedule *)
Definition schedule (w : world) (secondary : bool) (t : N) (h : nat) : world :=
  if secondary then set_sec w (insert_evt (t, h) (w_sec w)) else set_prim w (insert_evt (t, h) (w_prim w)).

Definition sched_event (w : world) (s : sched) (h : nat) (ev : option N) : world :=
  match ev with Some t => schedule w (s_sec s) t h | None => w end.

(** component k is notified (NotifyRecv / NotifyPortFree): ticking -> TickLater,
    event-driven -> ScheduleWakeNow *)
Definition notify_comp (w : world) (k : nat) : world :=
  match nth_error (w_comps w) k with
  | None => w
  | Some c =>
      match k_kind c with
      | KTick =>
          let '(s', ev) := tick_later (w_now w) (k_sched c) in
          let c' := mk_comp (k_kind c) s' (k_pending c) (k_ports c) (k_drain c) (k_relay c) (k_timers c) (k_pend c) in
          sched_event (set_comps w (set_nth k c' (w_comps w))) s' k ev
      | KEvent =>
          match k_pending c with
          | Some p => if p <=? w_now w then w else
              let c' := mk_comp (k_kind c) (k_sched c) (Some (w_now w)) (k_ports c) (k_drain c) (k_relay c) (k_timers c) (k_pend c) in
              schedule (set_comps w (set_nth k c' (w_comps w))) false (w_now w) k
          | None =>
              let c' := mk_comp (k_kind c) (k_sched c) (Some (w_now w)) (k_ports c) (k_drain c) (k_relay c) (k_timers c) (k_pend c) in
              schedule (set_comps w (set_nth k c' (w_comps w))) false (w_now w) k
          end
      end
  end.

(** ScheduleWakeAt t on an event-driven component *)
Definition wake_at (w : world) (k : nat) (t : N) : world :=
  match nth_error (w_comps w) k with
  | None => w
  | Some c =>
      let go :=
        let c' := mk_comp (k_kind c) (k_sched c) (Some t) (k_ports c) (k_drain c) (k_relay c) (k_timers c) (k_pend c) in
        schedule (set_comps w (set_nth k c' (w_comps w))) false t k in
      match k_pending c with
      | Some p => if p <=? t then w else go
      | None => go
      end
  end.

(** connection x: TickNow *)
Definition conn_tick_now (w : world) (x : nat) : world :=
  match nth_error (w_conns w) x with
  | None => w
  | Some c =>
      let '(s', ev) := tick_now (w_guard w) (w_now w) (x_sched c) in
      sched_event (set_conns w (set_nth x (mk_cnx s' (x_ports c) (x_next c)) (w_conns w))) s' (ncomps w + x) ev
  end.

Definition owner_of (w : world) (g : nat) : nat := nth g (w_owner w) 0%nat.
Definition conn_of (w : world) (g : nat) : nat := nth g (w_connof w) 0%nat.

(** one callback made by port g *)
Definition apply_cb (w : world) (gn : nat * notif) : world :=
  let '(g, n) := gn in
  match n with
  | NRecv | NPortFree => notify_comp w (owner_of w g)
  | NSend => conn_tick_now w (conn_of w g)
  | NAvailable =>
      (* Comp.NotifyAvailable(p): every other plugged port forwards to its owner, then TickNow *)
      let x := conn_of w g in
      let others := match nth_error (w_conns w) x with
                    | Some c => filter (fun q => negb (Nat.eqb q g)) (x_ports c)
                    | None => [] end in
      conn_tick_now (fold_left (fun w' q => notify_comp w' (owner_of w' q)) others w) x
  end.

Definition apply_cbs (w : world) (cbs : list (nat * notif)) : world := fold_left apply_cb cbs w.

(** ------------------------------------------------------------------ *)
(** Scripted component activation. *)
Definition do_retrieve (w : world) (g : nat) : omsg * world :=
  match nth_error (w_ports w) g with
  | None => (None, w)
  | Some p =>
      match retrieve_incoming p with
      | Ok v p' ns => (v, apply_cbs (set_ports w (set_nth g p' (w_ports w))) (tag g ns))
      | _ => (None, halt w)
      end
  end.

Definition do_send (w : world) (g : nat) (m : msg) : bool * world :=
  match nth_error (w_ports w) g with
  | None => (false, w)
  | Some p =>
      if can_send p then
        match send (Some m) p with
        | Ok _ p' ns => (true, apply_cbs (set_ports w (set_nth g p' (w_ports w))) (tag g ns))
        | _ => (false, halt w)
        end
      else (false, w)
  end.

(** what a relay makes of a received message *)
Definition relayed (m : msg) (out : nat) (dst : N) : msg :=
  mk_msg (m_id m + 1000) (N.of_nat (S out)) dst (m_data m + 1).

(** retrieve up to [n] messages from port g; returns the relay sends to queue *)
Fixpoint drain_port (n : nat) (w : world) (g : nat) (relay : option (nat * N))
         (acc : list (nat * msg)) (cnt : nat) : world * list (nat * msg) * nat :=
  match n with
  | O => (w, acc, cnt)
  | S n' =>
      let '(v, w') := do_retrieve w g in
      match v with
      | None => (w', acc, cnt)
      | Some m =>
          (* a message is relayed at most three times (relays may form cycles) *)
          let acc' := match relay with
                      | Some (o, d) => if m_id m <? 3000 then acc ++ [(o, relayed m o d)] else acc
                      | None => acc end in
          drain_port n' w' g relay acc' (S cnt)
      end
  end.

Definition port_in_len (w : world) (g : nat) : nat :=
  match nth_error (w_ports w) g with Some p => length (content (p_in p)) | None => 0%nat end.

Fixpoint drain_all (w : world) (ps : list nat) (ds : list (option nat)) (rs : list (option (nat * N)))
         (acc : list (nat * msg)) (cnt : nat) : world * list (nat * msg) * nat :=
  match ps, ds, rs with
  | g :: ps', d :: ds', r :: rs' =>
      let n := match d with Some k => k | None => port_in_len w g end in
      let '(w', acc', cnt') := drain_port n w g r acc cnt in
      drain_all w' ps' ds' rs' acc' cnt'
  | _, _, _ => (w, acc, cnt)
  end.

(** try every pending send once, in order; keep those whose port is full *)
Fixpoint flush (w : world) (pend : list (nat * msg)) (kept : list (nat * msg)) (cnt : nat)
  : world * list (nat * msg) * nat :=
  match pend with
  | [] => (w, kept, cnt)
  | (g, m) :: r =>
      let '(ok, w') := do_send w g m in
      if ok then flush w' r kept (S cnt) else flush w' r (kept ++ [(g, m)]) cnt
  end.

Definition due (now : N) (t : N * nat * msg) : bool := fst (fst t) <=? now.

(** one activation of component k: returns (did something, world) *)
Definition activate (w : world) (k : nat) : bool * world :=
  match nth_error (w_comps w) k with
  | None => (false, w)
  | Some c =>
      let now := w_now w in
      let fired := map (fun t => (snd (fst t), snd t)) (filter (due now) (k_timers c)) in
      let timers' := filter (fun t => negb (due now t)) (k_timers c) in
      let '(w1, relays, nret) := drain_all w (k_ports c) (k_drain c) (k_relay c) [] 0%nat in
      let '(w2, kept, nsent) := flush w1 (k_pend c ++ fired ++ relays) [] 0%nat in
      (* the component's own record may have been touched by callbacks (its scheduler); re-read it *)
      match nth_error (w_comps w2) k with
      | None => (false, w2)
      | Some c2 =>
          let c3 := mk_comp (k_kind c2) (k_sched c2) (k_pending c2) (k_ports c2) (k_drain c2) (k_relay c2) timers' kept in
          (negb (Nat.eqb (nret + nsent) 0), set_comps w2 (set_nth k c3 (w_comps w2)))
      end
  end.

(** Handle of component k for an event at time t *)
Definition handle_comp (w : world) (k : nat) (t : N) : world :=
  match nth_error (w_comps w) k with
  | None => halt w
  | Some c =>
      match k_kind c with
      | KTick =>
          let c' := mk_comp (k_kind c) (mark_handled (k_sched c) t) (k_pending c) (k_ports c) (k_drain c) (k_relay c) (k_timers c) (k_pend c) in
          let '(pr, w1) := activate (set_comps w (set_nth k c' (w_comps w))) k in
          match nth_error (w_comps w1) k with
          | None => w1
          | Some c1 =>
              (* the scripted Ticker reports progress while it did something or still has planned sends *)
              if pr || negb (match k_timers c1 with [] => true | _ => false end)
              then notify_comp w1 k       (* TickLater *)
              else w1
          end
      | KEvent =>
          let c' := mk_comp (k_kind c) (k_sched c) None (k_ports c) (k_drain c) (k_relay c) (k_timers c) (k_pend c) in
          let '(_, w1) := activate (set_comps w (set_nth k c' (w_comps w))) k in
          match nth_error (w_comps w1) k with
          | None => w1
          | Some c1 =>
              match k_timers c1 with
              | [] => w1
              | tm :: _ => wake_at w1 k (fst (fst tm))
              end
          end
      end
  end.

(** Handle of connection x: middleware.Tick on its ports, then TickLater on progress *)
Definition handle_conn (w : world) (x : nat) (t : N) : world :=
  match nth_error (w_conns w) x with
  | None => halt w
  | Some c =>
      let c0 := mk_cnx (mark_handled (x_sched c) t) (x_ports c) (x_next c) in
      let w0 := set_conns w (set_nth x c0 (w_conns w)) in
      let local := flat_map (fun g => match nth_error (w_ports w0) g with Some p => [p] | None => [] end) (x_ports c) in
      match tick (mk_conn local (x_next c)) with
      | TickPanic => halt w0
      | TickOk pr cn cb _ =>
          let gid i := nth i (x_ports c) 0%nat in
          let ports' := fold_left (fun ps ip => set_nth (gid (fst ip)) (snd ip) ps)
                                  (combine (seq 0 (length (c_ports cn))) (c_ports cn)) (w_ports w0) in
          let w1 := set_ports w0 ports' in
          let w2 := set_conns w1 (upd x (fun cc => mk_cnx (x_sched cc) (x_ports cc) (c_next cn)) (w_conns w1)) in
          let w3 := apply_cbs w2 (map (fun ic => (gid (fst ic), snd ic)) cb) in
          if pr then
            match nth_error (w_conns w3) x with
            | None => w3
            | Some c3 =>
                let '(s', ev) := tick_later (w_now w3) (x_sched c3) in
                sched_event (set_conns w3 (set_nth x (mk_cnx s' (x_ports c3) (x_next c3)) (w_conns w3))) s' (ncomps w3 + x) ev
            end
          else w3
      end
  end.

(** the engine: next event = head of primary unless secondary is strictly earlier *)
Definition next_event (w : world) : option (N * nat * world) :=
  match w_prim w, w_sec w with
  | [], [] => None
  | (t, h) :: r, [] => Some (t, h, set_prim w r)
  | [], (t, h) :: r => Some (t, h, set_sec w r)
  | (t, h) :: r, (t', h') :: r' =>
      if t <=? t' then Some (t, h, set_prim w r) else Some (t', h', set_sec w r')
  end.

Definition dispatch (w : world) (t : N) (h : nat) : world :=
  let w' := set_now w t in
  if (h <? ncomps w')%nat then handle_comp w' h t else handle_conn w' (h - ncomps w') t.

(** Run: until both queues are empty (fuel bounds the number of events) *)
Fixpoint run (fuel : nat) (w : world) (trace : list (N * nat)) : list (N * nat) * world * bool :=
  match fuel with
  | O => (trace, w, false)
  | S f =>
      if w_halt w then (trace, w, true) else
      match next_event w with
      | None => (trace, w, true)
      | Some (t, h, w') => run f (dispatch w' t h) (trace ++ [(t, h)])
      end
  end.

(** ------------------------------------------------------------------ *)
(** The property at queue exhaustion. *)
Definition deliverable_head (w : world) (g : nat) : bool :=
  match nth_error (w_ports w) g with
  | None => false
  | Some p =>
      match peek_outgoing p with
      | None => false
      | Some m =>
          (* the destination is plugged into the same connection and has room *)
          let x := conn_of w g in
          match nth_error (w_conns w) x with
          | None => false
          | Some c =>
              existsb (fun q => match nth_error (w_ports w) q with
                                | Some d => (p_name d =? m_dst m) && can_deliver d
                                | None => false end) (x_ports c)
          end
      end
  end.

Definition draining (c : comp) : bool :=
  match k_kind c with
  | KTick => forallb (fun d => match d with Some O => false | _ => true end) (k_drain c)
  | KEvent => forallb (fun d => match d with None => true | _ => false end) (k_drain c)
  end.

Definition unread_at_draining (w : world) (g : nat) : bool :=
  match nth_error (w_comps w) (owner_of w g) with
  | Some c => draining c && negb (Nat.eqb (port_in_len w g) 0)
  | None => false
  end.

Definition quiescent_clean (w : world) : bool :=
  forallb (fun g => negb (deliverable_head w g) && negb (unread_at_draining w g)) (seq 0 (length (w_ports w))).

(** ------------------------------------------------------------------ *)
(** Building a world from a description (what the harness builds with the real API). *)
Record compd := mk_compd {
  d_kind : ckind; d_period : N;
  d_drain : list (option nat); d_relay : list (option (nat * N));
  d_timers : list (N * nat * msg) }.

Definition ports_where (f : list nat) (k : nat) : list nat :=
  flat_map (fun g => if Nat.eqb (nth g f 0%nat) k then [g] else []) (seq 0 (length f)).

Definition build (g : guard) (ports : list (Z * Z * nat * nat)) (comps : list compd) (conns : list N) : world :=
  let owner := map (fun p => snd (fst p)) ports in
  let connof := map snd ports in
  let mkp gp := new_port (N.of_nat (S (fst gp))) true (fst (fst (fst (snd gp)))) (snd (fst (fst (snd gp)))) in
  let ps := map mkp (combine (seq 0 (length ports)) ports) in
  let mkc kd :=
    mk_comp (d_kind (snd kd)) (mk_sched false 0 (d_period (snd kd)) false None) None
            (ports_where owner (fst kd)) (d_drain (snd kd)) (d_relay (snd kd)) (d_timers (snd kd)) [] in
  let cs := map mkc (combine (seq 0 (length comps)) comps) in
  let mkx xp := mk_cnx (mk_sched false 0 (snd xp) true None) (ports_where connof (fst xp)) 0 in
  let xs := map mkx (combine (seq 0 (length conns)) conns) in
  mk_world g 0 [] [] ps owner connof cs xs false.

(** component k: TickNow (initial kick of a ticking component) *)
Definition comp_tick_now (w : world) (k : nat) : world :=
  match nth_error (w_comps w) k with
  | None => w
  | Some c =>
      let '(s', ev) := tick_now (w_guard w) (w_now w) (k_sched c) in
      let c' := mk_comp (k_kind c) s' (k_pending c) (k_ports c) (k_drain c) (k_relay c) (k_timers c) (k_pend c) in
      sched_event (set_comps w (set_nth k c' (w_comps w))) s' k ev
  end.

(** the harness kicks every component that has planned sends: TickNow for a ticking
    one, ScheduleWakeAt(first planned time) for an event-driven one *)
Definition kick (w : world) : world :=
  fold_left (fun w' k =>
    match nth_error (w_comps w') k with
    | Some c =>
        match k_timers c with
        | [] => w'
        | tm :: _ => match k_kind c with KTick => comp_tick_now w' k | KEvent => wake_at w' k (fst (fst tm)) end
        end
    | None => w'
    end) (seq 0 (length (w_comps w))) w.
