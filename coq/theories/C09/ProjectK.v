(** C09 — projection of the executable whole-simulation model onto the abstract
    "draining component in an arbitrary environment" system of Drain.v (clause 2): world
    [w] is projected onto its component [k] — the incoming buffers of k's ports, k's
    scheduler / pendingWakeup and k's pending events in the primary queue.  Everything
    the other components and the connections do is environment. *)
From Coq Require Import Sorting.Permutation.
From Akita Require Import Lib.Base Lib.Fifo Lib.Port Lib.Conn C10.Model C10.Proofs
     C09.Model C09.Proofs C09.Project C09.Contract C09.ProjectN C09.ContractN C09.Drain.
Local Open Scope N_scope.

Definition isk (k : nat) (e : N * nat) : bool := Nat.eqb (snd e) k.
Definition kq (w : world) (k : nat) : list N := map fst (filter (isk k) (w_prim w)).
Definition kins (ps : list port) (c : comp) : list ibuf := map p_in (loc ps (k_ports c)).
Definition ekind (c : comp) : dkind := match k_kind c with KTick => DTick | KEvent => DEvent end.

Record WFk (w : world) : Prop := {
  wk_comps : Forall secfalse (w_comps w);
  wk_ports : Forall (fun p => p_has_comp p = true) (w_ports w);
  wk_conns : Forall (fun cx => s_sec (x_sched cx) = true) (w_conns w);
  wk_nonil : Forall (fun p => Forall (fun v : option msg => v <> None) (content (p_in p))) (w_ports w);
  wk_own : forall k c, nth_error (w_comps w) k = Some c ->
     NoDup (k_ports c) /\ forall g, In g (k_ports c) <-> (g < length (w_ports w))%nat /\ owner_of w g = k }.

Definition RK (k : nat) (a : bool) (w : world) (st : estate) : Prop :=
  exists c, nth_error (w_comps w) k = Some c /\ e_kind st = ekind c /\ e_ins st = kins (w_ports w) c /\
    e_sched st = k_sched c /\ e_pend st = k_pending c /\ e_now st = w_now w /\
    Permutation (e_q st) (kq w k) /\ e_act st = a.

(** the list of k's ports never changes *)
Definition kstat (c : comp) := (k_ports c, k_drain c, k_relay c, k_kind c).
Definition kports (w : world) (k : nat) := option_map kstat (nth_error (w_comps w) k).
Definition kportsl (w : world) (k : nat) : option (list nat) := option_map k_ports (nth_error (w_comps w) k).
Lemma kportsl_of w w' k : kports w' k = kports w k -> kportsl w' k = kportsl w k.
Proof.
  unfold kports, kportsl. destruct (nth_error (w_comps w') k) as [c'|], (nth_error (w_comps w) k) as [c|]; cbn; intro H;
    try discriminate; [|reflexivity]. injection H as H1 _ _ _. congruence.
Qed.

Lemma esteps_app a : forall st b,
  esteps st (a ++ b) = match esteps st a with Some st1 => esteps st1 b | None => None end.
Proof.
  induction a as [|x a IH]; intros st b; [reflexivity|]. cbn [app esteps].
  destruct (estep st x); [apply IH|reflexivity].
Qed.

(** [kins] only depends on the incoming buffers at k's ports *)
Lemma kins_ext ps ps' c : (forall g, In g (k_ports c) -> option_map p_in (nth_error ps' g) = option_map p_in (nth_error ps g)) ->
  kins ps' c = kins ps c.
Proof.
  unfold kins, loc. induction (k_ports c) as [|g l IH]; intro H; [reflexivity|]. cbn [flat_map].
  rewrite !map_app. rewrite IH by (intros g' Hg'; apply H; right; exact Hg'). f_equal.
  pose proof (H g (or_introl eq_refl)) as Hg.
  destruct (nth_error ps' g) as [p'|], (nth_error ps g) as [p|]; cbn in *; congruence.
Qed.

Lemma kins_set_same_in ps c g p p' : nth_error ps g = Some p -> p_in p' = p_in p ->
  kins (set_nth g p' ps) c = kins ps c.
Proof.
  intros Hg Hin. apply kins_ext. intros g' _. destruct (Nat.eq_dec g g') as [<-|Hne].
  - rewrite nth_set_nth_eq by (eapply nth_error_lt; eauto). rewrite Hg. cbn. congruence.
  - rewrite nth_set_nth_neq by exact Hne. reflexivity.
Qed.

Lemma kins_set_other ps c g p' : ~ In g (k_ports c) -> kins (set_nth g p' ps) c = kins ps c.
Proof.
  intro Hn. apply kins_ext. intros g' Hg'. rewrite nth_set_nth_neq; [reflexivity|]. intro E. subst. contradiction.
Qed.

Lemma map_set_nth {A B} (f : A -> B) i x l : map f (set_nth i x l) = set_nth i (f x) (map f l).
Proof. revert i; induction l as [|y l IH]; intros [|i]; cbn; auto. f_equal. apply IH. Qed.

Lemma kins_set_own ps c i g p' : Forall (fun g => (g < length ps)%nat) (k_ports c) -> NoDup (k_ports c) ->
  nth_error (k_ports c) i = Some g -> kins (set_nth g p' ps) c = set_nth i (p_in p') (kins ps c).
Proof.
  intros Hv Hnd Hi. unfold kins. rewrite (loc_set_in ps (k_ports c) Hv Hnd i g p' Hi). apply map_set_nth.
Qed.

Lemma kins_nth ps c i g p : Forall (fun g => (g < length ps)%nat) (k_ports c) ->
  nth_error (k_ports c) i = Some g -> nth_error ps g = Some p -> nth_error (kins ps c) i = Some (p_in p).
Proof.
  intros Hv Hi Hg. unfold kins. rewrite nth_error_map, (loc_nth ps _ Hv), Hi, Hg. reflexivity.
Qed.

(** inside an activation the inputs only shrink and "took" only rises *)
Definition Mono (st st' : estate) : Prop :=
  (e_kind st' = e_kind st /\ e_now st' = e_now st) /\
  (e_took st = true -> e_took st' = true) /\ length (e_ins st') = length (e_ins st) /\
  forall i b, nth_error (e_ins st) i = Some b ->
    exists b', nth_error (e_ins st') i = Some b' /\ exists m, content b' = skipn m (content b).

Lemma skipn_skipn' {A} (l : list A) : forall x y, skipn x (skipn y l) = skipn (x + y) l.
Proof.
  induction l as [|a l IH]; intros x y; [destruct x, y; reflexivity|].
  destruct y as [|y]; [rewrite Nat.add_0_r; reflexivity|].
  rewrite Nat.add_succ_r. cbn [skipn]. apply IH.
Qed.

Lemma mono_refl st : Mono st st.
Proof. repeat split; auto. intros i b H1. exists b. split; [exact H1|exists 0%nat; reflexivity]. Qed.

Lemma mono_trans a b c : Mono a b -> Mono b c -> Mono a c.
Proof.
  intros ((A0 & A0') & A1 & A2 & A3) ((B0 & B0') & B1 & B2 & B3). repeat split; auto; [congruence|congruence|congruence|].
  intros i x H1. destruct (A3 i x H1) as (y & Hy1 & m1 & Hm1). destruct (B3 i y Hy1) as (z & Hz1 & m2 & Hm2).
  exists z. split; [exact Hz1|]. exists (m2 + m1)%nat. rewrite Hm2, Hm1. apply skipn_skipn'.
Qed.

(** steps that touch neither the inputs nor "took" *)
Definition Same (st st' : estate) : Prop := e_ins st' = e_ins st /\ e_took st' = e_took st /\ e_kind st' = e_kind st /\ e_now st' = e_now st.
Lemma same_refl st : Same st st. Proof. repeat split; reflexivity. Qed.
Lemma same_trans a b c : Same a b -> Same b c -> Same a c.
Proof. intros (A1 & A2 & A3 & A4) (B1 & B2 & B3 & B4). repeat split; congruence. Qed.
Lemma same_mono st st' : Same st st' -> Mono st st'.
Proof.
  intros (A & B & C & D). unfold Mono. rewrite A, B, C, D. repeat split; auto.
  intros i b H1. exists b. split; [exact H1|exists 0%nat; reflexivity].
Qed.

Definition SimK (k : nat) (a : bool) (w w' : world) : Prop :=
  WFk w -> WFk w' /\ (w_owner w' = w_owner w /\ kports w' k = kports w k) /\
  forall st, RK k a w st -> exists acts st', esteps st acts = Some st' /\ RK k a w' st' /\ Same st st'.

Lemma simk_refl k a w : SimK k a w w.
Proof. intro H. split; [exact H|]. split; [split; reflexivity|]. intros st Hr. exists [], st. split; [reflexivity|]. split; [exact Hr|apply same_refl]. Qed.

Lemma simk_trans k a w1 w2 w3 : SimK k a w1 w2 -> SimK k a w2 w3 -> SimK k a w1 w3.
Proof.
  intros H12 H23 Hw. destruct (H12 Hw) as (Hw2 & (O2 & K2) & S12). destruct (H23 Hw2) as (Hw3 & (O3 & K3) & S23).
  split; [exact Hw3|]. split; [split; congruence|]. intros st Hr. destruct (S12 st Hr) as (a1 & st1 & E1 & R1 & M1).
  destruct (S23 st1 R1) as (a2 & st2 & E2 & R2 & M2). exists (a1 ++ a2), st2.
  rewrite esteps_app, E1. split; [exact E2|]. split; [exact R2|eapply same_trans; eauto].
Qed.

Lemma enotify_fields st : e_ins (enotify st) = e_ins st /\ e_took (enotify st) = e_took st /\
  e_act (enotify st) = e_act st /\ e_kind (enotify st) = e_kind st /\ e_now (enotify st) = e_now st.
Proof.
  unfold enotify. destruct (e_kind st) eqn:Ek.
  - destruct (tick_later (e_now st) (e_sched st)) as [s' ev]. cbn. auto.
  - destruct (e_pend st) as [p|]; [destruct (p <=? e_now st)|]; cbn; auto.
Qed.

Lemma same_enotify st : Same st (enotify st).
Proof. destruct (enotify_fields st) as (A & B & _ & D & E). repeat split; assumption. Qed.

Lemma wfk_comps_upd w k c c' : WFk w -> nth_error (w_comps w) k = Some c -> k_ports c' = k_ports c ->
  s_sec (k_sched c') = s_sec (k_sched c) -> forall w', w_comps w' = set_nth k c' (w_comps w) ->
  w_ports w' = w_ports w -> w_owner w' = w_owner w -> w_conns w' = w_conns w -> WFk w'.
Proof.
  intros [Hc Hp Hx Hn Ho] Hk Ep Es w' E1 E2 E3 E4. constructor.
  - rewrite E1. apply forall_set_nth; [exact Hc|]. unfold secfalse. rewrite Es.
    rewrite Forall_forall in Hc. exact (Hc c (nth_error_In _ _ Hk)).
  - rewrite E2. exact Hp.
  - rewrite E4. exact Hx.
  - rewrite E2. exact Hn.
  - intros k' c0 Hk'. rewrite E1 in Hk'. rewrite E2. unfold owner_of. rewrite E3.
    destruct (Nat.eq_dec k k') as [<-|Hne].
    + rewrite nth_set_nth_eq in Hk' by (eapply nth_error_lt; eauto). injection Hk' as <-. rewrite Ep. exact (Ho k c Hk).
    + rewrite nth_set_nth_neq in Hk' by exact Hne. exact (Ho k' c0 Hk').
Qed.

Lemma kq_sched_same w1 k s' ev q : s_sec s' = false -> Permutation q (kq w1 k) ->
  Permutation (q ++ olist ev) (kq (sched_event w1 s' k ev) k).
Proof.
  intros Hs Hq. unfold sched_event. destruct ev as [t|]; [|cbn [olist]; rewrite app_nil_r; exact Hq].
  unfold schedule. rewrite Hs. unfold kq. cbn [w_prim set_prim olist].
  rewrite (filter_insert_same (isk k) (t, k)) by (unfold isk; cbn; apply Nat.eqb_refl).
  cbn [fst]. fold (kq w1 k). rewrite <- Hq. symmetry. apply Permutation_cons_append.
Qed.

Lemma kq_sched_other w1 k k' s' ev : s_sec s' = false -> k' <> k -> kq (sched_event w1 s' k' ev) k = kq w1 k.
Proof.
  intros Hs Hne. unfold sched_event. destruct ev as [t|]; [|reflexivity].
  unfold schedule. rewrite Hs. unfold kq. cbn [w_prim set_prim]. rewrite filter_insert_other; [reflexivity|].
  unfold isk. cbn. apply Nat.eqb_neq. exact Hne.
Qed.

Lemma sched_event_fields w1 s' h ev : s_sec s' = false ->
  w_comps (sched_event w1 s' h ev) = w_comps w1 /\ w_ports (sched_event w1 s' h ev) = w_ports w1 /\
  w_owner (sched_event w1 s' h ev) = w_owner w1 /\ w_now (sched_event w1 s' h ev) = w_now w1 /\
  w_conns (sched_event w1 s' h ev) = w_conns w1.
Proof. intro Hs. unfold sched_event. destruct ev; [unfold schedule; rewrite Hs|]; cbn; auto 10. Qed.

Lemma kports_set_nth w k k' c c' : nth_error (w_comps w) k' = Some c -> kstat c' = kstat c ->
  option_map kstat (nth_error (set_nth k' c' (w_comps w)) k) = kports w k.
Proof.
  intros Hk E. unfold kports. destruct (Nat.eq_dec k' k) as [->|Hne].
  - rewrite nth_set_nth_eq by (eapply nth_error_lt; eauto). rewrite Hk. cbn. congruence.
  - rewrite nth_set_nth_neq by exact Hne. reflexivity.
Qed.

(** NotifyRecv / NotifyPortFree of component k' *)
Lemma notify_explicit k a w k' : WFk w ->
  WFk (notify_comp w k') /\ (w_owner (notify_comp w k') = w_owner w /\ kports (notify_comp w k') k = kports w k) /\
  forall st, RK k a w st -> RK k a (notify_comp w k') (if Nat.eqb k' k then enotify st else st).
Proof.
  intro Hw. unfold notify_comp. destruct (nth_error (w_comps w) k') as [c|] eqn:Ek'.
  2:{ split; [exact Hw|]. split; [split; reflexivity|]. intros st Hr.
      destruct (Nat.eqb k' k) eqn:E; [|exact Hr]. apply Nat.eqb_eq in E. subst k'.
      destruct Hr as (c0 & C1 & _). congruence. }
  assert (Hsf : s_sec (k_sched c) = false).
  { pose proof (wk_comps w Hw) as Hf. rewrite Forall_forall in Hf. exact (Hf c (nth_error_In _ _ Ek')). }
  destruct (k_kind c) eqn:Ekk.
  - (* ticking: TickLater *)
    pose proof (tick_later_sec (w_now w) (k_sched c)) as Hs.
    destruct (tick_later (w_now w) (k_sched c)) as [s' ev] eqn:Etl. cbn [fst] in Hs. rewrite Hsf in Hs.
    set (c' := mk_comp KTick s' (k_pending c) (k_ports c) (k_drain c) (k_relay c) (k_timers c) (k_pend c)).
    set (w1 := set_comps w (set_nth k' c' (w_comps w))).
    destruct (sched_event_fields w1 s' k' ev Hs) as (F1 & F2 & F3 & F4 & F5).
    split; [apply (wfk_comps_upd w k' c c' Hw Ek' eq_refl ltac:(cbn; congruence)); [exact F1|exact F2|exact F3|exact F5]|].
    split; [split; [exact F3|unfold kports at 1; rewrite F1; exact (kports_set_nth w k k' c c' Ek' ltac:(unfold kstat; cbn; rewrite Ekk; reflexivity))]|].
    intros st (c0 & C1 & C2 & C3 & C4 & C5 & C6 & C7 & C8).
    destruct (Nat.eq_dec k' k) as [->|Hne].
    + rewrite Ek' in C1. injection C1 as <-.
      assert (Ekd : e_kind st = DTick) by (rewrite C2; unfold ekind; rewrite Ekk; reflexivity).
      assert (Een : enotify st = with_sq st s' (e_pend st) (e_q st ++ olist ev) true).
      { unfold enotify. rewrite Ekd, C4, C6, Etl. reflexivity. }
      rewrite Nat.eqb_refl.
      rewrite Een. exists c'. rewrite F1, F2, F4. split.
      { unfold w1. cbn [w_comps set_comps]. apply nth_set_nth_eq. eapply nth_error_lt; eauto. }
      cbn. unfold ekind. cbn. repeat split; auto.
      apply kq_sched_same; [exact Hs|exact C7].
    + replace (Nat.eqb k' k) with false by (symmetry; apply Nat.eqb_neq; exact Hne).
      exists c0. rewrite F1, F2, F4. split.
      { unfold w1. cbn [w_comps set_comps]. rewrite nth_set_nth_neq by exact Hne. exact C1. }
      cbn. repeat split; auto. rewrite (kq_sched_other w1 k k' s' ev Hs Hne). exact C7.
  - (* event-driven: ScheduleWakeNow *)
    set (c' := mk_comp KEvent (k_sched c) (Some (w_now w)) (k_ports c) (k_drain c) (k_relay c) (k_timers c) (k_pend c)).
    set (wgo := schedule (set_comps w (set_nth k' c' (w_comps w))) false (w_now w) k').
    assert (Hgo : k_pending c = None \/ (exists p, k_pending c = Some p /\ (p <=? w_now w) = false) ->
              WFk wgo /\ (w_owner wgo = w_owner w /\ kports wgo k = kports w k) /\
              forall st, RK k a w st -> RK k a wgo (if Nat.eqb k' k then enotify st else st)).
    { intro Hpend. split; [eapply (wfk_comps_upd w k' c c'); eauto; reflexivity|].
      split; [split; [reflexivity|exact (kports_set_nth w k k' c c' Ek' ltac:(unfold kstat; cbn; rewrite Ekk; reflexivity))]|].
      intros st (c0 & C1 & C2 & C3 & C4 & C5 & C6 & C7 & C8).
      destruct (Nat.eq_dec k' k) as [->|Hne].
      - rewrite Ek' in C1. injection C1 as <-.
        rewrite Nat.eqb_refl.
        exists c'. unfold wgo, schedule. cbn [w_comps set_comps set_prim]. rewrite nth_set_nth_eq by (eapply nth_error_lt; eauto).
        split; [reflexivity|].
        assert (Een : enotify st = with_sq st (e_sched st) (Some (e_now st)) (e_q st ++ [e_now st]) true).
        { unfold enotify. unfold ekind in C2. rewrite Ekk in C2. rewrite C2, C5.
          destruct Hpend as [-> | (p & -> & Hp)]; [reflexivity|]. rewrite C6, Hp. reflexivity. }
        rewrite Een. unfold ekind. cbn. rewrite C6. repeat split; auto.
        + unfold ekind in C2. rewrite Ekk in C2. exact C2.
        + unfold kq. cbn [w_prim]. rewrite (filter_insert_same (isk k) (w_now w, k)) by (unfold isk; cbn; apply Nat.eqb_refl).
          cbn [fst]. fold (kq w k). rewrite <- C7. symmetry. apply Permutation_cons_append.
      - replace (Nat.eqb k' k) with false by (symmetry; apply Nat.eqb_neq; exact Hne).
        exists c0. unfold wgo, schedule. cbn [w_comps set_comps set_prim]. rewrite nth_set_nth_neq by exact Hne. split; [exact C1|].
        cbn. repeat split; auto. unfold kq. cbn [w_prim]. rewrite filter_insert_other; [exact C7|].
        unfold isk. cbn. apply Nat.eqb_neq. exact Hne. }
    destruct (k_pending c) as [p|] eqn:Epd.
    + destruct (p <=? w_now w) eqn:Ele.
      * (* already pending at or before now: dropped *)
        split; [exact Hw|]. split; [split; reflexivity|].
        intros st Hr. pose proof Hr as (c0 & C1 & C2 & C3 & C4 & C5 & C6 & C7 & C8).
        destruct (Nat.eq_dec k' k) as [->|Hne].
        -- rewrite Ek' in C1. injection C1 as <-.
           rewrite Nat.eqb_refl.
           assert (Een : enotify st = with_sq st (e_sched st) (e_pend st) (e_q st) true).
           { unfold enotify. unfold ekind in C2. rewrite Ekk in C2. rewrite C2, C5, Epd, C6, Ele. reflexivity. }
           rewrite Een. exists c. cbn. repeat split; auto.
        -- replace (Nat.eqb k' k) with false by (symmetry; apply Nat.eqb_neq; exact Hne). exact Hr.
      * apply Hgo. right. exists p. auto.
    + apply Hgo. left. reflexivity.
Qed.

Lemma notify_simK k a w k' : SimK k a w (notify_comp w k').
Proof.
  intro Hw. destruct (notify_explicit k a w k' Hw) as (A & B & C). split; [exact A|]. split; [exact B|].
  intros st Hr. specialize (C st Hr). destruct (Nat.eqb k' k).
  - exists [ENotify], (enotify st). split; [reflexivity|]. split; [exact C|apply same_enotify].
  - exists [], st. split; [reflexivity|]. split; [exact C|apply same_refl].
Qed.

(** ScheduleWakeAt t of component k' (event-driven, t not before now) *)
Lemma wake_simK k a w k' t : w_now w <= t ->
  (forall c, nth_error (w_comps w) k' = Some c -> k_kind c = KEvent) -> SimK k a w (wake_at w k' t).
Proof.
  intros Ht Hkind Hw. unfold wake_at. destruct (nth_error (w_comps w) k') as [c|] eqn:Ek'; [|exact (simk_refl k a w Hw)].
  pose proof (Hkind c eq_refl) as Ekk.
  set (c' := mk_comp (k_kind c) (k_sched c) (Some t) (k_ports c) (k_drain c) (k_relay c) (k_timers c) (k_pend c)).
  set (wgo := schedule (set_comps w (set_nth k' c' (w_comps w))) false t k').
  assert (Hgo : k_pending c = None \/ (exists p, k_pending c = Some p /\ (p <=? t) = false) ->
            WFk wgo /\ (w_owner wgo = w_owner w /\ kports wgo k = kports w k) /\
            forall st, RK k a w st -> exists acts st', esteps st acts = Some st' /\ RK k a wgo st' /\ Same st st').
  { intro Hpend. split; [eapply (wfk_comps_upd w k' c c'); eauto; reflexivity|].
    split; [split; [reflexivity|exact (kports_set_nth w k k' c c' Ek' eq_refl)]|].
    intros st (c0 & C1 & C2 & C3 & C4 & C5 & C6 & C7 & C8).
    destruct (Nat.eq_dec k' k) as [->|Hne].
    - rewrite Ek' in C1. injection C1 as <-.
      assert (Ekd : e_kind st = DEvent) by (rewrite C2; unfold ekind; rewrite Ekk; reflexivity).
      assert (Eew : ewake t st = with_sq st (e_sched st) (Some t) (e_q st ++ [t]) (e_dirty st)).
      { unfold ewake. rewrite C5. destruct Hpend as [-> | (p & -> & Hp)]; [reflexivity|]. rewrite Hp. reflexivity. }
      exists [EWakeAt t], (ewake t st). split.
      { cbn [esteps estep]. rewrite Ekd, C6. replace (w_now w <=? t) with true by (symmetry; apply N.leb_le; exact Ht). reflexivity. }
      split.
      + rewrite Eew. exists c'. unfold wgo, schedule. cbn [w_comps set_comps set_prim].
        rewrite nth_set_nth_eq by (eapply nth_error_lt; eauto). split; [reflexivity|].
        unfold ekind. cbn. rewrite Ekk. repeat split; auto.
        unfold kq. cbn [w_prim]. rewrite (filter_insert_same (isk k) (t, k)) by (unfold isk; cbn; apply Nat.eqb_refl).
        cbn [fst]. fold (kq w k). rewrite <- C7. symmetry. apply Permutation_cons_append.
      + rewrite Eew. repeat split; reflexivity.
    - exists [], st. split; [reflexivity|]. split; [|apply same_refl].
      exists c0. unfold wgo, schedule. cbn [w_comps set_comps set_prim]. rewrite nth_set_nth_neq by exact Hne. split; [exact C1|].
      cbn. repeat split; auto. unfold kq. cbn [w_prim]. rewrite filter_insert_other; [exact C7|].
      unfold isk. cbn. apply Nat.eqb_neq. exact Hne. }
  destruct (k_pending c) as [p|] eqn:Epd.
  - destruct (p <=? t) eqn:Ele; [|apply Hgo; right; exists p; auto].
    split; [exact Hw|]. split; [split; reflexivity|].
    intros st Hr. pose proof Hr as (c0 & C1 & C2 & C3 & C4 & C5 & C6 & C7 & C8).
    destruct (Nat.eq_dec k' k) as [->|Hne].
    + rewrite Ek' in C1. injection C1 as <-.
      assert (Ekd : e_kind st = DEvent) by (rewrite C2; unfold ekind; rewrite Ekk; reflexivity).
      exists [EWakeAt t], st. split.
      { cbn [esteps estep]. rewrite Ekd, C6. replace (w_now w <=? t) with true by (symmetry; apply N.leb_le; exact Ht).
        unfold ewake. rewrite C5, Epd, Ele. reflexivity. }
      split; [exact Hr|apply same_refl].
    + exists [], st. split; [reflexivity|]. split; [exact Hr|apply same_refl].
  - apply Hgo. left. reflexivity.
Qed.

(** TickNow / TickLater of any connection: environment *)
Lemma conn_req_simK k a later w x : SimK k a w (conn_req later w x).
Proof.
  intro Hw. unfold conn_req. destruct (nth_error (w_conns w) x) as [cx|] eqn:Ex; [|exact (simk_refl k a w Hw)].
  assert (Hsec : s_sec (x_sched cx) = true).
  { pose proof (wk_conns w Hw) as Hf. rewrite Forall_forall in Hf. exact (Hf cx (nth_error_In _ _ Ex)). }
  set (res := if later then tick_later (w_now w) (x_sched cx) else tick_now (w_guard w) (w_now w) (x_sched cx)).
  assert (Hs : s_sec (fst res) = true).
  { unfold res. destruct later; [rewrite tick_later_sec|rewrite tick_now_sec]; exact Hsec. }
  destruct res as [s' ev]. cbn [fst] in Hs.
  set (w1 := set_conns w (set_nth x (mk_cnx s' (x_ports cx) (x_next cx)) (w_conns w))).
  assert (Hfr : forall w', w_comps w' = w_comps w -> w_ports w' = w_ports w -> w_owner w' = w_owner w ->
                 w_now w' = w_now w -> w_prim w' = w_prim w -> w_conns w' = w_conns w1 ->
                 WFk w' /\ (w_owner w' = w_owner w /\ kports w' k = kports w k) /\
                 forall st, RK k a w st -> exists acts st', esteps st acts = Some st' /\ RK k a w' st' /\ Same st st').
  { intros w' E1 E2 E3 E4 E5 E6. split.
    - destruct Hw as [Hc Hp Hx Hn Ho]. constructor; [rewrite E1; exact Hc|rewrite E2; exact Hp| |rewrite E2; exact Hn|].
      + rewrite E6. unfold w1. cbn. apply forall_set_nth; [exact Hx|exact Hs].
      + intros k0 c0 Hk0. rewrite E1 in Hk0. rewrite E2. unfold owner_of. rewrite E3. exact (Ho k0 c0 Hk0).
    - split; [split; [exact E3|unfold kports; rewrite E1; reflexivity]|]. intros st (c0 & C1 & C2 & C3 & C4 & C5 & C6 & C7 & C8).
      exists [], st. split; [reflexivity|]. split; [|apply same_refl].
      exists c0. unfold kq. rewrite E1, E2, E4, E5. auto 10. }
  unfold sched_event. destruct ev as [t|]; [|apply Hfr; reflexivity].
  unfold schedule. rewrite Hs. apply Hfr; reflexivity.
Qed.

Lemma fold_notify_simK k a l : forall w, SimK k a w (fold_left (fun w' q => notify_comp w' (owner_of w' q)) l w).
Proof.
  induction l as [|q l IH]; intro w; cbn [fold_left]; [apply simk_refl|].
  eapply simk_trans; [apply notify_simK|apply IH].
Qed.

Lemma apply_cb_simK k a w gn : SimK k a w (apply_cb w gn).
Proof.
  destruct gn as [g n]. destruct n; cbn [apply_cb].
  - rewrite conn_tick_now_req. apply conn_req_simK.
  - apply notify_simK.
  - apply notify_simK.
  - set (others := match nth_error (w_conns w) (conn_of w g) with
                   | Some c => filter (fun q => negb (Nat.eqb q g)) (x_ports c) | None => [] end).
    apply (simk_trans k a w (fold_left (fun w' q => notify_comp w' (owner_of w' q)) others w));
      [apply fold_notify_simK|rewrite conn_tick_now_req; apply conn_req_simK].
Qed.

Lemma apply_cbs_simK k a cbs : forall w, SimK k a w (apply_cbs w cbs).
Proof.
  unfold apply_cbs. induction cbs as [|c cbs IH]; intro w; cbn [fold_left]; [apply simk_refl|].
  eapply simk_trans; [apply apply_cb_simK|apply IH].
Qed.

(** ------------------------------------------------------------------ *)
(** port operations *)
Lemma wfk_set_port w g p p' : WFk w -> nth_error (w_ports w) g = Some p -> p_has_comp p' = true ->
  Forall (fun v : option msg => v <> None) (content (p_in p')) ->
  WFk (set_ports w (set_nth g p' (w_ports w))).
Proof.
  intros [Hc Hp Hx Hn Ho] Hg Hh Hnn. constructor; cbn; auto.
  - apply forall_set_nth; assumption.
  - apply forall_set_nth; assumption.
  - intros k c Hk. rewrite set_nth_length. exact (Ho k c Hk).
Qed.

Lemma own_valid w k c : WFk w -> nth_error (w_comps w) k = Some c ->
  Forall (fun g => (g < length (w_ports w))%nat) (k_ports c).
Proof.
  intros Hw Hk. destruct (wk_own w Hw k c Hk) as (_ & Hin). apply Forall_forall. intros g Hg. apply Hin in Hg. tauto.
Qed.

Lemma rk_set_port k a w g p' st : WFk w ->
  (forall c, nth_error (w_comps w) k = Some c -> kins (set_nth g p' (w_ports w)) c = kins (w_ports w) c) ->
  RK k a w st -> RK k a (set_ports w (set_nth g p' (w_ports w))) st.
Proof.
  intros Hw Hk (c & C1 & C2 & C3 & C4 & C5 & C6 & C7 & C8). exists c. cbn. rewrite (Hk c C1). auto 10.
Qed.

Lemma do_send_simK k a w g m : SimK k a w (snd (do_send w g m)).
Proof.
  unfold do_send. destruct (nth_error (w_ports w) g) as [p|] eqn:Ep; [|apply simk_refl].
  destruct (can_send p); [|apply simk_refl].
  destruct (send (Some m) p) as [u p' ns| |] eqn:Es; cbn [snd].
  2,3: (intro Hw; split; [destruct Hw as [Hc Hp Hx Hn Ho]; constructor; cbn; auto|]; split; [split; reflexivity|];
        intros st (c & C1 & C2 & C3 & C4 & C5 & C6 & C7 & C8); exists [], st; split; [reflexivity|];
        split; [exists c; cbn; auto 10|apply same_refl]).
  destruct (send_spec _ _ _ _ _ Es) as (_ & _ & _ & _ & Hin & _ & Hhc & _).
  eapply simk_trans; [|apply apply_cbs_simK].
  intro Hw. pose proof (wk_ports w Hw) as Hpf. rewrite Forall_forall in Hpf.
  pose proof (wk_nonil w Hw) as Hnf. rewrite Forall_forall in Hnf.
  split; [eapply wfk_set_port; eauto; [rewrite Hhc; exact (Hpf p (nth_error_In _ _ Ep))|rewrite Hin; exact (Hnf p (nth_error_In _ _ Ep))]|].
  split; [split; reflexivity|].
  intros st Hr. exists [], st. split; [reflexivity|]. split; [|apply same_refl].
  apply rk_set_port; [exact Hw| |exact Hr]. intros c _. eapply kins_set_same_in; eauto.
Qed.

(** RetrieveIncoming on a port that is not k's *)
Lemma do_retrieve_simK_other k a w g : owner_of w g <> k -> SimK k a w (snd (do_retrieve w g)).
Proof.
  intro Hne. unfold do_retrieve. destruct (nth_error (w_ports w) g) as [p|] eqn:Ep; [|apply simk_refl].
  destruct (retrieve_incoming p) as [v p' ns| |] eqn:Er; cbn [snd].
  2,3: (intro Hw; split; [destruct Hw as [Hc Hp Hx Hn Ho]; constructor; cbn; auto|]; split; [split; reflexivity|];
        intros st (c & C1 & C2 & C3 & C4 & C5 & C6 & C7 & C8); exists [], st; split; [reflexivity|];
        split; [exists c; cbn; auto 10|apply same_refl]).
  destruct (retrieve_incoming_spec _ _ _ _ Er) as (Hcin & _ & _ & _ & Hhc & _).
  eapply simk_trans; [|apply apply_cbs_simK].
  intro Hw. pose proof (wk_ports w Hw) as Hpf. rewrite Forall_forall in Hpf.
  pose proof (wk_nonil w Hw) as Hnf. rewrite Forall_forall in Hnf.
  assert (Hnn : Forall (fun v : option msg => v <> None) (content (p_in p'))).
  { rewrite Hcin. pose proof (Hnf p (nth_error_In _ _ Ep)) as H0. destruct (content (p_in p)); [constructor|inversion H0; assumption]. }
  split; [eapply wfk_set_port; eauto; rewrite Hhc; exact (Hpf p (nth_error_In _ _ Ep))|]. split; [split; reflexivity|].
  intros st Hr. exists [], st. split; [reflexivity|]. split; [|apply same_refl].
  apply rk_set_port; [exact Hw| |exact Hr]. intros c Hc. apply kins_set_other.
  intro Hin. destruct (wk_own w Hw k c Hc) as (_ & Hi). apply Hi in Hin. tauto.
Qed.

Lemma ri_total p : exists v p' ns, retrieve_incoming p = Ok v p' ns.
Proof.
  unfold retrieve_incoming. destruct (size (p_in p) =? 0)%Z; [eauto|].
  destruct (pop nilmsg (p_in p)) as [v i']. eauto.
Qed.

(** RetrieveIncoming on k's own port number i, inside k's activation: exactly [ERetrieve i] *)
Lemma do_retrieve_own k w g i c st : WFk w -> nth_error (w_comps w) k = Some c -> nth_error (k_ports c) i = Some g ->
  RK k true w st ->
  let '(v, w1) := do_retrieve w g in
  exists st1 b, nth_error (e_ins st) i = Some b /\
    esteps st [ERetrieve i] = Some st1 /\
    (bempty b = true -> st1 = st /\ v = None) /\
    (bempty b = false -> v = hd None (content b) /\ e_took st1 = true /\
                         e_ins st1 = set_nth i (snd (pop nilmsg b)) (e_ins st) /\ Mono st st1) /\
    exists w0 cbs, w1 = apply_cbs w0 cbs /\ RK k true w0 st1 /\ WFk w0 /\ w_owner w0 = w_owner w /\ kports w0 k = kports w k.
Proof.
  intros Hw Hk Hi Hr. pose proof Hr as (c0 & C1 & C2 & C3 & C4 & C5 & C6 & C7 & C8).
  rewrite Hk in C1. injection C1 as <-.
  pose proof (own_valid w k c Hw Hk) as Hv. destruct (wk_own w Hw k c Hk) as (Hnd & Hin).
  assert (Hg : (g < length (w_ports w))%nat).
  { rewrite Forall_forall in Hv. apply Hv. eapply nth_error_In; eauto. }
  destruct (nth_error (w_ports w) g) as [p|] eqn:Ep; [|apply nth_error_None in Ep; lia].
  unfold do_retrieve. rewrite Ep.
  destruct (ri_total p) as (v & p' & ns & Er). rewrite Er.
  destruct (retrieve_incoming_spec _ _ _ _ Er) as (Hcin & _ & _ & _ & Hhc & Hvv & _).
  pose proof (kins_nth (w_ports w) c i g p Hv Hi Ep) as Hb. rewrite <- C3 in Hb.
  pose proof (wk_ports w Hw) as Hpf. rewrite Forall_forall in Hpf.
  pose proof (wk_nonil w Hw) as Hnf. rewrite Forall_forall in Hnf.
  assert (Hnn : Forall (fun v : option msg => v <> None) (content (p_in p'))).
  { rewrite Hcin. pose proof (Hnf p (nth_error_In _ _ Ep)) as H0. destruct (content (p_in p)); [constructor|inversion H0; assumption]. }
  assert (Hw0 : WFk (set_ports w (set_nth g p' (w_ports w)))).
  { eapply wfk_set_port; eauto. rewrite Hhc. exact (Hpf p (nth_error_In _ _ Ep)). }
  assert (Hpin : p_in p' = if bempty (p_in p) then p_in p else snd (pop nilmsg (p_in p))).
  { unfold retrieve_incoming in Er. unfold bempty. destruct (size (p_in p) =? 0)%Z.
    - injection Er as _ <- _. reflexivity.
    - destruct (pop nilmsg (p_in p)) as [v0 i0]. injection Er as _ <- _. reflexivity. }
  destruct (bempty (p_in p)) eqn:Ee.
  - exists st, (p_in p). split; [exact Hb|]. split; [cbn [esteps estep]; rewrite C8, Hb, Ee; reflexivity|].
    split; [intros _; split; [reflexivity|]|split; [rewrite Ee; discriminate|]].
    + rewrite Hvv. unfold bempty in Ee. rewrite size_zero_nil in Ee. destruct (content (p_in p)); [reflexivity|discriminate].
    + eexists. exists (tag g ns). split; [reflexivity|]. split; [|split; [exact Hw0|split; reflexivity]].
      apply rk_set_port; [exact Hw| |exact Hr]. intros c' Hc'. eapply kins_set_same_in; eauto.
  - set (st1 := mk_es (e_kind st) (set_nth i (snd (pop nilmsg (p_in p))) (e_ins st)) (e_sched st) (e_pend st)
                      (e_q st) (e_now st) (e_dirty st) true true).
    exists st1, (p_in p). split; [exact Hb|]. split; [cbn [esteps estep]; rewrite C8, Hb, Ee; reflexivity|].
    split; [rewrite Ee; discriminate|]. split.
    + intros _. split; [exact Hvv|]. split; [reflexivity|]. split; [reflexivity|].
      unfold Mono, st1. cbn. split; [split; reflexivity|]. split; [auto|]. split; [apply set_nth_length|].
      intros j b Hj. destruct (Nat.eq_dec i j) as [<-|Hne].
      * rewrite Hb in Hj. injection Hj as <-. exists (snd (pop nilmsg (p_in p))).
        split; [apply nth_set_nth_eq; eapply nth_error_lt; eauto|]. exists 1%nat. rewrite pop_content.
        destruct (content (p_in p)); reflexivity.
      * exists b. rewrite nth_set_nth_neq by exact Hne. split; [exact Hj|exists 0%nat; reflexivity].
    + eexists. exists (tag g ns). split; [reflexivity|]. split; [|split; [exact Hw0|split; reflexivity]].
      exists c. unfold st1. cbn. rewrite (kins_set_own (w_ports w) c i g p' Hv Hnd Hi), Hpin, <- C3.
      split; [exact Hk|]. repeat split; auto.
Qed.


(** ------------------------------------------------------------------ *)
(** k's own activation: draining *)
Definition T (st : estate) (cnt : nat) : Prop := e_took st = true -> (0 < cnt)%nat.
Definition blen (st : estate) (i : nat) : nat :=
  match nth_error (e_ins st) i with Some b => length (content b) | None => 0%nat end.

Lemma blen_mono st st' i : Mono st st' -> (blen st' i <= blen st i)%nat.
Proof.
  intros (_ & _ & Hl & Hm). unfold blen. destruct (nth_error (e_ins st) i) as [b|] eqn:E.
  - destruct (Hm i b E) as (b' & -> & m & ->). rewrite skipn_length. lia.
  - assert (nth_error (e_ins st') i = None) as ->; [|lia].
    apply nth_error_None. rewrite Hl. apply nth_error_None. exact E.
Qed.

Lemma bempty_len (b : ibuf) : bempty b = true <-> length (content b) = 0%nat.
Proof. unfold bempty, size. split; intro H; lia. Qed.

Lemma ins_nonil k a w st : WFk w -> RK k a w st ->
  Forall (fun b : ibuf => Forall (fun v : option msg => v <> None) (content b)) (e_ins st).
Proof.
  intros Hw (c & _ & _ & C3 & _). rewrite C3. unfold kins. apply Forall_map.
  pose proof (wk_nonil w Hw) as Hn. rewrite Forall_forall in *. intros p Hp. apply Hn. eapply in_loc; eauto.
Qed.

Lemma drain_port_own k i g n : forall w st r acc cnt kp,
  WFk w -> kportsl w k = Some kp -> nth_error kp i = Some g -> RK k true w st -> T st cnt ->
  let '(w', acc', cnt') := drain_port n w g r acc cnt in
  exists acts st', esteps st acts = Some st' /\ RK k true w' st' /\ WFk w' /\
    (w_owner w' = w_owner w /\ kports w' k = kports w k) /\ Mono st st' /\ T st' cnt' /\
    ((blen st i <= n)%nat -> blen st' i = 0%nat) /\ ((1 <= n)%nat -> (0 < blen st i)%nat -> e_took st' = true).
Proof.
  induction n as [|n IH]; intros w st r acc cnt kp Hw Hkp Hi Hr HT; cbn [drain_port].
  - exists [], st. split; [reflexivity|]. split; [exact Hr|]. split; [exact Hw|]. split; [split; reflexivity|].
    split; [apply mono_refl|]. split; [exact HT|]. split; [lia|lia].
  - pose proof Hr as (c & C1 & _).
    assert (Ekp : k_ports c = kp) by (unfold kportsl in Hkp; rewrite C1 in Hkp; cbn in Hkp; congruence).
    pose proof Hi as Hi'. rewrite <- Ekp in Hi'.
    pose proof (do_retrieve_own k w g i c st Hw C1 Hi' Hr) as Hd.
    pose proof (ins_nonil k true w st Hw Hr) as Hnil.
    destruct (do_retrieve w g) as [v w1].
    destruct Hd as (st1 & b & Hb & E1 & Hemp & Hne & w0 & cbs & -> & Hr0 & Hw0 & Ho0 & Hk0).
    destruct (apply_cbs_simK k true cbs w0 Hw0) as (Hw1 & (Ho1 & Hk1) & S1).
    destruct (S1 st1 Hr0) as (a2 & st2 & E2 & Hr2 & M2).
    assert (Hbl : blen st i = length (content b)) by (unfold blen; rewrite Hb; reflexivity).
    destruct (bempty b) eqn:Ee.
    + (* empty: RetrieveIncoming returns nil, the drain loop stops *)
      destruct (Hemp eq_refl) as (-> & ->).
      pose proof (same_mono _ _ M2) as Mm. destruct M2 as (M2a & M2b & M2c).
      exists ([ERetrieve i] ++ a2), st2. rewrite esteps_app, E1. split; [exact E2|]. split; [exact Hr2|]. split; [exact Hw1|].
      split; [split; congruence|]. split; [exact Mm|].
      split; [unfold T; rewrite M2b; exact HT|].
      apply bempty_len in Ee.
      split; [intros _; pose proof (blen_mono _ _ i Mm); lia|intros _ H0; lia].
    + (* non-empty: a message comes out, the loop goes on *)
      destruct (Hne eq_refl) as (Hv & Htk & Hins & M1).
      assert (Hvs : exists m, v = Some m).
      { rewrite Hv. rewrite Forall_forall in Hnil. pose proof (Hnil b (nth_error_In _ _ Hb)) as Hnb.
        assert (Hcn : content b <> []) by (intro Hc0; unfold bempty, size in Ee; rewrite Hc0 in Ee; discriminate).
        destruct (content b) as [|x rest]; [congruence|]. inversion Hnb as [|? ? Hx _]; subst. destruct x as [mx|]; [exists mx; reflexivity|congruence]. }
      destruct Hvs as (m & ->).
      pose proof (same_mono _ _ M2) as Mm. destruct M2 as (M2a & M2b & M2c).
      assert (HT2 : T st2 (S cnt)) by (intros _; lia).
      pose proof (IH (apply_cbs w0 cbs) st2 r (match r with Some (o, d) => if (m_id m <? 3000)%N then acc ++ [(o, relayed m o d)] else acc | None => acc end)
                     (S cnt) kp Hw1 ltac:(rewrite (kportsl_of _ _ _ Hk1), (kportsl_of _ _ _ Hk0); exact Hkp) Hi Hr2 HT2) as H3.
      destruct (drain_port n (apply_cbs w0 cbs) g r _ (S cnt)) as [[w3 acc3] cnt3].
      destruct H3 as (a3 & st3 & E3 & Hr3 & Hw3 & (Ho3 & Hk3) & M3 & T3 & B3 & _).
      exists ([ERetrieve i] ++ a2 ++ a3), st3. rewrite esteps_app, E1, esteps_app, E2.
      split; [exact E3|]. split; [exact Hr3|]. split; [exact Hw3|]. split; [split; congruence|].
      assert (M13 : Mono st st3) by (eapply mono_trans; [exact M1|eapply mono_trans; [exact Mm|exact M3]]).
      split; [exact M13|]. split; [exact T3|].
      assert (Hb2 : blen st2 i = (length (content b) - 1)%nat).
      { unfold blen. rewrite M2a, Hins. rewrite nth_set_nth_eq by (eapply nth_error_lt; eauto).
        rewrite pop_content. destruct (content b); cbn [tl length]; lia. }
      split.
      * intro Hle. apply B3. lia.
      * intros _ _. destruct M3 as (_ & Mt & _). apply Mt. rewrite M2b. exact Htk.
Qed.

Definition okp (st : estate) (i : nat) : Prop := blen st i = 0%nat \/ (e_kind st = DTick /\ e_took st = true).

Lemma okp_mono st st' i : Mono st st' -> okp st i -> okp st' i.
Proof.
  intros M [H|[H1 H2]]; [left; pose proof (blen_mono _ _ i M); lia|right].
  destruct M as ((Mk & _) & Mt & _). split; [congruence|auto].
Qed.

(** the drain limits of a component that drains its inputs *)
Definition dr_ok (kd : dkind) (d : option nat) : Prop :=
  match kd, d with
  | DEvent, None => True
  | DEvent, Some _ => False
  | DTick, None => True
  | DTick, Some n => (1 <= n)%nat
  end.

Lemma port_len_blen k w st c i g : WFk w -> RK k true w st -> nth_error (w_comps w) k = Some c ->
  nth_error (k_ports c) i = Some g -> port_in_len w g = blen st i.
Proof.
  intros Hw (c0 & C1 & _ & C3 & _) Hk Hi. rewrite Hk in C1. injection C1 as <-.
  pose proof (own_valid w k c Hw Hk) as Hv.
  assert (Hg : (g < length (w_ports w))%nat) by (rewrite Forall_forall in Hv; apply Hv; eapply nth_error_In; eauto).
  unfold port_in_len, blen. destruct (nth_error (w_ports w) g) as [p|] eqn:Ep; [|apply nth_error_None in Ep; lia].
  rewrite C3, (kins_nth _ c i g p Hv Hi Ep). reflexivity.
Qed.

Lemma drain_all_own k ps : forall j w st ds rs acc cnt kp,
  WFk w -> kportsl w k = Some kp ->
  (forall idx g, nth_error ps idx = Some g -> nth_error kp (j + idx) = Some g) ->
  RK k true w st -> T st cnt -> length ds = length ps -> length rs = length ps -> Forall (dr_ok (e_kind st)) ds ->
  let '(w', acc', cnt') := drain_all w ps ds rs acc cnt in
  exists acts st', esteps st acts = Some st' /\ RK k true w' st' /\ WFk w' /\
    (w_owner w' = w_owner w /\ kports w' k = kports w k) /\ Mono st st' /\ T st' cnt' /\
    forall idx, (idx < length ps)%nat -> okp st' (j + idx).
Proof.
  induction ps as [|g ps IH]; intros j w st ds rs acc cnt kp Hw Hkp Hidx Hr HT Hl1 Hl2 Hdr; cbn [drain_all].
  - exists [], st. split; [reflexivity|]. split; [exact Hr|]. split; [exact Hw|]. split; [split; reflexivity|].
    split; [apply mono_refl|]. split; [exact HT|]. intros idx H. cbn in H. lia.
  - destruct ds as [|d ds]; [discriminate|]. destruct rs as [|r rs]; [discriminate|].
    cbn [length] in Hl1, Hl2. inversion Hdr as [|? ? Hd Hdr']; subst.
    pose proof (Hidx 0%nat g eq_refl) as Hi0. rewrite Nat.add_0_r in Hi0.
    pose proof Hr as (c & C1 & _).
    assert (Ekp : k_ports c = kp) by (unfold kportsl in Hkp; rewrite C1 in Hkp; cbn in Hkp; congruence).
    assert (Hpl : port_in_len w g = blen st j) by (eapply port_len_blen; eauto; rewrite Ekp; exact Hi0).
    set (n := match d with Some k0 => k0 | None => port_in_len w g end).
    pose proof (drain_port_own k j g n w st r acc cnt kp Hw Hkp Hi0 Hr HT) as H1.
    destruct (drain_port n w g r acc cnt) as [[w1 acc1] cnt1].
    destruct H1 as (a1 & st1 & E1 & Hr1 & Hw1 & (Ho1 & Hk1) & M1 & T1 & B1 & K1).
    assert (Hok0 : okp st1 j).
    { destruct (Nat.eq_dec (blen st j) 0) as [Hz|Hnz].
      - left. pose proof (blen_mono _ _ j M1). lia.
      - unfold n in *. destruct d as [k0|].
        + destruct (e_kind st) eqn:Ekd; cbn in Hd; [|destruct Hd].
          right. destruct M1 as ((Mk & _) & _). split; [congruence|]. apply K1; lia.
        + left. apply B1. lia. }
    assert (Hdr1 : Forall (dr_ok (e_kind st1)) ds) by (destruct M1 as ((Mk & _) & _); rewrite Mk; exact Hdr').
    pose proof (IH (S j) w1 st1 ds rs acc1 cnt1 kp Hw1 ltac:(rewrite (kportsl_of _ _ _ Hk1); exact Hkp)
                   ltac:(intros idx g' Hg'; rewrite <- (Hidx (S idx) g' Hg'); f_equal; lia)
                   Hr1 T1 ltac:(lia) ltac:(lia) Hdr1) as H2.
    destruct (drain_all w1 ps ds rs acc1 cnt1) as [[w2 acc2] cnt2].
    destruct H2 as (a2 & st2 & E2 & Hr2 & Hw2 & (Ho2 & Hk2) & M2 & T2 & Hall).
    exists (a1 ++ a2), st2. rewrite esteps_app, E1. split; [exact E2|]. split; [exact Hr2|]. split; [exact Hw2|].
    split; [split; congruence|]. split; [eapply mono_trans; eauto|]. split; [exact T2|].
    intros idx Hidx'. destruct idx as [|idx].
    + rewrite Nat.add_0_r. eapply okp_mono; eauto.
    + replace (j + S idx)%nat with (S j + idx)%nat by lia. apply Hall. cbn in Hidx'. lia.
Qed.

(** sends on own ports do not touch the inputs *)
Lemma flush_simK k a pend : forall w kept cnt, SimK k a w (fst (fst (flush w pend kept cnt))).
Proof.
  induction pend as [|[g m] pend IH]; intros w kept cnt; cbn [flush]; [apply simk_refl|].
  pose proof (do_send_simK k a w g m) as H. destruct (do_send w g m) as [ok w1]. cbn [snd] in H.
  destruct ok; (eapply simk_trans; [exact H|apply IH]).
Qed.

(** ------------------------------------------------------------------ *)
(** activations of the other components: environment *)
Lemma simk_trans_dep k a w1 w2 w3 : SimK k a w1 w2 -> (w_owner w2 = w_owner w1 -> SimK k a w2 w3) -> SimK k a w1 w3.
Proof.
  intros H12 H23 Hw. destruct (H12 Hw) as (_ & (O2 & _) & _). exact (simk_trans k a w1 w2 w3 H12 (H23 O2) Hw).
Qed.

Lemma drain_port_other k a n : forall w g r acc cnt, owner_of w g <> k ->
  SimK k a w (fst (fst (drain_port n w g r acc cnt))).
Proof.
  induction n as [|n IH]; intros w g r acc cnt Hne; cbn [drain_port]; [apply simk_refl|].
  pose proof (do_retrieve_simK_other k a w g Hne) as H. destruct (do_retrieve w g) as [v w1]. cbn [snd] in H.
  destruct v as [m|]; [|exact H]. eapply simk_trans_dep; [exact H|]. intro Ho. apply IH. unfold owner_of in *. rewrite Ho. exact Hne.
Qed.

Lemma drain_all_other k a ps : forall w ds rs acc cnt, Forall (fun g => owner_of w g <> k) ps ->
  SimK k a w (fst (fst (drain_all w ps ds rs acc cnt))).
Proof.
  induction ps as [|g ps IH]; intros w ds rs acc cnt Hf; cbn [drain_all]; [apply simk_refl|].
  destruct ds as [|d ds]; [apply simk_refl|]. destruct rs as [|r rs]; [apply simk_refl|].
  inversion Hf as [|? ? Hg Hps]; subst.
  pose proof (drain_port_other k a (match d with Some k0 => k0 | None => port_in_len w g end) w g r acc cnt Hg) as H.
  destruct (drain_port _ w g r acc cnt) as [[w1 acc1] cnt1]. cbn [fst] in H.
  eapply simk_trans_dep; [exact H|]. intro Ho. apply IH.
  eapply Forall_impl; [|exact Hps]. intros g' Hg'. unfold owner_of in *. rewrite Ho. exact Hg'.
Qed.

(** replacing component k' by a record with the same ports, scheduler flag *)
Lemma set_comp_simK k a w k' c c' : nth_error (w_comps w) k' = Some c -> kstat c' = kstat c ->
  s_sec (k_sched c') = s_sec (k_sched c) ->
  (k' = k -> k_kind c' = k_kind c /\ k_sched c' = k_sched c /\ k_pending c' = k_pending c) ->
  SimK k a w (set_comps w (set_nth k' c' (w_comps w))).
Proof.
  intros Hk' Eks Es Hself Hw. assert (Ep : k_ports c' = k_ports c) by (unfold kstat in Eks; congruence).
  split; [eapply (wfk_comps_upd w k' c c'); eauto|].
  split; [split; [reflexivity|exact (kports_set_nth w k k' c c' Hk' Eks)]|].
  intros st (c0 & C1 & C2 & C3 & C4 & C5 & C6 & C7 & C8). exists [], st. split; [reflexivity|]. split; [|apply same_refl].
  destruct (Nat.eq_dec k' k) as [->|Hne].
  - rewrite Hk' in C1. injection C1 as <-. destruct (Hself eq_refl) as (K1 & K2 & K3).
    exists c'. cbn [w_comps set_comps]. rewrite nth_set_nth_eq by (eapply nth_error_lt; eauto).
    split; [reflexivity|]. unfold ekind, kins. rewrite K1, K2, K3, Ep. cbn. auto 10.
  - exists c0. cbn [w_comps set_comps]. rewrite nth_set_nth_neq by exact Hne. split; [exact C1|]. cbn. auto 10.
Qed.

Lemma activate_other k a w k' : k' <> k -> SimK k a w (snd (activate w k')).
Proof.
  intros Hne Hw. revert Hw. change (SimK k a w (snd (activate w k'))).
  unfold activate. destruct (nth_error (w_comps w) k') as [c|] eqn:Ek'; [|apply simk_refl].
  intro Hw. revert Hw. change (SimK k a w (snd (
    let '(w1, relays, nret) := drain_all w (k_ports c) (k_drain c) (k_relay c) [] 0%nat in
    let '(w2, kept, nsent) := flush w1 (k_pend c ++ map (fun t => (snd (fst t), snd t)) (filter (due (w_now w)) (k_timers c)) ++ relays) [] 0%nat in
    match nth_error (w_comps w2) k' with
    | None => (false, w2)
    | Some c2 => (negb (Nat.eqb (nret + nsent) 0),
                  set_comps w2 (set_nth k' (mk_comp (k_kind c2) (k_sched c2) (k_pending c2) (k_ports c2) (k_drain c2) (k_relay c2)
                                               (filter (fun t => negb (due (w_now w) t)) (k_timers c)) kept) (w_comps w2)))
    end))).
  intro Hw.
  assert (Hown : Forall (fun g => owner_of w g <> k) (k_ports c)).
  { destruct (wk_own w Hw k' c Ek') as (_ & Hin). apply Forall_forall. intros g Hg. apply Hin in Hg. lia. }
  pose proof (drain_all_other k a (k_ports c) w (k_drain c) (k_relay c) [] 0%nat Hown) as H1.
  destruct (drain_all w (k_ports c) (k_drain c) (k_relay c) [] 0%nat) as [[w1 relays] nret]. cbn [fst] in H1.
  match goal with |- context [flush w1 ?pp [] 0%nat] =>
    pose proof (flush_simK k a pp w1 [] 0%nat) as H2; destruct (flush w1 pp [] 0%nat) as [[w2 kept] nsent] end.
  cbn [fst] in H2.
  destruct (nth_error (w_comps w2) k') as [c2|] eqn:E2; cbn [snd].
  - refine (simk_trans k a _ _ _ H1 (simk_trans k a _ _ _ H2 _) Hw).
    eapply set_comp_simK; [exact E2|reflexivity|reflexivity|intro; contradiction].
  - exact (simk_trans k a _ _ _ H1 H2 Hw).
Qed.

Lemma handle_comp_other k a w k' t : k' <> k -> SimK k a w (handle_comp w k' t).
Proof.
  intro Hne. unfold handle_comp. destruct (nth_error (w_comps w) k') as [c|] eqn:Ek'.
  2:{ intro Hw. split; [destruct Hw as [Hc Hp Hx Hn Ho]; constructor; cbn; auto|]. split; [split; reflexivity|].
      intros st (c0 & C1 & C2 & C3 & C4 & C5 & C6 & C7 & C8). exists [], st. split; [reflexivity|].
      split; [exists c0; cbn; auto 10|apply same_refl]. }
  destruct (k_kind c) eqn:Ekk.
  - set (c' := mk_comp KTick (mark_handled (k_sched c) t) (k_pending c) (k_ports c) (k_drain c) (k_relay c) (k_timers c) (k_pend c)).
    set (w0 := set_comps w (set_nth k' c' (w_comps w))).
    assert (H0 : SimK k a w w0) by (eapply set_comp_simK; [exact Ek'|unfold kstat; cbn; rewrite Ekk; reflexivity|reflexivity|intro; contradiction]).
    pose proof (activate_other k a w0 k' Hne) as H1. destruct (activate w0 k') as [pr w1]. cbn [snd] in H1.
    destruct (nth_error (w_comps w1) k') as [c1|].
    + destruct (pr || negb match k_timers c1 with [] => true | _ :: _ => false end).
      * eapply simk_trans; [exact H0|]. eapply simk_trans; [exact H1|apply notify_simK].
      * eapply simk_trans; [exact H0|exact H1].
    + eapply simk_trans; [exact H0|exact H1].
  - set (c' := mk_comp KEvent (k_sched c) None (k_ports c) (k_drain c) (k_relay c) (k_timers c) (k_pend c)).
    set (w0 := set_comps w (set_nth k' c' (w_comps w))).
    assert (H0 : SimK k a w w0) by (eapply set_comp_simK; [exact Ek'|unfold kstat; cbn; rewrite Ekk; reflexivity|reflexivity|intro; contradiction]).
    pose proof (activate_other k a w0 k' Hne) as H1. destruct (activate w0 k') as [pr w1]. cbn [snd] in H1.
    destruct (nth_error (w_comps w1) k') as [c1|] eqn:E1; [|eapply simk_trans; [exact H0|exact H1]].
    destruct (k_timers c1) as [|tm rest]; [eapply simk_trans; [exact H0|exact H1]|].
    eapply simk_trans; [exact H0|]. eapply simk_trans; [exact H1|].
    (* ScheduleWakeAt of another component: only its own record and its own events change *)
    intro Hw1. unfold wake_at. rewrite E1.
    set (cw := mk_comp (k_kind c1) (k_sched c1) (Some (fst (fst tm))) (k_ports c1) (k_drain c1) (k_relay c1) (k_timers c1) (k_pend c1)).
    assert (Hgo : SimK k a w1 (schedule (set_comps w1 (set_nth k' cw (w_comps w1))) false (fst (fst tm)) k')).
    { intro Hw. split; [eapply (wfk_comps_upd w1 k' c1 cw); eauto; reflexivity|].
      split; [split; [reflexivity|exact (kports_set_nth w1 k k' c1 cw E1 eq_refl)]|].
      intros st (c0 & C1 & C2 & C3 & C4 & C5 & C6 & C7 & C8). exists [], st. split; [reflexivity|]. split; [|apply same_refl].
      exists c0. unfold schedule. cbn [w_comps set_comps set_prim]. rewrite nth_set_nth_neq by exact Hne. split; [exact C1|].
      cbn. repeat split; auto. unfold kq. cbn [w_prim]. rewrite filter_insert_other; [exact C7|].
      unfold isk. cbn. apply Nat.eqb_neq. exact Hne. }
    destruct (k_pending c1) as [p|]; [destruct (p <=? fst (fst tm)); [exact (simk_refl k a w1 Hw1)|exact (Hgo Hw1)]|exact (Hgo Hw1)].
Qed.

(** ------------------------------------------------------------------ *)
(** k's own activation *)
Lemma enotify_dirty st : e_dirty (enotify st) = true.
Proof.
  unfold enotify. destruct (e_kind st); [destruct (tick_later (e_now st) (e_sched st)); reflexivity|].
  destruct (e_pend st) as [p|]; [destruct (p <=? e_now st)|]; reflexivity.
Qed.

Definition dkind_of (kk : ckind) : dkind := match kk with KTick => DTick | KEvent => DEvent end.

Lemma okp_all_obligation st n : length (e_ins st) = n -> (forall idx, (idx < n)%nat -> okp st idx) ->
  forallb bempty (e_ins st) = true \/ (e_kind st = DTick /\ e_took st = true).
Proof.
  intros Hl Hall. destruct (forallb bempty (e_ins st)) eqn:E; [left; reflexivity|right].
  assert (Hex : exists b, In b (e_ins st) /\ bempty b = false).
  { clear - E. induction (e_ins st) as [|b l IH]; cbn in E; [discriminate|].
    destruct (bempty b) eqn:Eb; [destruct (IH E) as (b' & H1 & H2); exists b'; split; [right; exact H1|exact H2]|exists b; split; [left; reflexivity|exact Eb]]. }
  destruct Hex as (b & Hb & Hne). apply In_nth_error in Hb. destruct Hb as (i & Hi).
  pose proof (nth_error_lt _ _ _ Hi) as Hlt. rewrite Hl in Hlt.
  destruct (Hall i Hlt) as [Hz|Hr]; [|exact Hr]. exfalso. unfold blen in Hz. rewrite Hi in Hz.
  apply bempty_len in Hz. congruence.
Qed.

Lemma handle_comp_own k w t r st kp kd kr kk :
  WFk w -> w_prim w = (t, k) :: r -> Forall (fun e : N * nat => t <= fst e) r ->
  kports w k = Some (kp, kd, kr, kk) -> length kd = length kp -> length kr = length kp ->
  Forall (dr_ok (dkind_of kk)) kd -> RK k false w st ->
  let w' := handle_comp (set_now (set_prim w r) t) k t in
  WFk w' /\ (w_owner w' = w_owner w /\ kports w' k = kports w k) /\
  exists acts st', esteps st acts = Some st' /\ RK k false w' st'.
Proof.
  intros Hw Epq Hmin Hkp Hl1 Hl2 Hdr Hr.
  pose proof Hr as (c & C1 & C2 & C3 & C4 & C5 & C6 & C7 & C8).
  assert (Eks : kstat c = (kp, kd, kr, kk)) by (unfold kports in Hkp; rewrite C1 in Hkp; cbn in Hkp; congruence).
  unfold kstat in Eks. injection Eks as Ekp Ekd Ekr Ekk.
  set (wp := set_now (set_prim w r) t).
  (* the abstract begin *)
  assert (Hq : Permutation (e_q st) (t :: map fst (filter (isk k) r))).
  { rewrite C7. unfold kq. rewrite Epq. cbn [filter]. unfold isk at 1. cbn [snd]. rewrite Nat.eqb_refl. reflexivity. }
  assert (Hex : existsb (N.eqb t) (e_q st) = true).
  { apply existsb_exists. exists t. split; [|apply N.eqb_refl]. eapply Permutation_in; [symmetry; exact Hq|left; reflexivity]. }
  assert (Hall : forallb (N.leb t) (e_q st) = true).
  { apply forallb_forall. intros y Hy. pose proof (Permutation_in _ Hq Hy) as Hy'.
    destruct Hy' as [<-|Hy']; [apply N.leb_refl|]. apply in_map_iff in Hy'. destruct Hy' as (e & <- & He).
    apply filter_In in He. rewrite Forall_forall in Hmin. apply N.leb_le. apply Hmin. tauto. }
  set (stb := mk_es (e_kind st) (e_ins st)
                    (match e_kind st with DTick => mark_handled (e_sched st) t | DEvent => e_sched st end)
                    (match e_kind st with DTick => e_pend st | DEvent => None end)
                    (remove1 t (e_q st)) t false true false).
  assert (Eb : estep st (EBegin t) = Some stb).
  { cbn [estep]. rewrite C8, Hex, Hall. reflexivity. }
  unfold handle_comp. change (w_comps wp) with (w_comps w). rewrite C1.
  set (c' := match k_kind c with
             | KTick => mk_comp (k_kind c) (mark_handled (k_sched c) t) (k_pending c) (k_ports c) (k_drain c) (k_relay c) (k_timers c) (k_pend c)
             | KEvent => mk_comp (k_kind c) (k_sched c) None (k_ports c) (k_drain c) (k_relay c) (k_timers c) (k_pend c)
             end).
  set (w0 := set_comps wp (set_nth k c' (w_comps w))).
  assert (Hc'k : kstat c' = kstat c) by (unfold c', kstat; destruct (k_kind c); reflexivity).
  assert (Hc's : s_sec (k_sched c') = s_sec (k_sched c)) by (unfold c'; destruct (k_kind c); reflexivity).
  assert (Hw0 : WFk w0).
  { apply (wfk_comps_upd w k c c' Hw C1); [unfold kstat in Hc'k; congruence|exact Hc's|reflexivity|reflexivity|reflexivity|reflexivity]. }
  assert (Hk0 : kports w0 k = kports w k) by (exact (kports_set_nth w k k c c' C1 Hc'k)).
  assert (Ho0 : w_owner w0 = w_owner w) by reflexivity.
  assert (Hr0 : RK k true w0 stb).
  { exists c'. unfold w0. cbn [w_comps set_comps]. rewrite nth_set_nth_eq by (eapply nth_error_lt; eauto).
    split; [reflexivity|]. unfold stb. cbn [e_kind e_ins e_sched e_pend e_now e_q e_act].
    assert (Ekc : ekind c' = ekind c) by (unfold ekind, c'; destruct (k_kind c); reflexivity).
    assert (Eins : kins (w_ports w) c' = kins (w_ports w) c) by (unfold kins, c'; destruct (k_kind c); reflexivity).
    rewrite Ekc. change (w_ports (set_comps wp (set_nth k c' (w_comps w)))) with (w_ports w). rewrite Eins.
    split; [exact C2|]. split; [exact C3|]. rewrite C2. unfold ekind, c'.
    destruct (k_kind c); cbn; rewrite ?C4, ?C5; repeat split; auto; apply perm_remove1; exact Hq. }
  assert (HT0 : T stb 0) by (intro H; discriminate H).
  assert (Hkpl : kportsl w0 k = Some kp).
  { unfold kportsl, w0. cbn [w_comps set_comps]. rewrite nth_set_nth_eq by (eapply nth_error_lt; eauto). cbn.
    unfold kstat in Hc'k. congruence. }
  assert (Hdr0 : Forall (dr_ok (e_kind stb)) (k_drain c')).
  { unfold stb. cbn [e_kind]. rewrite C2. replace (k_drain c') with kd by (unfold kstat in Hc'k; congruence).
    unfold ekind. rewrite Ekk. exact Hdr. }
  (* the scripted activation *)
  assert (Hact : exists w1 pr st1 acts1, activate w0 k = (pr, w1) /\ esteps stb acts1 = Some st1 /\ RK k true w1 st1 /\ WFk w1 /\
            (w_owner w1 = w_owner w0 /\ kports w1 k = kports w0 k) /\
            (forallb bempty (e_ins st1) = true \/ (e_kind st1 = DTick /\ e_took st1 = true /\ pr = true)) /\ e_now st1 = t).
  { unfold activate. assert (E0 : nth_error (w_comps w0) k = Some c').
    { unfold w0. cbn [w_comps set_comps]. apply nth_set_nth_eq. eapply nth_error_lt; eauto. }
    rewrite E0.
    assert (Ep' : k_ports c' = kp) by (unfold kstat in Hc'k; congruence).
    assert (Ed' : length (k_drain c') = length (k_ports c')) by (unfold kstat in Hc'k; congruence).
    assert (Er' : length (k_relay c') = length (k_ports c')) by (unfold kstat in Hc'k; congruence).
    pose proof (drain_all_own k (k_ports c') 0 w0 stb (k_drain c') (k_relay c') [] 0%nat kp Hw0 Hkpl
                  ltac:(intros idx g Hg; rewrite <- Ep'; exact Hg) Hr0 HT0 Ed' Er' Hdr0) as H1.
    destruct (drain_all w0 (k_ports c') (k_drain c') (k_relay c') [] 0%nat) as [[w1 relays] nret].
    destruct H1 as (a1 & st1 & E1 & Hr1 & Hw1 & (Ho1 & Hk1) & M1 & T1 & Hok).
    match goal with |- context [flush w1 ?pp [] 0%nat] =>
      pose proof (flush_simK k true pp w1 [] 0%nat Hw1) as H2; destruct (flush w1 pp [] 0%nat) as [[w2 kept] nsent] end.
    cbn [fst] in H2. destruct H2 as (Hw2 & (Ho2 & Hk2) & S2).
    destruct (S2 st1 Hr1) as (a2 & st2 & E2 & Hr2 & (Sa & Sb & Sc & Sd)).
    pose proof Hr2 as (c2 & D1 & _). rewrite D1.
    set (c3 := mk_comp (k_kind c2) (k_sched c2) (k_pending c2) (k_ports c2) (k_drain c2) (k_relay c2)
                       (filter (fun tm => negb (due (w_now w0) tm)) (k_timers c')) kept).
    destruct (set_comp_simK k true w2 k c2 c3 D1 eq_refl eq_refl ltac:(intros _; repeat split; reflexivity) Hw2) as (Hw3 & (Ho3 & Hk3) & S3).
    destruct (S3 st2 Hr2) as (a3 & st3 & E3 & Hr3 & (Sa3 & Sb3 & Sc3 & Sd3)).
    eexists. eexists. exists st3, (a1 ++ a2 ++ a3). split; [reflexivity|].
    rewrite esteps_app, E1, esteps_app, E2. split; [exact E3|]. split; [exact Hr3|]. split; [exact Hw3|].
    split; [split; congruence|].
    split; [|destruct M1 as ((_ & Mn) & _); rewrite Sd3, Sd, Mn; reflexivity].
    assert (Hlen : length (e_ins st1) = length kp).
    { destruct Hr1 as (cc & R1 & _ & R3 & _). rewrite R3. unfold kins. rewrite map_length.
      assert (Ecc : k_ports cc = kp).
      { pose proof (kportsl_of _ _ _ Hk1) as Hkk. rewrite Hkpl in Hkk. unfold kportsl in Hkk. rewrite R1 in Hkk. cbn in Hkk. congruence. }
      rewrite Ecc. apply loc_length. rewrite <- Ecc. eapply own_valid; eauto. }
    destruct (okp_all_obligation st1 (length kp) Hlen ltac:(intros idx Hidx; rewrite <- (Nat.add_0_l idx); apply Hok; rewrite Ep'; exact Hidx))
      as [Hemp|(Hkd & Htk)].
    - left. rewrite Sa3, Sa. exact Hemp.
    - right. rewrite Sc3, Sc, Sb3, Sb. split; [exact Hkd|]. split; [exact Htk|].
      pose proof (T1 Htk) as Hpos. destruct (Nat.eqb (nret + nsent) 0) eqn:Ez; [apply Nat.eqb_eq in Ez; lia|reflexivity]. }
  destruct Hact as (w1 & pr & st1 & acts1 & Eact & E1 & Hr1 & Hw1 & (Ho1 & Hk1) & Hob & Hnow1).
  (* the end of the handler *)
  assert (Hend : forall wx stx, RK k true wx stx -> (forallb bempty (e_ins stx) || e_dirty stx) = true ->
            exists ste, estep stx EEnd = Some ste /\ RK k false wx ste).
  { intros wx stx (cx & X1 & X2 & X3 & X4 & X5 & X6 & X7 & X8) Hob'. eexists. split; [cbn [estep]; rewrite X8, Hob'; reflexivity|].
    exists cx. cbn. auto 10. }
  destruct (k_kind c) eqn:Ekc.
  - (* ticking component *)
    change (activate (set_comps wp (set_nth k (mk_comp KTick (mark_handled (k_sched c) t) (k_pending c) (k_ports c) (k_drain c) (k_relay c) (k_timers c) (k_pend c)) (w_comps w))) k)
      with (activate w0 k). rewrite Eact.
    pose proof Hr1 as (c1 & Y1 & _). rewrite Y1.
    destruct (pr || negb match k_timers c1 with [] => true | _ :: _ => false end) eqn:EX.
    + destruct (notify_explicit k true w1 k Hw1) as (Hw2 & (Ho2 & Hk2) & S2). specialize (S2 st1 Hr1). rewrite Nat.eqb_refl in S2.
      destruct (Hend _ (enotify st1) S2 ltac:(rewrite enotify_dirty; apply orb_true_r)) as (ste & Ee & Hre).
      split; [exact Hw2|]. split; [split; congruence|].
      exists ([EBegin t] ++ acts1 ++ [ENotify; EEnd]), ste. cbn [app esteps]. rewrite Eb, esteps_app, E1. cbn [esteps]. change (estep st1 ENotify) with (Some (enotify st1)). cbn beta iota. rewrite Ee.
      split; [reflexivity|]. destruct Hre as (cx & X1 & X2 & X3 & X4 & X5 & X6 & X7 & X8). exists cx. auto 10.
    + assert (Hemp : forallb bempty (e_ins st1) = true).
      { destruct Hob as [H|(_ & _ & Hpr)]; [exact H|]. rewrite Hpr in EX. discriminate. }
      destruct (Hend _ st1 Hr1 ltac:(rewrite Hemp; reflexivity)) as (ste & Ee & Hre).
      split; [exact Hw1|]. split; [split; congruence|].
      exists ([EBegin t] ++ acts1 ++ [EEnd]), ste. cbn [app esteps]. rewrite Eb, esteps_app, E1. cbn [esteps]. rewrite Ee.
      split; [reflexivity|exact Hre].
  - (* event-driven component *)
    change (activate (set_comps wp (set_nth k (mk_comp KEvent (k_sched c) None (k_ports c) (k_drain c) (k_relay c) (k_timers c) (k_pend c)) (w_comps w))) k)
      with (activate w0 k). rewrite Eact.
    assert (Hemp : forallb bempty (e_ins st1) = true).
    { destruct Hob as [H|(Hkd & _)]; [exact H|]. destruct Hr1 as (c1 & Y1 & Y2 & _).
      assert (Hkk1 : k_kind c1 = KEvent).
      { unfold kports in Hk1, Hk0. rewrite Y1 in Hk1. rewrite Hk0, C1 in Hk1. cbn in Hk1. unfold kstat in Hk1. congruence. }
      rewrite Y2 in Hkd. unfold ekind in Hkd. rewrite Hkk1 in Hkd. discriminate. }
    destruct (Hend _ st1 Hr1 ltac:(rewrite Hemp; reflexivity)) as (ste & Ee & Hre).
    pose proof Hr1 as (c1 & Y1 & _). rewrite Y1.
    destruct (k_timers c1) as [|tm rest] eqn:Etm.
    + split; [exact Hw1|]. split; [split; congruence|].
      exists ([EBegin t] ++ acts1 ++ [EEnd]), ste. cbn [app esteps]. rewrite Eb, esteps_app, E1. cbn [esteps]. rewrite Ee.
      split; [reflexivity|exact Hre].
    + (* ScheduleWakeAt(first remaining planned send, not yet due) *)
      assert (Hk1' : k_kind c1 = KEvent).
      { unfold kports in Hk1, Hk0. rewrite Y1 in Hk1. rewrite Hk0, C1 in Hk1. cbn in Hk1. unfold kstat in Hk1. congruence. }
      assert (Hlt : w_now w1 <= fst (fst tm)).
      { pose proof (proj2 (keep_activate w0 k) c1) as Htm. rewrite Eact in Htm. cbn [snd] in Htm.
        assert (Hne0 : nth_error (w_comps w0) k <> None).
        { unfold w0. cbn [w_comps set_comps]. rewrite nth_set_nth_eq by (eapply nth_error_lt; eauto). discriminate. }
        specialize (Htm Y1 Hne0). rewrite Etm in Htm. apply Forall_inv in Htm.
        destruct Hr1 as (cy & _ & _ & _ & _ & _ & Yn & _). rewrite <- Yn, Hnow1. cbn in Htm. lia. }
      destruct (wake_simK k false w1 k (fst (fst tm)) Hlt ltac:(intros cc Hcc; rewrite Y1 in Hcc; injection Hcc as <-; exact Hk1') Hw1)
        as (Hw2 & (Ho2 & Hk2) & S2).
      destruct (S2 ste Hre) as (a2 & st2 & E2 & Hr2 & _).
      split; [exact Hw2|]. split; [split; congruence|].
      exists ([EBegin t] ++ acts1 ++ [EEnd] ++ a2), st2. cbn [app esteps]. rewrite Eb, esteps_app, E1. cbn [esteps]. rewrite Ee.
      split; [exact E2|exact Hr2].
Qed.

(** ------------------------------------------------------------------ *)
(** a connection's tick, seen from component k: Deliver's contract *)
Definition Qrecv (ps0 ps : list port) (cb : list (nat * notif)) : Prop :=
  length ps = length ps0 /\
  forall j p0 p, nth_error ps0 j = Some p0 -> nth_error ps j = Some p ->
    p_has_comp p = p_has_comp p0 /\
    (p_has_comp p0 = true -> bempty (p_in p0) = true -> bempty (p_in p) = false -> In (j, NRecv) cb).

Lemma qrecv_refl ps : Qrecv ps ps [].
Proof. split; [reflexivity|]. intros j p0 p H0 H. rewrite H0 in H. injection H as <-. split; [reflexivity|]. intros _ A B. congruence. Qed.

Lemma deliver_ns_exact m p u p' ns : deliver m p = Ok u p' ns ->
  ns = (if p_has_comp p && bempty (p_in p) then [NRecv] else []) /\ bempty (p_in p') = false.
Proof.
  unfold deliver. destruct (negb (can_push (p_in p))); [discriminate|].
  destruct (push m (p_in p)) as [i'|] eqn:E; [|discriminate]. intro H. injection H as _ <- <-.
  split; [reflexivity|]. cbn [p_in set_in]. unfold bempty, size. rewrite (push_content _ _ _ E), app_length. cbn [length]. lia.
Qed.

Lemma forward_many_Q ps0 fuel : forall i ps pr cb dl pr' ps' cb' dl',
  Qrecv ps0 ps cb -> forward_many fuel i ps pr cb dl = FmOk pr' ps' cb' dl' -> Qrecv ps0 ps' cb'.
Proof.
  induction fuel as [|f IH]; intros i ps pr cb dl pr' ps' cb' dl' HQ H; cbn [forward_many] in H; [discriminate|].
  destruct (nth_error ps i) as [src|] eqn:Es; [|discriminate].
  destruct (peek_outgoing src) as [m|]; [|injection H as _ <- <- _; exact HQ].
  destruct (find_port (m_dst m) ps) as [j|]; [|discriminate].
  destruct (nth_error ps j) as [dst|] eqn:Ed; [|discriminate].
  destruct (negb (can_deliver dst)); [injection H as _ <- <- _; exact HQ|].
  destruct (deliver (Some m) dst) as [u dst' ns1| |] eqn:Edl; try discriminate.
  destruct (nth_error (set_nth j dst' ps) i) as [src1|] eqn:Es1; [|discriminate].
  destruct (retrieve_outgoing src1) as [v src2 ns2| |] eqn:Er; try discriminate.
  eapply IH; [|exact H]. clear IH H.
  destruct HQ as (HL & HQ).
  destruct (deliver_spec _ _ _ _ _ Edl) as (_ & _ & _ & _ & _ & Hdh).
  destruct (deliver_ns_exact _ _ _ _ _ Edl) as (Hns1 & Hne').
  destruct (retrieve_outgoing_spec _ _ _ _ Er) as (_ & _ & Hsin & _ & Hsh & _).
  pose proof (nth_error_lt _ _ _ Es) as Li. pose proof (nth_error_lt _ _ _ Ed) as Lj.
  split; [rewrite !set_nth_length; exact HL|].
  intros j0 p0 p H0 Hp.
  (* what port j0 looked like before this move *)
  destruct (nth_error ps j0) as [q|] eqn:Eq.
  2:{ apply nth_error_None in Eq. pose proof (nth_error_lt _ _ _ Hp) as Hl. rewrite !set_nth_length in Hl. lia. }
  destruct (HQ j0 p0 q H0 Eq) as (Hh & Hin).
  assert (Hin' : p_has_comp p0 = true -> bempty (p_in p0) = true -> bempty (p_in q) = false -> In (j0, NRecv) (cb ++ tag j ns1 ++ tag i ns2)).
  { intros A B C. apply in_or_app. left. auto. }
  assert (Hdst : j0 = j -> p_has_comp dst' = p_has_comp p0 /\
            (p_has_comp p0 = true -> bempty (p_in p0) = true -> In (j0, NRecv) (cb ++ tag j ns1 ++ tag i ns2))).
  { intros ->. rewrite Ed in Eq. injection Eq as <-. split; [congruence|]. intros A B.
    destruct (bempty (p_in dst)) eqn:Ee; [|apply Hin'; auto].
    apply in_or_app. right. apply in_or_app. left. rewrite Hns1, Hh, A. cbn. left. reflexivity. }
  destruct (Nat.eq_dec i j0) as [<-|Hni].
  - rewrite nth_set_nth_eq in Hp by (rewrite set_nth_length; exact Li). injection Hp as <-.
    destruct (Nat.eq_dec j i) as [->|Hnj].
    + rewrite nth_set_nth_eq in Es1 by exact Lj. injection Es1 as <-.
      destruct (Hdst eq_refl) as (A1 & A2). split; [congruence|]. intros A B _. auto.
    + rewrite nth_set_nth_neq in Es1 by exact Hnj. rewrite Es in Es1. injection Es1 as <-.
      rewrite Es in Eq. injection Eq as <-. split; [congruence|]. rewrite Hsin. exact Hin'.
  - rewrite nth_set_nth_neq in Hp by exact Hni.
    destruct (Nat.eq_dec j j0) as [<-|Hnj].
    + rewrite nth_set_nth_eq in Hp by exact Lj. injection Hp as <-.
      destruct (Hdst eq_refl) as (A1 & A2). split; [exact A1|]. intros A B _. auto.
    + rewrite nth_set_nth_neq in Hp by exact Hnj. rewrite Eq in Hp. injection Hp as <-. split; [exact Hh|exact Hin'].
Qed.

Lemma tick_loop_Q ps0 todo : forall ps pr cb dl pr' ps' cb' dl',
  Qrecv ps0 ps cb -> tick_loop todo ps pr cb dl = FmOk pr' ps' cb' dl' -> Qrecv ps0 ps' cb'.
Proof.
  induction todo as [|i r IH]; intros ps pr cb dl pr' ps' cb' dl' HQ H; cbn [tick_loop] in H.
  - injection H as _ <- <- _. exact HQ.
  - destruct (forward_port i ps pr cb dl) as [pr2 ps2 cb2 dl2|] eqn:Ef; [|discriminate].
    eapply IH; [|exact H]. unfold forward_port in Ef. eapply forward_many_Q; eauto.
Qed.

Lemma tick_Q c pr c' cb dl : tick c = TickOk pr c' cb dl -> Qrecv (c_ports c) (c_ports c') cb.
Proof.
  unfold tick. destruct (length (c_ports c)); [discriminate|].
  destruct (tick_loop _ (c_ports c) false [] []) as [pr1 ps1 cb1 dl1|] eqn:El; [|discriminate].
  intro H. injection H as _ <- <- _. cbn [c_ports].
  exact (tick_loop_Q (c_ports c) _ _ _ _ _ _ _ _ _ (qrecv_refl (c_ports c)) El).
Qed.

Definition countk (w : world) (k : nat) (cbs : list (nat * notif)) : nat :=
  length (filter (fun c => Nat.eqb (owner_of w (fst c)) k) cbs).

Lemma iter_shift {A} (f : A -> A) n x : Nat.iter n f (f x) = f (Nat.iter n f x).
Proof. induction n as [|n IH]; [reflexivity|]. simpl. f_equal. exact IH. Qed.

Lemma owner_of_eq w w' : w_owner w' = w_owner w -> forall g, owner_of w' g = owner_of w g.
Proof. intros E g. unfold owner_of. rewrite E. reflexivity. Qed.

Lemma apply_okcbs_K k a cbs : forall w st,
  Forall (fun y : nat * notif => snd y = NRecv \/ snd y = NPortFree) cbs -> WFk w -> RK k a w st ->
  WFk (apply_cbs w cbs) /\ (w_owner (apply_cbs w cbs) = w_owner w /\ kports (apply_cbs w cbs) k = kports w k) /\
  RK k a (apply_cbs w cbs) (Nat.iter (countk w k cbs) enotify st).
Proof.
  unfold apply_cbs. induction cbs as [|[g n] cbs IH]; intros w st Hc Hw Hr; cbn [fold_left].
  - split; [exact Hw|]. split; [split; reflexivity|exact Hr].
  - inversion Hc as [|? ? Hx Hrest]; subst. cbn [snd] in Hx.
    assert (Ecb : apply_cb w (g, n) = notify_comp w (owner_of w g)) by (destruct Hx as [-> | ->]; reflexivity).
    rewrite Ecb. destruct (notify_explicit k a w (owner_of w g) Hw) as (Hw1 & (Ho1 & Hk1) & S1).
    specialize (S1 st Hr).
    destruct (IH _ _ Hrest Hw1 S1) as (Hw2 & (Ho2 & Hk2) & R2).
    split; [exact Hw2|]. split; [split; congruence|].
    assert (Ec : countk (notify_comp w (owner_of w g)) k cbs = countk w k cbs).
    { unfold countk. f_equal. apply filter_ext. intro c0. rewrite (owner_of_eq _ _ Ho1). reflexivity. }
    rewrite Ec in R2. unfold countk at 1. cbn [filter fst]. fold (countk w k cbs).
    destruct (Nat.eqb (owner_of w g) k); [cbn [length Nat.iter]; rewrite iter_shift in R2|]; exact R2.
Qed.

Lemma combine_nth_inv {A B} (l : list A) : forall (l' : list B) i x y,
  nth_error (combine l l') i = Some (x, y) -> nth_error l i = Some x /\ nth_error l' i = Some y.
Proof.
  induction l as [|a l IH]; intros [|b l'] [|i] x y H; cbn in *; try discriminate.
  - injection H as <- <-. auto.
  - exact (IH l' i x y H).
Qed.

(** the engine dispatches a tick event of connection x: for component k, time passes and
    its inputs receive the tick's deliveries, with the notifications Deliver owes *)
Lemma conn_eventK k w x t r st :
  WFn w -> WFk w -> w_sec w = (t, hx w x) :: r -> w_now w <= t ->
  Forall (fun e : N * nat => t <= fst e) (w_prim w) -> RK k false w st ->
  let w' := handle_conn (set_now (set_sec w r) t) x t in
  w_halt w' = true \/
  (WFk w' /\ (w_owner w' = w_owner w /\ kports w' k = kports w k) /\
   exists acts st', esteps st acts = Some st' /\ RK k false w' st').
Proof.
  intros Hwn Hw Esecq Hnow Hprim Hr. cbn zeta. unfold handle_conn.
  change (w_conns (set_now (set_sec w r) t)) with (w_conns w).
  destruct (nth_error (w_conns w) x) as [c|] eqn:Ec; [|left; reflexivity].
  destruct (wn_conns w Hwn x c Ec) as (Hsec & Hnd & Hin).
  pose proof (valid_ports w x c Hwn Ec) as Hv.
  cbn zeta.
  change (flat_map _ (x_ports c)) with (loc (w_ports w) (x_ports c)).
  destruct (tick (mk_conn (loc (w_ports w) (x_ports c)) (x_next c))) as [pr cn cb dl|] eqn:Et; [|left; reflexivity].
  right.
  pose proof (tick_cb _ _ _ _ _ Et) as Hcb. pose proof (tick_Q _ _ _ _ _ Et) as (HQl & HQ). cbn [c_ports] in HQl, HQ.
  destruct (tick_moves _ _ _ _ _ Et) as (Lm & HLm & _). destruct (moves_law _ _ _ HLm) as (_ & _ & Hlaw). cbn [c_ports] in Hlaw.
  destruct (tick_progress _ _ _ _ _ Et) as (_ & _ & Hlen). cbn [c_ports] in Hlen.
  rewrite (loc_length _ _ Hv) in Hlen.
  destruct (write_back_loc (x_ports c) (c_ports cn) (w_ports w) Hnd Hlen Hv) as (L & Hloc & Hout). cbn zeta in L, Hloc, Hout.
  set (ports' := fold_left (fun ps (ip : nat * port) => set_nth (nth (fst ip) (x_ports c) 0%nat) (snd ip) ps)
                           (combine (seq 0 (length (c_ports cn))) (c_ports cn)) (w_ports w)) in *.
  set (c2 := mk_cnx (mark_handled (x_sched c) t) (x_ports c) (c_next cn)).
  set (w2 := mk_world (w_guard w) t (w_prim w) r ports' (w_owner w) (w_connof w) (w_comps w)
                      (set_nth x c2 (w_conns w)) (w_halt w)).
  set (cbs := map (fun ic : nat * notif => (nth (fst ic) (x_ports c) 0%nat, snd ic)) cb).
  match goal with |- context [apply_cbs ?ww cbs] => assert (Hw2eq : ww = w2) end.
  { unfold w2, set_conns, set_ports, set_now, set_sec, upd. cbn [w_conns w_ports w_guard w_now w_prim w_sec w_owner w_connof w_comps w_halt].
    rewrite nth_set_nth_eq by (eapply nth_error_lt; eauto). rewrite set_nth_twice. reflexivity. }
  rewrite Hw2eq. clear Hw2eq.
  (* every port after the tick: same owner flag, no nil, and the ports of x are the tick's *)
  assert (Hport : forall g p', nth_error ports' g = Some p' -> exists p, nth_error (w_ports w) g = Some p /\
            p_has_comp p' = p_has_comp p /\ (exists l, content (p_in p') = content (p_in p) ++ map Some l) /\
            (~ In g (x_ports c) -> p' = p) /\
            (p_has_comp p = true -> bempty (p_in p) = true -> bempty (p_in p') = false -> In (g, NRecv) cbs)).
  { intros g p' Hg'. destruct (in_dec Nat.eq_dec g (x_ports c)) as [Hgin|Hgout].
    - apply In_nth_error in Hgin. destruct Hgin as (j & Hj).
      assert (Hgl : (g < length (w_ports w))%nat) by (rewrite Forall_forall in Hv; apply Hv; eapply nth_error_In; eauto).
      destruct (nth_error (w_ports w) g) as [p|] eqn:Ep; [|apply nth_error_None in Ep; lia].
      assert (Hp0 : nth_error (loc (w_ports w) (x_ports c)) j = Some p) by (rewrite (loc_nth _ _ Hv), Hj; exact Ep).
      assert (Hp1 : nth_error (c_ports cn) j = Some p').
      { rewrite <- Hloc. rewrite loc_nth by (rewrite L; exact Hv). rewrite Hj. exact Hg'. }
      destruct (HQ j p p' Hp0 Hp1) as (Hh & Hrc). destruct (Hlaw j p Hp0) as (p'' & Hp'' & _ & _ & _ & Hcin & _).
      rewrite Hp1 in Hp''. injection Hp'' as <-.
      exists p. split; [reflexivity|]. split; [exact Hh|]. split; [eexists; exact Hcin|]. split; [intro Hn; exfalso; apply Hn; eapply nth_error_In; eauto|].
      intros A B C. unfold cbs. apply in_map_iff. exists (j, NRecv). cbn [fst snd]. rewrite (nth_error_nth _ _ 0%nat Hj). auto.
    - rewrite (Hout g Hgout) in Hg'. exists p'. split; [exact Hg'|]. split; [reflexivity|]. split; [exists []; cbn; rewrite app_nil_r; reflexivity|].
      split; [reflexivity|]. intros _ B C. congruence. }
  assert (Hw2 : WFk w2).
  { destruct Hw as [Hc Hp Hx Hn Ho]. constructor; cbn [w2 w_comps w_ports w_conns w_owner].
    - exact Hc.
    - apply Forall_forall. intros p' Hp'. apply In_nth_error in Hp'. destruct Hp' as (g & Hg).
      destruct (Hport g p' Hg) as (p & Hpg & Hh & _). rewrite Hh. rewrite Forall_forall in Hp. apply Hp. eapply nth_error_In; eauto.
    - apply forall_set_nth; [exact Hx|exact Hsec].
    - apply Forall_forall. intros p' Hp'. apply In_nth_error in Hp'. destruct Hp' as (g & Hg).
      destruct (Hport g p' Hg) as (p & Hpg & _ & (l & Hl) & _). rewrite Hl. apply Forall_app. split.
      + rewrite Forall_forall in Hn. apply Hn. eapply nth_error_In; eauto.
      + apply Forall_forall. intros v Hv'. apply in_map_iff in Hv'. destruct Hv' as (m & <- & _). discriminate.
    - intros k0 c0 Hk0. rewrite L. unfold owner_of. cbn. exact (Ho k0 c0 Hk0). }
  pose proof Hr as (ck & C1 & C2 & C3 & C4 & C5 & C6 & C7 & C8).
  (* the abstract side *)
  assert (Hq : forallb (N.leb t) (e_q st) = true).
  { apply forallb_forall. intros y Hy. pose proof (Permutation_in _ C7 Hy) as Hy'. unfold kq in Hy'.
    apply in_map_iff in Hy'. destruct Hy' as (e & <- & He). apply filter_In in He.
    rewrite Forall_forall in Hprim. apply N.leb_le. apply Hprim. tauto. }
  set (sta := mk_es (e_kind st) (e_ins st) (e_sched st) (e_pend st) (e_q st) t (e_dirty st) false (e_took st)).
  assert (Ea : estep st (EAdvance t) = Some sta).
  { cbn [estep]. rewrite C8, C6, Hq. replace (w_now w <=? t) with true by (symmetry; apply N.leb_le; exact Hnow). reflexivity. }
  set (ins' := kins ports' ck).
  set (n := countk w2 k cbs).
  assert (Hcbs : Forall (fun y : nat * notif => snd y = NRecv \/ snd y = NPortFree) cbs).
  { unfold cbs. apply Forall_map. eapply Forall_impl; [|exact Hcb]. intros [i0 n0] H. exact H. }
  assert (Hr2 : RK k false w2 (set_ins sta ins')).
  { exists ck. unfold w2, sta, set_ins, ins'. cbn. repeat split; auto. }
  destruct (apply_okcbs_K k false cbs w2 _ Hcbs Hw2 Hr2) as (Hw3 & (Ho3 & Hk3) & Hr3). fold n in Hr3.
  assert (Hlen' : length ins' = length (e_ins st)).
  { unfold ins'. rewrite C3. unfold kins. rewrite !map_length.
    pose proof (own_valid w k ck Hw C1) as Hvk. rewrite !loc_length; [reflexivity|exact Hvk|rewrite L; exact Hvk]. }
  assert (Hob : (negb (existsb (fun bb : ibuf * ibuf => bempty (fst bb) && negb (bempty (snd bb))) (combine (e_ins st) ins')) || (1 <=? n)%nat) = true).
  { destruct (existsb _ (combine (e_ins st) ins')) eqn:Eex; [|reflexivity]. cbn [negb orb].
    apply existsb_exists in Eex. destruct Eex as ([b b'] & Hbb & Hcond). cbn [fst snd] in Hcond.
    apply andb_true_iff in Hcond. destruct Hcond as [Hbe Hbn]. apply negb_true_iff in Hbn.
    apply In_nth_error in Hbb. destruct Hbb as (i & Hi). apply combine_nth_inv in Hi. destruct Hi as [Hi1 Hi2].
    rewrite C3 in Hi1. unfold ins' in Hi2.
    pose proof (own_valid w k ck Hw C1) as Hvk.
    unfold kins in Hi1, Hi2. rewrite nth_error_map in Hi1, Hi2.
    rewrite (loc_nth _ _ Hvk) in Hi1. rewrite loc_nth in Hi2 by (rewrite L; exact Hvk).
    destruct (nth_error (k_ports ck) i) as [g|] eqn:Eg; [|discriminate].
    destruct (nth_error (w_ports w) g) as [p|] eqn:Ep; [|discriminate]. cbn in Hi1. injection Hi1 as <-.
    destruct (nth_error ports' g) as [p'|] eqn:Ep'; [|discriminate]. cbn in Hi2. injection Hi2 as <-.
    destruct (Hport g p' Ep') as (p0 & Hp0 & _ & _ & _ & Hrc). rewrite Ep in Hp0. injection Hp0 as <-.
    pose proof (wk_ports w Hw) as Hpf. rewrite Forall_forall in Hpf.
    pose proof (Hrc (Hpf p (nth_error_In _ _ Ep)) Hbe Hbn) as Hincb.
    apply Nat.leb_le. unfold n, countk.
    assert (Hinf : In (g, NRecv) (filter (fun c0 : nat * notif => Nat.eqb (owner_of w2 (fst c0)) k) cbs)).
    { apply filter_In. split; [exact Hincb|]. cbn [fst]. apply Nat.eqb_eq.
      destruct (wk_own w Hw k ck C1) as (_ & Hown). change (owner_of w2 g) with (owner_of w g).
      apply Hown. eapply nth_error_In; eauto. }
    destruct (filter _ cbs); [destruct Hinf|cbn; lia]. }
  assert (Et2 : estep sta (ETick ins' n) = Some (Nat.iter n enotify (set_ins sta ins'))).
  { cbn [estep]. change (e_act sta) with false. change (e_ins sta) with (e_ins st). cbn [negb andb].
    rewrite Hlen', Nat.eqb_refl, Hob. reflexivity. }
  set (w3 := apply_cbs w2 cbs) in *.
  change (match nth_error (w_conns w3) x with
          | Some c3 => let '(s', ev) := tick_later (w_now w3) (x_sched c3) in
                       sched_event (set_conns w3 (set_nth x (mk_cnx s' (x_ports c3) (x_next c3)) (w_conns w3))) s' (ncomps w3 + x) ev
          | None => w3 end) with (conn_req true w3 x).
  assert (Hfin : forall wf, (wf = w3 \/ wf = conn_req true w3 x) ->
            WFk wf /\ (w_owner wf = w_owner w /\ kports wf k = kports w k) /\
            exists acts st', esteps st acts = Some st' /\ RK k false wf st').
  { assert (Ho2 : w_owner w2 = w_owner w) by reflexivity. assert (Hk2 : kports w2 k = kports w k) by reflexivity.
    intros wf [-> | ->].
    - split; [exact Hw3|]. split; [split; [exact Ho3|exact Hk3]|].
      exists [EAdvance t; ETick ins' n]. eexists. cbn [esteps]. rewrite Ea, Et2. split; [reflexivity|exact Hr3].
    - destruct (conn_req_simK k false true w3 x Hw3) as (Hw4 & (Ho4 & Hk4) & S4).
      destruct (S4 _ Hr3) as (a4 & st4 & E4 & Hr4 & _).
      split; [exact Hw4|]. split; [split; congruence|].
      exists ([EAdvance t; ETick ins' n] ++ a4), st4. rewrite esteps_app. cbn [esteps]. rewrite Ea, Et2. split; [exact E4|exact Hr4]. }
  destruct pr; apply Hfin; auto.
Qed.

(** ------------------------------------------------------------------ *)
(** the engine *)
Definition drains_k (w : world) (k : nat) : Prop :=
  exists kp kd kr kk, kports w k = Some (kp, kd, kr, kk) /\ length kd = length kp /\ length kr = length kp /\
                      Forall (dr_ok (dkind_of kk)) kd.

Lemma leb_of_forall t (q : list (N * nat)) : Forall (fun e => t <= fst e) q -> forall e, In e q -> t <= fst e.
Proof. intros H e He. rewrite Forall_forall in H. exact (H e He). Qed.

Lemma prim_other_K k w t h r st : h <> k -> WFk w -> w_prim w = (t, h) :: r -> w_now w <= t ->
  Forall (fun e : N * nat => t <= fst e) r -> RK k false w st ->
  let w' := handle_comp (set_now (set_prim w r) t) h t in
  WFk w' /\ (w_owner w' = w_owner w /\ kports w' k = kports w k) /\
  exists acts st', esteps st acts = Some st' /\ RK k false w' st'.
Proof.
  intros Hne Hw Epq Hnow Hmin Hr. cbn zeta.
  set (w1 := set_now (set_prim w r) t).
  assert (Hw1 : WFk w1) by (destruct Hw as [Hc Hp Hx Hn Ho]; constructor; cbn; auto).
  pose proof Hr as (c & C1 & C2 & C3 & C4 & C5 & C6 & C7 & C8).
  assert (Ekq : kq w k = map fst (filter (isk k) r)).
  { unfold kq. rewrite Epq. cbn [filter]. unfold isk at 1. cbn [snd].
    replace (Nat.eqb h k) with false by (symmetry; apply Nat.eqb_neq; exact Hne). reflexivity. }
  assert (Hq : forallb (N.leb t) (e_q st) = true).
  { apply forallb_forall. intros y Hy. pose proof (Permutation_in _ C7 Hy) as Hy'. rewrite Ekq in Hy'.
    apply in_map_iff in Hy'. destruct Hy' as (e & <- & He). apply filter_In in He. apply N.leb_le. exact (leb_of_forall t r Hmin e (proj1 He)). }
  set (sta := mk_es (e_kind st) (e_ins st) (e_sched st) (e_pend st) (e_q st) t (e_dirty st) false (e_took st)).
  assert (Ea : estep st (EAdvance t) = Some sta).
  { cbn [estep]. rewrite C8, C6, Hq. replace (w_now w <=? t) with true by (symmetry; apply N.leb_le; exact Hnow). reflexivity. }
  assert (Hr1 : RK k false w1 sta).
  { exists c. unfold w1, sta. cbn. repeat split; auto. unfold kq. cbn [w_prim set_now set_prim]. fold (isk k). rewrite <- Ekq. exact C7. }
  destruct (handle_comp_other k false w1 h t Hne Hw1) as (Hw2 & (Ho2 & Hk2) & S2).
  destruct (S2 sta Hr1) as (a2 & st2 & E2 & Hr2 & _).
  split; [exact Hw2|]. split; [split; [exact Ho2|exact Hk2]|].
  exists (EAdvance t :: a2), st2. cbn [esteps]. rewrite Ea. auto.
Qed.

Lemma kports_drains w w' k : kports w' k = kports w k -> drains_k w k -> drains_k w' k.
Proof. intros E (kp & kd & kr & kk & H & R). exists kp, kd, kr, kk. rewrite E. auto. Qed.

(** every run projects onto a run of the abstract draining-component system *)
Lemma run_projectsK k fuel : forall w tr st,
  WFn w -> WFk w -> QIn w -> drains_k w k -> RK k false w st ->
  let wf := snd (fst (run fuel w tr)) in
  w_halt wf = true \/ exists acts st', esteps st acts = Some st' /\ RK k false wf st' /\ WFk wf.
Proof.
  induction fuel as [|f IH]; intros w tr st Hwn Hw Hq Hdk Hr; cbn [run].
  - right. exists [], st. auto.
  - destruct (w_halt w) eqn:Eh; [left; exact Eh|].
    destruct (next_event w) as [[[t h] w']|] eqn:En; [|right; exists [], st; auto].
    destruct (pop_okN w t h w' Hq En) as (Hs & Hq1 & Hd).
    (* facts about the popped event *)
    assert (Hcase : (exists r, w_prim w = (t, h) :: r /\ w' = set_prim w r /\ (h < ncomps w)%nat /\ w_now w <= t /\
                                Forall (fun e : N * nat => t <= fst e) r) \/
                    (exists r, w_sec w = (t, h) :: r /\ w' = set_sec w r /\ (ncomps w <= h)%nat /\ w_now w <= t /\
                                Forall (fun e : N * nat => t <= fst e) (w_prim w))).
    { destruct Hq as [[Hps Hpf] [Hss Hsf] _ _]. unfold next_event in En.
      destruct (w_prim w) as [|[tp hp] rp] eqn:Epq; destruct (w_sec w) as [|[ts hs] rs] eqn:Esq; try discriminate.
      - injection En as <- <- <-. right. exists rs. inversion Hsf as [|? ? [A B] _]; subst. cbn in A, B.
        repeat split; auto.
      - injection En as <- <- <-. left. exists rp. inversion Hpf as [|? ? [A B] _]; subst. cbn in A, B.
        repeat split; auto. exact (sorted_head_le _ _ _ Hps).
      - inversion Hpf as [|? ? [A B] _]; subst. inversion Hsf as [|? ? [A' B'] _]; subst. cbn in A, B, A', B'.
        destruct (tp <=? ts) eqn:Ele; injection En as <- <- <-.
        + left. exists rp. repeat split; auto. exact (sorted_head_le _ _ _ Hps).
        + right. exists rs. repeat split; auto. constructor; [cbn; lia|].
          eapply Forall_impl; [|exact (sorted_head_le _ _ _ Hps)]. cbn. intros; lia. }
    assert (Hnext : forall w2, dispatch w' t h = w2 -> WFn w2 -> QIn w2 ->
              (WFk w2 /\ (w_owner w2 = w_owner w /\ kports w2 k = kports w k) /\
               exists acts st', esteps st acts = Some st' /\ RK k false w2 st') ->
              w_halt (snd (fst (run f w2 (tr ++ [(t, h)])))) = true \/
              exists acts st', esteps st acts = Some st' /\ RK k false (snd (fst (run f w2 (tr ++ [(t, h)])))) st' /\
                               WFk (snd (fst (run f w2 (tr ++ [(t, h)]))))).
    { intros w2 _ Hwn2 Hq2 (Hw2 & (Ho2 & Hk2) & a1 & st1 & E1 & Hr1).
      destruct (IH w2 (tr ++ [(t, h)]) st1 Hwn2 Hw2 Hq2 (kports_drains _ _ _ Hk2 Hdk) Hr1) as [Hh|(a2 & st2 & E2 & Hr2 & Hw3)]; [left; exact Hh|].
      right. exists (a1 ++ a2), st2. rewrite esteps_app, E1. auto. }
    destruct Hcase as [(r & Epq & -> & Hh & Hnow & Hmin)|(r & Esq & -> & Hh & Hnow & Hprim)].
    + (* a component's event *)
      assert (Ed : dispatch (set_prim w r) t h = handle_comp (set_now (set_prim w r) t) h t).
      { unfold dispatch. change (ncomps (set_now (set_prim w r) t)) with (ncomps w).
        apply Nat.ltb_lt in Hh. rewrite Hh. reflexivity. }
      rewrite Ed.
      assert (Hwn1 : WFn (set_now (set_prim w r) t)) by (destruct Hwn as [Hg Hcx Hcm]; constructor; cbn; auto).
      pose proof (proj1 (handle_comp_simN 0 _ h t Hwn1)) as Hwn2.
      pose proof (proj1 (keepn_handle_comp _ h t Hq1)) as Hq2.
      apply (Hnext _ Ed Hwn2 Hq2).
      destruct (Nat.eq_dec h k) as [->|Hne].
      * destruct Hdk as (kp & kd & kr & kk & Hkp & Hl1 & Hl2 & Hdr).
        exact (handle_comp_own k w t r st kp kd kr kk Hw Epq Hmin Hkp Hl1 Hl2 Hdr Hr).
      * exact (prim_other_K k w t h r st Hne Hw Epq Hnow Hmin Hr).
    + (* a connection's tick *)
      assert (Ed : dispatch (set_sec w r) t h = handle_conn (set_now (set_sec w r) t) (h - ncomps w) t).
      { unfold dispatch. change (ncomps (set_now (set_sec w r) t)) with (ncomps w).
        replace (h <? ncomps w)%nat with false by (symmetry; apply Nat.ltb_ge; exact Hh). reflexivity. }
      rewrite Ed.
      assert (Ehx : (t, h) = (t, hx w (h - ncomps w))) by (unfold hx; f_equal; lia).
      rewrite Ehx in Esq.
      destruct (conn_eventN 0 w (h - ncomps w) t r Esq Hnow
                  ltac:(apply forallb_leb; destruct Hq as [_ [Hss _] _ _]; rewrite Esq in Hss; exact (sorted_head_le _ _ _ Hss)) Hwn)
        as [Hhalt|(Hwn2 & _)].
      * left. rewrite run_halted by exact Hhalt. exact Hhalt.
      * pose proof (proj1 (keepn_handle_conn _ (h - ncomps w) t Hq1)) as Hq2.
        destruct (conn_eventK k w (h - ncomps w) t r st Hwn Hw Esq Hnow Hprim Hr) as [Hhalt|Hok].
        -- left. rewrite run_halted by exact Hhalt. exact Hhalt.
        -- exact (Hnext _ Ed Hwn2 Hq2 Hok).
Qed.

(** ------------------------------------------------------------------ *)
(** the initial kick *)
Lemma guard_comp_tick_now w k : w_guard (comp_tick_now w k) = w_guard w.
Proof. unfold comp_tick_now, sched_event, schedule. now_tac. Qed.
Lemma guard_wake w k t : w_guard (wake_at w k t) = w_guard w.
Proof. unfold wake_at, schedule. now_tac. Qed.

Lemma comp_tick_now_simK k a w k' : w_guard w = GuardNew ->
  (forall c, nth_error (w_comps w) k' = Some c -> k_kind c = KTick) -> SimK k a w (comp_tick_now w k').
Proof.
  intros Hg Hkind Hw. unfold comp_tick_now. destruct (nth_error (w_comps w) k') as [c|] eqn:Ek'; [|exact (simk_refl k a w Hw)].
  pose proof (Hkind c eq_refl) as Ekk.
  assert (Hsf : s_sec (k_sched c) = false).
  { pose proof (wk_comps w Hw) as Hf. rewrite Forall_forall in Hf. exact (Hf c (nth_error_In _ _ Ek')). }
  pose proof (tick_now_sec (w_guard w) (w_now w) (k_sched c)) as Hs.
  destruct (tick_now (w_guard w) (w_now w) (k_sched c)) as [s' ev] eqn:Etn. cbn [fst] in Hs. rewrite Hsf in Hs.
  set (c' := mk_comp (k_kind c) s' (k_pending c) (k_ports c) (k_drain c) (k_relay c) (k_timers c) (k_pend c)).
  set (w1 := set_comps w (set_nth k' c' (w_comps w))).
  destruct (sched_event_fields w1 s' k' ev Hs) as (F1 & F2 & F3 & F4 & F5).
  split; [apply (wfk_comps_upd w k' c c' Hw Ek' eq_refl ltac:(cbn; congruence)); [exact F1|exact F2|exact F3|exact F5]|].
  split; [split; [exact F3|unfold kports at 1; rewrite F1; exact (kports_set_nth w k k' c c' Ek' eq_refl)]|].
  intros st (c0 & C1 & C2 & C3 & C4 & C5 & C6 & C7 & C8).
  destruct (Nat.eq_dec k' k) as [->|Hne].
  - rewrite Ek' in C1. injection C1 as <-.
    assert (Ekd : e_kind st = DTick) by (rewrite C2; unfold ekind; rewrite Ekk; reflexivity).
    set (st1 := with_sq st s' (e_pend st) (e_q st ++ olist ev) true).
    exists [ETickNow], st1. split.
    { cbn [esteps estep]. rewrite Ekd, C4, C6. rewrite Hg in Etn. rewrite Etn. reflexivity. }
    split; [|unfold st1; repeat split; reflexivity].
    exists c'. rewrite F1, F2, F4. split.
    { unfold w1. cbn [w_comps set_comps]. apply nth_set_nth_eq. eapply nth_error_lt; eauto. }
    unfold st1. cbn. unfold ekind. cbn. repeat split; auto.
    apply kq_sched_same; [exact Hs|exact C7].
  - exists [], st. split; [reflexivity|]. split; [|apply same_refl].
    exists c0. rewrite F1, F2, F4. split.
    { unfold w1. cbn [w_comps set_comps]. rewrite nth_set_nth_neq by exact Hne. exact C1. }
    cbn. repeat split; auto. rewrite (kq_sched_other w1 k k' s' ev Hs Hne). exact C7.
Qed.

Lemma kick_simK k a w : w_guard w = GuardNew -> w_now w = 0 -> SimK k a w (kick w).
Proof.
  unfold kick. generalize (seq 0 (length (w_comps w))) as l. intro l. revert w.
  induction l as [|k' l IH]; intros w Hg Hn; cbn [fold_left]; [apply simk_refl|].
  set (w1 := match nth_error (w_comps w) k' with
             | Some c => match k_timers c with
                         | [] => w
                         | tm :: _ => match k_kind c with KTick => comp_tick_now w k' | KEvent => wake_at w k' (fst (fst tm)) end
                         end
             | None => w end).
  assert (H1 : SimK k a w w1 /\ w_guard w1 = GuardNew /\ w_now w1 = 0).
  { unfold w1. destruct (nth_error (w_comps w) k') as [c|] eqn:Ek'; [|split; [apply simk_refl|auto]].
    destruct (k_timers c) as [|tm r]; [split; [apply simk_refl|auto]|].
    destruct (k_kind c) eqn:Ekk.
    - split; [apply comp_tick_now_simK; [exact Hg|intros c1 Hc1; rewrite Ek' in Hc1; injection Hc1 as <-; exact Ekk]|].
      rewrite guard_comp_tick_now, now_comp_tick_now. auto.
    - split; [apply wake_simK; [rewrite Hn; apply N.le_0_l|intros c1 Hc1; rewrite Ek' in Hc1; injection Hc1 as <-; exact Ekk]|].
      rewrite guard_wake, now_wake. auto. }
  destruct H1 as (S1 & G1 & N1). eapply simk_trans; [exact S1|apply IH; assumption].
Qed.

(** the state of component k before anything ran *)
Definition st_initK (w : world) (k : nat) (d : compd) : estate :=
  mk_es (dkind_of (d_kind d)) (map p_in (loc (w_ports w) (ports_where (w_owner w) k)))
        (mk_sched false 0 (d_period d) false None) None [] 0 false false false.

Lemma st_initK_inv w k d : 1 <= d_period d -> Forall (fun p => content (p_in p) = []) (w_ports w) -> einv (st_initK w k d).
Proof.
  intros Hp He. split.
  - unfold ecore, st_initK. cbn. split; [intros x []|]. split; [|discriminate].
    destruct (dkind_of (d_kind d)); [|discriminate].
    unfold sched_inv. cbn. repeat split; auto; try discriminate. intros x [].
  - intros _ (b & Hb & Hne). exfalso. unfold st_initK in Hb. cbn [e_ins] in Hb.
    apply in_map_iff in Hb. destruct Hb as (p & <- & Hp'). apply in_loc in Hp'.
    rewrite Forall_forall in He. unfold bempty, size in Hne. rewrite (He p Hp') in Hne. discriminate.
Qed.

(** a harness-built world, kicked: component k's run starts from [st_initK] *)
Lemma built_worldK ports comps periods k d :
  nth_error comps k = Some d ->
  length (d_drain d) = length (ports_where (map (fun p : Z * Z * nat * nat => snd (fst p)) ports) k) ->
  length (d_relay d) = length (ports_where (map (fun p : Z * Z * nat * nat => snd (fst p)) ports) k) ->
  Forall (dr_ok (dkind_of (d_kind d))) (d_drain d) ->
  let wb := build GuardNew ports comps periods in
  let w0 := kick wb in
  WFk w0 /\ drains_k w0 k /\ (1 <= d_period d -> einv (st_initK wb k d)) /\
  exists acts st0, esteps (st_initK wb k d) acts = Some st0 /\ RK k false w0 st0.
Proof.
  intros Hd Hl1 Hl2 Hdr wb w0.
  set (owner := map (fun p : Z * Z * nat * nat => snd (fst p)) ports) in *.
  assert (Hcomp : forall y cy, nth_error (w_comps wb) y = Some cy ->
            exists dy, nth_error comps y = Some dy /\
              cy = mk_comp (d_kind dy) (mk_sched false 0 (d_period dy) false None) None
                           (ports_where owner y) (d_drain dy) (d_relay dy) (d_timers dy) []).
  { intros y cy Hy. unfold wb, build in Hy. cbn [w_comps] in Hy. rewrite nth_error_map in Hy.
    destruct (nth_error (combine (seq 0 (length comps)) comps) y) as [[y' dy]|] eqn:E; [|discriminate].
    assert (Hyl : (y < length comps)%nat).
    { pose proof (nth_error_lt _ _ _ E) as Hl. rewrite combine_length, seq_length in Hl. lia. }
    rewrite (combine_seq_nth comps d 0 y Hyl) in E. injection E as <- <-. cbn in Hy. injection Hy as <-.
    exists (nth y comps d). split; [apply nth_error_nth'; exact Hyl|reflexivity]. }
  assert (Hplen : length (w_ports wb) = length ports).
  { unfold wb, build. cbn [w_ports]. rewrite map_length, combine_length, seq_length. lia. }
  assert (Hwb : WFk wb).
  { constructor.
    - unfold wb, build. cbn [w_comps]. apply Forall_map. apply Forall_forall. intros y _. reflexivity.
    - unfold wb, build. cbn [w_ports]. apply Forall_map. apply Forall_forall. intros y _. reflexivity.
    - unfold wb, build. cbn [w_conns]. apply Forall_map. apply Forall_forall. intros y _. reflexivity.
    - unfold wb, build. cbn [w_ports]. apply Forall_map. apply Forall_forall. intros y _. cbn. constructor.
    - intros y cy Hy. destruct (Hcomp y cy Hy) as (dy & _ & ->). cbn [k_ports].
      rewrite ports_where_filter. split; [apply NoDup_filter; apply seq_NoDup|].
      intro g. rewrite filter_In, in_seq, Nat.eqb_eq. unfold owner at 1. rewrite map_length, Hplen.
      unfold owner_of. change (w_owner wb) with owner. split; intros [A B]; split; auto; lia. }
  assert (Hkb : nth_error (w_comps wb) k =
                Some (mk_comp (d_kind d) (mk_sched false 0 (d_period d) false None) None
                              (ports_where owner k) (d_drain d) (d_relay d) (d_timers d) [])).
  { unfold wb, build. cbn [w_comps]. rewrite nth_error_map.
    assert (Hkl : (k < length comps)%nat) by (eapply nth_error_lt; eauto).
    rewrite (combine_seq_nth comps d 0 k Hkl). cbn. rewrite (nth_error_nth _ _ d Hd). reflexivity. }
  assert (Hrb : RK k false wb (st_initK wb k d)).
  { eexists. split; [exact Hkb|]. unfold st_initK, ekind, dkind_of, kins. cbn. repeat split; auto. }
  destruct (kick_simK k false wb eq_refl eq_refl Hwb) as (Hw0 & (Ho & Hk) & S).
  fold w0 in Hw0, Ho, Hk, S.
  split; [exact Hw0|]. split.
  - exists (ports_where owner k), (d_drain d), (d_relay d), (d_kind d). rewrite Hk. unfold kports. rewrite Hkb.
    cbn. auto.
  - split.
    + intro Hp. apply st_initK_inv; [exact Hp|]. unfold wb, build. cbn [w_ports]. apply Forall_map.
      apply Forall_forall. intros y _. reflexivity.
    + destruct (S _ Hrb) as (acts & st0 & E & R0 & _). exists acts, st0. auto.
Qed.

(** clause 2 for the executable world: in a run of the scripted engine/port/connection/
    component world that ends with no event of component k pending, every incoming
    buffer of k's ports is empty — provided k drains its inputs (every drain limit of a
    ticking k is >= 1; an event-driven k has none) *)
Theorem world_projectsK k fuel w tr st :
  WFn w -> WFk w -> QIn w -> drains_k w k -> RK k false w st -> einv st ->
  let wf := snd (fst (run fuel w tr)) in
  w_halt wf = false -> kq wf k = [] ->
  forall c g, nth_error (w_comps wf) k = Some c -> In g (k_ports c) ->
  forall p, nth_error (w_ports wf) g = Some p -> size (p_in p) = 0%Z.
Proof.
  intros Hwn Hw Hq Hdk Hr Hi wf Hh Hkq c g Hc Hg p Hp.
  destruct (run_projectsK k fuel w tr st Hwn Hw Hq Hdk Hr) as [Hhalt|(acts & st' & E & Hr' & Hwf)];
    [fold wf in Hhalt; congruence|]. fold wf in Hr', Hwf.
  pose proof (esteps_inv _ _ _ Hi E) as Hi'.
  destruct Hr' as (c0 & C1 & C2 & C3 & C4 & C5 & C6 & C7 & C8).
  rewrite Hc in C1. injection C1 as <-.
  assert (Hq0 : e_q st' = []) by (rewrite Hkq in C7; exact (Permutation_nil (Permutation_sym C7))).
  pose proof (einv_quiescent st' Hi' Hq0 C8) as Hall. rewrite C3 in Hall.
  rewrite forallb_forall in Hall. apply Z.eqb_eq. apply (Hall (p_in p)).
  unfold kins. apply in_map. unfold loc. apply in_flat_map. exists g. split; [exact Hg|]. rewrite Hp. left. reflexivity.
Qed.

(** harness-built worlds are well formed and satisfy the engine contract *)
Lemma built_world_wfq ports comps periods :
  Forall (fun p => 1 <= p) periods -> Forall (fun d => 1 <= d_period d) comps ->
  let w0 := kick (build GuardNew ports comps periods) in WFn w0 /\ QIn w0.
Proof.
  intros Hpp Hcp. set (wb := build GuardNew ports comps periods).
  assert (Hsf : Forall secfalse (w_comps wb)).
  { unfold wb, build. cbn [w_comps]. apply Forall_map. apply Forall_forall. intros y _. reflexivity. }
  assert (Hconn : forall y cy, nth_error (w_conns wb) y = Some cy ->
            exists py, nth_error periods y = Some py /\
                       cy = mk_cnx (mk_sched false 0 py true None) (ports_where (map snd ports) y) 0).
  { intros y cy Hy. unfold wb, build in Hy. cbn [w_conns] in Hy. rewrite nth_error_map in Hy.
    destruct (nth_error (combine (seq 0 (length periods)) periods) y) as [[y' py]|] eqn:E; [|discriminate].
    assert (Hyl : (y < length periods)%nat).
    { pose proof (nth_error_lt _ _ _ E) as Hl. rewrite combine_length, seq_length in Hl. lia. }
    rewrite (combine_seq_nth periods 0 0 y Hyl) in E. injection E as <- <-. cbn in Hy. injection Hy as <-.
    exists (nth y periods 0). split; [apply nth_error_nth'; exact Hyl|reflexivity]. }
  assert (Hwb : WFn wb).
  { constructor; [reflexivity| |exact Hsf].
    intros y cy Hy. destruct (Hconn y cy Hy) as (py & _ & ->). cbn [x_sched x_ports s_sec].
    split; [reflexivity|]. rewrite ports_where_filter. split; [apply NoDup_filter; apply seq_NoDup|].
    intro g. rewrite filter_In, in_seq, Nat.eqb_eq, map_length.
    unfold wb, build. cbn [w_ports]. rewrite map_length, combine_length, seq_length.
    unfold conn_of. cbn [w_connof]. split; intros [A B]; split; auto; lia. }
  destruct (kick_coreN wb Hsf) as (Hc & Hl). intro w0. fold wb in w0. fold w0 in Hc, Hl.
  split; [exact (wfn_frame _ _ Hc Hwb)|]. apply qn_kick; [reflexivity|].
  constructor.
  - split; constructor.
  - split; constructor.
  - unfold wb, build. cbn [w_comps]. apply Forall_map. apply Forall_forall. intros [k d] Hin.
    apply in_combine_r in Hin. rewrite Forall_forall in Hcp. split; [reflexivity|exact (Hcp d Hin)].
  - apply Forall_forall. intros cy Hcy. apply In_nth_error in Hcy. destruct Hcy as (y & Hy).
    destruct (Hconn y cy Hy) as (py & Hpy & ->). split; [reflexivity|]. cbn.
    rewrite Forall_forall in Hpp. exact (Hpp py (nth_error_In _ _ Hpy)).
Qed.

(** Clause 2 for harness-built worlds, no checked hypothesis: if component k drains its
    inputs (its drain limits: none for an event-driven k, each >= 1 or none for a ticking
    k; one drain/relay entry per port), then whenever a run of the kicked world ends
    un-halted with no event of k pending, every incoming buffer of k's ports is empty. *)
Theorem built_world_projectsK ports comps periods k d fuel tr :
  Forall (fun p => 1 <= p) periods -> Forall (fun d => 1 <= d_period d) comps ->
  nth_error comps k = Some d ->
  length (d_drain d) = length (ports_where (map (fun p : Z * Z * nat * nat => snd (fst p)) ports) k) ->
  length (d_relay d) = length (ports_where (map (fun p : Z * Z * nat * nat => snd (fst p)) ports) k) ->
  Forall (dr_ok (dkind_of (d_kind d))) (d_drain d) ->
  let w0 := kick (build GuardNew ports comps periods) in
  let wf := snd (fst (run fuel w0 tr)) in
  w_halt wf = false -> kq wf k = [] ->
  forall c g, nth_error (w_comps wf) k = Some c -> In g (k_ports c) ->
  forall p, nth_error (w_ports wf) g = Some p -> size (p_in p) = 0%Z.
Proof.
  intros Hpp Hcp Hd Hl1 Hl2 Hdr w0 wf.
  destruct (built_world_wfq ports comps periods Hpp Hcp) as (Hwn & Hq).
  destruct (built_worldK ports comps periods k d Hd Hl1 Hl2 Hdr) as (Hw & Hdk & Hi & acts & st0 & E & Hr).
  fold w0 in Hwn, Hq, Hw, Hdk, Hr.
  assert (Hp : 1 <= d_period d) by (rewrite Forall_forall in Hcp; exact (Hcp d (nth_error_In _ _ Hd))).
  exact (world_projectsK k fuel w0 tr st0 Hwn Hw Hq Hdk Hr (esteps_inv _ _ _ (Hi Hp) E)).
Qed.

(** the same with the projection itself exposed: the run of the executable world is a run
    of the abstract draining-component system for k, from the fresh state *)
Theorem built_world_runs_projectK ports comps periods k d fuel tr :
  Forall (fun p => 1 <= p) periods -> Forall (fun d => 1 <= d_period d) comps ->
  nth_error comps k = Some d ->
  length (d_drain d) = length (ports_where (map (fun p : Z * Z * nat * nat => snd (fst p)) ports) k) ->
  length (d_relay d) = length (ports_where (map (fun p : Z * Z * nat * nat => snd (fst p)) ports) k) ->
  Forall (dr_ok (dkind_of (d_kind d))) (d_drain d) ->
  let wb := build GuardNew ports comps periods in
  let wf := snd (fst (run fuel (kick wb) tr)) in
  w_halt wf = false ->
  exists acts st', esteps (st_initK wb k d) acts = Some st' /\ RK k false wf st' /\ einv st'.
Proof.
  intros Hpp Hcp Hd Hl1 Hl2 Hdr wb wf Hh.
  destruct (built_world_wfq ports comps periods Hpp Hcp) as (Hwn & Hq).
  destruct (built_worldK ports comps periods k d Hd Hl1 Hl2 Hdr) as (Hw & Hdk & Hi & a0 & st0 & E0 & Hr).
  fold wb in Hwn, Hq, Hw, Hdk, Hr, E0, Hi.
  assert (Hp : 1 <= d_period d) by (rewrite Forall_forall in Hcp; exact (Hcp d (nth_error_In _ _ Hd))).
  destruct (run_projectsK k fuel (kick wb) tr st0 Hwn Hw Hq Hdk Hr) as [Hhalt|(a1 & st1 & E1 & Hr1 & _)];
    [fold wf in Hhalt; congruence|]. fold wf in Hr1.
  exists (a0 ++ a1), st1. rewrite esteps_app, E0. split; [exact E1|]. split; [exact Hr1|].
  exact (esteps_inv _ _ _ (esteps_inv _ _ _ (Hi Hp) E0) E1).
Qed.
