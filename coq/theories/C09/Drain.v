(** C09, clause 2 at the granularity of the code: a component that drains its inputs, in
    an arbitrary environment, with its activation broken into the calls the code makes —
    begin (the engine dispatches one of its events; Handle marks the tick handled resp.
    clears pendingWakeup), individual RetrieveIncoming calls, end (Tick() returns; a ticking
    component re-ticks on progress).  Deliveries by connections, notifications
    (NotifyRecv / NotifyPortFree), ScheduleWakeAt, the initial TickNow kick (repaired guard)
    and the passage of time are environment.
    Only the incoming buffers of the component's ports matter (every port has an owner).

    "Drains its inputs" is the obligation checked when an activation ends: all its inputs
    are empty, or it has been notified / has requested its next tick since the activation
    began (a ticking component that took a message reports progress and re-ticks). *)
From Akita Require Import Lib.Base Lib.Fifo Lib.Port Lib.Conn C10.Model C10.Proofs C09.Model C09.Proofs.
Local Open Scope N_scope.

Notation ibuf := (buf (A := option msg)).

Record estate := mk_es {
  e_kind : dkind;
  e_ins : list ibuf;          (* incoming buffers of its ports *)
  e_sched : sched;            (* DTick: TickScheduler *)
  e_pend : option N;          (* DEvent: pendingWakeup *)
  e_q : list N;               (* its pending events in the engine *)
  e_now : N;
  e_dirty : bool;             (* ghost: notified since its last activation began *)
  e_act : bool;               (* inside its own activation *)
  e_took : bool }.            (* retrieved a message in this activation *)

Inductive eact :=
| EDeliver (i : nat) (m : omsg)   (* a connection delivers into own port i (Deliver notifies when it was empty) *)
| ETick (ins' : list ibuf) (n : nat)
      (* a connection's whole tick, seen from this component: its incoming buffers become
         [ins'] and it is notified [n] times; Deliver's contract: if some buffer went from
         empty to non-empty then it was notified (n >= 1) *)
| ENotify                          (* any NotifyRecv / NotifyPortFree *)
| EWakeAt (t : N)                  (* ScheduleWakeAt t (event-driven) *)
| EBegin (t : N)                   (* the engine dispatches its earliest pending event *)
| ERetrieve (i : nat)              (* RetrieveIncoming on own port i, inside the activation *)
| EEnd                             (* the activation ends (after the re-tick request of a ticking component, if any) *)
| EAdvance (t : N)                 (* other handlers run, the clock moves *)
| ETickNow.                        (* the component's own TickNow (a ticking component; the initial kick) *)

Definition with_sq (st : estate) (s : sched) (p : option N) (q : list N) (d : bool) : estate :=
  mk_es (e_kind st) (e_ins st) s p q (e_now st) d (e_act st) (e_took st).

(** NotifyRecv / NotifyPortFree *)
Definition enotify (st : estate) : estate :=
  match e_kind st with
  | DTick =>
      let '(s', ev) := tick_later (e_now st) (e_sched st) in
      with_sq st s' (e_pend st) (e_q st ++ olist ev) true
  | DEvent =>
      match e_pend st with
      | Some p => if p <=? e_now st then with_sq st (e_sched st) (e_pend st) (e_q st) true
                  else with_sq st (e_sched st) (Some (e_now st)) (e_q st ++ [e_now st]) true
      | None => with_sq st (e_sched st) (Some (e_now st)) (e_q st ++ [e_now st]) true
      end
  end.

(** ScheduleWakeAt t *)
Definition ewake (t : N) (st : estate) : estate :=
  match e_pend st with
  | Some p => if p <=? t then st else with_sq st (e_sched st) (Some t) (e_q st ++ [t]) (e_dirty st)
  | None => with_sq st (e_sched st) (Some t) (e_q st ++ [t]) (e_dirty st)
  end.

Definition set_ins (st : estate) (ins : list ibuf) : estate :=
  mk_es (e_kind st) ins (e_sched st) (e_pend st) (e_q st) (e_now st) (e_dirty st) (e_act st) (e_took st).

Definition bempty (b : ibuf) : bool := (size b =? 0)%Z.

Definition estep (st : estate) (a : eact) : option estate :=
  match a with
  | EDeliver i m =>
      match nth_error (e_ins st) i with
      | Some b =>
          match push m b with
          | Some b' => let st' := set_ins st (set_nth i b' (e_ins st)) in
                       Some (if bempty b then enotify st' else st')
          | None => None
          end
      | None => None
      end
  | ETick ins' n =>
      if negb (e_act st) && (length ins' =? length (e_ins st))%nat &&
         (negb (existsb (fun bb => bempty (fst bb) && negb (bempty (snd bb))) (combine (e_ins st) ins')) || (1 <=? n)%nat)
      then Some (Nat.iter n enotify (set_ins st ins')) else None
  | ENotify => Some (enotify st)
  | EWakeAt t =>
      match e_kind st with
      | DEvent => if e_now st <=? t then Some (ewake t st) else None
      | DTick => None
      end
  | EBegin t =>
      if negb (e_act st) && existsb (N.eqb t) (e_q st) && forallb (N.leb t) (e_q st) then
        Some (mk_es (e_kind st) (e_ins st)
                    (match e_kind st with DTick => mark_handled (e_sched st) t | DEvent => e_sched st end)
                    (match e_kind st with DTick => e_pend st | DEvent => None end)
                    (remove1 t (e_q st)) t false true false)
      else None
  | ERetrieve i =>
      if e_act st then
        match nth_error (e_ins st) i with
        | Some b =>
            if bempty b then Some st
            else Some (mk_es (e_kind st) (set_nth i (snd (pop nilmsg b)) (e_ins st)) (e_sched st) (e_pend st)
                             (e_q st) (e_now st) (e_dirty st) true true)
        | None => None
        end
      else None
  | EEnd =>
      (* "drains its inputs": when the activation ends, every input is empty, or the
         component has been notified / has asked for its next tick since it began *)
      if e_act st && (forallb bempty (e_ins st) || e_dirty st)
      then Some (mk_es (e_kind st) (e_ins st) (e_sched st) (e_pend st) (e_q st) (e_now st) (e_dirty st) false (e_took st))
      else None
  | EAdvance t =>
      if negb (e_act st) && (e_now st <=? t) && forallb (N.leb t) (e_q st)
      then Some (mk_es (e_kind st) (e_ins st) (e_sched st) (e_pend st) (e_q st) t (e_dirty st) false (e_took st))
      else None
  | ETickNow =>
      match e_kind st with
      | DTick => let '(s', ev) := tick_now GuardNew (e_now st) (e_sched st) in
                 Some (with_sq st s' (e_pend st) (e_q st ++ olist ev) true)
      | DEvent => None
      end
  end.

Fixpoint esteps (st : estate) (h : list eact) : option estate :=
  match h with
  | [] => Some st
  | a :: r => match estep st a with Some st' => esteps st' r | None => None end
  end.

Definition unread_in (ins : list ibuf) : Prop := exists b, In b ins /\ bempty b = false.

Definition ecore (st : estate) : Prop :=
  (forall x, In x (e_q st) -> e_now st <= x) /\
  match e_kind st with
  | DTick => sched_inv (e_sched st) (e_q st) (e_now st)
  | DEvent => forall p, e_pend st = Some p -> In p (e_q st)
  end /\
  (e_dirty st = true -> e_q st <> []).

Definition einv (st : estate) : Prop :=
  ecore st /\ (e_act st = false -> unread_in (e_ins st) -> e_dirty st = true).

Lemma enotify_core st : ecore st ->
  ecore (enotify st) /\ e_dirty (enotify st) = true /\ e_ins (enotify st) = e_ins st /\
  e_act (enotify st) = e_act st /\ e_kind (enotify st) = e_kind st.
Proof.
  intros (Hq & Hk & Hd). unfold enotify. destruct (e_kind st) eqn:Ek.
  - pose proof (tick_later_ok _ _ _ Hk) as H. destruct (tick_later (e_now st) (e_sched st)) as [s' ev].
    destruct H as (Hs' & Hne). cbn. repeat split; auto.
    + destruct Hs' as (_ & Hq' & _); exact Hq'.
    + unfold ecore. cbn. rewrite Ek. exact Hs'.
  - assert (Hgo : let st' := with_sq st (e_sched st) (Some (e_now st)) (e_q st ++ [e_now st]) true in
            ecore st' /\ e_dirty st' = true /\ e_ins st' = e_ins st /\ e_act st' = e_act st /\ e_kind st' = e_kind st).
    { cbn. unfold ecore. cbn. rewrite Ek. repeat split; auto.
      - intros x Hx. apply in_app_iff in Hx. destruct Hx as [Hx|[<-|[]]]; [auto|lia].
      - intros p Hp. injection Hp as <-. apply in_app_iff. right. left. reflexivity.
      - intros _. destruct (e_q st); discriminate. }
    cbn zeta in Hgo. destruct Hgo as (G1 & G2 & G3 & G4 & G5).
    destruct (e_pend st) as [p|] eqn:Ep; [|split; [exact G1|]; split; [exact G2|]; split; [exact G3|]; split; [exact G4|cbn; exact Ek]].
    destruct (p <=? e_now st) eqn:El; [|split; [exact G1|]; split; [exact G2|]; split; [exact G3|]; split; [exact G4|cbn; exact Ek]].
    cbn. unfold ecore. cbn. rewrite Ek. repeat split; auto.
    intros _ Hq0. specialize (Hk p eq_refl). rewrite Hq0 in Hk. destruct Hk.
Qed.

Lemma ewake_core t st : ecore st -> e_now st <= t -> ecore (ewake t st).
Proof.
  intros Hc Ht. unfold ewake.
  assert (Hgo : ecore (with_sq st (e_sched st) (Some t) (e_q st ++ [t]) (e_dirty st))).
  { destruct Hc as (Hq & Hk & Hd). unfold ecore. cbn. split; [|split].
    - intros x Hx. apply in_app_iff in Hx. destruct Hx as [Hx|[<-|[]]]; auto.
    - destruct (e_kind st).
      + destruct Hk as (Hp & Hq' & Hn & Hh). unfold sched_inv. repeat split; auto.
        * intros x Hx. apply in_app_iff in Hx. destruct Hx as [Hx|[<-|[]]]; auto.
        * intro Hhas. destruct (Hn Hhas) as [Hin|Hr]; [left; apply in_app_iff; left; exact Hin|right; exact Hr].
      + intros p Hp. injection Hp as <-. apply in_app_iff. right. left. reflexivity.
    - intros _. destruct (e_q st); discriminate. }
  destruct (e_pend st) as [p|]; [destruct (p <=? t); [exact Hc|exact Hgo]|exact Hgo].
Qed.

Lemma no_unread ins : forallb bempty ins = true -> ~ unread_in ins.
Proof.
  intros H (b & Hb & Hne). rewrite forallb_forall in H. rewrite (H b Hb) in Hne. discriminate.
Qed.

Lemma combine_nth_error {A B} (l : list A) : forall (l' : list B) i x y,
  nth_error l i = Some x -> nth_error l' i = Some y -> nth_error (combine l l') i = Some (x, y).
Proof.
  induction l as [|a l IH]; intros [|b l'] [|i] x y H1 H2; cbn in *; try discriminate; [congruence|].
  exact (IH l' i x y H1 H2).
Qed.

Lemma estep_inv st a st' : einv st -> estep st a = Some st' -> einv st'.
Proof.
  intros (Hc & Hu) H. pose proof Hc as (Hq & Hk & Hd). destruct a as [i m|ins' n| |t|t|i| |t|]; cbn [estep] in H.
  - (* deliver *)
    destruct (nth_error (e_ins st) i) as [b|] eqn:Eb; [|discriminate].
    destruct (push m b) as [b'|]; [|discriminate].
    set (st1 := set_ins st (set_nth i b' (e_ins st))) in *.
    assert (Hc1 : ecore st1) by exact Hc.
    destruct (bempty b) eqn:Ee; injection H as <-.
    + destruct (enotify_core st1 Hc1) as (A & B & _). split; [exact A|intros _ _; exact B].
    + split; [exact Hc1|]. intros Ha _. apply Hu; [exact Ha|]. exists b. split; [eapply nth_error_In; eauto|exact Ee].
  - (* a connection's tick *)
    destruct (negb (e_act st) && (length ins' =? length (e_ins st))%nat &&
              (negb (existsb (fun bb => bempty (fst bb) && negb (bempty (snd bb))) (combine (e_ins st) ins')) || (1 <=? n)%nat)) eqn:En;
      [|discriminate].
    injection H as <-. apply andb_true_iff in En. destruct En as [En Hob]. apply andb_true_iff in En. destruct En as [Ha Hlen].
    apply negb_true_iff in Ha. apply Nat.eqb_eq in Hlen.
    set (st1 := set_ins st ins') in *. assert (Hc1 : ecore st1) by exact Hc.
    destruct n as [|n].
    + cbn [Nat.iter]. split; [exact Hc1|]. intros _ (b' & Hb' & Hne).
      rewrite orb_false_r in Hob. apply negb_true_iff in Hob.
      apply Hu; [exact Ha|]. cbn [st1 set_ins e_ins] in Hb'.
      apply In_nth_error in Hb'. destruct Hb' as (i & Hi).
      destruct (nth_error (e_ins st) i) as [b|] eqn:Eb.
      * exists b. split; [eapply nth_error_In; eauto|].
        destruct (bempty b) eqn:Ee; [|reflexivity]. exfalso.
        assert (Hex : existsb (fun bb => bempty (fst bb) && negb (bempty (snd bb))) (combine (e_ins st) ins') = true).
        { apply existsb_exists. exists (b, b'). split.
          - eapply nth_error_In. exact (combine_nth_error _ _ i b b' Eb Hi).
          - cbn. rewrite Ee, Hne. reflexivity. }
        congruence.
      * exfalso. apply nth_error_None in Eb. pose proof (nth_error_lt _ _ _ Hi) as Hlt. cbn in Hlt. lia.
    + cbn [Nat.iter].
      assert (Hit : forall k, ecore (Nat.iter k enotify st1)).
      { induction k as [|k IHk]; [exact Hc1|]. cbn [Nat.iter]. exact (proj1 (enotify_core _ IHk)). }
      destruct (enotify_core _ (Hit n)) as (A & B & _). split; [exact A|intros _ _; exact B].
  - injection H as <-. destruct (enotify_core st Hc) as (A & B & _). split; [exact A|intros _ _; exact B].
  - destruct (e_kind st) eqn:Ek; [discriminate|]. destruct (e_now st <=? t) eqn:El; [|discriminate]. injection H as <-.
    split; [apply ewake_core; [exact Hc|lia]|].
    unfold ewake. destruct (e_pend st) as [p|]; [destruct (p <=? t)|]; cbn; exact Hu.
  - (* begin *)
    destruct (negb (e_act st) && existsb (N.eqb t) (e_q st) && forallb (N.leb t) (e_q st)) eqn:En; [|discriminate].
    injection H as <-. apply andb_true_iff in En. destruct En as [En Hall]. apply andb_true_iff in En. destruct En as [_ Hex].
    apply existsb_exists in Hex. destruct Hex as (x & Hx & Hxt). apply N.eqb_eq in Hxt. subst x.
    assert (Hmin : forall x, In x (e_q st) -> t <= x).
    { intros x Hin. rewrite forallb_forall in Hall. specialize (Hall x Hin). lia. }
    split; [|cbn; discriminate]. unfold ecore. cbn. split; [|split; [|discriminate]].
    + intros x Hx'. apply Hmin. eapply in_remove1; eauto.
    + destruct (e_kind st); [exact (handle_inv _ _ _ t Hk Hx Hmin)|discriminate].
  - (* retrieve *)
    destruct (e_act st) eqn:Ea; [|discriminate].
    destruct (nth_error (e_ins st) i) as [b|]; [|discriminate].
    destruct (bempty b); injection H as <-; [split; [exact Hc|rewrite Ea; discriminate]|].
    split; [exact Hc|cbn; discriminate].
  - (* end *)
    destruct (e_act st && (forallb bempty (e_ins st) || e_dirty st)) eqn:En; [|discriminate].
    injection H as <-. apply andb_true_iff in En. destruct En as [_ Hob].
    split; [exact Hc|]. cbn. intros _ Hun. apply orb_true_iff in Hob. destruct Hob as [Hob|Hob]; [|exact Hob].
    exfalso. exact (no_unread _ Hob Hun).
  - (* time passes *)
    destruct (negb (e_act st) && (e_now st <=? t) && forallb (N.leb t) (e_q st)) eqn:En; [|discriminate].
    injection H as <-. apply andb_true_iff in En. destruct En as [En Hall]. apply andb_true_iff in En. destruct En as [Ha Hle].
    assert (Hmin : forall x, In x (e_q st) -> t <= x).
    { intros x Hin. rewrite forallb_forall in Hall. specialize (Hall x Hin). lia. }
    split.
    + unfold ecore. cbn. split; [exact Hmin|]. split; [|exact Hd].
      destruct (e_kind st); [apply (advance_inv _ _ (e_now st)); [exact Hk|lia|exact Hmin]|exact Hk].
    + cbn. intros _. apply Hu. apply negb_true_iff in Ha. exact Ha.
  - (* its own TickNow *)
    destruct (e_kind st) eqn:Ek; [|discriminate].
    pose proof (tick_now_new _ _ _ Hk) as Hn.
    destruct (tick_now GuardNew (e_now st) (e_sched st)) as [s' ev]. injection H as <-. destruct Hn as (Hs' & Hne).
    split; [|cbn; auto]. unfold ecore. cbn. rewrite Ek. split; [|split; [exact Hs'|intros _; exact Hne]].
    destruct Hs' as (_ & Hq' & _). exact Hq'.
Qed.

Lemma esteps_inv h : forall st st', einv st -> esteps st h = Some st' -> einv st'.
Proof.
  induction h as [|a r IH]; intros st st' Hi H; cbn [esteps] in H; [injection H as <-; exact Hi|].
  destruct (estep st a) as [st1|] eqn:E; [|discriminate].
  eapply IH; [|exact H]. eapply estep_inv; eauto.
Qed.

(** at queue exhaustion, outside an activation, a draining component has no unread input *)
Lemma einv_quiescent st : einv st -> e_q st = [] -> e_act st = false -> forallb bempty (e_ins st) = true.
Proof.
  intros ((_ & _ & Hd) & Hu) Hq Ha. apply forallb_forall. intros b Hb.
  destruct (bempty b) eqn:E; [reflexivity|]. exfalso. apply Hd; [|exact Hq]. apply Hu; [exact Ha|]. exists b. auto.
Qed.
