(** C09 — proofs.
    (1) The tick scheduler in isolation, parametric in the guard.
    (2) A direct connection with its scheduler in an ARBITRARY environment: components
        are not scripted here — any sequence of sends and retrievals on the plugged
        ports, any placement of the engine's handling of the connection's tick events,
        any passage of time.  Invariant: a deliverable outgoing head implies a request
        since the last tick ("dirty"), and — for the repaired guard — a request since
        the last tick implies a pending tick event.  Hence at queue exhaustion no port
        of any connection holds a deliverable message, in every topology.
    (3) The concrete witness on the executable world of Model.v: with the guard as
        coded the run ends with a deliverable message stranded. *)
From Akita Require Import Lib.Base Lib.Fifo Lib.Port Lib.Conn C10.Model C10.Exec C10.Proofs C09.Model.
Local Open Scope N_scope.

(** ------------------------------------------------------------------ *)
(** Clock arithmetic *)
Lemma this_tick_ge p t : 1 <= p -> t <= this_tick p t.
Proof. unfold this_tick. intro Hp. nia. Qed.

Lemma next_tick_gt p t : 1 <= p -> t < next_tick p t.
Proof. unfold next_tick. intro Hp. nia. Qed.

(** ------------------------------------------------------------------ *)
(** (1) One scheduler and the pending tick events of its handler. *)
Fixpoint remove1 (t : N) (q : list N) : list N :=
  match q with
  | [] => []
  | x :: r => if x =? t then r else x :: remove1 t r
  end.

Lemma in_remove1 t q x : In x (remove1 t q) -> In x q.
Proof.
  induction q as [|y r IH]; cbn; [tauto|]. destruct (y =? t); cbn; intuition.
Qed.

Lemma in_remove1_neq t q x : In x q -> x <> t -> In x (remove1 t q).
Proof.
  induction q as [|y r IH]; cbn; [tauto|]. intros [->|H] Hne.
  - destruct (x =? t) eqn:E; [apply N.eqb_eq in E; congruence|left; reflexivity].
  - destruct (y =? t); [exact H|right; auto].
Qed.

Definition olist (o : option N) : list N := match o with Some t => [t] | None => [] end.

(** scheduler invariant w.r.t. the pending events [q] of its handler and the engine time *)
Definition sched_inv (s : sched) (q : list N) (now : N) : Prop :=
  1 <= s_period s /\
  (forall x, In x q -> now <= x) /\
  (s_has s = true -> In (s_next s) q \/ exists h, s_handled s = Some h /\ s_next s <= h) /\
  (forall h, s_handled s = Some h -> h <= now).

(** a request is never lost by the REPAIRED guard: after TickNow a tick event is pending *)
Lemma tick_now_new s q now : sched_inv s q now ->
  let '(s', ev) := tick_now GuardNew now s in
  sched_inv s' (q ++ olist ev) now /\ q ++ olist ev <> [].
Proof.
  intros Hs. pose proof Hs as (Hp & Hq & Hn & Hh). unfold tick_now.
  destruct (s_has s) eqn:Ehas; cbn [andb].
  - destruct (now <? s_next s) eqn:E1.
    + (* a later tick is pending *)
      cbn [olist]. rewrite app_nil_r. split; [exact Hs|].
      destruct (Hn eq_refl) as [Hin|(h & Hh1 & Hh2)]; [intro Hq0; rewrite Hq0 in Hin; destruct Hin|].
      specialize (Hh h Hh1). lia.
    + destruct (now =? s_next s) eqn:E2.
      * unfold handled_at. destruct (s_handled s) as [h|] eqn:Eh.
        -- destruct (h =? now) eqn:E3.
           ++ (* the tick of this instant was already handled: schedule the next edge *)
              pose proof (next_tick_gt (s_period s) now Hp) as Hgt. cbn [olist].
              split; [|destruct q; discriminate].
              repeat split; cbn [set_sched s_period s_has s_next s_handled]; auto.
              ** intros x Hx. apply in_app_iff in Hx. destruct Hx as [Hx|[<-|[]]]; [auto|lia].
              ** intros _. left. apply in_app_iff. right. left. reflexivity.
              ** intros h' Hh'. apply Hh. congruence.
           ++ (* still pending at this very instant *)
              cbn [olist]. rewrite app_nil_r. split; [exact Hs|].
              destruct (Hn eq_refl) as [Hin|(h' & Hh1 & Hh2)]; [intro Hq0; rewrite Hq0 in Hin; destruct Hin|].
              injection Hh1 as <-. specialize (Hh h eq_refl). lia.
        -- cbn [olist]. rewrite app_nil_r. split; [exact Hs|].
           destruct (Hn eq_refl) as [Hin|(h' & Hh1 & _)]; [intro Hq0; rewrite Hq0 in Hin; destruct Hin|congruence].
      * (* the last scheduled tick is in the past *)
        pose proof (this_tick_ge (s_period s) now Hp) as Hge. cbn [olist].
        split; [|destruct q; discriminate].
        repeat split; cbn [set_sched s_period s_has s_next s_handled]; auto.
        -- intros x Hx. apply in_app_iff in Hx. destruct Hx as [Hx|[<-|[]]]; [auto|lia].
        -- intros _. left. apply in_app_iff. right. left. reflexivity.
  - pose proof (this_tick_ge (s_period s) now Hp) as Hge. cbn [olist].
    split; [|destruct q; discriminate].
    repeat split; cbn [set_sched s_period s_has s_next s_handled]; auto.
    + intros x Hx. apply in_app_iff in Hx. destruct Hx as [Hx|[<-|[]]]; [auto|lia].
    + intros _. left. apply in_app_iff. right. left. reflexivity.
Qed.

(** TickLater never loses a request (either guard: it is untouched by the repair) *)
Lemma tick_later_ok s q now : sched_inv s q now ->
  let '(s', ev) := tick_later now s in
  sched_inv s' (q ++ olist ev) now /\ q ++ olist ev <> [].
Proof.
  intros Hs. pose proof Hs as (Hp & Hq & Hn & Hh). unfold tick_later.
  pose proof (next_tick_gt (s_period s) now Hp) as Hgt.
  destruct (s_has s) eqn:Ehas; cbn [andb].
  - destruct (next_tick (s_period s) now <=? s_next s) eqn:E1.
    + cbn [olist]. rewrite app_nil_r. split; [exact Hs|].
      destruct (Hn eq_refl) as [Hin|(h & Hh1 & Hh2)]; [intro Hq0; rewrite Hq0 in Hin; destruct Hin|].
      specialize (Hh h Hh1). lia.
    + cbn [olist]. split; [|destruct q; discriminate].
      repeat split; cbn [set_sched s_period s_has s_next s_handled]; auto.
      * intros x Hx. apply in_app_iff in Hx. destruct Hx as [Hx|[<-|[]]]; [auto|lia].
      * intros _. left. apply in_app_iff. right. left. reflexivity.
  - cbn [olist]. split; [|destruct q; discriminate].
    repeat split; cbn [set_sched s_period s_has s_next s_handled]; auto.
    + intros x Hx. apply in_app_iff in Hx. destruct Hx as [Hx|[<-|[]]]; [auto|lia].
    + intros _. left. apply in_app_iff. right. left. reflexivity.
Qed.

(** the engine handles the earliest pending tick event t of this handler *)
Lemma handle_inv s q now t : sched_inv s q now -> In t q -> (forall x, In x q -> t <= x) ->
  sched_inv (mark_handled s t) (remove1 t q) t.
Proof.
  intros (Hp & Hq & Hn & Hh) Hin Hmin. repeat split; cbn [mark_handled s_period s_has s_next s_handled]; auto.
  - intros x Hx. apply Hmin. eapply in_remove1; eauto.
  - intro Hhas. destruct (Hn Hhas) as [Hi|(h & Hh1 & Hh2)].
    + destruct (N.eq_dec (s_next s) t) as [E|E].
      * right. exists t. split; [reflexivity|lia].
      * left. apply in_remove1_neq; assumption.
    + right. exists t. split; [reflexivity|]. specialize (Hh h Hh1). specialize (Hq t Hin). lia.
  - intros h H. injection H as <-. lia.
Qed.

Lemma advance_inv s q now t : sched_inv s q now -> now <= t -> (forall x, In x q -> t <= x) ->
  sched_inv s q t.
Proof.
  intros (Hp & Hq & Hn & Hh) Hle Hmin. repeat split; auto. intros h H. specialize (Hh h H). lia.
Qed.

(** The guard as coded loses a request: TickNow at T, the tick at T is handled,
    TickNow again at T is dropped although nothing is pending. *)
Lemma tick_now_old_loses_request :
  let s0 := mk_sched false 0 1000 true None in
  let '(s1, ev1) := tick_now GuardOld 2000 s0 in
  let s2 := mark_handled s1 2000 in
  let q2 := remove1 2000 (olist ev1) in
  let '(s3, ev3) := tick_now GuardOld 2000 s2 in
  ev1 = Some 2000 /\ q2 = [] /\ ev3 = None /\
  (* the repaired guard schedules the next edge instead *)
  snd (tick_now GuardNew 2000 s2) = Some 3000.
Proof. vm_compute. repeat split; reflexivity. Qed.

(** ------------------------------------------------------------------ *)
(** (2) A connection, its scheduler, its pending tick events, in an arbitrary environment. *)
Record cstate := mk_cs {
  cs_conn : conn; cs_sched : sched; cs_q : list N; cs_now : N;
  cs_dirty : bool }.   (* ghost: TickNow/TickLater was called since the last tick started *)

Inductive cact :=
| CSend (i : nat) (m : msg)     (* a component sends on plugged port i (after CanSend) *)
| CRetrieve (i : nat)           (* a component retrieves from plugged port i *)
| CHandle (t : N)               (* the engine handles this connection's earliest pending tick event *)
| CAdvance (t : N)              (* other handlers run, the clock moves (never past a pending event) *)
| CTickNow                      (* any other TickNow (NotifyAvailable from elsewhere ...) *)
| CTickLater.

Definition request (g : guard) (later : bool) (st : cstate) : cstate :=
  let '(s', ev) := if later then tick_later (cs_now st) (cs_sched st)
                   else tick_now g (cs_now st) (cs_sched st) in
  mk_cs (cs_conn st) s' (cs_q st ++ olist ev) (cs_now st) true.

Definition with_ports (st : cstate) (ps : list port) : cstate :=
  mk_cs (mk_conn ps (c_next (cs_conn st))) (cs_sched st) (cs_q st) (cs_now st) (cs_dirty st).

Definition has_notif (n : notif) (ns : list notif) : bool := existsb (notif_eqb n) ns.

(** [None]: the action is not enabled (or the tick panics) *)
Definition cstep (g : guard) (st : cstate) (a : cact) : option cstate :=
  let ps := c_ports (cs_conn st) in
  match a with
  | CSend i m =>
      match nth_error ps i with
      | Some p =>
          match send (Some m) p with
          | Ok _ p' ns =>
              let st' := with_ports st (set_nth i p' ps) in
              Some (if has_notif NSend ns then request g false st' else st')    (* NotifySend -> TickNow *)
          | _ => None
          end
      | None => None
      end
  | CRetrieve i =>
      match nth_error ps i with
      | Some p =>
          match retrieve_incoming p with
          | Ok _ p' ns =>
              let st' := with_ports st (set_nth i p' ps) in
              Some (if has_notif NAvailable ns then request g false st' else st') (* NotifyAvailable -> TickNow *)
          | _ => None
          end
      | None => None
      end
  | CHandle t =>
      if existsb (N.eqb t) (cs_q st) && forallb (N.leb t) (cs_q st) then
        match tick (cs_conn st) with
        | TickOk pr c' _ _ =>
            let st' := mk_cs c' (mark_handled (cs_sched st) t) (remove1 t (cs_q st)) t false in
            Some (if pr then request g true st' else st')                         (* progress -> TickLater *)
        | TickPanic => None
        end
      else None
  | CAdvance t =>
      if (cs_now st <=? t) && forallb (N.leb t) (cs_q st)
      then Some (mk_cs (cs_conn st) (cs_sched st) (cs_q st) t (cs_dirty st)) else None
  | CTickNow => Some (request g false st)
  | CTickLater => Some (request g true st)
  end.

Fixpoint csteps (g : guard) (st : cstate) (h : list cact) : option cstate :=
  match h with
  | [] => Some st
  | a :: r => match cstep g st a with Some st' => csteps g st' r | None => None end
  end.

Definition some_deliverable (ps : list port) : Prop := exists k, deliv ps k = true.

Definition cinv (st : cstate) : Prop :=
  sched_inv (cs_sched st) (cs_q st) (cs_now st) /\
  (cs_dirty st = true -> cs_q st <> []) /\
  (some_deliverable (c_ports (cs_conn st)) -> cs_dirty st = true).

(** what [deliv] looks at in a port *)
Definition view (p : port) := (p_name p, peek_outgoing p, can_deliver p).

Lemma find_port_view name ps ps' : map view ps = map view ps' -> find_port name ps = find_port name ps'.
Proof.
  intro H. unfold find_port. apply find_port_from_names.
  assert (E : forall l, map p_name l = map (fun v : N * option msg * bool => fst (fst v)) (map view l)).
  { intro l. rewrite map_map. reflexivity. }
  rewrite (E ps), (E ps'), H. reflexivity.
Qed.

Lemma nth_view ps ps' k : map view ps = map view ps' ->
  option_map view (nth_error ps k) = option_map view (nth_error ps' k).
Proof. intro H. rewrite <- !nth_error_map, H. reflexivity. Qed.

Lemma deliv_view ps ps' k : map view ps = map view ps' -> deliv ps k = deliv ps' k.
Proof.
  intro H. unfold deliv, dest_ok.
  pose proof (nth_view ps ps' k H) as Hk.
  destruct (nth_error ps k) as [p|], (nth_error ps' k) as [p'|]; cbn in Hk; try discriminate; [|reflexivity].
  injection Hk as Hn Hp Hc. rewrite Hp.
  destruct (peek_outgoing p') as [m|]; [|reflexivity].
  rewrite (find_port_view (m_dst m) ps ps' H).
  destruct (find_port (m_dst m) ps') as [j|]; [|reflexivity].
  pose proof (nth_view ps ps' j H) as Hj.
  destruct (nth_error ps j) as [d|], (nth_error ps' j) as [d'|]; cbn in Hj; try discriminate; [|reflexivity].
  injection Hj as _ _ Hcd. exact Hcd.
Qed.

Lemma has_notif_single (n : notif) (b : bool) : has_notif n (if b then [n] else []) = b.
Proof. destruct b; cbn; [|reflexivity]. destruct n; reflexivity. Qed.

Lemma request_inv_new later st :
  sched_inv (cs_sched st) (cs_q st) (cs_now st) ->
  let st' := request GuardNew later st in
  sched_inv (cs_sched st') (cs_q st') (cs_now st') /\ cs_q st' <> [] /\ cs_dirty st' = true /\
  cs_conn st' = cs_conn st.
Proof.
  intro Hs. unfold request. destruct later.
  - pose proof (tick_later_ok _ _ _ Hs) as H. destruct (tick_later (cs_now st) (cs_sched st)) as [s' ev].
    cbn. tauto.
  - pose proof (tick_now_new _ _ _ Hs) as H. destruct (tick_now GuardNew (cs_now st) (cs_sched st)) as [s' ev].
    cbn. tauto.
Qed.

(** the invariant is preserved by every enabled action, for the repaired guard *)
Lemma cstep_inv st a st' : cinv st -> cstep GuardNew st a = Some st' -> cinv st'.
Proof.
  intros (Hs & Hd & Hl) H. destruct a as [i m|i|t|t| |]; cbn [cstep] in H.
  - (* send *)
    destruct (nth_error (c_ports (cs_conn st)) i) as [p|] eqn:Ep; [|discriminate].
    destruct (send (Some m) p) as [u p' ns| |] eqn:Es; try discriminate.
    destruct (send_spec _ _ _ _ _ Es) as (_ & _ & Hout & _ & Hin & Hname & _ & Hns).
    rewrite Hns, has_notif_single in H.
    destruct (size (p_out p) =? 0)%Z eqn:Ez; injection H as <-.
    + destruct (request_inv_new false (with_ports st (set_nth i p' (c_ports (cs_conn st)))) Hs) as (A & B & C & _).
      split; [exact A|]. split; [intros _; exact B|intros _; exact C].
    + split; [exact Hs|]. split; [exact Hd|]. cbn [with_ports cs_conn cs_dirty c_ports].
      intros (k & Hk). apply Hl. exists k. rewrite <- Hk. apply deliv_view.
      symmetry. eapply map_set_nth_same; [exact Ep|].
      unfold view, can_deliver. rewrite Hname, Hin. f_equal. f_equal.
      unfold peek_outgoing, peek. rewrite Hout.
      rewrite size_zero_nil in Ez. destruct (content (p_out p)); [discriminate|reflexivity].
  - (* retrieve *)
    destruct (nth_error (c_ports (cs_conn st)) i) as [p|] eqn:Ep; [|discriminate].
    destruct (retrieve_incoming p) as [v p' ns| |] eqn:Er; try discriminate.
    destruct (retrieve_incoming_spec _ _ _ _ Er) as (Hin & Hcap & Hout & Hname & _ & _ & Hns).
    rewrite Hns, has_notif_single in H.
    destruct (negb (size (p_in p) =? 0)%Z && (size (p_in p') =? b_cap (p_in p) - 1)%Z) eqn:Ee; injection H as <-.
    + destruct (request_inv_new false (with_ports st (set_nth i p' (c_ports (cs_conn st)))) Hs) as (A & B & C & _).
      split; [exact A|]. split; [intros _; exact B|intros _; exact C].
    + split; [exact Hs|]. split; [exact Hd|]. cbn [with_ports cs_conn cs_dirty c_ports].
      intros (k & Hk). apply Hl. exists k. rewrite <- Hk. apply deliv_view.
      symmetry. eapply map_set_nth_same; [exact Ep|].
      unfold view. rewrite Hname. unfold peek_outgoing. rewrite Hout. f_equal.
      unfold can_deliver, can_push. rewrite Hcap.
      unfold size in *. rewrite Hin in *.
      destruct (content (p_in p)) as [|x r]; cbn [tl length] in *; [reflexivity|]. lia.
  - (* handle *)
    destruct (existsb (N.eqb t) (cs_q st) && forallb (N.leb t) (cs_q st)) eqn:En; [|discriminate].
    apply andb_true_iff in En. destruct En as [Hex Hall].
    apply existsb_exists in Hex. destruct Hex as (x & Hx & Hxt). apply N.eqb_eq in Hxt. subst x.
    assert (Hmin : forall x, In x (cs_q st) -> t <= x).
    { intros x Hin. rewrite forallb_forall in Hall. specialize (Hall x Hin). lia. }
    destruct (tick (cs_conn st)) as [pr c' cb dl|] eqn:Et; [|discriminate].
    destruct (tick_progress _ _ _ _ _ Et) as (Hblocked & _).
    pose proof (handle_inv _ _ _ t Hs Hx Hmin) as Hs'.
    set (st1 := mk_cs c' (mark_handled (cs_sched st) t) (remove1 t (cs_q st)) t false) in *.
    destruct pr; injection H as <-.
    + destruct (request_inv_new true st1 Hs') as (A & B & C & _).
      split; [exact A|]. split; [intros _; exact B|intros _; exact C].
    + split; [exact Hs'|]. split; [discriminate|].
      intros (k & Hk). cbn [st1 cs_conn] in Hk. rewrite Hblocked in Hk. discriminate.
  - (* advance *)
    destruct ((cs_now st <=? t) && forallb (N.leb t) (cs_q st)) eqn:En; [|discriminate].
    injection H as <-. apply andb_true_iff in En. destruct En as [Hle Hall].
    split; [|split; [exact Hd|exact Hl]]. cbn.
    apply (advance_inv _ _ (cs_now st)); [exact Hs|lia|].
    intros x Hin. rewrite forallb_forall in Hall. specialize (Hall x Hin). lia.
  - injection H as <-. destruct (request_inv_new false st Hs) as (A & B & C & _).
    split; [exact A|]. split; [intros _; exact B|intros _; exact C].
  - injection H as <-. destruct (request_inv_new true st Hs) as (A & B & C & _).
    split; [exact A|]. split; [intros _; exact B|intros _; exact C].
Qed.

Lemma csteps_inv h : forall st st', cinv st -> csteps GuardNew st h = Some st' -> cinv st'.
Proof.
  induction h as [|a r IH]; intros st st' Hi H; cbn [csteps] in H; [injection H as <-; exact Hi|].
  destruct (cstep GuardNew st a) as [st1|] eqn:E; [|discriminate].
  eapply IH; [|exact H]. eapply cstep_inv; eauto.
Qed.

(** a freshly built connection: nothing sent, nothing scheduled *)
Definition cinit (caps : list (Z * Z)) (period : N) : cstate :=
  mk_cs (new_conn caps) (mk_sched false 0 period true None) [] 0 false.

Lemma deliv_new_conn caps k : deliv (mk_ports caps) k = false.
Proof.
  unfold deliv, mk_ports. rewrite nth_error_map.
  destruct (nth_error (combine (seq 0 (length caps)) caps) k); reflexivity.
Qed.

Lemma cinit_inv caps period : 1 <= period -> cinv (cinit caps period).
Proof.
  intro Hp. unfold cinit, cinv. cbn [cs_sched cs_q cs_now cs_dirty cs_conn].
  split; [|split].
  - unfold sched_inv. cbn [s_period s_has s_handled s_next].
    split; [exact Hp|]. split; [intros x []|]. split; [discriminate|]. intros h H. discriminate.
  - discriminate.
  - intros (k & Hk). unfold new_conn in Hk. cbn [c_ports] in Hk. rewrite deliv_new_conn in Hk. discriminate.
Qed.

(** (3) the executable world: the witness topology of the harness *)
Definition witness_ports : list (Z * Z * nat * nat) :=
  [(1%Z, 2%Z, 0%nat, 0%nat); (1%Z, 2%Z, 0%nat, 1%nat); (2%Z, 2%Z, 1%nat, 1%nat);
   (2%Z, 2%Z, 1%nat, 0%nat); (0%Z, 1%Z, 2%nat, 0%nat); (2%Z, 1%Z, 2%nat, 0%nat)].
Definition witness_comps : list compd :=
  [mk_compd KTick 1000 [Some 1%nat; Some 1%nat] [None; None]
     [(2000, 0%nat, mk_msg 1 1 5 10); (2000, 1%nat, mk_msg 2 2 3 20)];
   mk_compd KEvent 1000 [None; None] [Some (3%nat, 6); None] [];
   mk_compd KTick 1000 [Some 1%nat; Some 1%nat] [None; None] []].
Definition witness_world (g : guard) : world :=
  kick (build g witness_ports witness_comps [1000; 1000]).

Lemma witness_old_stranded :
  let '(tr, w, done) := run 100 (witness_world GuardOld) [] in
  done = true /\ w_prim w = [] /\ w_sec w = [] /\
  deliverable_head w 3 = true /\ quiescent_clean w = false.
Proof. vm_compute. repeat split; reflexivity. Qed.

Lemma witness_new_clean :
  let '(tr, w, done) := run 100 (witness_world GuardNew) [] in
  done = true /\ w_prim w = [] /\ w_sec w = [] /\ quiescent_clean w = true.
Proof. vm_compute. repeat split; reflexivity. Qed.
