(** C09 — proofs.
    (1) The tick scheduler in isolation, parametric in the guard.
    (2) A direct connection with its scheduler in an ARBITRARY environment: components
        are not scripted here — any sequence of sends and retrievals on the plugged
        ports, any placement of the engine's handling of the connection's tick events,
        any passage of time.  Invariant: a deliverable outgoing head implies a request
        since the last tick ("dirty"), and — for the repaired guard — a request since
        the last tick implies a pending tick event.  Hence at queue exhaustion no port
        of any connection holds a deliverable message, in every topology.
    (3) The concrete witness on the executable world of Model.v: with the guard as
        coded the run ends with a deliverable message stranded. *)
From Akita Require Import Lib.Base Lib.Fifo Lib.Port Lib.Conn C10.Model C10.Exec C10.Proofs C09.Model.
Local Open Scope N_scope.

(** ------------------------------------------------------------------ *)
(** Clock arithmetic *)
Lemma this_tick_ge p t : 1 <= p -> t <= this_tick p t.
Proof. unfold this_tick. intro Hp. nia. Qed.

Lemma next_tick_gt p t : 1 <= p -> t < next_tick p t.
Proof. unfold next_tick. intro Hp. nia. Qed.

(** ------------------------------------------------------------------ *)
(** (1) One scheduler and the pending tick events of its handler. *)
Fixpoint remove1 (t : N) (q : list N) : list N :=
  match q with
  | [] => []
  | x :: r => if x =? t then r else x :: remove1 t r
  end.

Lemma in_remove1 t q x : In x (remove1 t q) -> In x q.
Proof.
  induction q as [|y r IH]; cbn; [tauto|]. destruct (y =? t); cbn; intuition.
Qed.

Lemma in_remove1_neq t q x : In x q -> x <> t -> In x (remove1 t q).
Proof.
  induction q as [|y r IH]; cbn; [tauto|]. intros [->|H] Hne.
  - destruct (x =? t) eqn:E; [apply N.eqb_eq in E; congruence|left; reflexivity].
  - destruct (y =? t); [exact H|right; auto].
Qed.

Definition olist (o : option N) : list N := match o with Some t => [t] | None => [] end.

(** scheduler invariant w.r.t. the pending events [q] of its handler and the engine time *)
Definition sched_inv (s : sched) (q : list N) (now : N) : Prop :=
  1 <= s_period s /\
  (forall x, In x q -> now <= x) /\
  (s_has s = true -> In (s_next s) q \/ exists h, s_handled s = Some h /\ s_next s <= h) /\
  (forall h, s_handled s = Some h -> h <= now).

(** a request is never lost by the REPAIRED guard: after TickNow a tick event is pending *)
Lemma tick_now_new s q now : sched_inv s q now ->
  let '(s', ev) := tick_now GuardNew now s in
  sched_inv s' (q ++ olist ev) now /\ q ++ olist ev <> [].
Proof.
  intros Hs. pose proof Hs as (Hp & Hq & Hn & Hh). unfold tick_now.
  destruct (s_has s) eqn:Ehas; cbn [andb].
  - destruct (now <? s_next s) eqn:E1.
    + (* a later tick is pending *)
      cbn [olist]. rewrite app_nil_r. split; [exact Hs|].
      destruct (Hn eq_refl) as [Hin|(h & Hh1 & Hh2)]; [intro Hq0; rewrite Hq0 in Hin; destruct Hin|].
      specialize (Hh h Hh1). lia.
    + destruct (now =? s_next s) eqn:E2.
      * unfold handled_at. destruct (s_handled s) as [h|] eqn:Eh.
        -- destruct (h =? now) eqn:E3.
           ++ (* the tick of this instant was already handled: schedule the next edge *)
              pose proof (next_tick_gt (s_period s) now Hp) as Hgt. cbn [olist].
              split; [|destruct q; discriminate].
              repeat split; cbn [set_sched s_period s_has s_next s_handled]; auto.
              ** intros x Hx. apply in_app_iff in Hx. destruct Hx as [Hx|[<-|[]]]; [auto|lia].
              ** intros _. left. apply in_app_iff. right. left. reflexivity.
              ** intros h' Hh'. apply Hh. congruence.
           ++ (* still pending at this very instant *)
              cbn [olist]. rewrite app_nil_r. split; [exact Hs|].
              destruct (Hn eq_refl) as [Hin|(h' & Hh1 & Hh2)]; [intro Hq0; rewrite Hq0 in Hin; destruct Hin|].
              injection Hh1 as <-. specialize (Hh h eq_refl). lia.
        -- cbn [olist]. rewrite app_nil_r. split; [exact Hs|].
           destruct (Hn eq_refl) as [Hin|(h' & Hh1 & _)]; [intro Hq0; rewrite Hq0 in Hin; destruct Hin|congruence].
      * (* the last scheduled tick is in the past *)
        pose proof (this_tick_ge (s_period s) now Hp) as Hge. cbn [olist].
        split; [|destruct q; discriminate].
        repeat split; cbn [set_sched s_period s_has s_next s_handled]; auto.
        -- intros x Hx. apply in_app_iff in Hx. destruct Hx as [Hx|[<-|[]]]; [auto|lia].
        -- intros _. left. apply in_app_iff. right. left. reflexivity.
  - pose proof (this_tick_ge (s_period s) now Hp) as Hge. cbn [olist].
    split; [|destruct q; discriminate].
    repeat split; cbn [set_sched s_period s_has s_next s_handled]; auto.
    + intros x Hx. apply in_app_iff in Hx. destruct Hx as [Hx|[<-|[]]]; [auto|lia].
    + intros _. left. apply in_app_iff. right. left. reflexivity.
Qed.

(** TickLater never loses a request (either guard: it is untouched by the repair) *)
Lemma tick_later_ok s q now : sched_inv s q now ->
  let '(s', ev) := tick_later now s in
  sched_inv s' (q ++ olist ev) now /\ q ++ olist ev <> [].
Proof.
  intros Hs. pose proof Hs as (Hp & Hq & Hn & Hh). unfold tick_later.
  pose proof (next_tick_gt (s_period s) now Hp) as Hgt.
  destruct (s_has s) eqn:Ehas; cbn [andb].
  - destruct (next_tick (s_period s) now <=? s_next s) eqn:E1.
    + cbn [olist]. rewrite app_nil_r. split; [exact Hs|].
      destruct (Hn eq_refl) as [Hin|(h & Hh1 & Hh2)]; [intro Hq0; rewrite Hq0 in Hin; destruct Hin|].
      specialize (Hh h Hh1). lia.
    + cbn [olist]. split; [|destruct q; discriminate].
      repeat split; cbn [set_sched s_period s_has s_next s_handled]; auto.
      * intros x Hx. apply in_app_iff in Hx. destruct Hx as [Hx|[<-|[]]]; [auto|lia].
      * intros _. left. apply in_app_iff. right. left. reflexivity.
  - cbn [olist]. split; [|destruct q; discriminate].
    repeat split; cbn [set_sched s_period s_has s_next s_handled]; auto.
    + intros x Hx. apply in_app_iff in Hx. destruct Hx as [Hx|[<-|[]]]; [auto|lia].
    + intros _. left. apply in_app_iff. right. left. reflexivity.
Qed.

(** the engine handles the earliest pending tick event t of this handler *)
Lemma handle_inv s q now t : sched_inv s q now -> In t q -> (forall x, In x q -> t <= x) ->
  sched_inv (mark_handled s t) (remove1 t q) t.
Proof.
  intros (Hp & Hq & Hn & Hh) Hin Hmin. repeat split; cbn [mark_handled s_period s_has s_next s_handled]; auto.
  - intros x Hx. apply Hmin. eapply in_remove1; eauto.
  - intro Hhas. destruct (Hn Hhas) as [Hi|(h & Hh1 & Hh2)].
    + destruct (N.eq_dec (s_next s) t) as [E|E].
      * right. exists t. split; [reflexivity|lia].
      * left. apply in_remove1_neq; assumption.
    + right. exists t. split; [reflexivity|]. specialize (Hh h Hh1). specialize (Hq t Hin). lia.
  - intros h H. injection H as <-. lia.
Qed.

Lemma advance_inv s q now t : sched_inv s q now -> now <= t -> (forall x, In x q -> t <= x) ->
  sched_inv s q t.
Proof.
  intros (Hp & Hq & Hn & Hh) Hle Hmin. repeat split; auto. intros h H. specialize (Hh h H). lia.
Qed.

(** The guard as coded loses a request: TickNow at T, the tick at T is handled,
    TickNow again at T is dropped although nothing is pending. *)
Lemma tick_now_old_loses_request :
  let s0 := mk_sched false 0 1000 true None in
  let '(s1, ev1) := tick_now GuardOld 2000 s0 in
  let s2 := mark_handled s1 2000 in
  let q2 := remove1 2000 (olist ev1) in
  let '(s3, ev3) := tick_now GuardOld 2000 s2 in
  ev1 = Some 2000 /\ q2 = [] /\ ev3 = None /\
  (* the repaired guard schedules the next edge instead *)
  snd (tick_now GuardNew 2000 s2) = Some 3000.
Proof. vm_compute. repeat split; reflexivity. Qed.

(** ------------------------------------------------------------------ *)
(** (2) A connection, its scheduler, its pending tick events, in an arbitrary environment. *)
Record cstate := mk_cs {
  cs_conn : conn; cs_sched : sched; cs_q : list N; cs_now : N;
  cs_dirty : bool }.   (* ghost: TickNow/TickLater was called since the last tick started *)

Inductive cact :=
| CSend (i : nat) (m : msg)     (* a component sends on plugged port i (after CanSend) *)
| CRetrieve (i : nat)           (* a component retrieves from plugged port i *)
| CHandle (t : N)               (* the engine handles this connection's earliest pending tick event *)
| CAdvance (t : N)              (* other handlers run, the clock moves (never past a pending event) *)
| CTickNow                      (* any other TickNow (NotifyAvailable from elsewhere ...) *)
| CTickLater.

Definition request (g : guard) (later : bool) (st : cstate) : cstate :=
  let '(s', ev) := if later then tick_later (cs_now st) (cs_sched st)
                   else tick_now g (cs_now st) (cs_sched st) in
  mk_cs (cs_conn st) s' (cs_q st ++ olist ev) (cs_now st) true.

Definition with_ports (st : cstate) (ps : list port) : cstate :=
  mk_cs (mk_conn ps (c_next (cs_conn st))) (cs_sched st) (cs_q st) (cs_now st) (cs_dirty st).

Definition has_notif (n : notif) (ns : list notif) : bool := existsb (notif_eqb n) ns.

(** [None]: the action is not enabled (or the tick panics) *)
Definition cstep (g : guard) (st : cstate) (a : cact) : option cstate :=
  let ps := c_ports (cs_conn st) in
  match a with
  | CSend i m =>
      match nth_error ps i with
      | Some p =>
          match send (Some m) p with
          | Ok _ p' ns =>
              let st' := with_ports st (set_nth i p' ps) in
              Some (if has_notif NSend ns then request g false st' else st')    (* NotifySend -> TickNow *)
          | _ => None
          end
      | None => None
      end
  | CRetrieve i =>
      match nth_error ps i with
      | Some p =>
          match retrieve_incoming p with
          | Ok _ p' ns =>
              let st' := with_ports st (set_nth i p' ps) in
              Some (if has_notif NAvailable ns then request g false st' else st') (* NotifyAvailable -> TickNow *)
          | _ => None
          end
      | None => None
      end
  | CHandle t =>
      if existsb (N.eqb t) (cs_q st) && forallb (N.leb t) (cs_q st) then
        match tick (cs_conn st) with
        | TickOk pr c' _ _ =>
            let st' := mk_cs c' (mark_handled (cs_sched st) t) (remove1 t (cs_q st)) t false in
            Some (if pr then request g true st' else st')                         (* progress -> TickLater *)
        | TickPanic => None
        end
      else None
  | CAdvance t =>
      if (cs_now st <=? t) && forallb (N.leb t) (cs_q st)
      then Some (mk_cs (cs_conn st) (cs_sched st) (cs_q st) t (cs_dirty st)) else None
  | CTickNow => Some (request g false st)
  | CTickLater => Some (request g true st)
  end.

Fixpoint csteps (g : guard) (st : cstate) (h : list cact) : option cstate :=
  match h with
  | [] => Some st
  | a :: r => match cstep g st a with Some st' => csteps g st' r | None => None end
  end.

Definition some_deliverable (ps : list port) : Prop := exists k, deliv ps k = true.

Definition cinv (st : cstate) : Prop :=
  sched_inv (cs_sched st) (cs_q st) (cs_now st) /\
  (cs_dirty st = true -> cs_q st <> []) /\
  (some_deliverable (c_ports (cs_conn st)) -> cs_dirty st = true).

(** what [deliv] looks at in a port *)
Definition view (p : port) := (p_name p, peek_outgoing p, can_deliver p).

Lemma find_port_view name ps ps' : map view ps = map view ps' -> find_port name ps = find_port name ps'.
Proof.
  intro H. unfold find_port. apply find_port_from_names.
  assert (E : forall l, map p_name l = map (fun v : N * option msg * bool => fst (fst v)) (map view l)).
  { intro l. rewrite map_map. reflexivity. }
  rewrite (E ps), (E ps'), H. reflexivity.
Qed.

Lemma nth_view ps ps' k : map view ps = map view ps' ->
  option_map view (nth_error ps k) = option_map view (nth_error ps' k).
Proof. intro H. rewrite <- !nth_error_map, H. reflexivity. Qed.

Lemma deliv_view ps ps' k : map view ps = map view ps' -> deliv ps k = deliv ps' k.
Proof.
  intro H. unfold deliv, dest_ok.
  pose proof (nth_view ps ps' k H) as Hk.
  destruct (nth_error ps k) as [p|], (nth_error ps' k) as [p'|]; cbn in Hk; try discriminate; [|reflexivity].
  injection Hk as Hn Hp Hc. rewrite Hp.
  destruct (peek_outgoing p') as [m|]; [|reflexivity].
  rewrite (find_port_view (m_dst m) ps ps' H).
  destruct (find_port (m_dst m) ps') as [j|]; [|reflexivity].
  pose proof (nth_view ps ps' j H) as Hj.
  destruct (nth_error ps j) as [d|], (nth_error ps' j) as [d'|]; cbn in Hj; try discriminate; [|reflexivity].
  injection Hj as _ _ Hcd. exact Hcd.
Qed.

Lemma has_notif_single (n : notif) (b : bool) : has_notif n (if b then [n] else []) = b.
Proof. destruct b; cbn; [|reflexivity]. destruct n; reflexivity. Qed.

Lemma request_inv_new later st :
  sched_inv (cs_sched st) (cs_q st) (cs_now st) ->
  let st' := request GuardNew later st in
  sched_inv (cs_sched st') (cs_q st') (cs_now st') /\ cs_q st' <> [] /\ cs_dirty st' = true /\
  cs_conn st' = cs_conn st.
Proof.
  intro Hs. unfold request. destruct later.
  - pose proof (tick_later_ok _ _ _ Hs) as H. destruct (tick_later (cs_now st) (cs_sched st)) as [s' ev].
    cbn. tauto.
  - pose proof (tick_now_new _ _ _ Hs) as H. destruct (tick_now GuardNew (cs_now st) (cs_sched st)) as [s' ev].
    cbn. tauto.
Qed.

(** the invariant is preserved by every enabled action, for the repaired guard *)
Lemma cstep_inv st a st' : cinv st -> cstep GuardNew st a = Some st' -> cinv st'.
Proof.
  intros (Hs & Hd & Hl) H. destruct a as [i m|i|t|t| |]; cbn [cstep] in H.
  - (* send *)
    destruct (nth_error (c_ports (cs_conn st)) i) as [p|] eqn:Ep; [|discriminate].
    destruct (send (Some m) p) as [u p' ns| |] eqn:Es; try discriminate.
    destruct (send_spec _ _ _ _ _ Es) as (_ & _ & Hout & _ & Hin & Hname & _ & Hns).
    rewrite Hns, has_notif_single in H.
    destruct (size (p_out p) =? 0)%Z eqn:Ez; injection H as <-.
    + destruct (request_inv_new false (with_ports st (set_nth i p' (c_ports (cs_conn st)))) Hs) as (A & B & C & _).
      split; [exact A|]. split; [intros _; exact B|intros _; exact C].
    + split; [exact Hs|]. split; [exact Hd|]. cbn [with_ports cs_conn cs_dirty c_ports].
      intros (k & Hk). apply Hl. exists k. rewrite <- Hk. apply deliv_view.
      symmetry. eapply map_set_nth_same; [exact Ep|].
      unfold view, can_deliver. rewrite Hname, Hin. f_equal. f_equal.
      unfold peek_outgoing, peek. rewrite Hout.
      rewrite size_zero_nil in Ez. destruct (content (p_out p)); [discriminate|reflexivity].
  - (* retrieve *)
    destruct (nth_error (c_ports (cs_conn st)) i) as [p|] eqn:Ep; [|discriminate].
    destruct (retrieve_incoming p) as [v p' ns| |] eqn:Er; try discriminate.
    destruct (retrieve_incoming_spec _ _ _ _ Er) as (Hin & Hcap & Hout & Hname & _ & _ & Hns).
    rewrite Hns, has_notif_single in H.
    destruct (negb (size (p_in p) =? 0)%Z && (size (p_in p') =? b_cap (p_in p) - 1)%Z) eqn:Ee; injection H as <-.
    + destruct (request_inv_new false (with_ports st (set_nth i p' (c_ports (cs_conn st)))) Hs) as (A & B & C & _).
      split; [exact A|]. split; [intros _; exact B|intros _; exact C].
    + split; [exact Hs|]. split; [exact Hd|]. cbn [with_ports cs_conn cs_dirty c_ports].
      intros (k & Hk). apply Hl. exists k. rewrite <- Hk. apply deliv_view.
      symmetry. eapply map_set_nth_same; [exact Ep|].
      unfold view. rewrite Hname. unfold peek_outgoing. rewrite Hout. f_equal.
      unfold can_deliver, can_push. rewrite Hcap.
      unfold size in *. rewrite Hin in *.
      destruct (content (p_in p)) as [|x r]; cbn [tl length] in *; [reflexivity|]. lia.
  - (* handle *)
    destruct (existsb (N.eqb t) (cs_q st) && forallb (N.leb t) (cs_q st)) eqn:En; [|discriminate].
    apply andb_true_iff in En. destruct En as [Hex Hall].
    apply existsb_exists in Hex. destruct Hex as (x & Hx & Hxt). apply N.eqb_eq in Hxt. subst x.
    assert (Hmin : forall x, In x (cs_q st) -> t <= x).
    { intros x Hin. rewrite forallb_forall in Hall. specialize (Hall x Hin). lia. }
    destruct (tick (cs_conn st)) as [pr c' cb dl|] eqn:Et; [|discriminate].
    destruct (tick_progress _ _ _ _ _ Et) as (Hblocked & _).
    pose proof (handle_inv _ _ _ t Hs Hx Hmin) as Hs'.
    set (st1 := mk_cs c' (mark_handled (cs_sched st) t) (remove1 t (cs_q st)) t false) in *.
    destruct pr; injection H as <-.
    + destruct (request_inv_new true st1 Hs') as (A & B & C & _).
      split; [exact A|]. split; [intros _; exact B|intros _; exact C].
    + split; [exact Hs'|]. split; [discriminate|].
      intros (k & Hk). cbn [st1 cs_conn] in Hk. rewrite Hblocked in Hk. discriminate.
  - (* advance *)
    destruct ((cs_now st <=? t) && forallb (N.leb t) (cs_q st)) eqn:En; [|discriminate].
    injection H as <-. apply andb_true_iff in En. destruct En as [Hle Hall].
    split; [|split; [exact Hd|exact Hl]]. cbn.
    apply (advance_inv _ _ (cs_now st)); [exact Hs|lia|].
    intros x Hin. rewrite forallb_forall in Hall. specialize (Hall x Hin). lia.
  - injection H as <-. destruct (request_inv_new false st Hs) as (A & B & C & _).
    split; [exact A|]. split; [intros _; exact B|intros _; exact C].
  - injection H as <-. destruct (request_inv_new true st Hs) as (A & B & C & _).
    split; [exact A|]. split; [intros _; exact B|intros _; exact C].
Qed.

Lemma csteps_inv h : forall st st', cinv st -> csteps GuardNew st h = Some st' -> cinv st'.
Proof.
  induction h as [|a r IH]; intros st st' Hi H; cbn [csteps] in H; [injection H as <-; exact Hi|].
  destruct (cstep GuardNew st a) as [st1|] eqn:E; [|discriminate].
  eapply IH; [|exact H]. eapply cstep_inv; eauto.
Qed.

(** a freshly built connection: nothing sent, nothing scheduled *)
Definition cinit (caps : list (Z * Z)) (period : N) : cstate :=
  mk_cs (new_conn caps) (mk_sched false 0 period true None) [] 0 false.

Lemma deliv_new_conn caps k : deliv (mk_ports caps) k = false.
Proof.
  unfold deliv, mk_ports. rewrite nth_error_map.
  destruct (nth_error (combine (seq 0 (length caps)) caps) k); reflexivity.
Qed.

Lemma cinit_inv caps period : 1 <= period -> cinv (cinit caps period).
Proof.
  intro Hp. unfold cinit, cinv. cbn [cs_sched cs_q cs_now cs_dirty cs_conn].
  split; [|split].
  - unfold sched_inv. cbn [s_period s_has s_handled s_next].
    split; [exact Hp|]. split; [intros x []|]. split; [discriminate|]. intros h H. discriminate.
  - discriminate.
  - intros (k & Hk). unfold new_conn in Hk. cbn [c_ports] in Hk. rewrite deliv_new_conn in Hk. discriminate.
Qed.

(** (3) the executable world: the witness topology of the harness *)
Definition witness_ports : list (Z * Z * nat * nat) :=
  [(1%Z, 2%Z, 0%nat, 0%nat); (1%Z, 2%Z, 0%nat, 1%nat); (2%Z, 2%Z, 1%nat, 1%nat);
   (2%Z, 2%Z, 1%nat, 0%nat); (0%Z, 1%Z, 2%nat, 0%nat); (2%Z, 1%Z, 2%nat, 0%nat)].
Definition witness_comps : list compd :=
  [mk_compd KTick 1000 [Some 1%nat; Some 1%nat] [None; None]
     [(2000, 0%nat, mk_msg 1 1 5 10); (2000, 1%nat, mk_msg 2 2 3 20)];
   mk_compd KEvent 1000 [None; None] [Some (3%nat, 6); None] [];
   mk_compd KTick 1000 [Some 1%nat; Some 1%nat] [None; None] []].
Definition witness_world (g : guard) : world :=
  kick (build g witness_ports witness_comps [1000; 1000]).

Lemma witness_old_stranded :
  let '(tr, w, done) := run 100 (witness_world GuardOld) [] in
  done = true /\ w_prim w = [] /\ w_sec w = [] /\
  deliverable_head w 3 = true /\ quiescent_clean w = false.
Proof. vm_compute. repeat split; reflexivity. Qed.

Lemma witness_new_clean :
  let '(tr, w, done) := run 100 (witness_world GuardNew) [] in
  done = true /\ w_prim w = [] /\ w_sec w = [] /\ quiescent_clean w = true.
Proof. vm_compute. repeat split; reflexivity. Qed.

(** ------------------------------------------------------------------ *)
(** (4) Clause 2: a component that drains its inputs, in an arbitrary environment.
    This part does not involve TickNow at all (NotifyRecv / NotifyPortFree use TickLater
    resp. ScheduleWakeNow), so it holds for the code as it is. *)
Inductive dkind := DTick | DEvent.

Record dstate := mk_ds {
  ds_kind : dkind;
  ds_ports : list port;      (* the component's own ports *)
  ds_sched : sched;          (* DTick: its TickScheduler *)
  ds_pend : option N;        (* DEvent: pendingWakeup (None = MaxUint64) *)
  ds_q : list N;             (* its pending tick / wake-up events in the engine *)
  ds_now : N;
  ds_dirty : bool }.         (* ghost: notified since its last activation started *)

Inductive dact :=
| DDeliver (i : nat) (m : omsg)        (* a connection delivers into own port i *)
| DHandle (t : N) (ns : list nat) (extra : bool)
      (* the engine handles its earliest pending event; the activation retrieves ns[i]
         messages from port i (whatever else it does: [extra] = "made other progress") *)
| DAdvance (t : N)
| DNotify.                              (* any other NotifyRecv / NotifyPortFree *)

(** NotifyRecv / NotifyPortFree *)
Definition dnotify (st : dstate) : dstate :=
  match ds_kind st with
  | DTick =>
      let '(s', ev) := tick_later (ds_now st) (ds_sched st) in
      mk_ds DTick (ds_ports st) s' (ds_pend st) (ds_q st ++ olist ev) (ds_now st) true
  | DEvent =>
      let go := mk_ds DEvent (ds_ports st) (ds_sched st) (Some (ds_now st)) (ds_q st ++ [ds_now st]) (ds_now st) true in
      match ds_pend st with
      | Some p => if p <=? ds_now st
                  then mk_ds DEvent (ds_ports st) (ds_sched st) (ds_pend st) (ds_q st) (ds_now st) true
                  else go
      | None => go
      end
  end.

Fixpoint retrieve_n (n : nat) (p : port) : option port :=
  match n with
  | O => Some p
  | S n' => match retrieve_incoming p with Ok _ p' _ => retrieve_n n' p' | _ => None end
  end.

Fixpoint retrieve_all (ns : list nat) (ps : list port) : option (list port) :=
  match ns, ps with
  | n :: ns', p :: ps' =>
      match retrieve_n n p, retrieve_all ns' ps' with
      | Some p', Some r => Some (p' :: r)
      | _, _ => None
      end
  | [], [] => Some []
  | _, _ => None
  end.

Definition in_len (p : port) : nat := length (content (p_in p)).

(** "drains its inputs": a ticking component takes at least one message from every
    non-empty input per tick; an event-driven one empties every input per wake-up *)
Definition drains_ok (k : dkind) (ns : list nat) (ps : list port) : bool :=
  (length ns =? length ps)%nat &&
  forallb (fun np => match k with
                     | DTick => (in_len (snd np) =? 0)%nat || (1 <=? fst np)%nat
                     | DEvent => (in_len (snd np) <=? fst np)%nat
                     end) (combine ns ps).

Definition took_any (ns : list nat) (ps : list port) : bool :=
  existsb (fun np => negb (in_len (snd np) =? 0)%nat && (1 <=? fst np)%nat) (combine ns ps).

Definition dstep (st : dstate) (a : dact) : option dstate :=
  match a with
  | DDeliver i m =>
      match nth_error (ds_ports st) i with
      | Some p =>
          match deliver m p with
          | Ok _ p' ns =>
              let st' := mk_ds (ds_kind st) (set_nth i p' (ds_ports st)) (ds_sched st) (ds_pend st)
                               (ds_q st) (ds_now st) (ds_dirty st) in
              Some (if has_notif NRecv ns then dnotify st' else st')
          | _ => None
          end
      | None => None
      end
  | DHandle t ns extra =>
      if existsb (N.eqb t) (ds_q st) && forallb (N.leb t) (ds_q st) && drains_ok (ds_kind st) ns (ds_ports st) then
        match retrieve_all ns (ds_ports st) with
        | Some ps' =>
            let st' := mk_ds (ds_kind st) ps' (mark_handled (ds_sched st) t) None
                             (remove1 t (ds_q st)) t false in
            match ds_kind st with
            | DTick => Some (if took_any ns (ds_ports st) || extra then dnotify st' else st')  (* progress -> TickLater *)
            | DEvent => Some st'
            end
        | None => None
        end
      else None
  | DAdvance t =>
      if (ds_now st <=? t) && forallb (N.leb t) (ds_q st)
      then Some (mk_ds (ds_kind st) (ds_ports st) (ds_sched st) (ds_pend st) (ds_q st) t (ds_dirty st))
      else None
  | DNotify => Some (dnotify st)
  end.

Fixpoint dsteps (st : dstate) (h : list dact) : option dstate :=
  match h with
  | [] => Some st
  | a :: r => match dstep st a with Some st' => dsteps st' r | None => None end
  end.

Definition unread (ps : list port) : Prop := exists p, In p ps /\ in_len p <> 0%nat.

Definition dcore (st : dstate) : Prop :=
  Forall (fun p => p_has_comp p = true) (ds_ports st) /\
  (forall x, In x (ds_q st) -> ds_now st <= x) /\
  match ds_kind st with
  | DTick => sched_inv (ds_sched st) (ds_q st) (ds_now st)
  | DEvent => forall p, ds_pend st = Some p -> In p (ds_q st)
  end /\
  (ds_dirty st = true -> ds_q st <> []).

Definition dinv (st : dstate) : Prop :=
  dcore st /\ (unread (ds_ports st) -> ds_dirty st = true).

(** a notification is never lost: afterwards an event of this component is pending *)
Lemma dnotify_core st : dcore st ->
  dcore (dnotify st) /\ ds_dirty (dnotify st) = true /\ ds_ports (dnotify st) = ds_ports st.
Proof.
  intros (Hc & Hq & Hk & Hd). unfold dnotify. destruct (ds_kind st) eqn:Ek.
  - pose proof (tick_later_ok _ _ _ Hk) as H. destruct (tick_later (ds_now st) (ds_sched st)) as [s' ev].
    destruct H as (Hs' & Hne). cbn [ds_dirty ds_ports].
    split; [|split; reflexivity]. unfold dcore. cbn [ds_ports ds_q ds_now ds_kind ds_sched ds_dirty].
    split; [exact Hc|]. split; [destruct Hs' as (_ & Hq' & _); exact Hq'|]. split; [exact Hs'|intros _; exact Hne].
  - assert (Hgo : dcore (mk_ds DEvent (ds_ports st) (ds_sched st) (Some (ds_now st)) (ds_q st ++ [ds_now st]) (ds_now st) true)).
    { unfold dcore. cbn [ds_ports ds_q ds_now ds_kind ds_pend ds_dirty].
      split; [exact Hc|]. split.
      - intros x Hx. apply in_app_iff in Hx. destruct Hx as [Hx|[<-|[]]]; [auto|lia].
      - split.
        + intros p Hp. injection Hp as <-. apply in_app_iff. right. left. reflexivity.
        + intros _. destruct (ds_q st); discriminate. }
    destruct (ds_pend st) as [p|] eqn:Ep.
    + destruct (p <=? ds_now st) eqn:El; cbn [ds_dirty ds_ports]; [|split; [exact Hgo|split; reflexivity]].
      split; [|split; reflexivity]. unfold dcore. cbn [ds_ports ds_q ds_now ds_kind ds_pend ds_dirty].
      split; [exact Hc|]. split; [exact Hq|]. split; [exact Hk|].
      intros _ Hq0. specialize (Hk p eq_refl). rewrite Hq0 in Hk. destruct Hk.
    + cbn [ds_dirty ds_ports]. split; [exact Hgo|split; reflexivity].
Qed.

Lemma retrieve_n_spec n : forall p p', retrieve_n n p = Some p' ->
  content (p_in p') = skipn n (content (p_in p)) /\ p_has_comp p' = p_has_comp p.
Proof.
  induction n as [|n IH]; intros p p' H; cbn [retrieve_n] in H.
  - injection H as <-. split; reflexivity.
  - destruct (retrieve_incoming p) as [v p1 ns| |] eqn:Er; try discriminate.
    destruct (retrieve_incoming_spec _ _ _ _ Er) as (Hin & _ & _ & _ & Hc & _).
    destruct (IH _ _ H) as (H1 & H2). rewrite H1, Hin, H2, Hc. split; [|reflexivity].
    destruct (content (p_in p)); [destruct n|]; reflexivity.
Qed.

(** after the activation of a draining component: either every input is empty, or it
    took something (and so reports progress) *)
Lemma retrieve_all_drained k ns : forall ps ps', retrieve_all ns ps = Some ps' ->
  drains_ok k ns ps = true ->
  Forall (fun p => p_has_comp p = true) ps ->
  Forall (fun p => p_has_comp p = true) ps' /\
  (unread ps' -> match k with DTick => took_any ns ps = true | DEvent => False end).
Proof.
  unfold drains_ok, took_any, unread.
  induction ns as [|n r IH]; intros [|p ps] ps' H Hd Hc; cbn [retrieve_all] in H; try discriminate.
  - injection H as <-. split; [constructor|]. intros (q & [] & _).
  - destruct (retrieve_n n p) as [p1|] eqn:E1; [|discriminate].
    destruct (retrieve_all r ps) as [r1|] eqn:E2; [|discriminate]. injection H as <-.
    apply andb_true_iff in Hd. destruct Hd as [Hlen Hall]. cbn [combine forallb length] in *.
    apply andb_true_iff in Hall. destruct Hall as [Hhd Htl].
    inversion Hc as [|? ? Hcp Hcr]; subst.
    destruct (retrieve_n_spec _ _ _ E1) as (Hin1 & Hc1).
    assert (Hd' : ((length r =? length ps)%nat && forallb (fun np => match k with
                     | DTick => (in_len (snd np) =? 0)%nat || (1 <=? fst np)%nat
                     | DEvent => (in_len (snd np) <=? fst np)%nat end) (combine r ps)) = true).
    { apply andb_true_iff. split; [|exact Htl]. apply Nat.eqb_eq in Hlen. apply Nat.eqb_eq. lia. }
    destruct (IH ps r1 E2 Hd' Hcr) as (Hcr1 & Hur).
    split; [constructor; [congruence|exact Hcr1]|].
    intros (q & [<-|Hq] & Hne).
    + (* the first port still has unread input *)
      unfold in_len in Hne. rewrite Hin1 in Hne. cbn [fst snd] in Hhd.
      destruct k.
      * cbn [existsb fst snd]. apply orb_true_iff. left.
        apply orb_true_iff in Hhd. destruct Hhd as [Hz|Hone].
        -- apply Nat.eqb_eq in Hz. unfold in_len in Hz.
           destruct (content (p_in p)); [destruct n; cbn in Hne; congruence|discriminate].
        -- rewrite Hone, andb_true_r. apply negb_true_iff. apply Nat.eqb_neq. unfold in_len.
           intro Hz. destruct (content (p_in p)); [destruct n; cbn in Hne; congruence|discriminate].
      * apply Nat.leb_le in Hhd. unfold in_len in Hhd. rewrite skipn_all2 in Hne by exact Hhd. apply Hne. reflexivity.
    + destruct k.
      * cbn [existsb]. apply orb_true_iff. right. apply Hur. exists q. auto.
      * apply Hur. exists q. auto.
Qed.

Lemma dstep_inv st a st' : dinv st -> dstep st a = Some st' -> dinv st'.
Proof.
  intros (Hcore & Hu) H. pose proof Hcore as (Hc & Hq & Hk & Hd).
  destruct a as [i m|t ns extra|t|]; cbn [dstep] in H.
  - (* deliver *)
    destruct (nth_error (ds_ports st) i) as [p|] eqn:Ep; [|discriminate].
    destruct (deliver m p) as [u p' nsx| |] eqn:Edl; try discriminate.
    destruct (deliver_spec _ _ _ _ _ Edl) as (_ & Hin & _ & _ & _ & Hcomp).
    assert (Hcp : p_has_comp p = true).
    { rewrite Forall_forall in Hc. apply Hc. eapply nth_error_In; eauto. }
    assert (Hns : nsx = if (size (p_in p) =? 0)%Z then [NRecv] else []).
    { unfold deliver in Edl. destruct (negb (can_push (p_in p))); [discriminate|].
      destruct (push m (p_in p)); [|discriminate]. injection Edl as _ _ <-. rewrite Hcp. reflexivity. }
    set (st1 := mk_ds (ds_kind st) (set_nth i p' (ds_ports st)) (ds_sched st) (ds_pend st) (ds_q st) (ds_now st) (ds_dirty st)) in *.
    assert (Hcore1 : dcore st1).
    { unfold dcore. cbn [st1 ds_ports ds_q ds_now ds_kind ds_sched ds_pend ds_dirty].
      split; [|split; [exact Hq|split; [exact Hk|exact Hd]]].
      rewrite Forall_forall in *. intros q Hq1.
      apply In_nth_error in Hq1. destruct Hq1 as (k & Hk1).
      destruct (Nat.eq_dec i k) as [->|Hne].
      - rewrite nth_set_nth_eq in Hk1 by (eapply nth_error_lt; eauto). injection Hk1 as <-. congruence.
      - rewrite nth_set_nth_neq in Hk1 by exact Hne. apply Hc. eapply nth_error_In; eauto. }
    rewrite Hns, has_notif_single in H.
    destruct (size (p_in p) =? 0)%Z eqn:Ez; injection H as <-.
    + destruct (dnotify_core st1 Hcore1) as (A & B & _). split; [exact A|intros _; exact B].
    + split; [exact Hcore1|]. intros _. apply Hu. exists p. split; [eapply nth_error_In; eauto|].
      unfold in_len. unfold size in Ez. destruct (content (p_in p)); [cbn in Ez; discriminate|discriminate].
  - (* activation *)
    destruct (existsb (N.eqb t) (ds_q st) && forallb (N.leb t) (ds_q st) && drains_ok (ds_kind st) ns (ds_ports st)) eqn:En; [|discriminate].
    apply andb_true_iff in En. destruct En as [En Hdr]. apply andb_true_iff in En. destruct En as [Hex Hall].
    apply existsb_exists in Hex. destruct Hex as (x & Hx & Hxt). apply N.eqb_eq in Hxt. subst x.
    assert (Hmin : forall x, In x (ds_q st) -> t <= x).
    { intros x Hin. rewrite forallb_forall in Hall. specialize (Hall x Hin). lia. }
    destruct (retrieve_all ns (ds_ports st)) as [ps'|] eqn:Er; [|discriminate].
    destruct (retrieve_all_drained (ds_kind st) ns _ _ Er Hdr Hc) as (Hc' & Hleft).
    set (st1 := mk_ds (ds_kind st) ps' (mark_handled (ds_sched st) t) None (remove1 t (ds_q st)) t false) in *.
    assert (Hcore1 : dcore st1).
    { unfold dcore. cbn [st1 ds_ports ds_q ds_now ds_kind ds_sched ds_pend ds_dirty].
      split; [exact Hc'|]. split; [intros x Hx'; apply Hmin; eapply in_remove1; eauto|].
      split; [|discriminate].
      destruct (ds_kind st); [exact (handle_inv _ _ _ t Hk Hx Hmin)|discriminate]. }
    destruct (ds_kind st) eqn:Ekd.
    + destruct (took_any ns (ds_ports st) || extra) eqn:Epr; injection H as <-.
      * destruct (dnotify_core st1 Hcore1) as (A & B & _). split; [exact A|intros _; exact B].
      * split; [exact Hcore1|]. cbn [st1 ds_ports ds_dirty]. intro Hun.
        apply Hleft in Hun. apply orb_false_iff in Epr. destruct Epr as [Epr _]. congruence.
    + injection H as <-. split; [exact Hcore1|]. cbn [st1 ds_ports ds_dirty]. intro Hun. destruct (Hleft Hun).
  - (* time passes *)
    destruct ((ds_now st <=? t) && forallb (N.leb t) (ds_q st)) eqn:En; [|discriminate].
    injection H as <-. apply andb_true_iff in En. destruct En as [Hle Hall].
    assert (Hmin : forall x, In x (ds_q st) -> t <= x).
    { intros x Hin. rewrite forallb_forall in Hall. specialize (Hall x Hin). lia. }
    split; [|exact Hu]. unfold dcore. cbn [ds_ports ds_q ds_now ds_kind ds_sched ds_pend ds_dirty].
    split; [exact Hc|]. split; [exact Hmin|]. split; [|exact Hd].
    destruct (ds_kind st); [apply (advance_inv _ _ (ds_now st)); [exact Hk|lia|exact Hmin]|exact Hk].
  - injection H as <-. destruct (dnotify_core st Hcore) as (A & B & _). split; [exact A|intros _; exact B].
Qed.

Lemma dsteps_inv h : forall st st', dinv st -> dsteps st h = Some st' -> dinv st'.
Proof.
  induction h as [|a r IH]; intros st st' Hi H; cbn [dsteps] in H; [injection H as <-; exact Hi|].
  destruct (dstep st a) as [st1|] eqn:E; [|discriminate].
  eapply IH; [|exact H]. eapply dstep_inv; eauto.
Qed.

(** a freshly built component: empty ports, nothing scheduled *)
Definition dinit (k : dkind) (caps : list (Z * Z)) (period : N) : dstate :=
  mk_ds k (mk_ports caps) (mk_sched false 0 period false None) None [] 0 false.

Lemma dinit_inv k caps period : 1 <= period -> dinv (dinit k caps period).
Proof.
  intro Hp. unfold dinit, dinv, dcore. cbn [ds_ports ds_q ds_now ds_kind ds_sched ds_pend ds_dirty].
  split; [split; [|split; [intros x []|split; [|discriminate]]]|].
  - unfold mk_ports. rewrite Forall_forall. intros p Hin. apply in_map_iff in Hin. destruct Hin as (x & <- & _). reflexivity.
  - destruct k; [|discriminate]. unfold sched_inv. cbn [s_period s_has s_next s_handled].
    split; [exact Hp|]. split; [intros x []|]. split; [discriminate|]. intros h H. discriminate.
  - intros (p & Hin & Hne). unfold mk_ports in Hin. apply in_map_iff in Hin. destruct Hin as (x & <- & _).
    exfalso. apply Hne. reflexivity.
Qed.
