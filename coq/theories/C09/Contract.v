(** C09 — the engine contract ([Project.run_ok]) is an invariant of the executable world
    model, for worlds with one connection: the model's own dispatch order (earliest event
    first, primary before secondary at equal times, insertion order among equals —
    [next_event] / [insert_evt]) together with the fact that every scheduling path
    (TickNow, TickLater, ScheduleWakeNow, ScheduleWakeAt of a not-yet-due timer) schedules
    at or after the current time, component events into the primary queue and the
    connection's into the secondary queue. *)
From Coq Require Import Sorting.Sorted.
From Akita Require Import Lib.Base Lib.Fifo Lib.Port Lib.Conn C10.Model C10.Proofs C09.Model C09.Proofs C09.Project.
Local Open Scope N_scope.

Definition tle (a b : N * nat) : Prop := fst a <= fst b.

Definition evs_ok (P : nat -> Prop) (now : N) (q : list (N * nat)) : Prop :=
  StronglySorted tle q /\ Forall (fun e => now <= fst e /\ P (snd e)) q.

Definition comp_ok (c : comp) : Prop := s_sec (k_sched c) = false /\ 1 <= s_period (k_sched c).

Record QI (w : world) : Prop := {
  qi_prim : evs_ok (fun h => (h < ncomps w)%nat) (w_now w) (w_prim w);
  qi_sec : evs_ok (fun h => h = ncomps w) (w_now w) (w_sec w);
  qi_comps : Forall comp_ok (w_comps w);
  qi_conn : exists cx, w_conns w = [cx] /\ s_sec (x_sched cx) = true /\ 1 <= s_period (x_sched cx);
  qi_connof : forall g, conn_of w g = 0%nat }.

Lemma insert_forall (P : N * nat -> Prop) e q : P e -> Forall P q -> Forall P (insert_evt e q).
Proof.
  intros He. induction q as [|x q IH]; intro H; cbn [insert_evt]; [repeat constructor; exact He|].
  inversion H; subst. destruct (fst x <=? fst e); constructor; auto.
Qed.

Lemma insert_sorted e q : StronglySorted tle q -> StronglySorted tle (insert_evt e q).
Proof.
  induction 1 as [|x q Hs IH Hall]; cbn [insert_evt]; [repeat constructor|].
  destruct (fst x <=? fst e) eqn:E.
  - constructor; [exact IH|]. apply insert_forall; [unfold tle; lia|exact Hall].
  - constructor; [constructor; assumption|]. constructor; [unfold tle; lia|].
    eapply Forall_impl; [|exact Hall]. unfold tle. intros a Ha. lia.
Qed.

Lemma evs_insert P now q t h : evs_ok P now q -> now <= t -> P h -> evs_ok P now (insert_evt (t, h) q).
Proof.
  intros [Hs Hf] Ht Hh. split; [apply insert_sorted; exact Hs|]. apply insert_forall; [cbn; auto|exact Hf].
Qed.

(** engine.Schedule *)
Lemma qi_schedule w (sec : bool) t h : QI w -> w_now w <= t ->
  (if sec then h = ncomps w else (h < ncomps w)%nat) -> QI (schedule w sec t h).
Proof.
  intros [Hp Hs Hc Hx Ho] Ht Hh. unfold schedule. destruct sec; constructor; cbn; auto;
    apply evs_insert; auto.
Qed.

Lemma qi_set_comps w cs : QI w -> length cs = length (w_comps w) -> Forall comp_ok cs -> QI (set_comps w cs).
Proof.
  intros [Hp Hs Hc Hx Ho] Hl Hf. constructor; cbn; auto; unfold ncomps in *; cbn; rewrite Hl; auto.
Qed.

Lemma qi_set_comp w k c c' : QI w -> nth_error (w_comps w) k = Some c ->
  s_sec (k_sched c') = s_sec (k_sched c) -> s_period (k_sched c') = s_period (k_sched c) ->
  QI (set_comps w (set_nth k c' (w_comps w))).
Proof.
  intros Hq Hk E1 E2. apply qi_set_comps; [exact Hq|apply set_nth_length|].
  apply forall_set_nth; [exact (qi_comps w Hq)|].
  pose proof (qi_comps w Hq) as Hf. rewrite Forall_forall in Hf. destruct (Hf c (nth_error_In _ _ Hk)) as [A B].
  split; congruence.
Qed.

Lemma qi_set_ports w ps : QI w -> QI (set_ports w ps).
Proof. intros [Hp Hs Hc Hx Ho]. constructor; cbn; auto. Qed.

Lemma qi_halt w : QI w -> QI (halt w).
Proof. intros [Hp Hs Hc Hx Ho]. constructor; cbn; auto. Qed.

Lemma comp_lt w k c : nth_error (w_comps w) k = Some c -> (k < ncomps w)%nat.
Proof. intro H. unfold ncomps. eapply nth_error_lt; eauto. Qed.

Lemma comp_okk w k c : QI w -> nth_error (w_comps w) k = Some c -> comp_ok c.
Proof. intros Hq Hk. pose proof (qi_comps w Hq) as Hf. rewrite Forall_forall in Hf. exact (Hf c (nth_error_In _ _ Hk)). Qed.

Lemma tick_later_keeps now s : s_period (fst (tick_later now s)) = s_period s.
Proof. unfold tick_later. destruct (s_has s && _); reflexivity. Qed.

Lemma tick_later_time now s t : 1 <= s_period s -> snd (tick_later now s) = Some t -> now <= t.
Proof.
  intros Hp. unfold tick_later. pose proof (next_tick_gt (s_period s) now Hp).
  destruct (s_has s && _); cbn [snd]; intro E; [discriminate|]. injection E as <-. lia.
Qed.

Lemma tick_now_keeps g now s : s_period (fst (tick_now g now s)) = s_period s.
Proof.
  unfold tick_now. destruct g.
  - destruct (s_has s && _); reflexivity.
  - destruct (s_has s && (now <? s_next s)); [reflexivity|].
    destruct (s_has s && (now =? s_next s)); [destruct (handled_at s now)|]; reflexivity.
Qed.

Lemma tick_now_time g now s t : 1 <= s_period s -> snd (tick_now g now s) = Some t -> now <= t.
Proof.
  intros Hp. pose proof (next_tick_gt (s_period s) now Hp). pose proof (this_tick_ge (s_period s) now Hp).
  unfold tick_now. destruct g.
  - destruct (s_has s && _); cbn [snd]; intro E; [discriminate|injection E as <-; lia].
  - destruct (s_has s && (now <? s_next s)); cbn [snd]; [discriminate|].
    destruct (s_has s && (now =? s_next s)); [destruct (handled_at s now)|]; cbn [snd]; intro E;
      try discriminate; injection E as <-; lia.
Qed.

(** a component's own TickLater / TickNow *)
Lemma qi_comp_request w k c (res : sched * option N) :
  QI w -> nth_error (w_comps w) k = Some c ->
  s_sec (fst res) = s_sec (k_sched c) -> s_period (fst res) = s_period (k_sched c) ->
  (forall t, snd res = Some t -> w_now w <= t) ->
  QI (sched_event (set_comps w (set_nth k
        (mk_comp (k_kind c) (fst res) (k_pending c) (k_ports c) (k_drain c) (k_relay c) (k_timers c) (k_pend c))
        (w_comps w))) (fst res) k (snd res)).
Proof.
  intros Hq Hk E1 E2 Ht. destruct (comp_okk w k c Hq Hk) as [Hsf _].
  assert (Hq1 : QI (set_comps w (set_nth k
        (mk_comp (k_kind c) (fst res) (k_pending c) (k_ports c) (k_drain c) (k_relay c) (k_timers c) (k_pend c))
        (w_comps w)))) by (eapply qi_set_comp; eauto).
  unfold sched_event. destruct (snd res) as [t|] eqn:Ev; [|exact Hq1].
  apply qi_schedule; [exact Hq1|cbn; apply Ht; reflexivity|].
  rewrite E1, Hsf. unfold ncomps. cbn. rewrite set_nth_length. eapply comp_lt; eauto.
Qed.

Lemma qi_notify w k : QI w -> QI (notify_comp w k).
Proof.
  intro Hq. unfold notify_comp. destruct (nth_error (w_comps w) k) as [c|] eqn:Ek; [|exact Hq].
  destruct (comp_okk w k c Hq Ek) as [Hsf Hper].
  destruct (k_kind c) eqn:Ekk.
  - pose proof (qi_comp_request w k c (tick_later (w_now w) (k_sched c)) Hq Ek
                  (tick_later_sec _ _) (tick_later_keeps _ _) (fun t => tick_later_time _ _ t Hper)) as H.
    rewrite Ekk in H. destruct (tick_later (w_now w) (k_sched c)) as [s' ev]. exact H.
  - assert (Hgo : QI (schedule (set_comps w (set_nth k
        (mk_comp KEvent (k_sched c) (Some (w_now w)) (k_ports c) (k_drain c) (k_relay c) (k_timers c) (k_pend c))
        (w_comps w))) false (w_now w) k)).
    { apply qi_schedule; [eapply qi_set_comp; eauto|cbn; lia|].
      unfold ncomps. cbn. rewrite set_nth_length. eapply comp_lt; eauto. }
    destruct (k_pending c) as [p|]; [destruct (p <=? w_now w); [exact Hq|exact Hgo]|exact Hgo].
Qed.

Lemma qi_wake w k t : QI w -> w_now w <= t -> QI (wake_at w k t).
Proof.
  intros Hq Ht. unfold wake_at. destruct (nth_error (w_comps w) k) as [c|] eqn:Ek; [|exact Hq].
  assert (Hgo : QI (schedule (set_comps w (set_nth k
        (mk_comp (k_kind c) (k_sched c) (Some t) (k_ports c) (k_drain c) (k_relay c) (k_timers c) (k_pend c))
        (w_comps w))) false t k)).
  { apply qi_schedule; [eapply qi_set_comp; eauto|cbn; exact Ht|].
    unfold ncomps. cbn. rewrite set_nth_length. eapply comp_lt; eauto. }
  destruct (k_pending c) as [p|]; [destruct (p <=? t); [exact Hq|exact Hgo]|exact Hgo].
Qed.

Lemma qi_comp_tick_now w k : QI w -> QI (comp_tick_now w k).
Proof.
  intro Hq. unfold comp_tick_now. destruct (nth_error (w_comps w) k) as [c|] eqn:Ek; [|exact Hq].
  destruct (comp_okk w k c Hq Ek) as [Hsf Hper].
  pose proof (qi_comp_request w k c (tick_now (w_guard w) (w_now w) (k_sched c)) Hq Ek
                (tick_now_sec _ _ _) (tick_now_keeps _ _ _) (fun t => tick_now_time _ _ _ t Hper)) as H.
  destruct (tick_now (w_guard w) (w_now w) (k_sched c)) as [s' ev]. exact H.
Qed.

(** the connection's TickNow / TickLater *)
Lemma qi_conn_request w (f : world -> sched -> sched * option N) :
  (forall w s, s_sec (fst (f w s)) = s_sec s /\ s_period (fst (f w s)) = s_period s /\
               forall t, 1 <= s_period s -> snd (f w s) = Some t -> w_now w <= t) ->
  QI w ->
  QI (match nth_error (w_conns w) 0 with
      | None => w
      | Some c =>
          let '(s', ev) := f w (x_sched c) in
          sched_event (set_conns w (set_nth 0 (mk_cnx s' (x_ports c) (x_next c)) (w_conns w))) s' (ncomps w + 0) ev
      end).
Proof.
  intros Hf Hq. destruct (qi_conn w Hq) as (cx & Ec & Esec & Eper). rewrite Ec. cbn [nth_error set_nth].
  destruct (Hf w (x_sched cx)) as (F1 & F2 & F3).
  destruct (f w (x_sched cx)) as [s' ev]. cbn [fst snd] in *.
  assert (Hq1 : QI (set_conns w [mk_cnx s' (x_ports cx) (x_next cx)])).
  { destruct Hq as [Hp Hs Hc Hx Ho]. constructor; cbn; auto. eexists. split; [reflexivity|]. cbn. split; congruence. }
  unfold sched_event. destruct ev as [t|]; [|exact Hq1].
  apply qi_schedule; [exact Hq1|cbn; apply F3; auto|]. rewrite F1, Esec. unfold ncomps. cbn. lia.
Qed.

Lemma qi_conn_tick_now w : QI w -> QI (conn_tick_now w 0).
Proof.
  intro Hq. unfold conn_tick_now.
  apply (qi_conn_request w (fun w s => tick_now (w_guard w) (w_now w) s)); [|exact Hq].
  intros w' s. split; [apply tick_now_sec|]. split; [apply tick_now_keeps|]. intros t Hp. apply tick_now_time. exact Hp.
Qed.

(** ------------------------------------------------------------------ *)
(** the current time is only changed by the engine *)
Ltac now_tac :=
  repeat match goal with
         | |- context [match ?x with _ => _ end] => destruct x
         | |- context [if ?x then _ else _] => destruct x
         end; try reflexivity.

Lemma now_schedule w (sec : bool) t h : w_now (schedule w sec t h) = w_now w.
Proof. unfold schedule. destruct sec; reflexivity. Qed.

Lemma now_notify w k : w_now (notify_comp w k) = w_now w.
Proof. unfold notify_comp, sched_event. now_tac; rewrite ?now_schedule; reflexivity. Qed.

Lemma now_wake w k t : w_now (wake_at w k t) = w_now w.
Proof. unfold wake_at. now_tac; rewrite ?now_schedule; reflexivity. Qed.

Lemma now_conn_tick_now w x : w_now (conn_tick_now w x) = w_now w.
Proof. unfold conn_tick_now, sched_event. now_tac; rewrite ?now_schedule; reflexivity. Qed.

Definition Keep (w w' : world) : Prop := QI w -> QI w' /\ w_now w' = w_now w.

Lemma keep_refl w : Keep w w.
Proof. intro H. auto. Qed.

Lemma keep_trans a b c : Keep a b -> Keep b c -> Keep a c.
Proof. intros H1 H2 Ha. destruct (H1 Ha) as [Hb E1]. destruct (H2 Hb) as [Hc E2]. split; [exact Hc|congruence]. Qed.

Lemma keep_notify w k : Keep w (notify_comp w k).
Proof. intro H. split; [apply qi_notify; exact H|apply now_notify]. Qed.

Lemma keep_ctn w : Keep w (conn_tick_now w 0).
Proof. intro H. split; [apply qi_conn_tick_now; exact H|apply now_conn_tick_now]. Qed.

Lemma keep_fold_notify l : forall w, Keep w (fold_left (fun w' q => notify_comp w' (owner_of w' q)) l w).
Proof.
  induction l as [|q l IH]; intro w; cbn [fold_left]; [apply keep_refl|].
  eapply keep_trans; [apply keep_notify|apply IH].
Qed.

Lemma keep_apply_cb w gn : Keep w (apply_cb w gn).
Proof.
  destruct gn as [g n]. destruct n; cbn [apply_cb].
  - intro Hq. rewrite (qi_connof w Hq g). exact (keep_ctn w Hq).
  - apply keep_notify.
  - apply keep_notify.
  - intro Hq. rewrite (qi_connof w Hq g).
    exact (keep_trans _ _ _ (keep_fold_notify _ w) (keep_ctn _) Hq).
Qed.

Lemma keep_apply_cbs cbs : forall w, Keep w (apply_cbs w cbs).
Proof.
  unfold apply_cbs. induction cbs as [|x cbs IH]; intro w; cbn [fold_left]; [apply keep_refl|].
  eapply keep_trans; [apply keep_apply_cb|apply IH].
Qed.

Lemma keep_set_ports w ps : Keep w (set_ports w ps).
Proof. intro H. split; [apply qi_set_ports; exact H|reflexivity]. Qed.

Lemma keep_halt w : Keep w (halt w).
Proof. intro H. split; [apply qi_halt; exact H|reflexivity]. Qed.

Lemma keep_do_send w g m : Keep w (snd (do_send w g m)).
Proof.
  unfold do_send. destruct (nth_error (w_ports w) g) as [p|]; [|apply keep_refl].
  destruct (can_send p); [|apply keep_refl].
  destruct (send (Some m) p) as [u p' ns| |]; cbn [snd]; try apply keep_halt.
  eapply keep_trans; [apply keep_set_ports|apply keep_apply_cbs].
Qed.

Lemma keep_do_retrieve w g : Keep w (snd (do_retrieve w g)).
Proof.
  unfold do_retrieve. destruct (nth_error (w_ports w) g) as [p|]; [|apply keep_refl].
  destruct (retrieve_incoming p) as [v p' ns| |]; cbn [snd]; try apply keep_halt.
  eapply keep_trans; [apply keep_set_ports|apply keep_apply_cbs].
Qed.

Lemma keep_drain_port n : forall w g r acc cnt, Keep w (fst (fst (drain_port n w g r acc cnt))).
Proof.
  induction n as [|n IH]; intros w g r acc cnt; cbn [drain_port]; [apply keep_refl|].
  pose proof (keep_do_retrieve w g) as H. destruct (do_retrieve w g) as [v w1]. cbn [snd] in H.
  destruct v as [m|]; [|exact H]. eapply keep_trans; [exact H|apply IH].
Qed.

Lemma keep_drain_all ps : forall w ds rs acc cnt, Keep w (fst (fst (drain_all w ps ds rs acc cnt))).
Proof.
  induction ps as [|g ps IH]; intros w ds rs acc cnt; cbn [drain_all]; [apply keep_refl|].
  destruct ds as [|d ds]; [apply keep_refl|]. destruct rs as [|r rs]; [apply keep_refl|].
  pose proof (keep_drain_port (match d with Some k => k | None => port_in_len w g end) w g r acc cnt) as H.
  destruct (drain_port _ w g r acc cnt) as [[w1 acc1] cnt1]. cbn [fst] in H.
  eapply keep_trans; [exact H|apply IH].
Qed.

Lemma keep_flush pend : forall w kept cnt, Keep w (fst (fst (flush w pend kept cnt))).
Proof.
  induction pend as [|[g m] pend IH]; intros w kept cnt; cbn [flush]; [apply keep_refl|].
  pose proof (keep_do_send w g m) as H. destruct (do_send w g m) as [ok w1]. cbn [snd] in H.
  destruct ok; (eapply keep_trans; [exact H|apply IH]).
Qed.

Lemma keep_set_comp w k c c' : nth_error (w_comps w) k = Some c ->
  s_sec (k_sched c') = s_sec (k_sched c) -> s_period (k_sched c') = s_period (k_sched c) ->
  Keep w (set_comps w (set_nth k c' (w_comps w))).
Proof. intros Hk E1 E2 Hq. split; [eapply qi_set_comp; eauto|reflexivity]. Qed.

(** an activation keeps the invariant, and leaves only not-yet-due planned sends *)
Lemma keep_activate w k : Keep w (snd (activate w k)) /\
  forall c1, nth_error (w_comps (snd (activate w k))) k = Some c1 ->
    nth_error (w_comps w) k <> None -> Forall (fun tm => w_now w < fst (fst tm)) (k_timers c1).
Proof.
  unfold activate. destruct (nth_error (w_comps w) k) as [c|] eqn:Ek; [|split; [apply keep_refl|intros c1 _ H; congruence]].
  pose proof (keep_drain_all (k_ports c) w (k_drain c) (k_relay c) [] 0%nat) as H1.
  destruct (drain_all w (k_ports c) (k_drain c) (k_relay c) [] 0%nat) as [[w1 relays] nret]. cbn [fst] in H1.
  match goal with |- context [flush w1 ?pp [] 0%nat] =>
    pose proof (keep_flush pp w1 [] 0%nat) as H2; destruct (flush w1 pp [] 0%nat) as [[w2 kept] nsent] end.
  cbn [fst] in H2.
  destruct (nth_error (w_comps w2) k) as [c2|] eqn:E2; cbn [snd].
  - split.
    + eapply keep_trans; [exact H1|]. eapply keep_trans; [exact H2|].
      eapply keep_set_comp; [exact E2|reflexivity|reflexivity].
    + intros c1 Hc1 _. cbn [w_comps set_comps] in Hc1.
      rewrite nth_set_nth_eq in Hc1 by (eapply nth_error_lt; eauto). injection Hc1 as <-. cbn [k_timers].
      apply Forall_forall. intros tm Hin. apply filter_In in Hin. destruct Hin as [_ Hnd].
      unfold due in Hnd. apply negb_true_iff in Hnd. lia.
  - split; [eapply keep_trans; [exact H1|exact H2]|]. intros c1 Hc1 _. cbn in Hc1. congruence.
Qed.

Lemma keep_handle_comp w k t : Keep w (handle_comp w k t).
Proof.
  unfold handle_comp. destruct (nth_error (w_comps w) k) as [c|] eqn:Ek; [|apply keep_halt].
  destruct (k_kind c).
  - set (c' := mk_comp KTick (mark_handled (k_sched c) t) (k_pending c) (k_ports c) (k_drain c) (k_relay c) (k_timers c) (k_pend c)).
    set (w0 := set_comps w (set_nth k c' (w_comps w))).
    assert (H0 : Keep w w0) by (eapply keep_set_comp; [exact Ek|reflexivity|reflexivity]).
    destruct (keep_activate w0 k) as [H1 _]. destruct (activate w0 k) as [pr w1]. cbn [snd] in H1.
    destruct (nth_error (w_comps w1) k) as [c1|].
    + destruct (pr || negb match k_timers c1 with [] => true | _ :: _ => false end).
      * eapply keep_trans; [exact H0|]. eapply keep_trans; [exact H1|apply keep_notify].
      * eapply keep_trans; [exact H0|exact H1].
    + eapply keep_trans; [exact H0|exact H1].
  - set (c' := mk_comp KEvent (k_sched c) None (k_ports c) (k_drain c) (k_relay c) (k_timers c) (k_pend c)).
    set (w0 := set_comps w (set_nth k c' (w_comps w))).
    assert (H0 : Keep w w0) by (eapply keep_set_comp; [exact Ek|reflexivity|reflexivity]).
    assert (Hk0 : nth_error (w_comps w0) k <> None).
    { unfold w0. cbn [w_comps set_comps]. rewrite nth_set_nth_eq by (eapply nth_error_lt; eauto). discriminate. }
    destruct (keep_activate w0 k) as [H1 Htm]. destruct (activate w0 k) as [pr w1]. cbn [snd] in H1, Htm.
    destruct (nth_error (w_comps w1) k) as [c1|] eqn:E1; [|eapply keep_trans; [exact H0|exact H1]].
    destruct (k_timers c1) as [|tm rest] eqn:Et; [eapply keep_trans; [exact H0|exact H1]|].
    specialize (Htm c1 eq_refl Hk0). rewrite Et in Htm. inversion Htm as [|? ? Hlt _]; subst.
    intro Hq. destruct (H0 Hq) as [Hq0 E0]. destruct (H1 Hq0) as [Hq1 E1'].
    split; [apply qi_wake; [exact Hq1|]|rewrite now_wake; congruence].
    rewrite E1'. lia.
Qed.

Lemma keep_set_conn w cx' : s_sec (x_sched cx') = true -> 1 <= s_period (x_sched cx') ->
  Keep w (set_conns w [cx']).
Proof.
  intros E1 E2 [Hp Hs Hc Hx Ho]. split; [|reflexivity]. constructor; cbn; auto. exists cx'. auto.
Qed.

Lemma keep_conn_later w : Keep w
  (match nth_error (w_conns w) 0 with
   | None => w
   | Some c3 =>
       let '(s', ev) := tick_later (w_now w) (x_sched c3) in
       sched_event (set_conns w (set_nth 0 (mk_cnx s' (x_ports c3) (x_next c3)) (w_conns w))) s' (ncomps w + 0) ev
   end).
Proof.
  intro Hq. split.
  - apply (qi_conn_request w (fun w s => tick_later (w_now w) s)); [|exact Hq].
    intros w' s. split; [apply tick_later_sec|]. split; [apply tick_later_keeps|].
    intros t Hp. apply tick_later_time. exact Hp.
  - destruct (nth_error (w_conns w) 0) as [c3|]; [|reflexivity].
    destruct (tick_later (w_now w) (x_sched c3)) as [s' ev]. unfold sched_event.
    destruct ev; [rewrite now_schedule|]; reflexivity.
Qed.

Lemma keep_handle_conn w t : Keep w (handle_conn w 0 t).
Proof.
  intro Hq. destruct (qi_conn w Hq) as (cx & Ec & Esec & Eper).
  unfold handle_conn. rewrite Ec. cbn [nth_error set_nth].
  set (c0 := mk_cnx (mark_handled (x_sched cx) t) (x_ports cx) (x_next cx)).
  assert (H0 : Keep w (set_conns w [c0])) by (apply keep_set_conn; assumption).
  match goal with |- context [tick ?cc] => destruct (tick cc) as [pr cn cb dl|] end.
  2:{ exact (keep_trans _ _ _ H0 (keep_halt _) Hq). }
  match goal with |- context [set_ports (set_conns w [c0]) ?pp] => set (ports' := pp) end.
  set (w1 := set_ports (set_conns w [c0]) ports').
  unfold upd. change (w_conns w1) with [c0]. cbn [nth_error set_nth].
  set (c2 := mk_cnx (x_sched c0) (x_ports c0) (c_next cn)).
  assert (H2 : Keep w (set_conns w1 [c2])).
  { eapply keep_trans; [exact H0|]. eapply keep_trans; [apply keep_set_ports|].
    apply keep_set_conn; assumption. }
  match goal with |- context [apply_cbs (set_conns w1 [c2]) ?cc] => set (cbs := cc) end.
  assert (H3 : Keep w (apply_cbs (set_conns w1 [c2]) cbs)) by (eapply keep_trans; [exact H2|apply keep_apply_cbs]).
  destruct pr; [|exact (H3 Hq)].
  exact (keep_trans _ _ _ H3 (keep_conn_later _) Hq).
Qed.

(** ------------------------------------------------------------------ *)
(** the dispatch order *)
Lemma evs_weaken P now now' q : evs_ok P now q -> Forall (fun e => now' <= fst e) q -> evs_ok P now' q.
Proof.
  intros [Hs Hf] Hn. split; [exact Hs|]. rewrite Forall_forall in *. intros e He. split; [apply Hn; exact He|apply Hf; exact He].
Qed.

Lemma sorted_head_le t h r : StronglySorted tle ((t, h) :: r) -> Forall (fun e => t <= fst e) r.
Proof. intro H. inversion H; subst. assumption. Qed.

Lemma forallb_leb t (q : list (N * nat)) : Forall (fun e => t <= fst e) q -> forallb (N.leb t) (map fst q) = true.
Proof.
  intro H. apply forallb_forall. intros x Hx. apply in_map_iff in Hx. destruct Hx as (e & <- & He).
  rewrite Forall_forall in H. specialize (H e He). lia.
Qed.

Lemma pop_ok w t h w' : QI w -> next_event w = Some (t, h, w') ->
  step_ok w = true /\ QI (set_now w' t) /\
  ((h < ncomps w)%nat /\ dispatch w' t h = handle_comp (set_now w' t) h t \/
   h = ncomps w /\ dispatch w' t h = handle_conn (set_now w' t) 0 t).
Proof.
  intros [[Hps Hpf] [Hss Hsf] Hc Hx Ho] Hn. unfold next_event, step_ok in *.
  destruct (w_prim w) as [|[tp hp] rp] eqn:Epq; destruct (w_sec w) as [|[ts hs] rs] eqn:Esq; try discriminate.
  - (* only secondary events *)
    injection Hn as E1 E2 E3; subst t h w'.
    inversion Hsf as [|? ? [Hn1 Hh1] Hsf']; subst. cbn [fst snd] in *. subst hs. pose proof (sorted_head_le _ _ _ Hss) as Hle.
    inversion Hss; subst.
    split; [rewrite Nat.eqb_refl; cbn [andb]; apply forallb_leb; exact Hle|]. split.
    + constructor; cbn; auto.
      * rewrite Epq. split; [constructor|constructor].
      * apply (evs_weaken _ (w_now w)); [split; assumption|exact Hle].
    + right. split; [reflexivity|]. unfold dispatch. change (ncomps (set_now (set_sec w rs) ts)) with (ncomps w).
      rewrite Nat.ltb_irrefl, Nat.sub_diag. reflexivity.
  - (* only primary events *)
    injection Hn as E1 E2 E3; subst t h w'.
    inversion Hpf as [|? ? [Hn1 Hh1] Hpf']; subst. cbn [fst snd] in *. pose proof (sorted_head_le _ _ _ Hps) as Hle.
    inversion Hps; subst.
    split; [apply andb_true_iff; split; [apply Nat.ltb_lt; exact Hh1|apply N.leb_le; exact Hn1]|]. split.
    + constructor; cbn; auto.
      * apply (evs_weaken _ (w_now w)); [split; assumption|exact Hle].
      * rewrite Esq. split; constructor.
    + left. split; [exact Hh1|]. unfold dispatch. change (ncomps (set_now (set_prim w rp) tp)) with (ncomps w).
      apply Nat.ltb_lt in Hh1. rewrite Hh1. reflexivity.
  - inversion Hpf as [|? ? [Hn1 Hh1] Hpf']; subst. inversion Hsf as [|? ? [Hn2 Hh2] Hsf']; subst.
    pose proof (sorted_head_le _ _ _ Hps) as Hlep. pose proof (sorted_head_le _ _ _ Hss) as Hles.
    cbn [fst snd] in *. subst hs.
    destruct (tp <=? ts) eqn:Ele.
    + injection Hn as E1 E2 E3; subst t h w'.
      assert (Hall : Forall (fun e : N * nat => tp <= fst e) ((ts, ncomps w) :: rs)).
      { constructor; [cbn; lia|]. eapply Forall_impl; [|exact Hles]. cbn. intros; lia. }
      split.
      { apply andb_true_iff. split; [apply andb_true_iff; split; [apply Nat.ltb_lt; exact Hh1|apply N.leb_le; exact Hn1]|].
        apply forallb_leb. exact Hall. }
      split.
      * inversion Hps; subst. constructor; cbn; auto.
        -- apply (evs_weaken _ (w_now w)); [split; assumption|exact Hlep].
        -- rewrite Esq. apply (evs_weaken _ (w_now w)); [split; assumption|exact Hall].
      * left. split; [exact Hh1|]. unfold dispatch. change (ncomps (set_now (set_prim w rp) tp)) with (ncomps w).
        apply Nat.ltb_lt in Hh1. rewrite Hh1. reflexivity.
    + injection Hn as E1 E2 E3; subst t h w'.
      split; [rewrite Nat.eqb_refl; cbn [andb]; apply forallb_leb; exact Hles|]. split.
      * inversion Hss; subst. constructor; cbn; auto.
        -- rewrite Epq. apply (evs_weaken _ (w_now w)); [split; assumption|].
           constructor; [cbn; lia|]. eapply Forall_impl; [|exact Hlep]. cbn. intros; lia.
        -- apply (evs_weaken _ (w_now w)); [split; assumption|exact Hles].
      * right. split; [reflexivity|]. unfold dispatch. change (ncomps (set_now (set_sec w rs) ts)) with (ncomps w).
        rewrite Nat.ltb_irrefl, Nat.sub_diag. reflexivity.
Qed.

(** the engine contract holds of every run of a world satisfying the queue invariant *)
Theorem run_ok_holds fuel : forall w, QI w -> run_ok fuel w = true.
Proof.
  induction fuel as [|f IH]; intros w Hq; [reflexivity|]. cbn [run_ok].
  destruct (w_halt w); [reflexivity|].
  destruct (next_event w) as [[[t h] w']|] eqn:En; [|reflexivity].
  destruct (pop_ok w t h w' Hq En) as (Hs & Hq1 & Hd). rewrite Hs. cbn [andb]. apply IH.
  destruct Hd as [[_ ->]|[_ ->]]; [exact (proj1 (keep_handle_comp _ h t Hq1))|exact (proj1 (keep_handle_conn _ t Hq1))].
Qed.

(** ------------------------------------------------------------------ *)
(** worlds built by the harness constructors *)
Lemma now_comp_tick_now w k : w_now (comp_tick_now w k) = w_now w.
Proof. unfold comp_tick_now, sched_event. now_tac; rewrite ?now_schedule; reflexivity. Qed.

Lemma qi_kick w : w_now w = 0 -> QI w -> QI (kick w).
Proof.
  unfold kick. generalize (seq 0 (length (w_comps w))) as l. intro l. revert w.
  induction l as [|k l IH]; intros w Hn Hq; cbn [fold_left]; [exact Hq|].
  assert (H1 : QI (match nth_error (w_comps w) k with
                   | Some c => match k_timers c with
                               | [] => w
                               | tm :: _ => match k_kind c with KTick => comp_tick_now w k | KEvent => wake_at w k (fst (fst tm)) end
                               end
                   | None => w end) /\
               w_now (match nth_error (w_comps w) k with
                   | Some c => match k_timers c with
                               | [] => w
                               | tm :: _ => match k_kind c with KTick => comp_tick_now w k | KEvent => wake_at w k (fst (fst tm)) end
                               end
                   | None => w end) = 0).
  { destruct (nth_error (w_comps w) k) as [c|]; [|auto].
    destruct (k_timers c) as [|tm r]; [auto|].
    destruct (k_kind c).
    - split; [apply qi_comp_tick_now; exact Hq|rewrite now_comp_tick_now; exact Hn].
    - split; [apply qi_wake; [exact Hq|lia]|rewrite now_wake; exact Hn]. }
  destruct H1 as [Hq1 Hn1]. exact (IH _ Hn1 Hq1).
Qed.

Lemma built_world_qi ports comps period :
  1 <= period -> Forall (fun d => 1 <= d_period d) comps ->
  Forall (fun p : Z * Z * nat * nat => snd p = 0%nat) ports ->
  QI (kick (build GuardNew ports comps [period])).
Proof.
  intros Hp Hcp Hall. apply qi_kick; [reflexivity|].
  assert (Hz : Forall (fun x => x = 0%nat) (map snd ports)) by (apply Forall_map; exact Hall).
  constructor.
  - split; constructor.
  - split; constructor.
  - unfold build. cbn [w_comps]. apply Forall_map. apply Forall_forall. intros [k d] Hin.
    apply in_combine_r in Hin. rewrite Forall_forall in Hcp. split; [reflexivity|exact (Hcp d Hin)].
  - unfold build. cbn [w_conns combine seq length map fst snd]. eexists. split; [reflexivity|]. cbn. auto.
  - intro g. unfold conn_of, build. cbn [w_connof]. apply nth_all_zero. exact Hz.
Qed.

(** Projection without the checked hypothesis: every run of a built one-connection
    world is a run of the abstract connection system. *)
Theorem built_world_projects ports comps period fuel tr :
  1 <= period -> Forall (fun d => 1 <= d_period d) comps ->
  Forall (fun p : Z * Z * nat * nat => snd p = 0%nat) ports ->
  let w0 := kick (build GuardNew ports comps [period]) in
  let wf := snd (fst (run fuel w0 tr)) in
  w_halt wf = false -> w_sec wf = [] ->
  (exists acts st', csteps GuardNew (st_init (w_ports w0) period) acts = Some st' /\ R wf st' /\ cinv st') /\
  forall k, deliv (w_ports wf) k = false.
Proof.
  intros Hp Hcp Hall w0 wf Hnh Hq.
  destruct (built_world ports comps period Hp Hall) as (Hw & Hr & Hi). fold w0 in Hw, Hr, Hi.
  pose proof (run_ok_holds fuel w0 (built_world_qi ports comps period Hp Hcp Hall)) as Hok.
  exact (world_projects fuel w0 _ tr Hw Hr Hi Hok Hnh Hq).
Qed.
