(** C09 — the engine contract ([ProjectN.run_okN]) is an invariant of the executable world
    model for any number of connections (Contract.v is the one-connection form): the model's
    own dispatch order, and the fact that every scheduling path schedules at or after the
    current time, component events into the primary queue and connection events into the
    secondary queue. *)
From Coq Require Import Sorting.Sorted.
From Akita Require Import Lib.Base Lib.Fifo Lib.Port Lib.Conn C10.Model C10.Proofs C09.Model C09.Proofs C09.Project C09.Contract C09.ProjectN.
Local Open Scope N_scope.

Definition conn_ok (cx : cnx) : Prop := s_sec (x_sched cx) = true /\ 1 <= s_period (x_sched cx).

Record QIn (w : world) : Prop := {
  qn_prim : evs_ok (fun h => (h < ncomps w)%nat) (w_now w) (w_prim w);
  qn_sec : evs_ok (fun h => (ncomps w <= h)%nat) (w_now w) (w_sec w);
  qn_comps : Forall comp_ok (w_comps w);
  qn_conns : Forall conn_ok (w_conns w) }.

(** engine.Schedule *)
Lemma qn_schedule w (sec : bool) t h : QIn w -> w_now w <= t ->
  (if sec then (ncomps w <= h)%nat else (h < ncomps w)%nat) -> QIn (schedule w sec t h).
Proof.
  intros [Hp Hs Hc Hx] Ht Hh. unfold schedule. destruct sec; constructor; cbn; auto;
    apply evs_insert; auto.
Qed.

Lemma qn_set_comps w cs : QIn w -> length cs = length (w_comps w) -> Forall comp_ok cs -> QIn (set_comps w cs).
Proof.
  intros [Hp Hs Hc Hx] Hl Hf. constructor; cbn; auto; unfold ncomps in *; cbn; rewrite Hl; auto.
Qed.

Lemma qn_set_comp w k c c' : QIn w -> nth_error (w_comps w) k = Some c ->
  s_sec (k_sched c') = s_sec (k_sched c) -> s_period (k_sched c') = s_period (k_sched c) ->
  QIn (set_comps w (set_nth k c' (w_comps w))).
Proof.
  intros Hq Hk E1 E2. apply qn_set_comps; [exact Hq|apply set_nth_length|].
  apply forall_set_nth; [exact (qn_comps w Hq)|].
  pose proof (qn_comps w Hq) as Hf. rewrite Forall_forall in Hf. destruct (Hf c (nth_error_In _ _ Hk)) as [A B].
  split; congruence.
Qed.

Lemma qn_set_ports w ps : QIn w -> QIn (set_ports w ps).
Proof. intros [Hp Hs Hc Hx]. constructor; cbn; auto. Qed.

Lemma qn_halt w : QIn w -> QIn (halt w).
Proof. intros [Hp Hs Hc Hx]. constructor; cbn; auto. Qed.


Lemma comp_okk w k c : QIn w -> nth_error (w_comps w) k = Some c -> comp_ok c.
Proof. intros Hq Hk. pose proof (qn_comps w Hq) as Hf. rewrite Forall_forall in Hf. exact (Hf c (nth_error_In _ _ Hk)). Qed.


(** a component's own TickLater / TickNow *)
Lemma qn_comp_request w k c (res : sched * option N) :
  QIn w -> nth_error (w_comps w) k = Some c ->
  s_sec (fst res) = s_sec (k_sched c) -> s_period (fst res) = s_period (k_sched c) ->
  (forall t, snd res = Some t -> w_now w <= t) ->
  QIn (sched_event (set_comps w (set_nth k
        (mk_comp (k_kind c) (fst res) (k_pending c) (k_ports c) (k_drain c) (k_relay c) (k_timers c) (k_pend c))
        (w_comps w))) (fst res) k (snd res)).
Proof.
  intros Hq Hk E1 E2 Ht. destruct (comp_okk w k c Hq Hk) as [Hsf _].
  assert (Hq1 : QIn (set_comps w (set_nth k
        (mk_comp (k_kind c) (fst res) (k_pending c) (k_ports c) (k_drain c) (k_relay c) (k_timers c) (k_pend c))
        (w_comps w)))) by (eapply qn_set_comp; eauto).
  unfold sched_event. destruct (snd res) as [t|] eqn:Ev; [|exact Hq1].
  apply qn_schedule; [exact Hq1|cbn; apply Ht; reflexivity|].
  rewrite E1, Hsf. unfold ncomps. cbn. rewrite set_nth_length. eapply comp_lt; eauto.
Qed.

Lemma qn_notify w k : QIn w -> QIn (notify_comp w k).
Proof.
  intro Hq. unfold notify_comp. destruct (nth_error (w_comps w) k) as [c|] eqn:Ek; [|exact Hq].
  destruct (comp_okk w k c Hq Ek) as [Hsf Hper].
  destruct (k_kind c) eqn:Ekk.
  - pose proof (qn_comp_request w k c (tick_later (w_now w) (k_sched c)) Hq Ek
                  (tick_later_sec _ _) (tick_later_keeps _ _) (fun t => tick_later_time _ _ t Hper)) as H.
    rewrite Ekk in H. destruct (tick_later (w_now w) (k_sched c)) as [s' ev]. exact H.
  - assert (Hgo : QIn (schedule (set_comps w (set_nth k
        (mk_comp KEvent (k_sched c) (Some (w_now w)) (k_ports c) (k_drain c) (k_relay c) (k_timers c) (k_pend c))
        (w_comps w))) false (w_now w) k)).
    { apply qn_schedule; [eapply qn_set_comp; eauto|cbn; lia|].
      unfold ncomps. cbn. rewrite set_nth_length. eapply comp_lt; eauto. }
    destruct (k_pending c) as [p|]; [destruct (p <=? w_now w); [exact Hq|exact Hgo]|exact Hgo].
Qed.

Lemma qn_wake w k t : QIn w -> w_now w <= t -> QIn (wake_at w k t).
Proof.
  intros Hq Ht. unfold wake_at. destruct (nth_error (w_comps w) k) as [c|] eqn:Ek; [|exact Hq].
  assert (Hgo : QIn (schedule (set_comps w (set_nth k
        (mk_comp (k_kind c) (k_sched c) (Some t) (k_ports c) (k_drain c) (k_relay c) (k_timers c) (k_pend c))
        (w_comps w))) false t k)).
  { apply qn_schedule; [eapply qn_set_comp; eauto|cbn; exact Ht|].
    unfold ncomps. cbn. rewrite set_nth_length. eapply comp_lt; eauto. }
  destruct (k_pending c) as [p|]; [destruct (p <=? t); [exact Hq|exact Hgo]|exact Hgo].
Qed.

Lemma qn_comp_tick_now w k : QIn w -> QIn (comp_tick_now w k).
Proof.
  intro Hq. unfold comp_tick_now. destruct (nth_error (w_comps w) k) as [c|] eqn:Ek; [|exact Hq].
  destruct (comp_okk w k c Hq Ek) as [Hsf Hper].
  pose proof (qn_comp_request w k c (tick_now (w_guard w) (w_now w) (k_sched c)) Hq Ek
                (tick_now_sec _ _ _) (tick_now_keeps _ _ _) (fun t => tick_now_time _ _ _ t Hper)) as H.
  destruct (tick_now (w_guard w) (w_now w) (k_sched c)) as [s' ev]. exact H.
Qed.


Definition KeepN (w w' : world) : Prop := QIn w -> QIn w' /\ w_now w' = w_now w.

Lemma keepn_refl w : KeepN w w.
Proof. intro H. auto. Qed.

Lemma keepn_trans a b c : KeepN a b -> KeepN b c -> KeepN a c.
Proof. intros H1 H2 Ha. destruct (H1 Ha) as [Hb E1]. destruct (H2 Hb) as [Hc E2]. split; [exact Hc|congruence]. Qed.

Lemma keepn_notify w k : KeepN w (notify_comp w k).
Proof. intro H. split; [apply qn_notify; exact H|apply now_notify]. Qed.


Lemma keepn_fold_notify l : forall w, KeepN w (fold_left (fun w' q => notify_comp w' (owner_of w' q)) l w).
Proof.
  induction l as [|q l IH]; intro w; cbn [fold_left]; [apply keepn_refl|].
  eapply keepn_trans; [apply keepn_notify|apply IH].
Qed.


(** TickNow / TickLater of any connection *)
Lemma qn_conn_req later w x : QIn w -> QIn (conn_req later w x).
Proof.
  intro Hq. unfold conn_req. destruct (nth_error (w_conns w) x) as [c|] eqn:Ec; [|exact Hq].
  pose proof (qn_conns w Hq) as Hf. rewrite Forall_forall in Hf. destruct (Hf c (nth_error_In _ _ Ec)) as [Esec Eper].
  set (res := if later then tick_later (w_now w) (x_sched c) else tick_now (w_guard w) (w_now w) (x_sched c)).
  assert (F1 : s_sec (fst res) = true).
  { unfold res. destruct later; [rewrite tick_later_sec|rewrite tick_now_sec]; exact Esec. }
  assert (F2 : s_period (fst res) = s_period (x_sched c)).
  { unfold res. destruct later; [apply tick_later_keeps|apply tick_now_keeps]. }
  assert (F3 : forall t, snd res = Some t -> w_now w <= t).
  { unfold res. destruct later; intros t; [apply tick_later_time|apply tick_now_time]; exact Eper. }
  destruct res as [s' ev]. cbn [fst snd] in *.
  assert (Hq1 : QIn (set_conns w (set_nth x (mk_cnx s' (x_ports c) (x_next c)) (w_conns w)))).
  { destruct Hq as [Hp Hs Hc Hx]. constructor; cbn; auto. apply forall_set_nth; [exact Hx|]. split; cbn; congruence. }
  unfold sched_event. destruct ev as [t|]; [|exact Hq1].
  apply qn_schedule; [exact Hq1|cbn; apply F3; reflexivity|]. rewrite F1. unfold ncomps. cbn. lia.
Qed.

Lemma now_conn_req later w x : w_now (conn_req later w x) = w_now w.
Proof.
  unfold conn_req. destruct (nth_error (w_conns w) x) as [c|]; [|reflexivity].
  destruct (if later then tick_later (w_now w) (x_sched c) else tick_now (w_guard w) (w_now w) (x_sched c)) as [s' ev].
  unfold sched_event. destruct ev; [rewrite now_schedule|]; reflexivity.
Qed.

Lemma keepn_conn_req later w x : KeepN w (conn_req later w x).
Proof. intro H. split; [apply qn_conn_req; exact H|apply now_conn_req]. Qed.

Lemma keepn_apply_cb w gn : KeepN w (apply_cb w gn).
Proof.
  destruct gn as [g n]. destruct n; cbn [apply_cb].
  - rewrite conn_tick_now_req. apply keepn_conn_req.
  - apply keepn_notify.
  - apply keepn_notify.
  - set (others := match nth_error (w_conns w) (conn_of w g) with
                   | Some c => filter (fun q => negb (Nat.eqb q g)) (x_ports c) | None => [] end).
    apply (keepn_trans w (fold_left (fun w' q => notify_comp w' (owner_of w' q)) others w));
      [apply keepn_fold_notify|rewrite conn_tick_now_req; apply keepn_conn_req].
Qed.

Lemma keepn_apply_cbs cbs : forall w, KeepN w (apply_cbs w cbs).
Proof.
  unfold apply_cbs. induction cbs as [|x cbs IH]; intro w; cbn [fold_left]; [apply keepn_refl|].
  eapply keepn_trans; [apply keepn_apply_cb|apply IH].
Qed.

Lemma keepn_set_ports w ps : KeepN w (set_ports w ps).
Proof. intro H. split; [apply qn_set_ports; exact H|reflexivity]. Qed.

Lemma keepn_halt w : KeepN w (halt w).
Proof. intro H. split; [apply qn_halt; exact H|reflexivity]. Qed.

Lemma keepn_do_send w g m : KeepN w (snd (do_send w g m)).
Proof.
  unfold do_send. destruct (nth_error (w_ports w) g) as [p|]; [|apply keepn_refl].
  destruct (can_send p); [|apply keepn_refl].
  destruct (send (Some m) p) as [u p' ns| |]; cbn [snd]; try apply keepn_halt.
  eapply keepn_trans; [apply keepn_set_ports|apply keepn_apply_cbs].
Qed.

Lemma keepn_do_retrieve w g : KeepN w (snd (do_retrieve w g)).
Proof.
  unfold do_retrieve. destruct (nth_error (w_ports w) g) as [p|]; [|apply keepn_refl].
  destruct (retrieve_incoming p) as [v p' ns| |]; cbn [snd]; try apply keepn_halt.
  eapply keepn_trans; [apply keepn_set_ports|apply keepn_apply_cbs].
Qed.

Lemma keepn_drain_port n : forall w g r acc cnt, KeepN w (fst (fst (drain_port n w g r acc cnt))).
Proof.
  induction n as [|n IH]; intros w g r acc cnt; cbn [drain_port]; [apply keepn_refl|].
  pose proof (keepn_do_retrieve w g) as H. destruct (do_retrieve w g) as [v w1]. cbn [snd] in H.
  destruct v as [m|]; [|exact H]. eapply keepn_trans; [exact H|apply IH].
Qed.

Lemma keepn_drain_all ps : forall w ds rs acc cnt, KeepN w (fst (fst (drain_all w ps ds rs acc cnt))).
Proof.
  induction ps as [|g ps IH]; intros w ds rs acc cnt; cbn [drain_all]; [apply keepn_refl|].
  destruct ds as [|d ds]; [apply keepn_refl|]. destruct rs as [|r rs]; [apply keepn_refl|].
  pose proof (keepn_drain_port (match d with Some k => k | None => port_in_len w g end) w g r acc cnt) as H.
  destruct (drain_port _ w g r acc cnt) as [[w1 acc1] cnt1]. cbn [fst] in H.
  eapply keepn_trans; [exact H|apply IH].
Qed.

Lemma keepn_flush pend : forall w kept cnt, KeepN w (fst (fst (flush w pend kept cnt))).
Proof.
  induction pend as [|[g m] pend IH]; intros w kept cnt; cbn [flush]; [apply keepn_refl|].
  pose proof (keepn_do_send w g m) as H. destruct (do_send w g m) as [ok w1]. cbn [snd] in H.
  destruct ok; (eapply keepn_trans; [exact H|apply IH]).
Qed.

Lemma keepn_set_comp w k c c' : nth_error (w_comps w) k = Some c ->
  s_sec (k_sched c') = s_sec (k_sched c) -> s_period (k_sched c') = s_period (k_sched c) ->
  KeepN w (set_comps w (set_nth k c' (w_comps w))).
Proof. intros Hk E1 E2 Hq. split; [eapply qn_set_comp; eauto|reflexivity]. Qed.

(** an activation keeps the invariant, and leaves only not-yet-due planned sends *)
Lemma keepn_activate w k : KeepN w (snd (activate w k)) /\
  forall c1, nth_error (w_comps (snd (activate w k))) k = Some c1 ->
    nth_error (w_comps w) k <> None -> Forall (fun tm => w_now w < fst (fst tm)) (k_timers c1).
Proof.
  unfold activate. destruct (nth_error (w_comps w) k) as [c|] eqn:Ek; [|split; [apply keepn_refl|intros c1 _ H; congruence]].
  pose proof (keepn_drain_all (k_ports c) w (k_drain c) (k_relay c) [] 0%nat) as H1.
  destruct (drain_all w (k_ports c) (k_drain c) (k_relay c) [] 0%nat) as [[w1 relays] nret]. cbn [fst] in H1.
  match goal with |- context [flush w1 ?pp [] 0%nat] =>
    pose proof (keepn_flush pp w1 [] 0%nat) as H2; destruct (flush w1 pp [] 0%nat) as [[w2 kept] nsent] end.
  cbn [fst] in H2.
  destruct (nth_error (w_comps w2) k) as [c2|] eqn:E2; cbn [snd].
  - split.
    + eapply keepn_trans; [exact H1|]. eapply keepn_trans; [exact H2|].
      eapply keepn_set_comp; [exact E2|reflexivity|reflexivity].
    + intros c1 Hc1 _. cbn [w_comps set_comps] in Hc1.
      rewrite nth_set_nth_eq in Hc1 by (eapply nth_error_lt; eauto). injection Hc1 as <-. cbn [k_timers].
      apply Forall_forall. intros tm Hin. apply filter_In in Hin. destruct Hin as [_ Hnd].
      unfold due in Hnd. apply negb_true_iff in Hnd. lia.
  - split; [eapply keepn_trans; [exact H1|exact H2]|]. intros c1 Hc1 _. cbn in Hc1. congruence.
Qed.

Lemma keepn_handle_comp w k t : KeepN w (handle_comp w k t).
Proof.
  unfold handle_comp. destruct (nth_error (w_comps w) k) as [c|] eqn:Ek; [|apply keepn_halt].
  destruct (k_kind c).
  - set (c' := mk_comp KTick (mark_handled (k_sched c) t) (k_pending c) (k_ports c) (k_drain c) (k_relay c) (k_timers c) (k_pend c)).
    set (w0 := set_comps w (set_nth k c' (w_comps w))).
    assert (H0 : KeepN w w0) by (eapply keepn_set_comp; [exact Ek|reflexivity|reflexivity]).
    destruct (keepn_activate w0 k) as [H1 _]. destruct (activate w0 k) as [pr w1]. cbn [snd] in H1.
    destruct (nth_error (w_comps w1) k) as [c1|].
    + destruct (pr || negb match k_timers c1 with [] => true | _ :: _ => false end).
      * eapply keepn_trans; [exact H0|]. eapply keepn_trans; [exact H1|apply keepn_notify].
      * eapply keepn_trans; [exact H0|exact H1].
    + eapply keepn_trans; [exact H0|exact H1].
  - set (c' := mk_comp KEvent (k_sched c) None (k_ports c) (k_drain c) (k_relay c) (k_timers c) (k_pend c)).
    set (w0 := set_comps w (set_nth k c' (w_comps w))).
    assert (H0 : KeepN w w0) by (eapply keepn_set_comp; [exact Ek|reflexivity|reflexivity]).
    assert (Hk0 : nth_error (w_comps w0) k <> None).
    { unfold w0. cbn [w_comps set_comps]. rewrite nth_set_nth_eq by (eapply nth_error_lt; eauto). discriminate. }
    destruct (keepn_activate w0 k) as [H1 Htm]. destruct (activate w0 k) as [pr w1]. cbn [snd] in H1, Htm.
    destruct (nth_error (w_comps w1) k) as [c1|] eqn:E1; [|eapply keepn_trans; [exact H0|exact H1]].
    destruct (k_timers c1) as [|tm rest] eqn:Et; [eapply keepn_trans; [exact H0|exact H1]|].
    specialize (Htm c1 eq_refl Hk0). rewrite Et in Htm. inversion Htm as [|? ? Hlt _]; subst.
    intro Hq. destruct (H0 Hq) as [Hq0 E0]. destruct (H1 Hq0) as [Hq1 E1'].
    split; [apply qn_wake; [exact Hq1|]|rewrite now_wake; congruence].
    rewrite E1'. lia.
Qed.


Lemma keepn_handle_conn w x t : KeepN w (handle_conn w x t).
Proof.
  intro Hq. unfold handle_conn. destruct (nth_error (w_conns w) x) as [cx|] eqn:Ec; [|exact (keepn_halt w Hq)].
  pose proof (qn_conns w Hq) as Hf. rewrite Forall_forall in Hf. destruct (Hf cx (nth_error_In _ _ Ec)) as [Esec Eper].
  set (c0 := mk_cnx (mark_handled (x_sched cx) t) (x_ports cx) (x_next cx)).
  assert (H0 : KeepN w (set_conns w (set_nth x c0 (w_conns w)))).
  { intros [Hp Hs Hc Hx]. split; [|reflexivity]. constructor; cbn; auto. apply forall_set_nth; [exact Hx|]. split; assumption. }
  cbn zeta.
  match goal with |- context [tick ?cc] => destruct (tick cc) as [pr cn cb dl|] end.
  2:{ exact (keepn_trans _ _ _ H0 (keepn_halt _) Hq). }
  match goal with |- context [set_ports (set_conns w (set_nth x c0 (w_conns w))) ?pp] => set (ports' := pp) end.
  set (w1 := set_ports (set_conns w (set_nth x c0 (w_conns w))) ports').
  assert (H1 : KeepN w w1) by (eapply keepn_trans; [exact H0|apply keepn_set_ports]).
  unfold upd. change (w_conns w1) with (set_nth x c0 (w_conns w)).
  rewrite nth_set_nth_eq by (eapply nth_error_lt; eauto). rewrite set_nth_twice.
  set (c2 := mk_cnx (x_sched c0) (x_ports c0) (c_next cn)).
  assert (H2 : KeepN w (set_conns w1 (set_nth x c2 (w_conns w)))).
  { eapply keepn_trans; [exact H1|]. intros [Hp Hs Hc Hx]. split; [|reflexivity]. constructor; cbn; auto.
    pose proof (qn_conns w Hq) as Hxw. apply forall_set_nth; [exact Hxw|]. split; assumption. }
  match goal with |- context [apply_cbs (set_conns w1 (set_nth x c2 (w_conns w))) ?cc] => set (cbs := cc) end.
  assert (H3 : KeepN w (apply_cbs (set_conns w1 (set_nth x c2 (w_conns w))) cbs)) by (eapply keepn_trans; [exact H2|apply keepn_apply_cbs]).
  destruct pr; [|exact (H3 Hq)].
  exact (keepn_trans _ _ _ H3 (keepn_conn_req true _ x) Hq).
Qed.

(** the dispatch order *)
Lemma pop_okN w t h w' : QIn w -> next_event w = Some (t, h, w') ->
  step_okN w = true /\ QIn (set_now w' t) /\
  (dispatch w' t h = handle_comp (set_now w' t) h t \/
   dispatch w' t h = handle_conn (set_now w' t) (h - ncomps w) t).
Proof.
  intros [[Hps Hpf] [Hss Hsf] Hc Hx] Hn. unfold next_event, step_okN in *.
  destruct (w_prim w) as [|[tp hp] rp] eqn:Epq; destruct (w_sec w) as [|[ts hs] rs] eqn:Esq; try discriminate.
  - injection Hn as E1 E2 E3; subst t h w'.
    inversion Hsf as [|? ? [Hn1 Hh1] Hsf']; subst. cbn [fst snd] in *. pose proof (sorted_head_le _ _ _ Hss) as Hle.
    inversion Hss; subst.
    split; [apply andb_true_iff; split; [apply andb_true_iff; split; [apply Nat.leb_le; exact Hh1|apply N.leb_le; exact Hn1]|apply forallb_leb; exact Hle]|].
    split.
    + constructor; cbn; auto.
      * rewrite Epq. split; [constructor|constructor].
      * apply (evs_weaken _ (w_now w)); [split; assumption|exact Hle].
    + right. unfold dispatch. change (ncomps (set_now (set_sec w rs) ts)) with (ncomps w).
      replace (hs <? ncomps w)%nat with false by (symmetry; apply Nat.ltb_ge; exact Hh1). reflexivity.
  - injection Hn as E1 E2 E3; subst t h w'.
    inversion Hpf as [|? ? [Hn1 Hh1] Hpf']; subst. cbn [fst snd] in *. pose proof (sorted_head_le _ _ _ Hps) as Hle.
    inversion Hps; subst.
    split; [apply andb_true_iff; split; [apply Nat.ltb_lt; exact Hh1|apply N.leb_le; exact Hn1]|]. split.
    + constructor; cbn; auto.
      * apply (evs_weaken _ (w_now w)); [split; assumption|exact Hle].
      * rewrite Esq. split; constructor.
    + left. unfold dispatch. change (ncomps (set_now (set_prim w rp) tp)) with (ncomps w).
      apply Nat.ltb_lt in Hh1. rewrite Hh1. reflexivity.
  - inversion Hpf as [|? ? [Hn1 Hh1] Hpf']; subst. inversion Hsf as [|? ? [Hn2 Hh2] Hsf']; subst.
    pose proof (sorted_head_le _ _ _ Hps) as Hlep. pose proof (sorted_head_le _ _ _ Hss) as Hles.
    cbn [fst snd] in *.
    destruct (tp <=? ts) eqn:Ele.
    + injection Hn as E1 E2 E3; subst t h w'.
      assert (Hall : Forall (fun e : N * nat => tp <= fst e) ((ts, hs) :: rs)).
      { constructor; [cbn; lia|]. eapply Forall_impl; [|exact Hles]. cbn. intros; lia. }
      split.
      { apply andb_true_iff. split; [apply andb_true_iff; split; [apply Nat.ltb_lt; exact Hh1|apply N.leb_le; exact Hn1]|].
        apply forallb_leb. exact Hall. }
      split.
      * inversion Hps; subst. constructor; cbn; auto.
        -- apply (evs_weaken _ (w_now w)); [split; assumption|exact Hlep].
        -- rewrite Esq. apply (evs_weaken _ (w_now w)); [split; assumption|exact Hall].
      * left. unfold dispatch. change (ncomps (set_now (set_prim w rp) tp)) with (ncomps w).
        apply Nat.ltb_lt in Hh1. rewrite Hh1. reflexivity.
    + injection Hn as E1 E2 E3; subst t h w'.
      split; [apply andb_true_iff; split; [apply andb_true_iff; split; [apply Nat.leb_le; exact Hh2|apply N.leb_le; exact Hn2]|apply forallb_leb; exact Hles]|].
      split.
      * inversion Hss; subst. constructor; cbn; auto.
        -- rewrite Epq. apply (evs_weaken _ (w_now w)); [split; assumption|].
           constructor; [cbn; lia|]. eapply Forall_impl; [|exact Hlep]. cbn. intros; lia.
        -- apply (evs_weaken _ (w_now w)); [split; assumption|exact Hles].
      * right. unfold dispatch. change (ncomps (set_now (set_sec w rs) ts)) with (ncomps w).
        replace (hs <? ncomps w)%nat with false by (symmetry; apply Nat.ltb_ge; exact Hh2). reflexivity.
Qed.

Theorem run_okN_holds fuel : forall w, QIn w -> run_okN fuel w = true.
Proof.
  induction fuel as [|f IH]; intros w Hq; [reflexivity|]. cbn [run_okN].
  destruct (w_halt w); [reflexivity|].
  destruct (next_event w) as [[[t h] w']|] eqn:En; [|reflexivity].
  destruct (pop_okN w t h w' Hq En) as (Hs & Hq1 & Hd). rewrite Hs. cbn [andb]. apply IH.
  destruct Hd as [-> | ->]; [exact (proj1 (keepn_handle_comp _ h t Hq1))|exact (proj1 (keepn_handle_conn _ _ t Hq1))].
Qed.

(** ------------------------------------------------------------------ *)
(** worlds built by the harness constructors, any number of connections *)
Lemma sc_comp_tick_now w k : Forall secfalse (w_comps w) ->
  same_core w (comp_tick_now w k) /\ length (w_comps (comp_tick_now w k)) = length (w_comps w).
Proof.
  intro Hf. unfold comp_tick_now. destruct (nth_error (w_comps w) k) as [c|] eqn:Ek; [|split; [apply same_core_refl|reflexivity]].
  assert (Hsf : s_sec (k_sched c) = false) by (rewrite Forall_forall in Hf; exact (Hf c (nth_error_In _ _ Ek))).
  pose proof (tick_now_sec (w_guard w) (w_now w) (k_sched c)) as Hs.
  destruct (tick_now (w_guard w) (w_now w) (k_sched c)) as [s' ev]. cbn [fst] in Hs.
  unfold sched_event. destruct ev as [t|]; [unfold schedule; rewrite Hs, Hsf|];
    (split; [unfold same_core; cbn; repeat split; auto; intro Hf'; apply forall_set_nth; auto;
             unfold secfalse; cbn; congruence|cbn; apply set_nth_length]).
Qed.

Lemma kick_coreN w : Forall secfalse (w_comps w) ->
  same_core w (kick w) /\ length (w_comps (kick w)) = length (w_comps w).
Proof.
  unfold kick. generalize (seq 0 (length (w_comps w))) as l. intro l. revert w.
  induction l as [|k l IH]; intros w Hf; cbn [fold_left]; [split; [apply same_core_refl|reflexivity]|].
  set (w1 := match nth_error (w_comps w) k with
             | Some c => match k_timers c with
                         | [] => w
                         | tm :: _ => match k_kind c with KTick => comp_tick_now w k | KEvent => wake_at w k (fst (fst tm)) end
                         end
             | None => w end).
  assert (H1 : same_core w w1 /\ length (w_comps w1) = length (w_comps w)).
  { unfold w1. destruct (nth_error (w_comps w) k) as [c|]; [|split; [apply same_core_refl|reflexivity]].
    destruct (k_timers c) as [|tm r]; [split; [apply same_core_refl|reflexivity]|].
    destruct (k_kind c); [apply sc_comp_tick_now; exact Hf|apply sc_wake]. }
  destruct H1 as (H1 & L1).
  assert (Hf1 : Forall secfalse (w_comps w1)) by (destruct H1 as (_ & _ & _ & _ & _ & _ & K); exact (K Hf)).
  destruct (IH w1 Hf1) as (H2 & L2). split; [eapply same_core_trans; eauto|congruence].
Qed.

Lemma qn_kick w : w_now w = 0 -> QIn w -> QIn (kick w).
Proof.
  unfold kick. generalize (seq 0 (length (w_comps w))) as l. intro l. revert w.
  induction l as [|k l IH]; intros w Hn Hq; cbn [fold_left]; [exact Hq|].
  apply IH.
  - destruct (nth_error (w_comps w) k) as [c|]; [|exact Hn]. destruct (k_timers c) as [|tm r]; [exact Hn|].
    destruct (k_kind c); [rewrite now_comp_tick_now|rewrite now_wake]; exact Hn.
  - destruct (nth_error (w_comps w) k) as [c|]; [|exact Hq]. destruct (k_timers c) as [|tm r]; [exact Hq|].
    destruct (k_kind c); [apply qn_comp_tick_now; exact Hq|apply qn_wake; [exact Hq|lia]].
Qed.

Lemma combine_seq_nth {A} (l : list A) d : forall b k, (k < length l)%nat ->
  nth_error (combine (seq b (length l)) l) k = Some ((b + k)%nat, nth k l d).
Proof.
  induction l as [|x l IH]; intros b k Hk; cbn [length] in Hk; [lia|]. cbn [length seq combine].
  destruct k as [|k]; cbn [nth_error nth]; [rewrite Nat.add_0_r; reflexivity|].
  rewrite (IH (S b) k) by lia. f_equal. f_equal. lia.
Qed.

Lemma ports_where_filter f k : ports_where f k = filter (fun g => Nat.eqb (nth g f 0%nat) k) (seq 0 (length f)).
Proof.
  unfold ports_where. induction (seq 0 (length f)) as [|g l IH]; [reflexivity|]. cbn [flat_map filter].
  rewrite IH. destruct (Nat.eqb (nth g f 0%nat) k); reflexivity.
Qed.

Lemma in_loc ps l p : In p (loc ps l) -> In p ps.
Proof.
  unfold loc. intro H. apply in_flat_map in H. destruct H as (g & _ & Hg).
  destruct (nth_error ps g) as [q|] eqn:E; [|destruct Hg]. destruct Hg as [<-|[]]. eapply nth_error_In; eauto.
Qed.

Lemma deliv_empty ps k : Forall (fun p => content (p_out p) = []) ps -> deliv ps k = false.
Proof.
  intro H. unfold deliv. destruct (nth_error ps k) as [p|] eqn:E; [|reflexivity].
  rewrite Forall_forall in H. pose proof (H p (nth_error_In _ _ E)) as Hp.
  unfold peek_outgoing, peek. rewrite Hp. reflexivity.
Qed.

Definition st_initN (w : world) (x : nat) (period : N) : cstate :=
  mk_cs (mk_conn (loc (w_ports w) (ports_where (w_connof w) x)) 0) (mk_sched false 0 period true None) [] 0 false.

Lemma built_worldN ports comps periods x period :
  Forall (fun p => 1 <= p) periods -> Forall (fun d => 1 <= d_period d) comps ->
  nth_error periods x = Some period ->
  let w0 := kick (build GuardNew ports comps periods) in
  WFn w0 /\ QIn w0 /\ Rn x w0 (st_initN w0 x period) /\ cinv (st_initN w0 x period).
Proof.
  intros Hpp Hcp Hx. set (wb := build GuardNew ports comps periods).
  assert (Hsf : Forall secfalse (w_comps wb)).
  { unfold wb, build. cbn [w_comps]. apply Forall_map. apply Forall_forall. intros y _. reflexivity. }
  assert (Hconn : forall y cy, nth_error (w_conns wb) y = Some cy ->
            exists py, nth_error periods y = Some py /\
                       cy = mk_cnx (mk_sched false 0 py true None) (ports_where (map snd ports) y) 0).
  { intros y cy Hy. unfold wb, build in Hy. cbn [w_conns] in Hy. rewrite nth_error_map in Hy.
    destruct (nth_error (combine (seq 0 (length periods)) periods) y) as [[y' py]|] eqn:E; [|discriminate].
    assert (Hyl : (y < length periods)%nat).
    { pose proof (nth_error_lt _ _ _ E) as Hl. rewrite combine_length, seq_length in Hl. lia. }
    rewrite (combine_seq_nth periods 0 0 y Hyl) in E. injection E as <- <-. cbn in Hy. injection Hy as <-.
    exists (nth y periods 0). split; [apply nth_error_nth'; exact Hyl|reflexivity]. }
  assert (Hwb : WFn wb).
  { constructor; [reflexivity| |exact Hsf].
    intros y cy Hy. destruct (Hconn y cy Hy) as (py & _ & ->). cbn [x_sched x_ports s_sec].
    split; [reflexivity|]. rewrite ports_where_filter. split; [apply NoDup_filter; apply seq_NoDup|].
    intro g. rewrite filter_In, in_seq, Nat.eqb_eq, map_length.
    unfold wb, build. cbn [w_ports]. rewrite map_length, combine_length, seq_length.
    unfold conn_of. cbn [w_connof]. split; intros [A B]; split; auto; lia. }
  destruct (kick_coreN wb Hsf) as (Hc & Hl). intro w0. fold wb in w0. fold w0 in Hc, Hl.
  pose proof (wfn_frame _ _ Hc Hwb) as Hw0.
  assert (Hqb : QIn wb).
  { constructor.
    - split; constructor.
    - split; constructor.
    - unfold wb, build. cbn [w_comps]. apply Forall_map. apply Forall_forall. intros [k d] Hin.
      apply in_combine_r in Hin. rewrite Forall_forall in Hcp. split; [reflexivity|exact (Hcp d Hin)].
    - apply Forall_forall. intros cy Hcy. apply In_nth_error in Hcy. destruct Hcy as (y & Hy).
      destruct (Hconn y cy Hy) as (py & Hpy & ->). split; [reflexivity|]. cbn.
      rewrite Forall_forall in Hpp. exact (Hpp py (nth_error_In _ _ Hpy)). }
  split; [exact Hw0|]. split; [apply qn_kick; [reflexivity|exact Hqb]|].
  assert (Hxb : nth_error (w_conns wb) x = Some (mk_cnx (mk_sched false 0 period true None) (ports_where (map snd ports) x) 0)).
  { unfold wb, build. cbn [w_conns]. rewrite nth_error_map.
    assert (Hxl : (x < length periods)%nat) by (eapply nth_error_lt; eauto).
    rewrite (combine_seq_nth periods 0 0 x Hxl). cbn. rewrite (nth_error_nth _ _ 0 Hx). reflexivity. }
  assert (Eports : w_ports w0 = w_ports wb) by (destruct Hc as (_ & E & _); exact E).
  assert (Econnof : w_connof w0 = map snd ports) by (destruct Hc as (_ & _ & _ & E & _); exact E).
  split.
  - apply (rn_frame x wb w0 _ Hc Hl). eexists. split; [exact Hxb|]. unfold st_initN. rewrite Eports, Econnof.
    cbn. repeat split; auto.
  - unfold cinv, st_initN. cbn [cs_sched cs_q cs_now cs_dirty cs_conn c_ports]. split; [|split; [discriminate|]].
    + unfold sched_inv. cbn [s_period s_has s_next s_handled].
      split; [rewrite Forall_forall in Hpp; exact (Hpp period (nth_error_In _ _ Hx))|].
      split; [intros y []|]. split; [discriminate|]. intros h H. discriminate.
    + intros (k & Hk). exfalso. rewrite deliv_empty in Hk; [discriminate|].
      apply Forall_forall. intros p Hp. apply in_loc in Hp. rewrite Eports in Hp.
      unfold wb, build in Hp. cbn [w_ports] in Hp. apply in_map_iff in Hp. destruct Hp as (y & <- & _). reflexivity.
Qed.

(** The full projection theorem: any number of connections, no checked hypothesis. *)
Theorem built_world_projectsN ports comps periods x period fuel tr :
  Forall (fun p => 1 <= p) periods -> Forall (fun d => 1 <= d_period d) comps ->
  nth_error periods x = Some period ->
  let w0 := kick (build GuardNew ports comps periods) in
  let wf := snd (fst (run fuel w0 tr)) in
  w_halt wf = false -> xq wf x = [] ->
  exists acts st' cx, csteps GuardNew (st_initN w0 x period) acts = Some st' /\ Rn x wf st' /\ cinv st' /\
    nth_error (w_conns wf) x = Some cx /\
    forall k, deliv (loc (w_ports wf) (x_ports cx)) k = false.
Proof.
  intros Hpp Hcp Hx w0 wf Hnh Hq.
  destruct (built_worldN ports comps periods x period Hpp Hcp Hx) as (Hw & Hqi & Hr & Hi). fold w0 in Hw, Hqi, Hr, Hi.
  exact (world_projectsN x fuel w0 _ tr Hw Hr Hi (run_okN_holds fuel w0 Hqi) Hnh Hq).
Qed.
