(** C09 — projection of the executable whole-simulation model (Model.v) onto the
    abstract "connection in an arbitrary environment" system of Proofs.v, for the class
    of worlds with ONE direct connection into which every port is plugged (any number of
    ticking / event-driven scripted components, any capacities, any scripts).

    [SimW w w']: whatever abstract state is related to [w] can follow [w'] by abstract
    actions.  Every primitive of the world model (callbacks, sends, retrievals, component
    activations, the connection's tick handler, the engine's dispatch) is shown to be such
    a step; the engine contract — an event is never dispatched before the current time or
    while an earlier tick event of the connection is pending — is a hypothesis of the run
    here ([run_ok]) and is proved to be an invariant in Contract.v.
    This file is the one-connection form (global port indices = the connection's indices);
    ProjectN.v / ContractN.v do the same for any number of connections; Drain.v / ProjectK.v
    give the analogous projection for draining components (clause 2), onto the fine-grained
    system [estep].  Still missing: nothing for harness-built worlds whose components drain
    ([dr_ok]); a component that does not drain is outside clause 2, and the coarse [dstep]
    system of Proofs.v is not itself the target of a projection. *)
From Coq Require Import Sorting.Permutation.
From Akita Require Import Lib.Base Lib.Fifo Lib.Port Lib.Conn C10.Model C10.Proofs C09.Model C09.Proofs.
Local Open Scope N_scope.

Definition secfalse (c : comp) : Prop := s_sec (k_sched c) = false.

Record WF (w : world) : Prop := {
  wf_guard : w_guard w = GuardNew;
  wf_conn : exists cx, w_conns w = [cx] /\ x_ports cx = seq 0 (length (w_ports w)) /\
                       s_sec (x_sched cx) = true;
  wf_connof : forall g, conn_of w g = 0%nat;
  wf_comps : Forall secfalse (w_comps w) }.

(** the abstract state that mirrors the world's only connection *)
Definition R (w : world) (st : cstate) : Prop :=
  exists cx, w_conns w = [cx] /\
    cs_conn st = mk_conn (w_ports w) (x_next cx) /\ cs_sched st = x_sched cx /\
    cs_now st = w_now w /\ Permutation (cs_q st) (map fst (w_sec w)).

Definition SimW (w w' : world) : Prop :=
  WF w -> WF w' /\
  forall st, R w st -> exists acts st', csteps GuardNew st acts = Some st' /\ R w' st'.

Lemma csteps_app g a : forall st b,
  csteps g st (a ++ b) = match csteps g st a with Some st1 => csteps g st1 b | None => None end.
Proof.
  induction a as [|x a IH]; intros st b; [reflexivity|]. cbn [app csteps].
  destruct (cstep g st x); [apply IH|reflexivity].
Qed.

Lemma simw_refl w : SimW w w.
Proof. intro H. split; [exact H|]. intros st Hr. exists [], st. split; [reflexivity|exact Hr]. Qed.

Lemma simw_trans w1 w2 w3 : SimW w1 w2 -> SimW w2 w3 -> SimW w1 w3.
Proof.
  intros H12 H23 Hw. destruct (H12 Hw) as (Hw2 & S12). destruct (H23 Hw2) as (Hw3 & S23).
  split; [exact Hw3|]. intros st Hr. destruct (S12 st Hr) as (a1 & st1 & E1 & R1).
  destruct (S23 st1 R1) as (a2 & st2 & E2 & R2). exists (a1 ++ a2), st2.
  rewrite csteps_app, E1. auto.
Qed.

(** a step that leaves the connection's view of the world alone *)
Definition same_core (w w' : world) : Prop :=
  w_guard w' = w_guard w /\ w_ports w' = w_ports w /\ w_conns w' = w_conns w /\
  w_connof w' = w_connof w /\ w_now w' = w_now w /\ w_sec w' = w_sec w /\
  (Forall secfalse (w_comps w) -> Forall secfalse (w_comps w')).

Lemma frame_sim w w' : (WF w -> same_core w w') -> SimW w w'.
Proof.
  intros H Hw. destruct (H Hw) as (Eg & Ep & Ec & Eo & En & Es & Hc). split.
  - destruct Hw as [Hg Hcx Hco Hcm]. constructor.
    + congruence.
    + rewrite Ec, Ep. exact Hcx.
    + intro g. unfold conn_of. rewrite Eo. apply Hco.
    + exact (Hc Hcm).
  - intros st (cx & C1 & C2 & C3 & C4 & C5). exists [], st. split; [reflexivity|].
    exists cx. rewrite Ec, Ep, En, Es. auto.
Qed.

Lemma forall_set_nth {A} (P : A -> Prop) i x l : Forall P l -> P x -> Forall P (set_nth i x l).
Proof.
  revert i; induction l as [|y l IH]; intros [|i] Hl Hx; cbn; auto; inversion Hl; subst; constructor; auto.
Qed.

Lemma same_core_halt w : same_core w (halt w).
Proof. unfold same_core. cbn. repeat split; auto. Qed.

Lemma frame_WF w w' : same_core w w' -> WF w -> WF w'.
Proof. intros H Hw. exact (proj1 (frame_sim w w' (fun _ => H) Hw)). Qed.

Lemma frame_R w w' st : same_core w w' -> R w st -> R w' st.
Proof.
  intros (Eg & Ep & Ec & Eo & En & Es & Hc) (cx & C1 & C2 & C3 & C4 & C5).
  exists cx. rewrite Ec, Ep, En, Es. auto.
Qed.

Lemma same_core_refl w : same_core w w.
Proof. unfold same_core. repeat split; auto. Qed.

Lemma same_core_trans a b c : same_core a b -> same_core b c -> same_core a c.
Proof.
  intros (A1 & A2 & A3 & A4 & A5 & A6 & A7) (B1 & B2 & B3 & B4 & B5 & B6 & B7).
  unfold same_core. repeat split; try congruence. auto.
Qed.

Lemma tick_later_sec now s : s_sec (fst (tick_later now s)) = s_sec s.
Proof. unfold tick_later. destruct (s_has s && _); reflexivity. Qed.

Lemma tick_now_sec g now s : s_sec (fst (tick_now g now s)) = s_sec s.
Proof.
  unfold tick_now. destruct g.
  - destruct (s_has s && _); reflexivity.
  - destruct (s_has s && (now <? s_next s)); [reflexivity|].
    destruct (s_has s && (now =? s_next s)); [destruct (handled_at s now)|]; reflexivity.
Qed.

Lemma comp_at w k c : WF w -> nth_error (w_comps w) k = Some c -> secfalse c.
Proof. intros Hw Hk. pose proof (wf_comps w Hw) as Hf. rewrite Forall_forall in Hf. apply Hf. eapply nth_error_In; eauto. Qed.

Lemma same_core_notify w k : WF w -> same_core w (notify_comp w k).
Proof.
  intro Hw. unfold notify_comp. destruct (nth_error (w_comps w) k) as [c|] eqn:Ek; [|apply same_core_refl].
  pose proof (comp_at w k c Hw Ek) as Hsf. unfold secfalse in Hsf.
  destruct (k_kind c).
  - pose proof (tick_later_sec (w_now w) (k_sched c)) as Hs.
    destruct (tick_later (w_now w) (k_sched c)) as [s' ev]. cbn [fst] in Hs.
    unfold sched_event. destruct ev as [t|]; [unfold schedule; rewrite Hs, Hsf|];
      unfold same_core; cbn; repeat split; auto; intro Hf; apply forall_set_nth; auto;
      unfold secfalse; cbn; congruence.
  - destruct (k_pending c) as [p|]; [destruct (p <=? w_now w)|]; try apply same_core_refl;
      (unfold same_core, schedule; cbn; repeat split; auto; intro Hf; apply forall_set_nth; auto).
Qed.

Lemma same_core_wake w k t : WF w -> same_core w (wake_at w k t).
Proof.
  intro Hw. unfold wake_at. destruct (nth_error (w_comps w) k) as [c|] eqn:Ek; [|apply same_core_refl].
  pose proof (comp_at w k c Hw Ek) as Hsf.
  assert (Hgo : same_core w (schedule (set_comps w (set_nth k
        (mk_comp (k_kind c) (k_sched c) (Some t) (k_ports c) (k_drain c) (k_relay c) (k_timers c) (k_pend c))
        (w_comps w))) false t k)).
  { unfold same_core, schedule. cbn. repeat split; auto. intro Hf. apply forall_set_nth; auto. }
  destruct (k_pending c) as [p|]; [destruct (p <=? t); [apply same_core_refl|exact Hgo]|exact Hgo].
Qed.

Lemma perm_insert e q : Permutation (map fst (insert_evt e q)) (fst e :: map fst q).
Proof.
  induction q as [|x q IH]; cbn [insert_evt map]; [reflexivity|].
  destruct (fst x <=? fst e); cbn [map]; [|reflexivity].
  rewrite IH. apply perm_swap.
Qed.

(** TickNow / TickLater of the connection = the abstract [request] *)
Lemma request_R w st (later : bool) :
  WF w -> R w st ->
  let w' := match w_conns w with
            | cx :: _ =>
                let '(s', ev) := if later then tick_later (w_now w) (x_sched cx)
                                 else tick_now (w_guard w) (w_now w) (x_sched cx) in
                sched_event (set_conns w (set_nth 0 (mk_cnx s' (x_ports cx) (x_next cx)) (w_conns w))) s' (ncomps w + 0) ev
            | [] => w
            end in
  WF w' /\ R w' (request GuardNew later st).
Proof.
  intros Hw (cx & C1 & C2 & C3 & C4 & C5).
  destruct (wf_conn w Hw) as (cx' & Ec & Ep & Esec). rewrite C1 in Ec. injection Ec as <-.
  rewrite C1. cbn zeta. rewrite (wf_guard w Hw). unfold request. rewrite C3, C4.
  set (res := if later then tick_later (w_now w) (x_sched cx) else tick_now GuardNew (w_now w) (x_sched cx)).
  assert (Hsec : s_sec (fst res) = true).
  { unfold res. destruct later; [rewrite tick_later_sec|rewrite tick_now_sec]; exact Esec. }
  destruct res as [s' ev]. cbn [fst] in Hsec. cbn [set_nth].
  unfold sched_event. destruct ev as [t|].
  - unfold schedule. rewrite Hsec. split.
    + destruct Hw as [Hg _ Hco Hcm]. constructor; cbn; auto. eexists. split; [reflexivity|]. cbn. auto.
    + eexists. split; [reflexivity|]. cbn. rewrite C2. repeat split; auto.
      rewrite perm_insert. cbn [fst olist]. rewrite <- C5. symmetry. apply Permutation_cons_append.
  - split.
    + destruct Hw as [Hg _ Hco Hcm]. constructor; cbn; auto. eexists. split; [reflexivity|]. cbn. auto.
    + eexists. split; [reflexivity|]. cbn. rewrite C2, app_nil_r. repeat split; auto.
Qed.

Lemma ctn_R w st : WF w -> R w st -> WF (conn_tick_now w 0) /\ R (conn_tick_now w 0) (request GuardNew false st).
Proof.
  intros Hw Hr. pose proof (request_R w st false Hw Hr) as H. cbn zeta in H.
  unfold conn_tick_now. destruct (wf_conn w Hw) as (cx & Ec & _). rewrite Ec in *. cbn [nth_error]. exact H.
Qed.

Lemma fold_notify_core l : forall w, WF w ->
  let w' := fold_left (fun w' q => notify_comp w' (owner_of w' q)) l w in
  same_core w w' /\ WF w'.
Proof.
  induction l as [|q l IH]; intros w Hw; cbn [fold_left]; [split; [apply same_core_refl|exact Hw]|].
  pose proof (same_core_notify w (owner_of w q) Hw) as H1.
  pose proof (frame_WF _ _ H1 Hw) as Hw1.
  destruct (IH _ Hw1) as (H2 & Hw2). split; [eapply same_core_trans; eauto|exact Hw2].
Qed.

Lemma R_exists w : WF w -> exists st, R w st.
Proof.
  intro Hw. destruct (wf_conn w Hw) as (cx & Ec & _).
  exists (mk_cs (mk_conn (w_ports w) (x_next cx)) (x_sched cx) (map fst (w_sec w)) (w_now w) false).
  exists cx. cbn. repeat split; auto.
Qed.

Lemma ctn_sim w : SimW w (conn_tick_now w 0).
Proof.
  intro Hw. destruct (R_exists w Hw) as (st0 & Hr0).
  split; [exact (proj1 (ctn_R w st0 Hw Hr0))|].
  intros st Hr. exists [CTickNow], (request GuardNew false st). split; [reflexivity|].
  exact (proj2 (ctn_R w st Hw Hr)).
Qed.

Lemma apply_cb_sim w gn : SimW w (apply_cb w gn).
Proof.
  destruct gn as [g n]. destruct n; cbn [apply_cb].
  - intro Hw. rewrite (wf_connof w Hw g). exact (ctn_sim w Hw).
  - apply frame_sim. apply same_core_notify.
  - apply frame_sim. apply same_core_notify.
  - intro Hw. rewrite (wf_connof w Hw g).
    set (others := match nth_error (w_conns w) 0 with
                   | Some c => filter (fun q => negb (Nat.eqb q g)) (x_ports c) | None => [] end).
    destruct (fold_notify_core others w Hw) as (Hc & Hw1).
    eapply simw_trans; [apply frame_sim; intros _; exact Hc|apply ctn_sim|exact Hw].
Qed.

Lemma apply_cbs_sim cbs : forall w, SimW w (apply_cbs w cbs).
Proof.
  unfold apply_cbs. induction cbs as [|x cbs IH]; intro w; cbn [fold_left]; [apply simw_refl|].
  eapply simw_trans; [apply apply_cb_sim|apply IH].
Qed.

Lemma wf_set_ports w g p : WF w -> WF (set_ports w (set_nth g p (w_ports w))).
Proof.
  intros [Hg Hcx Hco Hcm]. constructor; cbn; auto.
  rewrite set_nth_length. exact Hcx.
Qed.

Lemma R_set_ports w st ps : R w st -> R (set_ports w ps) (with_ports st ps).
Proof.
  intros (cx & C1 & C2 & C3 & C4 & C5). exists cx. unfold with_ports. cbn. rewrite C2. cbn. auto.
Qed.

Lemma do_send_sim w g m : SimW w (snd (do_send w g m)).
Proof.
  unfold do_send. destruct (nth_error (w_ports w) g) as [p|] eqn:Ep; [|apply simw_refl].
  destruct (can_send p); [|apply simw_refl].
  destruct (send (Some m) p) as [u p' ns| |] eqn:Es; cbn [snd];
    try (apply frame_sim; intros _; apply same_core_halt).
  destruct (send_spec _ _ _ _ _ Es) as (_ & _ & _ & _ & _ & _ & _ & Hns).
  intro Hw. set (w1 := set_ports w (set_nth g p' (w_ports w))).
  pose proof (wf_set_ports w g p' Hw) as Hw1. fold w1 in Hw1.
  assert (Hstep : forall st, R w st ->
            cstep GuardNew st (CSend g m) =
              Some (if has_notif NSend ns then request GuardNew false (with_ports st (set_nth g p' (w_ports w)))
                    else with_ports st (set_nth g p' (w_ports w)))).
  { intros st (cx & C1 & C2 & C3 & C4 & C5). cbn [cstep]. rewrite C2. cbn [c_ports]. rewrite Ep, Es. reflexivity. }
  rewrite Hns in *. destruct (size (p_out p) =? 0)%Z.
  - (* NotifySend -> TickNow *)
    cbn [tag map apply_cbs fold_left apply_cb]. rewrite (wf_connof w1 Hw1 g).
    destruct (R_exists w1 Hw1) as (st0 & Hr0).
    split; [exact (proj1 (ctn_R w1 st0 Hw1 Hr0))|].
    intros st Hr. exists [CSend g m]. eexists. cbn [csteps]. rewrite (Hstep st Hr). cbn [has_notif existsb notif_eqb orb].
    split; [reflexivity|]. apply ctn_R; [exact Hw1|]. apply R_set_ports. exact Hr.
  - cbn [tag map apply_cbs fold_left]. split; [exact Hw1|].
    intros st Hr. exists [CSend g m]. eexists. cbn [csteps]. rewrite (Hstep st Hr). cbn [has_notif existsb].
    split; [reflexivity|]. apply R_set_ports. exact Hr.
Qed.

Lemma do_retrieve_sim w g : SimW w (snd (do_retrieve w g)).
Proof.
  unfold do_retrieve. destruct (nth_error (w_ports w) g) as [p|] eqn:Ep; [|apply simw_refl].
  destruct (retrieve_incoming p) as [v p' ns| |] eqn:Er; cbn [snd];
    try (apply frame_sim; intros _; apply same_core_halt).
  destruct (retrieve_incoming_spec _ _ _ _ Er) as (_ & _ & _ & _ & _ & _ & Hns).
  intro Hw. set (w1 := set_ports w (set_nth g p' (w_ports w))).
  pose proof (wf_set_ports w g p' Hw) as Hw1. fold w1 in Hw1.
  assert (Hstep : forall st, R w st ->
            cstep GuardNew st (CRetrieve g) =
              Some (if has_notif NAvailable ns then request GuardNew false (with_ports st (set_nth g p' (w_ports w)))
                    else with_ports st (set_nth g p' (w_ports w)))).
  { intros st (cx & C1 & C2 & C3 & C4 & C5). cbn [cstep]. rewrite C2. cbn [c_ports]. rewrite Ep, Er. reflexivity. }
  rewrite Hns in *. destruct (negb (size (p_in p) =? 0)%Z && (size (p_in p') =? b_cap (p_in p) - 1)%Z).
  - (* NotifyAvailable -> the other owners are notified, then TickNow *)
    cbn [tag map apply_cbs fold_left apply_cb]. rewrite (wf_connof w1 Hw1 g).
    set (others := match nth_error (w_conns w1) 0 with
                   | Some c => filter (fun q => negb (Nat.eqb q g)) (x_ports c) | None => [] end).
    destruct (fold_notify_core others w1 Hw1) as (Hc & Hw2).
    destruct (R_exists _ Hw2) as (st0 & Hr0).
    split; [exact (proj1 (ctn_R _ st0 Hw2 Hr0))|].
    intros st Hr. exists [CRetrieve g]. eexists. cbn [csteps]. rewrite (Hstep st Hr). cbn [has_notif existsb notif_eqb orb].
    split; [reflexivity|]. apply ctn_R; [exact Hw2|]. eapply frame_R; [exact Hc|]. apply R_set_ports. exact Hr.
  - cbn [tag map apply_cbs fold_left]. split; [exact Hw1|].
    intros st Hr. exists [CRetrieve g]. eexists. cbn [csteps]. rewrite (Hstep st Hr). cbn [has_notif existsb].
    split; [reflexivity|]. apply R_set_ports. exact Hr.
Qed.

(** ------------------------------------------------------------------ *)
(** scripted component activations *)
Lemma drain_port_sim n : forall w g r acc cnt, SimW w (fst (fst (drain_port n w g r acc cnt))).
Proof.
  induction n as [|n IH]; intros w g r acc cnt; cbn [drain_port]; [apply simw_refl|].
  pose proof (do_retrieve_sim w g) as H. destruct (do_retrieve w g) as [v w1]. cbn [snd] in H.
  destruct v as [m|]; [|exact H]. eapply simw_trans; [exact H|apply IH].
Qed.

Lemma drain_all_sim ps : forall w ds rs acc cnt, SimW w (fst (fst (drain_all w ps ds rs acc cnt))).
Proof.
  induction ps as [|g ps IH]; intros w ds rs acc cnt; cbn [drain_all]; [apply simw_refl|].
  destruct ds as [|d ds]; [apply simw_refl|]. destruct rs as [|r rs]; [apply simw_refl|].
  pose proof (drain_port_sim (match d with Some k => k | None => port_in_len w g end) w g r acc cnt) as H.
  destruct (drain_port _ w g r acc cnt) as [[w1 acc1] cnt1]. cbn [fst] in H.
  eapply simw_trans; [exact H|apply IH].
Qed.

Lemma flush_sim pend : forall w kept cnt, SimW w (fst (fst (flush w pend kept cnt))).
Proof.
  induction pend as [|[g m] pend IH]; intros w kept cnt; cbn [flush]; [apply simw_refl|].
  pose proof (do_send_sim w g m) as H. destruct (do_send w g m) as [ok w1]. cbn [snd] in H.
  destruct ok; (eapply simw_trans; [exact H|apply IH]).
Qed.

Lemma same_core_set_comp w k c' : secfalse c' -> same_core w (set_comps w (set_nth k c' (w_comps w))).
Proof. intro H. unfold same_core. cbn. repeat split; auto. intro Hf. apply forall_set_nth; auto. Qed.

Lemma activate_sim w k : SimW w (snd (activate w k)).
Proof.
  unfold activate. destruct (nth_error (w_comps w) k) as [c|]; [|apply simw_refl].
  pose proof (drain_all_sim (k_ports c) w (k_drain c) (k_relay c) [] 0%nat) as H1.
  destruct (drain_all w (k_ports c) (k_drain c) (k_relay c) [] 0%nat) as [[w1 relays] nret]. cbn [fst] in H1.
  match goal with |- context [flush w1 ?pp [] 0%nat] =>
    pose proof (flush_sim pp w1 [] 0%nat) as H2; destruct (flush w1 pp [] 0%nat) as [[w2 kept] nsent] end.
  cbn [fst] in H2.
  destruct (nth_error (w_comps w2) k) as [c2|] eqn:E2; cbn [snd].
  - eapply simw_trans; [exact H1|]. eapply simw_trans; [exact H2|].
    apply frame_sim. intro Hw2. apply same_core_set_comp. exact (comp_at w2 k c2 Hw2 E2).
  - eapply simw_trans; [exact H1|exact H2].
Qed.

Lemma handle_comp_sim w k t : SimW w (handle_comp w k t).
Proof.
  unfold handle_comp. destruct (nth_error (w_comps w) k) as [c|] eqn:Ek;
    [|apply frame_sim; intros _; apply same_core_halt].
  destruct (k_kind c).
  - set (c' := mk_comp KTick (mark_handled (k_sched c) t) (k_pending c) (k_ports c) (k_drain c) (k_relay c) (k_timers c) (k_pend c)).
    set (w0 := set_comps w (set_nth k c' (w_comps w))).
    assert (H0 : SimW w w0).
    { apply frame_sim. intro Hw. apply same_core_set_comp. exact (comp_at w k c Hw Ek). }
    pose proof (activate_sim w0 k) as H1. destruct (activate w0 k) as [pr w1]. cbn [snd] in H1.
    destruct (nth_error (w_comps w1) k) as [c1|].
    + destruct (pr || negb match k_timers c1 with [] => true | _ :: _ => false end).
      * eapply simw_trans; [exact H0|]. eapply simw_trans; [exact H1|]. apply frame_sim. apply same_core_notify.
      * eapply simw_trans; [exact H0|exact H1].
    + eapply simw_trans; [exact H0|exact H1].
  - set (c' := mk_comp KEvent (k_sched c) None (k_ports c) (k_drain c) (k_relay c) (k_timers c) (k_pend c)).
    set (w0 := set_comps w (set_nth k c' (w_comps w))).
    assert (H0 : SimW w w0).
    { apply frame_sim. intro Hw. apply same_core_set_comp. exact (comp_at w k c Hw Ek). }
    pose proof (activate_sim w0 k) as H1. destruct (activate w0 k) as [pr w1]. cbn [snd] in H1.
    destruct (nth_error (w_comps w1) k) as [c1|]; [|eapply simw_trans; [exact H0|exact H1]].
    destruct (k_timers c1) as [|tm rest]; [eapply simw_trans; [exact H0|exact H1]|].
    eapply simw_trans; [exact H0|]. eapply simw_trans; [exact H1|]. apply frame_sim. apply same_core_wake.
Qed.

(** ------------------------------------------------------------------ *)
(** the connection's tick handler *)
Definition okcb (x : nat * notif) : Prop := snd x = NRecv \/ snd x = NPortFree.

Lemma deliver_ns m p u p' ns : deliver m p = Ok u p' ns -> ns = [NRecv] \/ ns = [].
Proof.
  unfold deliver. destruct (negb (can_push (p_in p))); [discriminate|].
  destruct (push m (p_in p)); [|discriminate]. intro H. injection H as _ _ <-.
  destruct (p_has_comp p && (size (p_in p) =? 0)%Z); auto.
Qed.

Lemma retrieve_outgoing_ns p v p' ns : retrieve_outgoing p = Ok v p' ns -> ns = [NPortFree] \/ ns = [].
Proof.
  unfold retrieve_outgoing. destruct (pop nilmsg (p_out p)) as [w o']. destruct w.
  - destruct (size o' =? b_cap o' - 1)%Z; [destruct (p_has_comp p); [|discriminate]|];
      intro H; injection H as _ _ <-; auto.
  - intro H. injection H as _ _ <-. auto.
Qed.

Lemma okcb_tag_recv j ns : ns = [NRecv] \/ ns = [] -> Forall okcb (tag j ns).
Proof. intros [->| ->]; cbn; repeat constructor. Qed.
Lemma okcb_tag_free j ns : ns = [NPortFree] \/ ns = [] -> Forall okcb (tag j ns).
Proof.
  intros [H|H]; subst ns; cbn.
  - constructor. right. reflexivity. constructor.
  - constructor.
Qed.

Lemma forward_many_cb fuel : forall i ps pr cb dl pr' ps' cb' dl',
  Forall okcb cb -> forward_many fuel i ps pr cb dl = FmOk pr' ps' cb' dl' -> Forall okcb cb'.
Proof.
  induction fuel as [|f IH]; intros i ps pr cb dl pr' ps' cb' dl' Hc H; cbn [forward_many] in H; [discriminate|].
  destruct (nth_error ps i) as [src|]; [|discriminate].
  destruct (peek_outgoing src) as [m|]; [|injection H as _ _ <- _; exact Hc].
  destruct (find_port (m_dst m) ps) as [j|]; [|discriminate].
  destruct (nth_error ps j) as [dst|]; [|discriminate].
  destruct (negb (can_deliver dst)); [injection H as _ _ <- _; exact Hc|].
  destruct (deliver (Some m) dst) as [u dst' ns1| |] eqn:Ed; try discriminate.
  destruct (nth_error (set_nth j dst' ps) i) as [src1|]; [|discriminate].
  destruct (retrieve_outgoing src1) as [v src2 ns2| |] eqn:Er; try discriminate.
  eapply IH; [|exact H]. apply Forall_app. split; [exact Hc|]. apply Forall_app. split.
  - apply okcb_tag_recv. eapply deliver_ns; eauto.
  - apply okcb_tag_free. eapply retrieve_outgoing_ns; eauto.
Qed.

Lemma tick_loop_cb todo : forall ps pr cb dl pr' ps' cb' dl',
  Forall okcb cb -> tick_loop todo ps pr cb dl = FmOk pr' ps' cb' dl' -> Forall okcb cb'.
Proof.
  induction todo as [|i r IH]; intros ps pr cb dl pr' ps' cb' dl' Hc H; cbn [tick_loop] in H.
  - injection H as _ _ <- _. exact Hc.
  - destruct (forward_port i ps pr cb dl) as [pr1 ps1 cb1 dl1|] eqn:Ef; [|discriminate].
    eapply IH; [|exact H]. unfold forward_port in Ef. eapply forward_many_cb; eauto.
Qed.

Lemma tick_cb c pr c' cb dl : tick c = TickOk pr c' cb dl -> Forall okcb cb.
Proof.
  unfold tick. destruct (length (c_ports c)); [discriminate|].
  destruct (tick_loop _ _ false [] []) as [pr1 ps1 cb1 dl1|] eqn:El; [|discriminate].
  intro H. injection H as _ _ <- _. eapply tick_loop_cb; [constructor|exact El].
Qed.

Lemma okcbs_core cbs : forall w, Forall (fun x : nat * notif => snd x = NRecv \/ snd x = NPortFree) cbs ->
  WF w -> same_core w (apply_cbs w cbs) /\ WF (apply_cbs w cbs).
Proof.
  unfold apply_cbs. induction cbs as [|[g n] cbs IH]; intros w Hc Hw; cbn [fold_left];
    [split; [apply same_core_refl|exact Hw]|].
  inversion Hc as [|? ? Hx Hr]; subst. cbn [snd] in Hx.
  assert (H1 : same_core w (apply_cb w (g, n))).
  { destruct Hx as [-> | ->]; cbn [apply_cb]; apply same_core_notify; exact Hw. }
  pose proof (frame_WF _ _ H1 Hw) as Hw1. destruct (IH _ Hr Hw1) as (H2 & Hw2).
  split; [eapply same_core_trans; eauto|exact Hw2].
Qed.

(** list plumbing: with every port plugged into the one connection, the connection's
    local port list is the global one, and writing a tick's result back port by port
    yields exactly the tick's port list *)
Lemma local_all (ps : list port) : forall pre : list port,
  flat_map (fun g => match nth_error (pre ++ ps) g with Some p => [p] | None => [] end)
           (seq (length pre) (length ps)) = ps.
Proof.
  induction ps as [|p r IH]; intro pre; [reflexivity|]. cbn [length seq flat_map].
  rewrite nth_error_app2 by lia. rewrite Nat.sub_diag. cbn [nth_error app]. f_equal.
  specialize (IH (pre ++ [p])). rewrite <- app_assoc in IH. cbn [app] in IH.
  rewrite app_length in IH. cbn [length] in IH. rewrite Nat.add_1_r in IH. exact IH.
Qed.

Lemma firstn_set_nth {A} (l : list A) : forall b x, (b < length l)%nat ->
  firstn (S b) (set_nth b x l) = firstn b l ++ [x].
Proof.
  induction l as [|y l IH]; intros [|b] x H; cbn [length] in H; try lia; cbn [set_nth firstn app]; [reflexivity|].
  f_equal. apply IH. lia.
Qed.

Lemma write_back n (l : list port) : forall b ps0,
  (b + length l = n)%nat -> length ps0 = n ->
  fold_left (fun ps (ip : nat * port) => set_nth (nth (fst ip) (seq 0 n) 0%nat) (snd ip) ps)
            (combine (seq b (length l)) l) ps0 = firstn b ps0 ++ l.
Proof.
  induction l as [|x l IH]; intros b ps0 Hb Hl; cbn [length seq combine fold_left].
  - cbn [length] in Hb. rewrite app_nil_r. rewrite firstn_all2; [reflexivity|lia].
  - cbn [length] in Hb. cbn [fst snd]. rewrite seq_nth by lia. cbn [plus].
    rewrite (IH (S b)); [|lia|rewrite set_nth_length; exact Hl].
    rewrite firstn_set_nth by lia. rewrite <- app_assoc. reflexivity.
Qed.

Lemma perm_remove1 t q r : Permutation q (t :: r) -> Permutation (remove1 t q) r.
Proof.
  revert r. induction q as [|x q IH]; intros r H.
  - apply Permutation_nil in H. discriminate.
  - cbn [remove1]. destruct (x =? t) eqn:E.
    + apply N.eqb_eq in E. subst x. exact (Permutation_cons_inv H).
    + apply N.eqb_neq in E.
      assert (Hin : In x (t :: r)) by (eapply Permutation_in; [exact H|left; reflexivity]).
      destruct Hin as [Ht|Hin]; [congruence|].
      apply in_split in Hin. destruct Hin as (r1 & r2 & ->).
      assert (H' : Permutation q (t :: r1 ++ r2)).
      { apply (Permutation_cons_inv (a := x)). rewrite H.
        rewrite perm_swap. apply perm_skip. symmetry. apply Permutation_middle. }
      rewrite (IH _ H'). apply Permutation_middle.
Qed.

(** may also end in a halted world (a handler panicked: the run stops there) *)
Definition SimH (w w' : world) : Prop :=
  WF w -> w_halt w' = true \/
          (WF w' /\ forall st, R w st -> exists acts st', csteps GuardNew st acts = Some st' /\ R w' st').

Lemma conn_eta c : mk_conn (c_ports c) (c_next c) = c.
Proof. destruct c; reflexivity. Qed.

(** the engine dispatches the connection's earliest tick event *)
Lemma conn_event w t hh r : w_sec w = (t, hh) :: r -> forallb (N.leb t) (map fst r) = true ->
  SimH w (handle_conn (set_now (set_sec w r) t) 0 t).
Proof.
  intros Esecq Hmin Hw. destruct (wf_conn w Hw) as (cx & Ec & Ep & Esec).
  unfold handle_conn, set_now, set_sec, set_conns, set_ports.
  cbn [w_ports w_now w_guard w_prim w_sec w_owner w_connof w_comps w_conns w_halt].
  rewrite Ec. cbn [nth_error set_nth].
  cbn [w_ports w_now w_guard w_prim w_sec w_owner w_connof w_comps w_conns w_halt x_sched x_ports x_next].
  rewrite Ep. pose proof (local_all (w_ports w) []) as Hloc. cbn [app length] in Hloc. rewrite Hloc.
  destruct (tick (mk_conn (w_ports w) (x_next cx))) as [pr cn cb dl|] eqn:Et; [|left; reflexivity].
  right.
  pose proof (tick_cb _ _ _ _ _ Et) as Hcb.
  destruct (tick_progress _ _ _ _ _ Et) as (_ & _ & Hlen). cbn [c_ports] in Hlen.
  pose proof (write_back (length (w_ports w)) (c_ports cn) 0 (w_ports w) ltac:(lia) eq_refl) as Hwb.
  cbn [firstn app] in Hwb. rewrite Hwb. clear Hwb.
  unfold upd. cbn [nth_error set_nth w_ports w_now w_guard w_prim w_sec w_owner w_connof w_comps w_conns w_halt x_sched x_ports x_next].
  set (cx2 := mk_cnx (mark_handled (x_sched cx) t) (seq 0 (length (w_ports w))) (c_next cn)).
  set (w2 := mk_world (w_guard w) t (w_prim w) r (c_ports cn) (w_owner w) (w_connof w) (w_comps w) [cx2] (w_halt w)).
  assert (Hw2 : WF w2).
  { destruct Hw as [Hg _ Hco Hcm]. constructor; cbn; auto. exists cx2. cbn. rewrite Hlen. auto. }
  set (cbs := map (fun ic : nat * notif => (nth (fst ic) (seq 0 (length (w_ports w))) 0%nat, snd ic)) cb).
  assert (Hcbs : Forall (fun x : nat * notif => snd x = NRecv \/ snd x = NPortFree) cbs).
  { unfold cbs. apply Forall_map. eapply Forall_impl; [|exact Hcb]. intros [i n] H. exact H. }
  destruct (okcbs_core cbs w2 Hcbs Hw2) as (Hcore & Hw3).
  change (mk_world (w_guard w) t (w_prim w) r (c_ports cn) (w_owner w) (w_connof w) (w_comps w)
            [mk_cnx (mark_handled (x_sched cx) t) (seq 0 (length (w_ports w))) (c_next cn)] (w_halt w)) with w2.
  fold cbs. set (w3 := apply_cbs w2 cbs) in *.
  assert (Hc3 : w_conns w3 = [cx2]) by (destruct Hcore as (_ & _ & E & _); exact E).
  (* the abstract side *)
  assert (Habs : forall st, R w st ->
            cstep GuardNew st (CHandle t) =
              Some (let st1 := mk_cs cn (mark_handled (x_sched cx) t) (remove1 t (cs_q st)) t false in
                    if pr then request GuardNew true st1 else st1) /\
            R w3 (mk_cs cn (mark_handled (x_sched cx) t) (remove1 t (cs_q st)) t false)).
  { intros st (cx' & C1 & C2 & C3 & C4 & C5). rewrite Ec in C1. injection C1 as <-.
    rewrite Esecq in C5. cbn [map fst] in C5.
    assert (Hex : existsb (N.eqb t) (cs_q st) = true).
    { apply existsb_exists. exists t. split; [|apply N.eqb_refl].
      eapply Permutation_in; [symmetry; exact C5|left; reflexivity]. }
    assert (Hall : forallb (N.leb t) (cs_q st) = true).
    { apply forallb_forall. intros x Hx. pose proof (Permutation_in _ C5 Hx) as Hx'.
      destruct Hx' as [<-|Hx']; [apply N.leb_refl|]. rewrite forallb_forall in Hmin. exact (Hmin x Hx'). }
    split.
    - cbn [cstep]. rewrite Hex, Hall, C2, Et, C3. reflexivity.
    - eapply frame_R; [exact Hcore|]. exists cx2. unfold w2. cbn.
      rewrite conn_eta. repeat split; auto. apply perm_remove1. exact C5. }
  destruct pr.
  - rewrite Hc3. cbn [nth_error].
    destruct (R_exists w Hw) as (st0 & Hr0). destruct (Habs st0 Hr0) as (_ & Hr3).
    pose proof (request_R w3 _ true Hw3 Hr3) as Hreq. cbn zeta in Hreq. rewrite Hc3 in Hreq. cbn [set_nth] in Hreq.
    split; [exact (proj1 Hreq)|].
    intros st Hr. destruct (Habs st Hr) as (E & Hr3'). exists [CHandle t]. eexists. cbn [csteps]. rewrite E.
    split; [reflexivity|].
    pose proof (request_R w3 _ true Hw3 Hr3') as Hreq'. cbn zeta in Hreq'. rewrite Hc3 in Hreq'. exact (proj2 Hreq').
  - split; [exact Hw3|]. intros st Hr. destruct (Habs st Hr) as (E & Hr3). exists [CHandle t]. eexists.
    cbn [csteps]. rewrite E. split; [reflexivity|exact Hr3].
Qed.

(** ------------------------------------------------------------------ *)
(** the engine.  Checked on the run (the engine's contract, C01; as in C12): component
    events come from the primary queue, the connection's from the secondary queue; an
    event is not dispatched before the current time nor while an earlier tick event of
    the connection is pending. *)
Definition step_ok (w : world) : bool :=
  match w_prim w, w_sec w with
  | [], [] => true
  | (t, h) :: _, [] => (h <? ncomps w)%nat && (w_now w <=? t)
  | [], (t, h) :: r => Nat.eqb h (ncomps w) && forallb (N.leb t) (map fst r)
  | (t, h) :: _, (t', h') :: r' =>
      if t <=? t'
      then (h <? ncomps w)%nat && (w_now w <=? t) && forallb (N.leb t) (map fst (w_sec w))
      else Nat.eqb h' (ncomps w) && forallb (N.leb t') (map fst r')
  end.

Fixpoint run_ok (fuel : nat) (w : world) : bool :=
  match fuel with
  | O => true
  | S f =>
      if w_halt w then true else
      match next_event w with
      | None => true
      | Some (t, h, w') => step_ok w && run_ok f (dispatch w' t h)
      end
  end.

Lemma prim_event w t h r : w_prim w = (t, h) :: r -> (h <? ncomps w)%nat = true ->
  (w_now w <=? t) = true -> forallb (N.leb t) (map fst (w_sec w)) = true ->
  SimH w (dispatch (set_prim w r) t h).
Proof.
  intros Ep Hh Hnow Hall Hw. right.
  unfold dispatch. change (ncomps (set_now (set_prim w r) t)) with (ncomps w). rewrite Hh.
  set (w1 := set_now (set_prim w r) t).
  assert (Hw1 : WF w1).
  { destruct Hw as [Hg Hcx Hco Hcm]. constructor; cbn; auto. }
  destruct (handle_comp_sim w1 h t Hw1) as (Hw2 & S2). split; [exact Hw2|].
  intros st (cx & C1 & C2 & C3 & C4 & C5).
  set (st1 := mk_cs (cs_conn st) (cs_sched st) (cs_q st) t (cs_dirty st)).
  assert (Hr1 : R w1 st1). { exists cx. unfold w1, st1. cbn. auto. }
  destruct (S2 st1 Hr1) as (acts & st' & E & Hr'). exists (CAdvance t :: acts), st'.
  cbn [csteps cstep]. rewrite C4, Hnow.
  assert (Hq : forallb (N.leb t) (cs_q st) = true).
  { apply forallb_forall. intros x Hx. rewrite forallb_forall in Hall. apply Hall.
    eapply Permutation_in; eauto. }
  rewrite Hq. cbn [andb]. fold st1. auto.
Qed.

Lemma engine_step w t h w' : next_event w = Some (t, h, w') -> step_ok w = true -> SimH w (dispatch w' t h).
Proof.
  unfold next_event, step_ok. intros Hn Hok.
  destruct (w_prim w) as [|[tp hp] rp] eqn:Epq; destruct (w_sec w) as [|[ts hs] rs] eqn:Esq; try discriminate.
  - injection Hn as E1 E2 E3; subst t h w'. apply andb_true_iff in Hok. destruct Hok as [Hh Hall].
    apply Nat.eqb_eq in Hh. subst hs. intro Hw.
    unfold dispatch. change (ncomps (set_now (set_sec w rs) ts)) with (ncomps w).
    rewrite Nat.ltb_irrefl, Nat.sub_diag. exact (conn_event w ts (ncomps w) rs Esq Hall Hw).
  - injection Hn as E1 E2 E3; subst t h w'. apply andb_true_iff in Hok. destruct Hok as [Hh Hnow].
    apply (prim_event w tp hp rp Epq Hh Hnow). rewrite Esq. reflexivity.
  - destruct (tp <=? ts) eqn:Ele.
    + injection Hn as E1 E2 E3; subst t h w'. apply andb_true_iff in Hok. destruct Hok as [Hok Hall].
      apply andb_true_iff in Hok. destruct Hok as [Hh Hnow].
      apply (prim_event w tp hp rp Epq Hh Hnow). rewrite Esq. exact Hall.
    + injection Hn as E1 E2 E3; subst t h w'. apply andb_true_iff in Hok. destruct Hok as [Hh Hall].
      apply Nat.eqb_eq in Hh. subst hs. intro Hw.
      unfold dispatch. change (ncomps (set_now (set_sec w rs) ts)) with (ncomps w).
      rewrite Nat.ltb_irrefl, Nat.sub_diag. exact (conn_event w ts (ncomps w) rs Esq Hall Hw).
Qed.

Lemma run_halted fuel w tr : w_halt w = true -> snd (fst (run fuel w tr)) = w.
Proof. intro H. destruct fuel; cbn [run]; [reflexivity|]. rewrite H. reflexivity. Qed.

Lemma run_projects fuel : forall w tr, WF w -> run_ok fuel w = true ->
  let wf := snd (fst (run fuel w tr)) in
  w_halt wf = true \/
  (WF wf /\ forall st, R w st -> exists acts st', csteps GuardNew st acts = Some st' /\ R wf st').
Proof.
  induction fuel as [|f IH]; intros w tr Hw Hok; cbn [run].
  - right. split; [exact Hw|]. intros st Hr. exists [], st. auto.
  - destruct (w_halt w) eqn:Eh; [left; exact Eh|].
    cbn [run_ok] in Hok. rewrite Eh in Hok.
    destruct (next_event w) as [[[t h] w']|] eqn:En.
    + apply andb_true_iff in Hok. destruct Hok as [Hs Hr].
      destruct (engine_step w t h w' En Hs Hw) as [Hh|(Hw1 & S1)].
      * left. rewrite run_halted by exact Hh. exact Hh.
      * destruct (IH (dispatch w' t h) (tr ++ [(t, h)]) Hw1 Hr) as [Hh|(Hwf & S2)]; [left; exact Hh|].
        right. split; [exact Hwf|]. intros st Hst.
        destruct (S1 st Hst) as (a1 & st1 & E1 & R1). destruct (S2 st1 R1) as (a2 & st2 & E2 & R2).
        exists (a1 ++ a2), st2. rewrite csteps_app, E1. auto.
    + right. split; [exact Hw|]. intros st Hst. exists [], st. auto.
Qed.

(** Every run of a one-connection world that respects the engine contract is a run of the
    abstract connection system; so the invariant carries over, and when the run ends with
    no tick event of the connection pending no port holds a deliverable message. *)
Theorem world_projects fuel w0 st0 tr :
  WF w0 -> R w0 st0 -> cinv st0 -> run_ok fuel w0 = true ->
  let wf := snd (fst (run fuel w0 tr)) in
  w_halt wf = false -> w_sec wf = [] ->
  (exists acts st', csteps GuardNew st0 acts = Some st' /\ R wf st' /\ cinv st') /\
  forall k, deliv (w_ports wf) k = false.
Proof.
  intros Hw Hr Hi Hok wf Hnh Hq.
  destruct (run_projects fuel w0 tr Hw Hok) as [Hh|(Hwf & S)]; [fold wf in Hh; congruence|].
  fold wf in Hwf, S. destruct (S st0 Hr) as (acts & st' & E & Hr').
  pose proof (csteps_inv acts st0 st' Hi E) as Hi'.
  split; [exists acts, st'; auto|].
  destruct Hr' as (cx & C1 & C2 & C3 & C4 & C5). rewrite Hq in C5. cbn [map] in C5.
  symmetry in C5. apply Permutation_nil in C5. destruct Hi' as (_ & Hd & Hl).
  intro k. destruct (deliv (w_ports wf) k) eqn:Ek; [|reflexivity].
  exfalso. apply Hd; [|exact C5]. apply Hl. exists k. rewrite C2. cbn [c_ports]. exact Ek.
Qed.

(** ------------------------------------------------------------------ *)
(** worlds built like the harness builds them, with every port on connection 0 *)
Lemma same_core_comp_tick_now w k : WF w -> same_core w (comp_tick_now w k).
Proof.
  intro Hw. unfold comp_tick_now. destruct (nth_error (w_comps w) k) as [c|] eqn:Ek; [|apply same_core_refl].
  pose proof (comp_at w k c Hw Ek) as Hsf. unfold secfalse in Hsf.
  pose proof (tick_now_sec (w_guard w) (w_now w) (k_sched c)) as Hs.
  destruct (tick_now (w_guard w) (w_now w) (k_sched c)) as [s' ev]. cbn [fst] in Hs.
  unfold sched_event. destruct ev as [t|]; [unfold schedule; rewrite Hs, Hsf|];
    unfold same_core; cbn; repeat split; auto; intro Hf; apply forall_set_nth; auto;
    unfold secfalse; cbn; congruence.
Qed.

Lemma kick_core w : WF w -> same_core w (kick w) /\ WF (kick w).
Proof.
  unfold kick. generalize (seq 0 (length (w_comps w))) as l. intros l. revert w.
  induction l as [|k l IH]; intros w Hw; cbn [fold_left]; [split; [apply same_core_refl|exact Hw]|].
  set (w1 := match nth_error (w_comps w) k with
             | Some c => match k_timers c with
                         | [] => w
                         | tm :: _ => match k_kind c with KTick => comp_tick_now w k | KEvent => wake_at w k (fst (fst tm)) end
                         end
             | None => w end).
  assert (H1 : same_core w w1).
  { unfold w1. destruct (nth_error (w_comps w) k) as [c|]; [|apply same_core_refl].
    destruct (k_timers c) as [|tm r]; [apply same_core_refl|].
    destruct (k_kind c); [apply same_core_comp_tick_now|apply same_core_wake]; exact Hw. }
  pose proof (frame_WF _ _ H1 Hw) as Hw1. destruct (IH w1 Hw1) as (H2 & Hw2).
  split; [eapply same_core_trans; eauto|exact Hw2].
Qed.

Lemma flat_map_single (f : list nat) l :
  (forall g, In g l -> nth g f 0%nat = 0%nat) ->
  flat_map (fun g => if Nat.eqb (nth g f 0%nat) 0 then [g] else []) l = l.
Proof.
  induction l as [|g l IH]; intro H; [reflexivity|]. cbn [flat_map].
  rewrite (H g (or_introl eq_refl)). cbn. f_equal. apply IH. intros x Hx. apply H. right. exact Hx.
Qed.

Lemma nth_all_zero (f : list nat) g : Forall (fun x => x = 0%nat) f -> nth g f 0%nat = 0%nat.
Proof.
  intro H. destruct (nth_in_or_default g f 0%nat) as [Hin|E]; [|exact E].
  rewrite Forall_forall in H. exact (H _ Hin).
Qed.

Definition st_init (ports : list port) (period : N) : cstate :=
  mk_cs (mk_conn ports 0) (mk_sched false 0 period true None) [] 0 false.

Lemma built_world ports comps period :
  1 <= period -> Forall (fun p : Z * Z * nat * nat => snd p = 0%nat) ports ->
  let w0 := kick (build GuardNew ports comps [period]) in
  WF w0 /\ R w0 (st_init (w_ports w0) period) /\ cinv (st_init (w_ports w0) period).
Proof.
  intros Hp Hall. set (wb := build GuardNew ports comps [period]).
  assert (Hz : Forall (fun x => x = 0%nat) (map snd ports)).
  { apply Forall_map. exact Hall. }
  assert (Hwb : WF wb).
  { constructor.
    - reflexivity.
    - unfold wb, build. cbn [w_conns w_ports combine seq length map fst snd].
      eexists. split; [reflexivity|]. cbn [x_ports x_sched s_sec]. split; [|reflexivity].
      unfold ports_where. rewrite flat_map_single by (intros; apply nth_all_zero; exact Hz).
      rewrite !map_length, combine_length, seq_length. f_equal. lia.
    - intro g. unfold conn_of, wb, build. cbn [w_connof]. apply nth_all_zero. exact Hz.
    - unfold wb, build. cbn [w_comps]. apply Forall_map. apply Forall_forall. intros x _. reflexivity. }
  destruct (kick_core wb Hwb) as (Hc & Hw0). intro w0. fold wb in w0. fold w0 in Hc, Hw0.
  assert (Ep : w_ports w0 = w_ports wb) by (destruct Hc as (_ & E & _); exact E).
  split; [exact Hw0|]. split.
  - eapply frame_R; [exact Hc|]. rewrite Ep. unfold wb, build, st_init. eexists. split; [reflexivity|].
    cbn. repeat split; auto.
  - unfold cinv, st_init. cbn [cs_sched cs_q cs_now cs_dirty cs_conn c_ports]. split; [|split; [discriminate|]].
    + unfold sched_inv. cbn [s_period s_has s_next s_handled].
      split; [exact Hp|]. split; [intros x []|]. split; [discriminate|]. intros h H. discriminate.
    + intros (k & Hk). exfalso. rewrite Ep in Hk. unfold wb, build in Hk. cbn [w_ports] in Hk.
      unfold deliv in Hk. rewrite nth_error_map in Hk.
      destruct (nth_error (combine (seq 0 (length ports)) ports) k); cbn in Hk; discriminate.
Qed.

(** the projection theorem for built one-connection worlds *)
Theorem built_world_clean ports comps period fuel tr :
  1 <= period -> Forall (fun p : Z * Z * nat * nat => snd p = 0%nat) ports ->
  let w0 := kick (build GuardNew ports comps [period]) in
  run_ok fuel w0 = true ->
  let wf := snd (fst (run fuel w0 tr)) in
  w_halt wf = false -> w_sec wf = [] ->
  forall k, deliv (w_ports wf) k = false.
Proof.
  intros Hp Hall w0 Hok wf Hnh Hq.
  destruct (built_world ports comps period Hp Hall) as (Hw & Hr & Hi). fold w0 in Hw, Hr, Hi.
  exact (proj2 (world_projects fuel w0 _ tr Hw Hr Hi Hok Hnh Hq)).
Qed.
