(** C09 — projection of the executable whole-simulation model onto the abstract
    "connection in an arbitrary environment" system, for ANY number of connections:
    world [w] is projected onto its connection [x] — the ports plugged into [x] (a
    sub-list of the global port list, [loc]), [x]'s scheduler and [x]'s pending tick
    events ([xq]).  What the other connections and all components do is environment. *)
From Coq Require Import Sorting.Permutation.
From Akita Require Import Lib.Base Lib.Fifo Lib.Port Lib.Conn C10.Model C10.Proofs C09.Model C09.Proofs C09.Project.
Local Open Scope N_scope.

Definition hx (w : world) (x : nat) : nat := (ncomps w + x)%nat.
Definition isx (w : world) (x : nat) (e : N * nat) : bool := Nat.eqb (snd e) (hx w x).
Definition xq (w : world) (x : nat) : list N := map fst (filter (isx w x) (w_sec w)).

(** the ports at the global indices [l] *)
Definition loc (ps : list port) (l : list nat) : list port :=
  flat_map (fun g => match nth_error ps g with Some p => [p] | None => [] end) l.

Lemma loc_ext ps ps' l : (forall g, In g l -> nth_error ps' g = nth_error ps g) -> loc ps' l = loc ps l.
Proof.
  induction l as [|g l IH]; intro H; [reflexivity|]. cbn [loc flat_map].
  rewrite (H g (or_introl eq_refl)). f_equal. apply IH. intros g' Hg'. apply H. right. exact Hg'.
Qed.

Lemma loc_set_out ps l g p : ~ In g l -> loc (set_nth g p ps) l = loc ps l.
Proof.
  intro Hn. apply loc_ext. intros g' Hg'. apply nth_set_nth_neq. intro E. subst. contradiction.
Qed.

Lemma loc_nth ps l : Forall (fun g => (g < length ps)%nat) l ->
  forall i, nth_error (loc ps l) i = match nth_error l i with Some g => nth_error ps g | None => None end.
Proof.
  induction l as [|g l IH]; intros Hv i; [destruct i; reflexivity|].
  inversion Hv as [|? ? Hg Hl]; subst. cbn [loc flat_map].
  destruct (nth_error ps g) as [p|] eqn:Eg; [|apply nth_error_None in Eg; lia].
  destruct i as [|i]; cbn [app nth_error]; [symmetry; exact Eg|]. apply IH. exact Hl.
Qed.

Lemma loc_length ps l : Forall (fun g => (g < length ps)%nat) l -> length (loc ps l) = length l.
Proof.
  induction l as [|g l IH]; intro Hv; [reflexivity|]. inversion Hv as [|? ? Hg Hl]; subst. cbn [loc flat_map].
  destruct (nth_error ps g) as [p|] eqn:Eg; [|apply nth_error_None in Eg; lia].
  cbn [app length]. f_equal. apply IH. exact Hl.
Qed.

Lemma loc_set_in ps l : Forall (fun g => (g < length ps)%nat) l -> NoDup l ->
  forall i g p, nth_error l i = Some g -> loc (set_nth g p ps) l = set_nth i p (loc ps l).
Proof.
  induction l as [|g0 l IH]; intros Hv Hnd i g p Hi; [destruct i; discriminate|].
  inversion Hv as [|? ? Hg0 Hl]; subst. inversion Hnd as [|? ? Hnin Hnd']; subst.
  cbn [loc flat_map].
  destruct (nth_error ps g0) as [p0|] eqn:Eg0; [|apply nth_error_None in Eg0; lia].
  destruct i as [|i]; cbn [nth_error] in Hi.
  - injection Hi as <-. rewrite nth_set_nth_eq by exact Hg0. cbn [app set_nth]. f_equal.
    apply loc_set_out. exact Hnin.
  - assert (Hne : g <> g0) by (intro E; subst; apply Hnin; eapply nth_error_In; eauto).
    rewrite nth_set_nth_neq by exact Hne. rewrite Eg0. cbn [app set_nth]. f_equal.
    fold (loc (set_nth g p ps) l). fold (loc ps l). exact (IH Hl Hnd' i g p Hi).
Qed.

Record WFn (w : world) : Prop := {
  wn_guard : w_guard w = GuardNew;
  wn_conns : forall x cx, nth_error (w_conns w) x = Some cx ->
     s_sec (x_sched cx) = true /\ NoDup (x_ports cx) /\
     (forall g, In g (x_ports cx) <-> (g < length (w_ports w))%nat /\ conn_of w g = x);
  wn_comps : Forall secfalse (w_comps w) }.

Definition Rn (x : nat) (w : world) (st : cstate) : Prop :=
  exists cx, nth_error (w_conns w) x = Some cx /\
    cs_conn st = mk_conn (loc (w_ports w) (x_ports cx)) (x_next cx) /\ cs_sched st = x_sched cx /\
    cs_now st = w_now w /\ Permutation (cs_q st) (xq w x).

Definition SimN (x : nat) (w w' : world) : Prop :=
  WFn w -> WFn w' /\
  forall st, Rn x w st -> exists acts st', csteps GuardNew st acts = Some st' /\ Rn x w' st'.

Lemma simn_refl x w : SimN x w w.
Proof. intro H. split; [exact H|]. intros st Hr. exists [], st. split; [reflexivity|exact Hr]. Qed.

Lemma simn_trans x w1 w2 w3 : SimN x w1 w2 -> SimN x w2 w3 -> SimN x w1 w3.
Proof.
  intros H12 H23 Hw. destruct (H12 Hw) as (Hw2 & S12). destruct (H23 Hw2) as (Hw3 & S23).
  split; [exact Hw3|]. intros st Hr. destruct (S12 st Hr) as (a1 & st1 & E1 & R1).
  destruct (S23 st1 R1) as (a2 & st2 & E2 & R2). exists (a1 ++ a2), st2.
  rewrite csteps_app, E1. auto.
Qed.

Lemma valid_ports w x cx : WFn w -> nth_error (w_conns w) x = Some cx ->
  Forall (fun g => (g < length (w_ports w))%nat) (x_ports cx).
Proof.
  intros Hw Hx. destruct (wn_conns w Hw x cx Hx) as (_ & _ & Hin).
  apply Forall_forall. intros g Hg. apply Hin in Hg. tauto.
Qed.

(** frames: a step that changes neither ports, connections, time nor the secondary queue *)
Lemma frameN x w w' : (WFn w -> same_core w w') -> length (w_comps w') = length (w_comps w) -> SimN x w w'.
Proof.
  intros H Hlen Hw. destruct (H Hw) as (Eg & Ep & Ec & Eo & En & Es & Hc). split.
  - destruct Hw as [Hg Hcx Hcm]. constructor.
    + congruence.
    + intros x' cx Hx. rewrite Ec in Hx. rewrite Ep. unfold conn_of. rewrite Eo. exact (Hcx x' cx Hx).
    + exact (Hc Hcm).
  - intros st (cx & C1 & C2 & C3 & C4 & C5). exists [], st. split; [reflexivity|].
    exists cx. rewrite Ec, Ep, En. unfold xq, isx, hx, ncomps. rewrite Es, Hlen. auto.
Qed.

(** the secondary queue seen by connection x *)
Lemma filter_insert_other (f : N * nat -> bool) e q : f e = false -> filter f (insert_evt e q) = filter f q.
Proof.
  intro He. induction q as [|y q IH]; cbn [insert_evt filter]; [rewrite He; reflexivity|].
  destruct (fst y <=? fst e); cbn [filter]; [rewrite IH; reflexivity|rewrite He; reflexivity].
Qed.

Lemma filter_insert_same (f : N * nat -> bool) e q : f e = true ->
  Permutation (map fst (filter f (insert_evt e q))) (fst e :: map fst (filter f q)).
Proof.
  intro He. induction q as [|y q IH]; cbn [insert_evt filter]; [rewrite He; reflexivity|].
  destruct (fst y <=? fst e); cbn [filter]; [|rewrite He; reflexivity].
  destruct (f y); cbn [map]; [rewrite IH; apply perm_swap|exact IH].
Qed.

(** TickNow / TickLater of connection x', written as in the model *)
Definition conn_req (later : bool) (w : world) (x : nat) : world :=
  match nth_error (w_conns w) x with
  | None => w
  | Some c =>
      let '(s', ev) := if later then tick_later (w_now w) (x_sched c)
                       else tick_now (w_guard w) (w_now w) (x_sched c) in
      sched_event (set_conns w (set_nth x (mk_cnx s' (x_ports c) (x_next c)) (w_conns w))) s' (ncomps w + x) ev
  end.

Lemma conn_tick_now_req w x : conn_tick_now w x = conn_req false w x.
Proof. reflexivity. Qed.

Lemma conn_req_wfn later w x' : WFn w -> WFn (conn_req later w x').
Proof.
  intro Hw. unfold conn_req. destruct (nth_error (w_conns w) x') as [c|] eqn:Ec; [|exact Hw].
  destruct (wn_conns w Hw x' c Ec) as (Hsec & Hnd & Hin).
  set (res := if later then tick_later (w_now w) (x_sched c) else tick_now (w_guard w) (w_now w) (x_sched c)).
  assert (Hs : s_sec (fst res) = true).
  { unfold res. destruct later; [rewrite tick_later_sec|rewrite tick_now_sec]; exact Hsec. }
  destruct res as [s' ev]. cbn [fst] in Hs.
  assert (Hw1 : WFn (set_conns w (set_nth x' (mk_cnx s' (x_ports c) (x_next c)) (w_conns w)))).
  { destruct Hw as [Hg Hcx Hcm]. constructor; cbn; auto.
    intros x cx Hx. destruct (Nat.eq_dec x' x) as [->|Hne].
    - rewrite nth_set_nth_eq in Hx by (eapply nth_error_lt; eauto). injection Hx as <-. cbn. auto.
    - rewrite nth_set_nth_neq in Hx by exact Hne. exact (Hcx x cx Hx). }
  unfold sched_event. destruct ev as [t|]; [|exact Hw1].
  unfold schedule. rewrite Hs. destruct Hw1 as [Hg Hcx Hcm]. constructor; cbn; auto.
Qed.

Lemma conn_req_same later w x st : WFn w -> Rn x w st -> Rn x (conn_req later w x) (request GuardNew later st).
Proof.
  intros Hw (cx & C1 & C2 & C3 & C4 & C5). unfold conn_req. rewrite C1.
  destruct (wn_conns w Hw x cx C1) as (Hsec & _).
  rewrite (wn_guard w Hw). unfold request. rewrite C3, C4.
  set (res := if later then tick_later (w_now w) (x_sched cx) else tick_now GuardNew (w_now w) (x_sched cx)).
  assert (Hs : s_sec (fst res) = true).
  { unfold res. destruct later; [rewrite tick_later_sec|rewrite tick_now_sec]; exact Hsec. }
  destruct res as [s' ev]. cbn [fst] in Hs.
  unfold sched_event. destruct ev as [t|].
  - unfold schedule. rewrite Hs. eexists. cbn [w_conns set_conns set_sec].
    rewrite nth_set_nth_eq by (eapply nth_error_lt; eauto). split; [reflexivity|]. cbn.
    rewrite C2. repeat split; auto.
    unfold xq. cbn [w_sec]. change (isx (set_sec _ _) x) with (isx w x).
    rewrite (filter_insert_same (isx w x) (t, (ncomps w + x)%nat)) by (unfold isx, hx; cbn; apply Nat.eqb_refl).
    cbn [fst olist]. fold (xq w x). rewrite <- C5. symmetry. apply Permutation_cons_append.
  - eexists. cbn [w_conns set_conns]. rewrite nth_set_nth_eq by (eapply nth_error_lt; eauto).
    split; [reflexivity|]. cbn. rewrite C2, app_nil_r. repeat split; auto.
Qed.

Lemma conn_req_other later w x x' st : x' <> x -> Rn x w st -> Rn x (conn_req later w x') st.
Proof.
  intros Hne (cx & C1 & C2 & C3 & C4 & C5). unfold conn_req.
  destruct (nth_error (w_conns w) x') as [c|] eqn:Ec; [|exists cx; auto].
  destruct (if later then tick_later (w_now w) (x_sched c) else tick_now (w_guard w) (w_now w) (x_sched c)) as [s' ev].
  unfold sched_event. destruct ev as [t|].
  - unfold schedule. destruct (s_sec s').
    + exists cx. cbn [w_conns set_conns set_sec]. rewrite nth_set_nth_neq by exact Hne. split; [exact C1|].
      cbn. repeat split; auto. unfold xq. cbn [w_sec]. change (isx (set_sec _ _) x) with (isx w x).
      rewrite filter_insert_other; [exact C5|]. unfold isx, hx. cbn. apply Nat.eqb_neq. lia.
    + exists cx. cbn [w_conns set_conns set_prim]. rewrite nth_set_nth_neq by exact Hne. split; [exact C1|].
      cbn. repeat split; auto.
  - exists cx. cbn [w_conns set_conns]. rewrite nth_set_nth_neq by exact Hne. split; [exact C1|]. cbn. auto.
Qed.

Lemma conn_req_sim later x w x' : SimN x w (conn_req later w x').
Proof.
  intro Hw. split; [apply conn_req_wfn; exact Hw|]. intros st Hr.
  destruct (Nat.eq_dec x' x) as [->|Hne].
  - exists [if later then CTickLater else CTickNow], (request GuardNew later st).
    split; [destruct later; reflexivity|]. apply conn_req_same; assumption.
  - exists [], st. split; [reflexivity|]. apply conn_req_other; assumption.
Qed.

(** ------------------------------------------------------------------ *)
(** component-side frames (only [Forall secfalse] is needed) *)
Lemma sc_notify w k : Forall secfalse (w_comps w) -> same_core w (notify_comp w k) /\
  length (w_comps (notify_comp w k)) = length (w_comps w).
Proof.
  intro Hf. unfold notify_comp. destruct (nth_error (w_comps w) k) as [c|] eqn:Ek; [|split; [apply same_core_refl|reflexivity]].
  assert (Hsf : s_sec (k_sched c) = false).
  { rewrite Forall_forall in Hf. exact (Hf c (nth_error_In _ _ Ek)). }
  destruct (k_kind c).
  - pose proof (tick_later_sec (w_now w) (k_sched c)) as Hs.
    destruct (tick_later (w_now w) (k_sched c)) as [s' ev]. cbn [fst] in Hs.
    unfold sched_event. destruct ev as [t|]; [unfold schedule; rewrite Hs, Hsf|];
      (split; [unfold same_core; cbn; repeat split; auto; intro Hf'; apply forall_set_nth; auto;
               unfold secfalse; cbn; congruence|cbn; apply set_nth_length]).
  - destruct (k_pending c) as [p|]; [destruct (p <=? w_now w)|];
      try (split; [apply same_core_refl|reflexivity]);
      (split; [unfold same_core, schedule; cbn; repeat split; auto; intro Hf'; apply forall_set_nth; auto
              |unfold schedule; cbn; apply set_nth_length]).
Qed.

Lemma sc_wake w k t : same_core w (wake_at w k t) /\ length (w_comps (wake_at w k t)) = length (w_comps w).
Proof.
  unfold wake_at. destruct (nth_error (w_comps w) k) as [c|] eqn:Ek; [|split; [apply same_core_refl|reflexivity]].
  destruct (k_pending c) as [p|]; [destruct (p <=? t)|];
    try (split; [apply same_core_refl|reflexivity]);
    (split; [unfold same_core, schedule; cbn; repeat split; auto; intro Hf'; apply forall_set_nth; auto;
             rewrite Forall_forall in Hf'; exact (Hf' c (nth_error_In _ _ Ek))
            |unfold schedule; cbn; apply set_nth_length]).
Qed.

Lemma notify_simN x w k : SimN x w (notify_comp w k).
Proof.
  intro Hw. destruct (sc_notify w k (wn_comps w Hw)) as (Hc & Hl).
  exact (frameN x w _ (fun _ => Hc) Hl Hw).
Qed.

Lemma fold_notify_simN x l : forall w, SimN x w (fold_left (fun w' q => notify_comp w' (owner_of w' q)) l w).
Proof.
  induction l as [|q l IH]; intro w; cbn [fold_left]; [apply simn_refl|].
  eapply simn_trans; [apply notify_simN|apply IH].
Qed.

Lemma apply_cb_simN x w gn : SimN x w (apply_cb w gn).
Proof.
  destruct gn as [g n]. destruct n; cbn [apply_cb].
  - rewrite conn_tick_now_req. apply conn_req_sim.
  - apply notify_simN.
  - apply notify_simN.
  - set (others := match nth_error (w_conns w) (conn_of w g) with
                   | Some c => filter (fun q => negb (Nat.eqb q g)) (x_ports c) | None => [] end).
    apply (simn_trans x w (fold_left (fun w' q => notify_comp w' (owner_of w' q)) others w));
      [apply fold_notify_simN|rewrite conn_tick_now_req; apply conn_req_sim].
Qed.

Lemma apply_cbs_simN x cbs : forall w, SimN x w (apply_cbs w cbs).
Proof.
  unfold apply_cbs. induction cbs as [|c cbs IH]; intro w; cbn [fold_left]; [apply simn_refl|].
  eapply simn_trans; [apply apply_cb_simN|apply IH].
Qed.

Lemma wfn_set_port w g p : WFn w -> WFn (set_ports w (set_nth g p (w_ports w))).
Proof.
  intros [Hg Hcx Hcm]. constructor; cbn; auto. intros x cx Hx. rewrite set_nth_length. exact (Hcx x cx Hx).
Qed.

Lemma rn_set_port_other x w g p st : WFn w -> conn_of w g <> x \/ (length (w_ports w) <= g)%nat ->
  Rn x w st -> Rn x (set_ports w (set_nth g p (w_ports w))) st.
Proof.
  intros Hw Hne (cx & C1 & C2 & C3 & C4 & C5). exists cx. cbn. split; [exact C1|].
  rewrite loc_set_out; [auto|]. intro Hin. destruct (wn_conns w Hw x cx C1) as (_ & _ & Hi).
  apply Hi in Hin. destruct Hne; [tauto|lia].
Qed.

Lemma rn_set_port_same x w g p st cx i : WFn w -> nth_error (w_conns w) x = Some cx ->
  nth_error (x_ports cx) i = Some g -> Rn x w st ->
  Rn x (set_ports w (set_nth g p (w_ports w))) (with_ports st (set_nth i p (c_ports (cs_conn st)))).
Proof.
  intros Hw Hx Hi (cx' & C1 & C2 & C3 & C4 & C5). rewrite Hx in C1. injection C1 as <-.
  destruct (wn_conns w Hw x cx Hx) as (_ & Hnd & _).
  exists cx. cbn. split; [exact Hx|]. unfold with_ports. cbn. rewrite C2. cbn [c_ports c_next].
  rewrite (loc_set_in _ _ (valid_ports w x cx Hw Hx) Hnd i g p Hi). auto.
Qed.

(** index of a port inside its connection *)
Lemma port_index w x cx g : WFn w -> nth_error (w_conns w) x = Some cx ->
  (g < length (w_ports w))%nat -> conn_of w g = x -> exists i, nth_error (x_ports cx) i = Some g.
Proof.
  intros Hw Hx Hg Hc. destruct (wn_conns w Hw x cx Hx) as (_ & _ & Hin).
  apply In_nth_error. apply Hin. auto.
Qed.

Lemma do_send_simN x w g m : SimN x w (snd (do_send w g m)).
Proof.
  unfold do_send. destruct (nth_error (w_ports w) g) as [p|] eqn:Ep; [|apply simn_refl].
  destruct (can_send p); [|apply simn_refl].
  destruct (send (Some m) p) as [u p' ns| |] eqn:Es; cbn [snd];
    try (apply frameN; [intros _; apply same_core_halt|reflexivity]).
  destruct (send_spec _ _ _ _ _ Es) as (_ & _ & _ & _ & _ & _ & _ & Hns).
  pose proof (nth_error_lt _ _ _ Ep) as Hg.
  set (w1 := set_ports w (set_nth g p' (w_ports w))).
  intro Hw. pose proof (wfn_set_port w g p' Hw) as Hw1. fold w1 in Hw1.
  destruct (apply_cbs_simN x (tag g ns) w1 Hw1) as (Hw2 & S2). split; [exact Hw2|].
  intros st Hr. pose proof Hr as (cx & C1 & C2 & C3 & C4 & C5).
  destruct (Nat.eq_dec (conn_of w g) x) as [Hc|Hc].
  - destruct (port_index w x cx g Hw C1 Hg Hc) as (i & Hi).
    assert (Hpi : nth_error (c_ports (cs_conn st)) i = Some p).
    { rewrite C2. cbn [c_ports]. rewrite (loc_nth _ _ (valid_ports w x cx Hw C1)), Hi. exact Ep. }
    pose proof (rn_set_port_same x w g p' st cx i Hw C1 Hi Hr) as Hr1. fold w1 in Hr1.
    rewrite Hns in *. destruct (size (p_out p) =? 0)%Z.
    + exists [CSend i m]. eexists. cbn [csteps cstep]. rewrite Hpi, Es. cbn [has_notif existsb notif_eqb orb].
      split; [reflexivity|]. cbn [tag map apply_cbs fold_left apply_cb]. rewrite conn_tick_now_req.
      change (conn_of w1 g) with (conn_of w g). rewrite Hc. apply conn_req_same; assumption.
    + exists [CSend i m]. eexists. cbn [csteps cstep]. rewrite Hpi, Es. cbn [has_notif existsb].
      split; [reflexivity|]. cbn [tag map apply_cbs fold_left]. exact Hr1.
  - apply S2. apply rn_set_port_other; auto.
Qed.

Lemma fold_notify_rn x l : forall w st, WFn w -> Rn x w st ->
  Rn x (fold_left (fun w' q => notify_comp w' (owner_of w' q)) l w) st.
Proof.
  induction l as [|q l IH]; intros w st Hw Hr; [exact Hr|]. cbn [fold_left].
  destruct (sc_notify w (owner_of w q) (wn_comps w Hw)) as (Hcq & Hlq).
  destruct (frameN x w _ (fun _ => Hcq) Hlq Hw) as (Hwb & _).
  apply IH; [exact Hwb|].
  destruct Hcq as (Eg & Ep' & Ec & Eo & En & Es' & _). destruct Hr as (cxa & A1 & A2 & A3 & A4 & A5).
  exists cxa. rewrite Ec, Ep', En. unfold xq, isx, hx, ncomps. rewrite Es', Hlq. auto.
Qed.

Lemma do_retrieve_simN x w g : SimN x w (snd (do_retrieve w g)).
Proof.
  unfold do_retrieve. destruct (nth_error (w_ports w) g) as [p|] eqn:Ep; [|apply simn_refl].
  destruct (retrieve_incoming p) as [v p' ns| |] eqn:Er; cbn [snd];
    try (apply frameN; [intros _; apply same_core_halt|reflexivity]).
  destruct (retrieve_incoming_spec _ _ _ _ Er) as (_ & _ & _ & _ & _ & _ & Hns).
  pose proof (nth_error_lt _ _ _ Ep) as Hg.
  set (w1 := set_ports w (set_nth g p' (w_ports w))).
  intro Hw. pose proof (wfn_set_port w g p' Hw) as Hw1. fold w1 in Hw1.
  destruct (apply_cbs_simN x (tag g ns) w1 Hw1) as (Hw2 & S2). split; [exact Hw2|].
  intros st Hr. pose proof Hr as (cx & C1 & C2 & C3 & C4 & C5).
  destruct (Nat.eq_dec (conn_of w g) x) as [Hc|Hc].
  - destruct (port_index w x cx g Hw C1 Hg Hc) as (i & Hi).
    assert (Hpi : nth_error (c_ports (cs_conn st)) i = Some p).
    { rewrite C2. cbn [c_ports]. rewrite (loc_nth _ _ (valid_ports w x cx Hw C1)), Hi. exact Ep. }
    pose proof (rn_set_port_same x w g p' st cx i Hw C1 Hi Hr) as Hr1. fold w1 in Hr1.
    rewrite Hns in *. destruct (negb (size (p_in p) =? 0)%Z && (size (p_in p') =? b_cap (p_in p) - 1)%Z).
    + exists [CRetrieve i]. eexists. cbn [csteps cstep]. rewrite Hpi, Er. cbn [has_notif existsb notif_eqb orb].
      split; [reflexivity|]. cbn [tag map apply_cbs fold_left apply_cb]. rewrite conn_tick_now_req.
      change (conn_of w1 g) with (conn_of w g). rewrite Hc.
      set (others := match nth_error (w_conns w1) x with
                     | Some c => filter (fun q => negb (Nat.eqb q g)) (x_ports c) | None => [] end).
      destruct (fold_notify_simN x others w1 Hw1) as (Hw3 & S3).
      (* the notifications are frames: the related abstract state is unchanged *)
      pose proof (fold_notify_rn x others w1 _ Hw1 Hr1) as Hr3.
      apply conn_req_same; assumption.
    + exists [CRetrieve i]. eexists. cbn [csteps cstep]. rewrite Hpi, Er. cbn [has_notif existsb].
      split; [reflexivity|]. cbn [tag map apply_cbs fold_left]. exact Hr1.
  - apply S2. apply rn_set_port_other; auto.
Qed.

(** ------------------------------------------------------------------ *)
(** scripted component activations *)
Lemma drain_port_simN x n : forall w g r acc cnt, SimN x w (fst (fst (drain_port n w g r acc cnt))).
Proof.
  induction n as [|n IH]; intros w g r acc cnt; cbn [drain_port]; [apply simn_refl|].
  pose proof (do_retrieve_simN x w g) as H. destruct (do_retrieve w g) as [v w1]. cbn [snd] in H.
  destruct v as [m|]; [|exact H]. eapply simn_trans; [exact H|apply IH].
Qed.

Lemma drain_all_simN x ps : forall w ds rs acc cnt, SimN x w (fst (fst (drain_all w ps ds rs acc cnt))).
Proof.
  induction ps as [|g ps IH]; intros w ds rs acc cnt; cbn [drain_all]; [apply simn_refl|].
  destruct ds as [|d ds]; [apply simn_refl|]. destruct rs as [|r rs]; [apply simn_refl|].
  pose proof (drain_port_simN x (match d with Some k => k | None => port_in_len w g end) w g r acc cnt) as H.
  destruct (drain_port _ w g r acc cnt) as [[w1 acc1] cnt1]. cbn [fst] in H.
  eapply simn_trans; [exact H|apply IH].
Qed.

Lemma flush_simN x pend : forall w kept cnt, SimN x w (fst (fst (flush w pend kept cnt))).
Proof.
  induction pend as [|[g m] pend IH]; intros w kept cnt; cbn [flush]; [apply simn_refl|].
  pose proof (do_send_simN x w g m) as H. destruct (do_send w g m) as [ok w1]. cbn [snd] in H.
  destruct ok; (eapply simn_trans; [exact H|apply IH]).
Qed.

Lemma set_comp_simN x w k c c' : nth_error (w_comps w) k = Some c -> s_sec (k_sched c') = s_sec (k_sched c) ->
  SimN x w (set_comps w (set_nth k c' (w_comps w))).
Proof.
  intros Hk Hs. apply frameN; [|cbn; apply set_nth_length].
  intro Hw. apply same_core_set_comp. unfold secfalse. rewrite Hs.
  pose proof (wn_comps w Hw) as Hf. rewrite Forall_forall in Hf. exact (Hf c (nth_error_In _ _ Hk)).
Qed.

Lemma activate_simN x w k : SimN x w (snd (activate w k)).
Proof.
  unfold activate. destruct (nth_error (w_comps w) k) as [c|]; [|apply simn_refl].
  pose proof (drain_all_simN x (k_ports c) w (k_drain c) (k_relay c) [] 0%nat) as H1.
  destruct (drain_all w (k_ports c) (k_drain c) (k_relay c) [] 0%nat) as [[w1 relays] nret]. cbn [fst] in H1.
  match goal with |- context [flush w1 ?pp [] 0%nat] =>
    pose proof (flush_simN x pp w1 [] 0%nat) as H2; destruct (flush w1 pp [] 0%nat) as [[w2 kept] nsent] end.
  cbn [fst] in H2.
  destruct (nth_error (w_comps w2) k) as [c2|] eqn:E2; cbn [snd].
  - eapply simn_trans; [exact H1|]. eapply simn_trans; [exact H2|].
    eapply set_comp_simN; [exact E2|reflexivity].
  - eapply simn_trans; [exact H1|exact H2].
Qed.

Lemma handle_comp_simN x w k t : SimN x w (handle_comp w k t).
Proof.
  unfold handle_comp. destruct (nth_error (w_comps w) k) as [c|] eqn:Ek;
    [|apply frameN; [intros _; apply same_core_halt|reflexivity]].
  destruct (k_kind c).
  - set (c' := mk_comp KTick (mark_handled (k_sched c) t) (k_pending c) (k_ports c) (k_drain c) (k_relay c) (k_timers c) (k_pend c)).
    set (w0 := set_comps w (set_nth k c' (w_comps w))).
    assert (H0 : SimN x w w0) by (eapply set_comp_simN; [exact Ek|reflexivity]).
    pose proof (activate_simN x w0 k) as H1. destruct (activate w0 k) as [pr w1]. cbn [snd] in H1.
    destruct (nth_error (w_comps w1) k) as [c1|].
    + destruct (pr || negb match k_timers c1 with [] => true | _ :: _ => false end).
      * eapply simn_trans; [exact H0|]. eapply simn_trans; [exact H1|apply notify_simN].
      * eapply simn_trans; [exact H0|exact H1].
    + eapply simn_trans; [exact H0|exact H1].
  - set (c' := mk_comp KEvent (k_sched c) None (k_ports c) (k_drain c) (k_relay c) (k_timers c) (k_pend c)).
    set (w0 := set_comps w (set_nth k c' (w_comps w))).
    assert (H0 : SimN x w w0) by (eapply set_comp_simN; [exact Ek|reflexivity]).
    pose proof (activate_simN x w0 k) as H1. destruct (activate w0 k) as [pr w1]. cbn [snd] in H1.
    destruct (nth_error (w_comps w1) k) as [c1|]; [|eapply simn_trans; [exact H0|exact H1]].
    destruct (k_timers c1) as [|tm rest]; [eapply simn_trans; [exact H0|exact H1]|].
    eapply simn_trans; [exact H0|]. eapply simn_trans; [exact H1|].
    destruct (sc_wake w1 k (fst (fst tm))) as (Hc & Hl). exact (frameN x w1 _ (fun _ => Hc) Hl).
Qed.

(** ------------------------------------------------------------------ *)
(** writing a tick's result back into the global port list *)
Lemma nth_error_ext {A} (a b : list A) : (forall i, nth_error a i = nth_error b i) -> a = b.
Proof.
  revert b. induction a as [|x a IH]; intros [|y b] H; [reflexivity| | |].
  - specialize (H 0%nat). discriminate.
  - specialize (H 0%nat). discriminate.
  - pose proof (H 0%nat) as H0. cbn in H0. injection H0 as <-. f_equal. apply IH. intro i. exact (H (S i)).
Qed.

Lemma write_back_gen (l : list nat) (Hnd : NoDup l) : forall (lp : list port) b ps,
  (b + length lp = length l)%nat -> Forall (fun g => (g < length ps)%nat) l ->
  let ps' := fold_left (fun ps (ip : nat * port) => set_nth (nth (fst ip) l 0%nat) (snd ip) ps)
                       (combine (seq b (length lp)) lp) ps in
  length ps' = length ps /\
  (forall g, (forall i, (b <= i < length l)%nat -> nth i l 0%nat <> g) -> nth_error ps' g = nth_error ps g) /\
  (forall j, (j < length lp)%nat -> nth_error ps' (nth (b + j) l 0%nat) = nth_error lp j).
Proof.
  induction lp as [|p r IH]; intros b ps Hb Hv; cbn [length seq combine fold_left].
  - split; [reflexivity|]. split; [reflexivity|]. intros j Hj. cbn in Hj. lia.
  - cbn [length] in Hb. cbn [fst snd].
    set (g0 := nth b l 0%nat). set (ps1 := set_nth g0 p ps).
    assert (Hv1 : Forall (fun g => (g < length ps1)%nat) l) by (unfold ps1; rewrite set_nth_length; exact Hv).
    destruct (IH (S b) ps1 ltac:(lia) Hv1) as (L & U & W). cbn zeta in L, U, W.
    assert (Hg0 : (g0 < length ps)%nat).
    { rewrite Forall_forall in Hv. apply Hv. unfold g0. apply nth_In. lia. }
    split; [rewrite L; unfold ps1; apply set_nth_length|]. split.
    + intros g Hg. rewrite U by (intros i Hi; apply Hg; lia).
      unfold ps1. apply nth_set_nth_neq. apply Hg. lia.
    + intros j Hj. destruct j as [|j].
      * rewrite Nat.add_0_r. fold g0. rewrite U.
        -- unfold ps1. rewrite nth_set_nth_eq by exact Hg0. reflexivity.
        -- intros i Hi E. unfold g0 in E. apply (proj1 (NoDup_nth l 0%nat) Hnd) in E; lia.
      * replace (b + S j)%nat with (S b + j)%nat by lia. cbn [nth_error]. apply W. lia.
Qed.

Lemma write_back_loc (l : list nat) (lp ps : list port) : NoDup l -> length lp = length l ->
  Forall (fun g => (g < length ps)%nat) l ->
  let ps' := fold_left (fun ps (ip : nat * port) => set_nth (nth (fst ip) l 0%nat) (snd ip) ps)
                       (combine (seq 0 (length lp)) lp) ps in
  length ps' = length ps /\ loc ps' l = lp /\ (forall g, ~ In g l -> nth_error ps' g = nth_error ps g).
Proof.
  intros Hnd Hlen Hv. destruct (write_back_gen l Hnd lp 0 ps ltac:(lia) Hv) as (L & U & W). cbn zeta in *.
  split; [exact L|]. split.
  - apply nth_error_ext. intro i.
    rewrite loc_nth by (rewrite L; exact Hv).
    destruct (nth_error l i) as [g|] eqn:Ei.
    + pose proof (nth_error_lt _ _ _ Ei) as Hi. rewrite <- (W i) by lia. cbn [plus].
      rewrite (nth_error_nth _ _ 0%nat Ei). reflexivity.
    + symmetry. apply nth_error_None. apply nth_error_None in Ei. lia.
  - intros g Hg. apply U. intros i Hi E. apply Hg. rewrite <- E. apply nth_In. lia.
Qed.

Lemma set_nth_twice {A} i (x y : A) l : set_nth i x (set_nth i y l) = set_nth i x l.
Proof. revert i; induction l as [|z l IH]; intros [|i]; cbn; auto. f_equal. apply IH. Qed.

Lemma rn_frame x w w' st : same_core w w' -> length (w_comps w') = length (w_comps w) -> Rn x w st -> Rn x w' st.
Proof.
  intros (Eg & Ep & Ec & Eo & En & Es & _) Hl (cx & A1 & A2 & A3 & A4 & A5).
  exists cx. rewrite Ec, Ep, En. unfold xq, isx, hx, ncomps. rewrite Es, Hl. auto.
Qed.

Lemma wfn_frame w w' : same_core w w' -> WFn w -> WFn w'.
Proof.
  intros (Eg & Ep & Ec & Eo & En & Es & Hc) [Hg Hcx Hcm]. constructor.
  - congruence.
  - intros x' cx Hx. rewrite Ec in Hx. rewrite Ep. unfold conn_of. rewrite Eo. exact (Hcx x' cx Hx).
  - exact (Hc Hcm).
Qed.

Lemma okcbs_coreN cbs : forall w, Forall (fun x : nat * notif => snd x = NRecv \/ snd x = NPortFree) cbs ->
  Forall secfalse (w_comps w) ->
  same_core w (apply_cbs w cbs) /\ length (w_comps (apply_cbs w cbs)) = length (w_comps w).
Proof.
  unfold apply_cbs. induction cbs as [|[g n] cbs IH]; intros w Hc Hf; cbn [fold_left];
    [split; [apply same_core_refl|reflexivity]|].
  inversion Hc as [|? ? Hx Hr]; subst. cbn [snd] in Hx.
  assert (H1 : same_core w (apply_cb w (g, n)) /\ length (w_comps (apply_cb w (g, n))) = length (w_comps w)).
  { destruct Hx as [-> | ->]; cbn [apply_cb]; apply sc_notify; exact Hf. }
  destruct H1 as (H1 & L1).
  assert (Hf1 : Forall secfalse (w_comps (apply_cb w (g, n)))) by (destruct H1 as (_ & _ & _ & _ & _ & _ & K); exact (K Hf)).
  destruct (IH _ Hr Hf1) as (H2 & L2). split; [eapply same_core_trans; eauto|congruence].
Qed.

Definition SimHN (x : nat) (w w' : world) : Prop :=
  WFn w -> w_halt w' = true \/
           (WFn w' /\ forall st, Rn x w st -> exists acts st', csteps GuardNew st acts = Some st' /\ Rn x w' st').

Lemma xq_cons_same w x t r : xq (set_now (set_sec w ((t, hx w x) :: r)) 0) x = t :: xq (set_now (set_sec w r) 0) x.
Proof. unfold xq, isx, hx, ncomps. cbn. rewrite Nat.eqb_refl. reflexivity. Qed.

(** the engine dispatches the earliest tick event of connection x' *)
Lemma conn_eventN x w x' t r :
  w_sec w = (t, hx w x') :: r -> w_now w <= t -> forallb (N.leb t) (map fst r) = true ->
  SimHN x w (handle_conn (set_now (set_sec w r) t) x' t).
Proof.
  intros Esecq Hnow Hmin Hw. unfold handle_conn.
  change (w_conns (set_now (set_sec w r) t)) with (w_conns w).
  destruct (nth_error (w_conns w) x') as [c|] eqn:Ec; [|left; reflexivity].
  destruct (wn_conns w Hw x' c Ec) as (Hsec & Hnd & Hin).
  pose proof (valid_ports w x' c Hw Ec) as Hv.
  cbn zeta.
  change (flat_map _ (x_ports c)) with (loc (w_ports w) (x_ports c)).
  destruct (tick (mk_conn (loc (w_ports w) (x_ports c)) (x_next c))) as [pr cn cb dl|] eqn:Et; [|left; reflexivity].
  right.
  pose proof (tick_cb _ _ _ _ _ Et) as Hcb.
  destruct (tick_progress _ _ _ _ _ Et) as (_ & _ & Hlen). cbn [c_ports] in Hlen.
  rewrite (loc_length _ _ Hv) in Hlen.
  destruct (write_back_loc (x_ports c) (c_ports cn) (w_ports w) Hnd Hlen Hv) as (L & Hloc & Hout). cbn zeta in L, Hloc, Hout.
  set (ports' := fold_left (fun ps (ip : nat * port) => set_nth (nth (fst ip) (x_ports c) 0%nat) (snd ip) ps)
                           (combine (seq 0 (length (c_ports cn))) (c_ports cn)) (w_ports w)) in *.
  set (c2 := mk_cnx (mark_handled (x_sched c) t) (x_ports c) (c_next cn)).
  set (w2 := mk_world (w_guard w) t (w_prim w) r ports' (w_owner w) (w_connof w) (w_comps w)
                      (set_nth x' c2 (w_conns w)) (w_halt w)).
  set (cbs := map (fun ic : nat * notif => (nth (fst ic) (x_ports c) 0%nat, snd ic)) cb).
  (* the model's intermediate world is w2 *)
  match goal with |- context [apply_cbs ?ww cbs] => assert (Hw2eq : ww = w2) end.
  { unfold w2, set_conns, set_ports, set_now, set_sec, upd. cbn [w_conns w_ports w_guard w_now w_prim w_sec w_owner w_connof w_comps w_halt].
    rewrite nth_set_nth_eq by (eapply nth_error_lt; eauto). rewrite set_nth_twice. reflexivity. }
  rewrite Hw2eq. clear Hw2eq.
  assert (Hw2 : WFn w2).
  { destruct Hw as [Hg Hcx Hcm]. constructor; cbn; auto.
    intros y cy Hy. rewrite L. destruct (Nat.eq_dec x' y) as [->|Hne].
    - rewrite nth_set_nth_eq in Hy by (eapply nth_error_lt; eauto). injection Hy as <-. cbn. auto.
    - rewrite nth_set_nth_neq in Hy by exact Hne. exact (Hcx y cy Hy). }
  assert (Hcbs : Forall (fun y : nat * notif => snd y = NRecv \/ snd y = NPortFree) cbs).
  { unfold cbs. apply Forall_map. eapply Forall_impl; [|exact Hcb]. intros [i n] H. exact H. }
  destruct (okcbs_coreN cbs w2 Hcbs (wn_comps w2 Hw2)) as (Hcore & Hl3).
  set (w3 := apply_cbs w2 cbs) in *.
  pose proof (wfn_frame _ _ Hcore Hw2) as Hw3.
  change (match nth_error (w_conns w3) x' with
          | Some c3 => let '(s', ev) := tick_later (w_now w3) (x_sched c3) in
                       sched_event (set_conns w3 (set_nth x' (mk_cnx s' (x_ports c3) (x_next c3)) (w_conns w3))) s' (ncomps w3 + x') ev
          | None => w3 end) with (conn_req true w3 x').
  split; [destruct pr; [apply conn_req_wfn|]; exact Hw3|].
  intros st Hr. pose proof Hr as (cx & C1 & C2 & C3 & C4 & C5).
  destruct (Nat.eq_dec x' x) as [->|Hne].
  - (* this connection's own tick *)
    rewrite Ec in C1. injection C1 as <-.
    assert (Hq : Permutation (cs_q st) (t :: map fst (filter (isx w x) r))).
    { rewrite C5. unfold xq. rewrite Esecq. cbn [filter]. unfold isx at 1. cbn [snd]. rewrite Nat.eqb_refl. reflexivity. }
    assert (Hex : existsb (N.eqb t) (cs_q st) = true).
    { apply existsb_exists. exists t. split; [|apply N.eqb_refl].
      eapply Permutation_in; [symmetry; exact Hq|left; reflexivity]. }
    assert (Hall : forallb (N.leb t) (cs_q st) = true).
    { apply forallb_forall. intros y Hy. pose proof (Permutation_in _ Hq Hy) as Hy'.
      destruct Hy' as [<-|Hy']; [apply N.leb_refl|]. rewrite forallb_forall in Hmin. apply Hmin.
      apply in_map_iff in Hy'. destruct Hy' as (e & <- & He). apply filter_In in He. apply in_map. tauto. }
    set (st1 := mk_cs cn (mark_handled (x_sched c) t) (remove1 t (cs_q st)) t false).
    assert (Hr2 : Rn x w2 st1).
    { exists c2. unfold w2. cbn [w_conns w_ports w_now]. rewrite nth_set_nth_eq by (eapply nth_error_lt; eauto).
      split; [reflexivity|]. unfold st1, c2. cbn [cs_conn cs_sched cs_now cs_q x_ports x_next x_sched].
      rewrite Hloc, conn_eta. repeat split; auto.
      change (xq w2 x) with (map fst (filter (isx w x) r)). apply perm_remove1. exact Hq. }
    pose proof (rn_frame x w2 w3 st1 Hcore Hl3 Hr2) as Hr3.
    exists [CHandle t]. eexists. cbn [csteps cstep]. rewrite Hex, Hall, C2, Et, C3. cbn [andb]. fold st1.
    split; [reflexivity|]. destruct pr; [apply conn_req_same; assumption|exact Hr3].
  - (* another connection ticks: for x only the clock moves *)
    assert (Hxq : xq w x = map fst (filter (isx w x) r)).
    { unfold xq. rewrite Esecq. cbn [filter]. unfold isx at 1, hx. cbn [snd].
      replace (Nat.eqb (ncomps w + x') (ncomps w + x)) with false by (symmetry; apply Nat.eqb_neq; lia). reflexivity. }
    assert (Hall : forallb (N.leb t) (cs_q st) = true).
    { apply forallb_forall. intros y Hy. pose proof (Permutation_in _ C5 Hy) as Hy'. rewrite Hxq in Hy'.
      rewrite forallb_forall in Hmin. apply Hmin.
      apply in_map_iff in Hy'. destruct Hy' as (e & <- & He). apply filter_In in He. apply in_map. tauto. }
    set (st1 := mk_cs (cs_conn st) (cs_sched st) (cs_q st) t (cs_dirty st)).
    assert (Hr2 : Rn x w2 st1).
    { exists cx. unfold w2. cbn [w_conns w_ports w_now]. rewrite nth_set_nth_neq by exact Hne.
      split; [exact C1|]. unfold st1. cbn [cs_conn cs_sched cs_now cs_q]. rewrite C2. split.
      - f_equal. apply loc_ext. intros g Hg. symmetry. apply Hout. intro Hg'.
        destruct (wn_conns w Hw x cx C1) as (_ & _ & Hin'). apply Hin' in Hg. apply Hin in Hg'. lia.
      - repeat split; auto. change (xq w2 x) with (map fst (filter (isx w x) r)). rewrite C5, Hxq. reflexivity. }
    pose proof (rn_frame x w2 w3 st1 Hcore Hl3 Hr2) as Hr3.
    exists [CAdvance t], st1. cbn [csteps cstep]. rewrite C4.
    replace (w_now w <=? t) with true by (symmetry; apply N.leb_le; exact Hnow). rewrite Hall. cbn [andb].
    split; [reflexivity|]. destruct pr; [apply conn_req_other; assumption|exact Hr3].
Qed.

(** ------------------------------------------------------------------ *)
(** the engine (any number of connections) *)
Definition step_okN (w : world) : bool :=
  match w_prim w, w_sec w with
  | [], [] => true
  | (t, h) :: _, [] => (h <? ncomps w)%nat && (w_now w <=? t)
  | [], (t, h) :: r => (ncomps w <=? h)%nat && (w_now w <=? t) && forallb (N.leb t) (map fst r)
  | (t, h) :: _, (t', h') :: r' =>
      if t <=? t'
      then (h <? ncomps w)%nat && (w_now w <=? t) && forallb (N.leb t) (map fst (w_sec w))
      else (ncomps w <=? h')%nat && (w_now w <=? t') && forallb (N.leb t') (map fst r')
  end.

Fixpoint run_okN (fuel : nat) (w : world) : bool :=
  match fuel with
  | O => true
  | S f =>
      if w_halt w then true else
      match next_event w with
      | None => true
      | Some (t, h, w') => step_okN w && run_okN f (dispatch w' t h)
      end
  end.

Lemma prim_eventN x w t h r : w_prim w = (t, h) :: r -> (h <? ncomps w)%nat = true ->
  (w_now w <=? t) = true -> forallb (N.leb t) (map fst (w_sec w)) = true ->
  SimHN x w (dispatch (set_prim w r) t h).
Proof.
  intros Ep Hh Hnow Hall Hw. right.
  unfold dispatch. change (ncomps (set_now (set_prim w r) t)) with (ncomps w). rewrite Hh.
  set (w1 := set_now (set_prim w r) t).
  assert (Hw1 : WFn w1) by (destruct Hw as [Hg Hcx Hcm]; constructor; cbn; auto).
  destruct (handle_comp_simN x w1 h t Hw1) as (Hw2 & S2). split; [exact Hw2|].
  intros st (cx & C1 & C2 & C3 & C4 & C5).
  set (st1 := mk_cs (cs_conn st) (cs_sched st) (cs_q st) t (cs_dirty st)).
  assert (Hr1 : Rn x w1 st1). { exists cx. unfold w1, st1. cbn. auto. }
  destruct (S2 st1 Hr1) as (acts & st' & E & Hr'). exists (CAdvance t :: acts), st'.
  cbn [csteps cstep]. rewrite C4, Hnow.
  assert (Hq : forallb (N.leb t) (cs_q st) = true).
  { apply forallb_forall. intros y Hy. rewrite forallb_forall in Hall. apply Hall.
    pose proof (Permutation_in _ C5 Hy) as Hy'. unfold xq in Hy'.
    apply in_map_iff in Hy'. destruct Hy' as (e & <- & He). apply filter_In in He. apply in_map. tauto. }
  rewrite Hq. cbn [andb]. fold st1. auto.
Qed.

Lemma sec_eventN x w t h r : w_sec w = (t, h) :: r -> (ncomps w <=? h)%nat = true ->
  (w_now w <=? t) = true -> forallb (N.leb t) (map fst r) = true ->
  SimHN x w (dispatch (set_sec w r) t h).
Proof.
  intros Es Hh Hnow Hall. apply Nat.leb_le in Hh. apply N.leb_le in Hnow.
  unfold dispatch. change (ncomps (set_now (set_sec w r) t)) with (ncomps w).
  replace (h <? ncomps w)%nat with false by (symmetry; apply Nat.ltb_ge; exact Hh).
  apply (conn_eventN x w (h - ncomps w) t r); [|exact Hnow|exact Hall].
  rewrite Es. unfold hx. f_equal. f_equal. lia.
Qed.

Lemma engine_stepN x w t h w' : next_event w = Some (t, h, w') -> step_okN w = true -> SimHN x w (dispatch w' t h).
Proof.
  unfold next_event, step_okN. intros Hn Hok.
  destruct (w_prim w) as [|[tp hp] rp] eqn:Epq; destruct (w_sec w) as [|[ts hs] rs] eqn:Esq; try discriminate.
  - injection Hn as E1 E2 E3; subst t h w'. apply andb_true_iff in Hok. destruct Hok as [Hok Hall].
    apply andb_true_iff in Hok. destruct Hok as [Hh Hnow]. exact (sec_eventN x w ts hs rs Esq Hh Hnow Hall).
  - injection Hn as E1 E2 E3; subst t h w'. apply andb_true_iff in Hok. destruct Hok as [Hh Hnow].
    apply (prim_eventN x w tp hp rp Epq Hh Hnow). rewrite Esq. reflexivity.
  - destruct (tp <=? ts) eqn:Ele.
    + injection Hn as E1 E2 E3; subst t h w'. apply andb_true_iff in Hok. destruct Hok as [Hok Hall].
      apply andb_true_iff in Hok. destruct Hok as [Hh Hnow].
      apply (prim_eventN x w tp hp rp Epq Hh Hnow). rewrite Esq. exact Hall.
    + injection Hn as E1 E2 E3; subst t h w'. apply andb_true_iff in Hok. destruct Hok as [Hok Hall].
      apply andb_true_iff in Hok. destruct Hok as [Hh Hnow]. exact (sec_eventN x w ts hs rs Esq Hh Hnow Hall).
Qed.

Lemma run_projectsN x fuel : forall w tr, WFn w -> run_okN fuel w = true ->
  let wf := snd (fst (run fuel w tr)) in
  w_halt wf = true \/
  (WFn wf /\ forall st, Rn x w st -> exists acts st', csteps GuardNew st acts = Some st' /\ Rn x wf st').
Proof.
  induction fuel as [|f IH]; intros w tr Hw Hok; cbn [run].
  - right. split; [exact Hw|]. intros st Hr. exists [], st. auto.
  - destruct (w_halt w) eqn:Eh; [left; exact Eh|].
    cbn [run_okN] in Hok. rewrite Eh in Hok.
    destruct (next_event w) as [[[t h] w']|] eqn:En.
    + apply andb_true_iff in Hok. destruct Hok as [Hs Hr].
      destruct (engine_stepN x w t h w' En Hs Hw) as [Hh|(Hw1 & S1)].
      * left. rewrite run_halted by exact Hh. exact Hh.
      * destruct (IH (dispatch w' t h) (tr ++ [(t, h)]) Hw1 Hr) as [Hh|(Hwf & S2)]; [left; exact Hh|].
        right. split; [exact Hwf|]. intros st Hst.
        destruct (S1 st Hst) as (a1 & st1 & E1 & R1). destruct (S2 st1 R1) as (a2 & st2 & E2 & R2).
        exists (a1 ++ a2), st2. rewrite csteps_app, E1. auto.
    + right. split; [exact Hw|]. intros st Hst. exists [], st. auto.
Qed.

(** Every run that respects the engine contract projects, for each connection x, onto a run
    of the abstract connection system. *)
Theorem world_projectsN x fuel w0 st0 tr :
  WFn w0 -> Rn x w0 st0 -> cinv st0 -> run_okN fuel w0 = true ->
  let wf := snd (fst (run fuel w0 tr)) in
  w_halt wf = false -> xq wf x = [] ->
  exists acts st' cx, csteps GuardNew st0 acts = Some st' /\ Rn x wf st' /\ cinv st' /\
    nth_error (w_conns wf) x = Some cx /\
    forall k, deliv (loc (w_ports wf) (x_ports cx)) k = false.
Proof.
  intros Hw Hr Hi Hok wf Hnh Hq.
  destruct (run_projectsN x fuel w0 tr Hw Hok) as [Hh|(Hwf & S)]; [fold wf in Hh; congruence|].
  fold wf in Hwf, S. destruct (S st0 Hr) as (acts & st' & E & Hr').
  pose proof (csteps_inv acts st0 st' Hi E) as Hi'.
  pose proof Hr' as (cx & C1 & C2 & C3 & C4 & C5).
  exists acts, st', cx. split; [exact E|]. split; [exact Hr'|]. split; [exact Hi'|]. split; [exact C1|].
  rewrite Hq in C5. symmetry in C5. apply Permutation_nil in C5. destruct Hi' as (_ & Hd & Hl).
  intro k. destruct (deliv (loc (w_ports wf) (x_ports cx)) k) eqn:Ek; [|reflexivity].
  exfalso. apply Hd; [|exact C5]. apply Hl. exists k. rewrite C2. cbn [c_ports]. exact Ek.
Qed.
