(** C09 — case evaluators for the correspondence check. *)
From Akita Require Import Lib.Base Lib.Fifo Lib.Port Lib.Conn C09.Model.
Local Open Scope N_scope.

(** The tick guard of the code in /repo (repaired by fix commit f717b29c; the
    scheduler's lastHandledTime / hasHandledTick are [s_handled]). *)
Definition impl_guard : guard := GuardNew.

(** A topology with scripted components, and what the real run did: the handled
    events (time, handler) in order, and every port as seen after Run returned:
    (NumIncoming, NumOutgoing, (ID, Dst) of the outgoing head). *)
Record case := mk_case {
  c_ports : list (Z * Z * nat * nat);      (* incoming cap, outgoing cap, owner, connection *)
  c_comps : list compd;
  c_conns : list N;                        (* period of each connection *)
  c_trace : list (N * nat);
  c_final : list (Z * Z * option (N * N)) }.

Definition ev_eqb (a b : N * nat) : bool := (fst a =? fst b) && Nat.eqb (snd a) (snd b).
Definition head_eqb := opt_eqb (fun a b : N * N => (fst a =? fst b) && (snd a =? snd b)).
Definition fin_eqb (a b : Z * Z * option (N * N)) : bool :=
  (fst (fst a) =? fst (fst b))%Z && (snd (fst a) =? snd (fst b))%Z && head_eqb (snd a) (snd b).

Definition final_of (w : world) : list (Z * Z * option (N * N)) :=
  map (fun p => (num_incoming p, num_outgoing p,
                 option_map (fun m => (m_id m, m_dst m)) (peek_outgoing p))) (w_ports w).

Definition world_of (g : guard) (c : case) : world :=
  kick (build g (c_ports c) (c_comps c) (c_conns c)).

(** model = implementation: same sequence of handled events, same final ports *)
Definition check_case (c : case) : bool :=
  let '(tr, w, done) := run (length (c_trace c) + 4) (world_of impl_guard c) [] in
  done && list_eqb ev_eqb tr (c_trace c) && list_eqb fin_eqb (final_of w) (c_final c).

(** the property on the real final state: when Run returned, no port holds an
    outgoing message whose destination (on the same connection) has room, and no
    draining component has an unread incoming message *)
Definition drains (d : compd) : bool :=
  match d_kind d with
  | KTick => forallb (fun x => match x with Some O => false | _ => true end) (d_drain d)
  | KEvent => forallb (fun x => match x with None => true | _ => false end) (d_drain d)
  end.

Definition holds_on (c : case) : bool :=
  let n := length (c_ports c) in
  forallb (fun g =>
    match nth_error (c_ports c) g, nth_error (c_final c) g with
    | Some (_, _, owner, x), Some (ni, _, head) =>
        (* clause 1: a deliverable outgoing head *)
        negb (match head with
              | None => false
              | Some (_, dst) =>
                  existsb (fun q =>
                    match nth_error (c_ports c) q, nth_error (c_final c) q with
                    | Some (icap, _, _, x'), Some (niq, _, _) =>
                        Nat.eqb x x' && (N.of_nat (S q) =? dst) && (niq <? icap)%Z
                    | _, _ => false
                    end) (seq 0 n)
              end) &&
        (* clause 2: unread input at a draining component *)
        negb (match nth_error (c_comps c) owner with
              | Some d => drains d && (0 <? ni)%Z
              | None => false
              end)
    | _, _ => false
    end) (seq 0 n).
