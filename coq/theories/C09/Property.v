From Akita Require Import Lib.Base Lib.Fifo C09.Model.
Theorem c09_tmp : True. Proof. exact I. Qed.
Print Assumptions c09_tmp.
