(** C09 — no lost wake-ups.  Property theorems only.

    Full statement (properties.jsonl): when the event queue becomes empty, (1) no port
    holds an outgoing message whose connection could deliver it, and (2) no component
    that drains its inputs has an unread incoming message — for any mix of ticking and
    event-driven components on direct connections, whatever the send times.

    The code in /repo carries the repaired tick guard ([GuardNew], fix commit f717b29c:
    a TickNow in the instant whose tick event already ran schedules the next clock
    edge).  For it, clause (1) is proved for every topology: a connection is analysed in
    an arbitrary environment ([cstep]: any sends / retrievals on its ports by whatever
    components, any timing).  Clause (2) does not involve TickNow (NotifyRecv uses
    TickLater / ScheduleWakeNow) and is proved for a component in an arbitrary
    environment ([dstep]).  Before the fix the statement was FALSE: [c09_old_refuted]
    and [c09_ticknow_old_refuted] keep the witness for the guard as it was
    ([GuardOld]: drop whenever nextTickTime >= now).
    Projection of the executable whole-simulation model of Model.v onto [cstep]:
    proved ([c09_world_projects], C09/ProjectN.v + ContractN.v) for worlds with ANY number
    of connections (each port plugged into one of them), any components and scripts: for
    every connection x, every run of the executable model is a run of the abstract
    connection system for x; the engine contract this needs is itself proved to be an
    invariant of the world model ([c09_engine_contract_invariant]).  So clause (1) holds
    of the executable model without any checked hypothesis.
    Projection for clause (2) ([c09_component_projects], C09/Drain.v + ProjectK.v): for
    every harness-built world and every component k that drains its inputs (drain limits:
    none for an event-driven k; none or >= 1 for a ticking k), every run of the executable
    model is a run of the abstract draining-component system [estep] of Drain.v for k (k's
    incoming buffers, scheduler / pendingWakeup, k's pending events; the activation broken
    into the individual RetrieveIncoming calls; everything else is environment), so [einv]
    holds and when the run ends un-halted with no event of k pending all of k's incoming
    buffers are empty.  No checked hypothesis.
    Not covered by the projections: a component whose script does not drain (a ticking
    component with a drain limit of 0 on some port, an event-driven one with a limit) —
    such a component is outside clause (2) by its statement; [dstep] (Proofs.v, the
    coarse one-step-per-activation system of [c09_draining_component_clean]) is kept as
    the abstract statement, the executable model projects onto the finer [estep]. *)
From Akita Require Import Lib.Base Lib.Fifo Lib.Port Lib.Conn C10.Model C10.Exec C10.Proofs
     C09.Model C09.Proofs C09.Project C09.Contract C09.ProjectN C09.ContractN C09.Drain C09.ProjectK.
Local Open Scope N_scope.

(** Regression (guard before the fix): a concrete topology (two connections bridged by an
    event-driven relay, built like the harness builds it) whose run under the guard as
    coded ends — both event queues empty — with a deliverable message stranded in the
    relay's outgoing port (port 3 holds message 1002 for port "6", which has room). *)
Theorem c09_old_refuted :
  exists w0 : world, w_guard w0 = GuardOld /\
    let '(tr, w, done) := run 100 w0 [] in
    done = true /\ w_prim w = [] /\ w_sec w = [] /\
    deliverable_head w 3 = true /\ quiescent_clean w = false.
Proof. exists (witness_world GuardOld). split; [reflexivity|exact witness_old_stranded]. Qed.
Print Assumptions c09_old_refuted.

(** the same topology under the repaired guard ends clean *)
Theorem c09_witness_repaired_clean :
  let '(tr, w, done) := run 100 (witness_world GuardNew) [] in
  done = true /\ w_prim w = [] /\ w_sec w = [] /\ quiescent_clean w = true.
Proof. exact witness_new_clean. Qed.
Print Assumptions c09_witness_repaired_clean.

(** Regression, scheduler level, guard before the fix: TickNow at T, the tick at T is handled, a second
    TickNow at T is dropped with nothing pending; the repaired guard schedules T+period. *)
Theorem c09_ticknow_old_refuted :
  let s0 := mk_sched false 0 1000 true None in
  let '(s1, ev1) := tick_now GuardOld 2000 s0 in
  let s2 := mark_handled s1 2000 in
  let q2 := remove1 2000 (olist ev1) in
  let '(s3, ev3) := tick_now GuardOld 2000 s2 in
  ev1 = Some 2000 /\ q2 = [] /\ ev3 = None /\ snd (tick_now GuardNew 2000 s2) = Some 3000.
Proof. exact tick_now_old_loses_request. Qed.
Print Assumptions c09_ticknow_old_refuted.

(** Scheduler level, repaired guard: in every state satisfying the scheduler invariant
    (pending events not in the past; the latest scheduled tick is pending or was
    handled; handled times not in the future), a TickNow or TickLater leaves a tick
    event pending, and the invariant is kept — also by the engine handling the earliest
    pending tick and by time passing. *)
Theorem c09_request_leaves_tick_pending : forall s q now, sched_inv s q now ->
  (let '(s', ev) := tick_now GuardNew now s in sched_inv s' (q ++ olist ev) now /\ q ++ olist ev <> []) /\
  (let '(s', ev) := tick_later now s in sched_inv s' (q ++ olist ev) now /\ q ++ olist ev <> []) /\
  (forall t, In t q -> (forall x, In x q -> t <= x) -> sched_inv (mark_handled s t) (remove1 t q) t) /\
  (forall t, now <= t -> (forall x, In x q -> t <= x) -> sched_inv s q t).
Proof.
  intros s q now H. split; [exact (tick_now_new s q now H)|]. split; [exact (tick_later_ok s q now H)|].
  split; [intros t; exact (handle_inv s q now t H)|intros t; exact (advance_inv s q now t H)].
Qed.
Print Assumptions c09_request_leaves_tick_pending.

(** The invariant of a connection in an arbitrary environment, repaired guard: after ANY
    sequence of sends and retrievals on its ports (by any components), engine handlings
    of its tick events, clock advances and extra tick requests —
      a deliverable outgoing head  ==>  a tick was requested since the last tick started
      a tick was requested since the last tick started  ==>  a tick event is pending. *)
Theorem c09_inv : forall caps period (h : list cact) st, 1 <= period ->
  csteps GuardNew (cinit caps period) h = Some st ->
  (some_deliverable (c_ports (cs_conn st)) -> cs_dirty st = true) /\
  (cs_dirty st = true -> cs_q st <> []).
Proof.
  intros caps period h st Hp H.
  destruct (csteps_inv h _ st (cinit_inv caps period Hp) H) as (_ & Hd & Hl). split; assumption.
Qed.
Print Assumptions c09_inv.

(** Clause (1) at queue exhaustion, repaired guard, every topology / send pattern /
    capacity: when no tick event of the connection is pending, none of its ports holds
    an outgoing message whose destination has room. *)
Theorem c09_quiescent_clean : forall caps period (h : list cact) st, 1 <= period ->
  csteps GuardNew (cinit caps period) h = Some st -> cs_q st = [] ->
  forall k, deliv (c_ports (cs_conn st)) k = false.
Proof.
  intros caps period h st Hp H Hq k.
  destruct (c09_inv caps period h st Hp H) as (Hl & Hd).
  destruct (deliv (c_ports (cs_conn st)) k) eqn:E; [|reflexivity].
  exfalso. apply Hd; [apply Hl; exists k; exact E|exact Hq].
Qed.
Print Assumptions c09_quiescent_clean.

(** Clause (2): a component that drains its inputs (ticking: takes at
    least one message from every non-empty input per tick; event-driven: empties every
    input per wake-up), in an arbitrary environment (any deliveries into its ports, any
    other notifications, any timing, whatever else its activations do):
      unread input  ==>  notified since its last activation started  ==>  one of its
      tick / wake-up events is pending;
    hence when none of its events is pending, none of its ports holds an unread message. *)
Theorem c09_draining_component_clean : forall k caps period (h : list dact) st, 1 <= period ->
  dsteps (dinit k caps period) h = Some st ->
  (unread (ds_ports st) -> ds_dirty st = true) /\
  (ds_dirty st = true -> ds_q st <> []) /\
  (ds_q st = [] -> forall p, In p (ds_ports st) -> content (p_in p) = []).
Proof.
  intros k caps period h st Hp H.
  destruct (dsteps_inv h _ st (dinit_inv k caps period Hp) H) as ((_ & _ & _ & Hd) & Hu).
  split; [exact Hu|]. split; [exact Hd|].
  intros Hq p Hin. destruct (content (p_in p)) as [|x r] eqn:E; [reflexivity|].
  exfalso. apply Hd; [|exact Hq]. apply Hu. exists p. split; [exact Hin|].
  unfold in_len. rewrite E. discriminate.
Qed.
Print Assumptions c09_draining_component_clean.

(** Projection, one-connection form (every port on the same connection, indices coincide).
    For every world built the way the
    harness builds it — any ports (capacities, owners) all plugged into one direct
    connection, any scripted ticking / event-driven components, clock periods >= 1 —
    every run of the executable model IS a run of the abstract connection system
    ([csteps], related by [R]); hence the invariant [cinv] holds of it, and if it ends
    un-halted with no tick event of the connection queued, no port holds a deliverable
    message.  The engine contract the projection needs ([run_ok]: component events are
    primary and the connection's secondary; nothing is dispatched before the current time
    or while an earlier tick of the connection is pending) is no longer a hypothesis:
    [c09_engine_contract_invariant] derives it from the model's own dispatch order and
    from the fact that every scheduling path schedules at or after the current time.
    [c09_world_projects] below is the general form. *)
Theorem c09_world_projects_one_connection : forall ports comps period fuel tr,
  1 <= period -> Forall (fun d => 1 <= d_period d) comps ->
  Forall (fun p : Z * Z * nat * nat => snd p = 0%nat) ports ->
  let w0 := kick (build GuardNew ports comps [period]) in
  let wf := snd (fst (run fuel w0 tr)) in
  w_halt wf = false -> w_sec wf = [] ->
  (exists acts st', csteps GuardNew (st_init (w_ports w0) period) acts = Some st' /\ R wf st' /\ cinv st') /\
  forall k, deliv (w_ports wf) k = false.
Proof. exact built_world_projects. Qed.
Print Assumptions c09_world_projects_one_connection.

(** Projection, general form.  For every world built the way the harness builds it — any
    number of direct connections (periods >= 1), any ports each plugged into one of them,
    any scripted ticking / event-driven components (periods >= 1) — and for every
    connection x: every run of the executable model is a run of the abstract connection
    system for x ([csteps] from the fresh state, related by [Rn x]: x's ports, x's scheduler,
    x's pending tick events); hence [cinv] holds, and if the run ends un-halted with no
    tick event of x queued, none of x's ports holds a deliverable message.  No checked
    hypothesis: the engine contract is derived ([c09_engine_contract_invariant]). *)
Theorem c09_world_projects : forall ports comps periods x period fuel tr,
  Forall (fun p => 1 <= p) periods -> Forall (fun d => 1 <= d_period d) comps ->
  nth_error periods x = Some period ->
  let w0 := kick (build GuardNew ports comps periods) in
  let wf := snd (fst (run fuel w0 tr)) in
  w_halt wf = false -> xq wf x = [] ->
  exists acts st' cx, csteps GuardNew (st_initN w0 x period) acts = Some st' /\ Rn x wf st' /\ cinv st' /\
    nth_error (w_conns wf) x = Some cx /\
    forall k, deliv (loc (w_ports wf) (x_ports cx)) k = false.
Proof. exact built_world_projectsN. Qed.
Print Assumptions c09_world_projects.

(** non-vacuity of the general form: the two-connection witness topology (event-driven relay
    bridging X0 and X1) under the repaired guard; periods >= 1, the run ends un-halted with
    both queues empty, so the hypotheses hold for x = 0 and x = 1 *)
Example c09_world_projects_two_connections_nonvacuous :
  Forall (fun p => 1 <= p) [1000; 1000] /\ Forall (fun d => 1 <= d_period d) witness_comps /\
  witness_world GuardNew = kick (build GuardNew witness_ports witness_comps [1000; 1000]) /\
  let '(tr, wf, done) := run 100 (witness_world GuardNew) [] in
  w_halt wf = false /\ xq wf 0 = [] /\ xq wf 1 = [] /\ (8 <= length tr)%nat.
Proof.
  split; [repeat constructor; lia|]. split; [repeat constructor; cbn; lia|]. split; [reflexivity|].
  vm_compute. repeat split; try reflexivity; lia.
Qed.

(** The engine contract is an invariant: in every world satisfying the queue invariant
    [QIn] (both queues sorted by time, no event before the current time, component events
    primary / connection events secondary, periods >= 1) — in particular every built
    world — every run satisfies [run_okN] ([QI] / [run_ok]: the one-connection form). *)
Theorem c09_engine_contract_invariant :
  (forall fuel w, QIn w -> run_okN fuel w = true) /\
  (forall ports comps periods x period, Forall (fun p => 1 <= p) periods ->
     Forall (fun d => 1 <= d_period d) comps -> nth_error periods x = Some period ->
     QIn (kick (build GuardNew ports comps periods))) /\
  (forall fuel w, QI w -> run_ok fuel w = true) /\
  (forall ports comps period, 1 <= period -> Forall (fun d => 1 <= d_period d) comps ->
     Forall (fun p : Z * Z * nat * nat => snd p = 0%nat) ports ->
     QI (kick (build GuardNew ports comps [period]))).
Proof.
  split; [exact run_okN_holds|]. split; [|split; [exact run_ok_holds|exact built_world_qi]].
  intros ports comps periods x period Hp Hc Hx. exact (proj1 (proj2 (built_worldN ports comps periods x period Hp Hc Hx))).
Qed.
Print Assumptions c09_engine_contract_invariant.

(** Projection, clause 2.  For every harness-built world (any connections with periods
    >= 1, any ports, any scripted components with periods >= 1) and every component k
    that drains its inputs — one drain / relay entry per port of k; [dr_ok]: no drain
    limit for an event-driven k, no limit or a limit >= 1 for a ticking k — every un-halted
    run of the executable model is a run of the abstract draining-component system of
    Drain.v for k ([esteps] from the fresh state [st_initK], related by [RK k]: the incoming
    buffers of k's ports, k's scheduler, pendingWakeup and pending events), so [einv] holds;
    and if no event of k is pending at the end, every incoming buffer of k's ports is empty.
    No checked hypothesis (the engine contract is derived, as for clause 1). *)
Theorem c09_component_projects : forall ports comps periods k d fuel tr,
  Forall (fun p => 1 <= p) periods -> Forall (fun d => 1 <= d_period d) comps ->
  nth_error comps k = Some d ->
  length (d_drain d) = length (ports_where (map (fun p : Z * Z * nat * nat => snd (fst p)) ports) k) ->
  length (d_relay d) = length (ports_where (map (fun p : Z * Z * nat * nat => snd (fst p)) ports) k) ->
  Forall (dr_ok (dkind_of (d_kind d))) (d_drain d) ->
  let wb := build GuardNew ports comps periods in
  let wf := snd (fst (run fuel (kick wb) tr)) in
  w_halt wf = false ->
  (exists acts st', esteps (st_initK wb k d) acts = Some st' /\ RK k false wf st' /\ einv st') /\
  (kq wf k = [] ->
   forall c g, nth_error (w_comps wf) k = Some c -> In g (k_ports c) ->
   forall p, nth_error (w_ports wf) g = Some p -> size (p_in p) = 0%Z).
Proof.
  intros ports comps periods k d fuel tr Hpp Hcp Hd Hl1 Hl2 Hdr wb wf Hh. split.
  - exact (built_world_runs_projectK ports comps periods k d fuel tr Hpp Hcp Hd Hl1 Hl2 Hdr Hh).
  - exact (built_world_projectsK ports comps periods k d fuel tr Hpp Hcp Hd Hl1 Hl2 Hdr Hh).
Qed.
Print Assumptions c09_component_projects.

(** the abstract fine-grained draining-component system: its invariant, and what it gives
    at queue exhaustion (every step of [estep], in any environment) *)
Theorem c09_draining_component_steps_clean : forall st h st',
  einv st -> esteps st h = Some st' -> einv st' /\
  (e_q st' = [] -> e_act st' = false -> forallb bempty (e_ins st') = true).
Proof.
  intros st h st' Hi E. pose proof (esteps_inv h st st' Hi E) as Hi'. split; [exact Hi'|].
  exact (einv_quiescent st' Hi').
Qed.
Print Assumptions c09_draining_component_steps_clean.

(** non-vacuity of clause 2's projection: in the two-connection witness topology every
    component drains its inputs (ticking with limit 1 per port, event-driven without a
    limit), the run ends un-halted with no event pending, and messages were received *)
Example c09_component_projects_nonvacuous :
  Forall (fun p => 1 <= p) [1000; 1000] /\ Forall (fun d => 1 <= d_period d) witness_comps /\
  Forall (fun kd : nat * compd =>
     length (d_drain (snd kd)) = length (ports_where (map (fun p : Z * Z * nat * nat => snd (fst p)) witness_ports) (fst kd)) /\
     length (d_relay (snd kd)) = length (ports_where (map (fun p : Z * Z * nat * nat => snd (fst p)) witness_ports) (fst kd)) /\
     Forall (dr_ok (dkind_of (d_kind (snd kd)))) (d_drain (snd kd)))
    (combine (seq 0 3) witness_comps) /\
  let '(tr, wf, done) := run 100 (kick (build GuardNew witness_ports witness_comps [1000; 1000])) [] in
  w_halt wf = false /\ kq wf 0 = [] /\ kq wf 1 = [] /\ kq wf 2 = [] /\ (8 <= length tr)%nat.
Proof.
  split; [repeat constructor; lia|]. split; [repeat constructor; cbn; lia|]. split.
  - repeat constructor; cbn; lia.
  - vm_compute. repeat split; try reflexivity; lia.
Qed.

(** non-vacuity: a ticking sender, an event-driven relay and a ticking receiver on one
    connection; the run respects the contract and ends un-halted with empty queues *)
Example c09_world_projects_nonvacuous :
  let ports := [(2%Z, 2%Z, 0%nat, 0%nat); (2%Z, 2%Z, 1%nat, 0%nat); (1%Z, 2%Z, 1%nat, 0%nat); (2%Z, 1%Z, 2%nat, 0%nat)] in
  let comps := [mk_compd KTick 1000 [Some 1%nat] [None]
                  [(1000, 0%nat, mk_msg 1 1 2 10); (1000, 0%nat, mk_msg 2 1 2 20); (2500, 0%nat, mk_msg 3 1 4 30)];
                mk_compd KEvent 1000 [None; None] [Some (2%nat, 4); None] [];
                mk_compd KTick 1000 [Some 1%nat] [None] []] in
  let w0 := kick (build GuardNew ports comps [1000]) in
  Forall (fun d => 1 <= d_period d) comps /\
  let '(tr, wf, done) := run 200 w0 [] in
  done = true /\ w_halt wf = false /\ w_prim wf = [] /\ w_sec wf = [] /\ (10 <= length tr)%nat /\
  Forall (fun p : Z * Z * nat * nat => snd p = 0%nat) ports.
Proof.
  split; [repeat constructor; cbn; lia|].
  vm_compute. repeat split; try reflexivity; try lia. repeat constructor.
Qed.

(** Non-vacuity: the hypotheses are met by a real run of the abstract system — a send,
    the tick that delivers it, a retrieval; and the scheduler invariant holds initially. *)
Example c09_nonvacuous :
  let h := [CSend 0 (mk_msg 1 1 2 7); CHandle 0; CRetrieve 1; CAdvance 1000; CHandle 1000] in
  (exists st, csteps GuardNew (cinit [(1, 1); (1, 1)]%Z 1000) h = Some st /\ cs_q st = []) /\
  (exists st, dsteps (dinit DEvent [(2, 1)]%Z 1000)
                [DDeliver 0 (Some (mk_msg 1 2 1 7)); DDeliver 0 (Some (mk_msg 2 2 1 8)); DHandle 0 [2%nat] false]
              = Some st /\ ds_q st = []) /\
  sched_inv (mk_sched false 0 1000 true None) [] 0.
Proof.
  split; [|split].
  - eexists. split; [vm_compute; reflexivity|reflexivity].
  - eexists. split; [vm_compute; reflexivity|reflexivity].
  - unfold sched_inv. cbn [s_period s_has s_next s_handled].
    split; [lia|]. split; [intros x []|]. split; [discriminate|]. intros x Hx. discriminate.
Qed.
