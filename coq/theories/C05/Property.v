(** C05 — Pause is a quiescent point.  Property theorems only. *)
From Coq Require Import Permutation.
From Akita Require Import Lib.Base Lib.Lts C05.Model C05.Proofs1 C05.Proofs2 C05.Proofs3 C05.Proofs4.
Local Open Scope N_scope.

(** Parallel engine: for every program, every initial queue, every well-formed
    (alternating) Pause/Continue script and EVERY goroutine interleaving, the label
    sequence is quiescent: no handler is executing when a Pause returns and none
    starts until Continue is called.  No mutex misuse fault occurs, and while the
    pause is held there is no live worker at all. *)
Theorem c05_parallel_quiescent : forall prog init script o,
  alternating false script = true ->
  let s := p_run prog o (p_init init script) in
  quiescent (rev (p_trace s)) = true /\ p_fault s = false /\
  (p_held s = true -> count_running (p_workers s) = 0 /\ p_workers s = []).
Proof. exact parallel_quiescent. Qed.
Print Assumptions c05_parallel_quiescent.

(** Step form: from a reachable state in which the pause is held, no enabled step
    of any thread is a handler start. *)
Theorem c05_parallel_no_start_while_held : forall prog init script o t s',
  alternating false script = true ->
  let s := p_run prog o (p_init init script) in
  p_held s = true -> p_step prog t s = Some s' ->
  forall id, p_trace s' <> HStart id :: p_trace s.
Proof. exact parallel_no_start_while_held. Qed.
Print Assumptions c05_parallel_no_start_while_held.

(** The monitor (pauseEngine / continueEngine / pauseForInspection under
    engineControlMu) only ever issues alternating call sequences, whatever the
    request sequence. *)
Theorem c05_monitor_alternates : forall rs paused,
  alternating paused (monitor_calls paused rs) = true.
Proof. exact monitor_alternating. Qed.
Print Assumptions c05_monitor_alternates.

(** Serial engine: the statement is FALSE.  Two witness interleavings:
    (1) the engine loads the flag as 0, Pause runs to completion, then the handler starts;
    (2) Pause is called and returns while a handler is executing. *)
Theorem c05_serial_refuted :
  (exists o, let s := s_run wit_prog o (s_init wit_init [OpPause]) in
             rev (s_trace s) = [PauseRet; HStart 1] /\ s_held s = true /\
             quiescent (rev (s_trace s)) = false) /\
  (exists o, let s := s_run wit_prog o (s_init wit_init [OpPause]) in
             rev (s_trace s) = [HStart 1; PauseRet] /\ s_held s = true /\
             quiescent (rev (s_trace s)) = false).
Proof.
  split.
  - exists wit_oracle_starts. destruct serial_refuted_starts as [A [B [_ D]]]. auto.
  - exists wit_oracle_running. destruct serial_refuted_running as [A [B [_ D]]]. auto.
Qed.
Print Assumptions c05_serial_refuted.

(** What the serial engine does guarantee, for every program, script (any
    sequence of Pause/Continue calls) and interleaving: handlers never overlap, and
    between the return of a Pause and the next call of Continue at most one
    handler is active (one already executing, or exactly one start). *)
Theorem c05_serial_at_most_one : forall prog init script o,
  at_most_one (rev (s_trace (s_run prog o (s_init init script)))) = true.
Proof. exact serial_at_most_one. Qed.
Print Assumptions c05_serial_at_most_one.

(** The parallel engine WITHOUT the pause lock around the round (the mutation used
    in the self-test) loses quiescence: regression witness. *)
Theorem c05_parallel_nolock_refuted :
  let s := run (p_step_nolock wit_prog) [TE; TE; TE; TW 0%nat; TC] (p_init wit_init [OpPause]) in
  rev (p_trace s) = [HStart 1; PauseRet] /\ quiescent (rev (p_trace s)) = false.
Proof. exact parallel_nolock_refuted. Qed.
Print Assumptions c05_parallel_nolock_refuted.

(** Pause/Continue never lose or duplicate an event: whenever Run returns, the
    handled events are exactly the scheduled ones (as multisets), for every
    script and interleaving. *)
Theorem c05_serial_exactly_once : forall prog init script o,
  let s := s_run prog o (s_init init script) in
  s_pc s = SDone -> Permutation (s_handled s) (s_sched s).
Proof. exact serial_exactly_once. Qed.
Print Assumptions c05_serial_exactly_once.

(** After Continue the run proceeds: for every finite program (a cost function
    that every handler strictly decreases), from ANY reachable state in which the
    controller has finished and the flag is clear, scheduling the engine goroutine
    reaches the end of Run with every scheduled event handled. *)
Theorem c05_continue_live : forall prog (cost : ev -> nat),
  (forall e, (1 + csum cost (prog (ev_id e)) <= cost e)%nat) ->
  forall init script o,
  let s := s_run prog o (s_init init script) in
  s_c s = CIdle -> s_script s = [] -> s_flag s = false ->
  exists k, let s' := s_run prog (repeat TE k) s in
            s_pc s' = SDone /\ Permutation (s_handled s') (s_sched s').
Proof.
  intros prog cost Hc init script o s Hci Hsc Hfl.
  apply (serial_continue_live_from prog cost Hc).
  split; [|auto].
  apply (run_invariant (s_step prog) LInv (LInv_step prog)). apply LInv_init.
Qed.
Print Assumptions c05_continue_live.

(** TWO pauser goroutines on the parallel engine, each with its own alternating
    Pause/Continue script (the pause lock records its owner): for every program and
    EVERY interleaving — including overlapping Pause calls while a round is in
    progress — no handler is executing when either Pause returns and none starts
    until that pauser calls Continue; no mutex fault. *)
Theorem c05_two_pausers_quiescent : forall prog init s1 s2 o,
  alternating false s1 = true -> alternating false s2 = true ->
  let s := run (m2_step prog false) o (m2_init init s1 s2) in
  quiescent (rev (m_trace s)) = true /\ m_fault s = false /\ (pheld s = true -> m_workers s = []).
Proof. exact two_pausers_quiescent. Qed.
Print Assumptions c05_two_pausers_quiescent.

(** With an "already paused" atomic flag swapped BEFORE pauseLock is taken (an
    idempotent-looking Pause), the guarantee is lost for the second pauser: its Pause
    returns at once while the first is still waiting for the round and a handler is
    executing.  (Every Pause caller must pass through the mutex Run holds.) *)
Theorem c05_two_pausers_flag_refuted :
  exists o, let s := run (m2_step wit_prog true) o (m2_init wit_init [OpPause; OpContinue] [OpPause; OpContinue]) in
  rev (m_trace s) = [HStart 1; PauseRet] /\ quiescent (rev (m_trace s)) = false /\ m_lock s = Some OwnEngine.
Proof.
  exists [T2E; T2E; T2E; T2W 0%nat; T2P false; T2P true].
  destruct two_pausers_flag_refuted as [A [B [_ D]]]. auto.
Qed.
Print Assumptions c05_two_pausers_flag_refuted.

(** Pause / Continue WITHOUT pauseMu (the "flag is atomic, Broadcast needs no lock"
    variant) loses the wake-up: Continue's Broadcast lands between waitForResume's
    re-check of the flag and its registration on the condition variable; the engine
    then sleeps with the flag clear, the controller is done, events are pending and
    no thread is enabled — the run never proceeds.  (With the lock this window is
    closed: the waiter holds pauseMu from the re-check until it is registered, which
    is what c05_continue_live rests on.) *)
Theorem c05_serial_nolock_lost_wakeup_refuted :
  exists o, let s := run (s_step_nl wit_prog) o (s_init wit_init [OpPause; OpContinue]) in
  s_pc s = SParked /\ s_flag s = false /\ s_c s = CIdle /\ s_script s = [] /\ s_pq s <> [] /\
  s_step_nl wit_prog TE s = None /\ s_step_nl wit_prog TC s = None.
Proof.
  exists [TC; TE; TE; TE; TE; TC; TC; TC; TE]. vm_compute. repeat split; try reflexivity. discriminate.
Qed.
Print Assumptions c05_serial_nolock_lost_wakeup_refuted.

(** Non-vacuity: a 3-event program with a same-instant child, paused and continued
    once; the hypotheses of the theorems hold and the run completes. *)
Definition nv_prog : program := fun id => if id =? 1 then [mk_ev 3 10 true] else [].
Definition nv_init : list ev := [mk_ev 1 10 false; mk_ev 2 20 false].
Definition nv_cost (e : ev) : nat := if ev_id e =? 1 then 2%nat else 1%nat.

Example c05_nonvacuous :
  alternating false [OpPause; OpContinue] = true /\
  (forall e, (1 + csum nv_cost (nv_prog (ev_id e)) <= nv_cost e)%nat) /\
  (let s := s_run nv_prog ([TE; TE; TE; TC; TC; TC; TE; TE; TE; TE; TE; TE] ++ repeat TC 5 ++ repeat TE 20)
                  (s_init nv_init [OpPause; OpContinue]) in
   s_pc s = SDone /\ rev (s_trace s) = [HStart 1; PauseRet; HEnd 1; ContCall; HStart 3; HEnd 3; HStart 2; HEnd 2]) /\
  (let s := p_run nv_prog ([TE; TE; TE; TW 0%nat; TC; TW 0%nat] ++ concat (repeat [TE; TC; TW 0%nat; TW 0%nat] 14))
                  (p_init nv_init [OpPause; OpContinue]) in
   p_pc s = PDone /\ rev (p_trace s) = [HStart 1; HEnd 1; PauseRet; ContCall; HStart 3; HEnd 3; HStart 2; HEnd 2]).
Proof.
  split; [reflexivity|]. split.
  - intro e. unfold nv_cost, nv_prog, csum. destruct (ev_id e =? 1); cbn; lia.
  - split; vm_compute; split; reflexivity.
Qed.
