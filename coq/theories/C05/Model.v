(** C05 — Pause is a quiescent point.

    Interleaving models (Lib/Lts.v) of
      - timing/serialengine.go : Run / waitForResume / dispatchNext ∥ Pause / Continue
      - timing/parallelengine.go : Run (pauseLock held across a round) / tempWorkerRun ∥ Pause / Continue
      - monitoring2/monitor.go : pauseEngine / continueEngine / pauseForInspection (the
        calls they issue to the engine, serialised by engineControlMu)
    at the granularity of the synchronisation operations the Go code performs.
    Definitions only; proofs are in Proofs*.v. *)
From Akita Require Import Lib.Base Lib.Lts.
Local Open Scope N_scope.

(** ** Events, programs, queues *)

Record ev := mk_ev { ev_id : N; ev_time : N; ev_sec : bool }.

Definition ev_eqb (a b : ev) : bool :=
  (ev_id a =? ev_id b) && (ev_time a =? ev_time b) && Bool.eqb (ev_sec a) (ev_sec b).

(** A program maps an event (by id) to the events its handler schedules. *)
Definition program := N -> list ev.

Fixpoint prog_lookup (al : list (N * list ev)) (id : N) : list ev :=
  match al with
  | [] => []
  | (k, v) :: r => if k =? id then v else prog_lookup r id
  end.

(** Abstract event queue: ordered by time, FIFO among equal times (the (time, seq)
    order of eventHeap; heap = sorted list is C01's business and assumed here). *)
Fixpoint q_insert (e : ev) (q : list ev) : list ev :=
  match q with
  | [] => [e]
  | x :: r => if ev_time e <? ev_time x then e :: q else x :: q_insert e r
  end.

Definition q_push (e : ev) (pq sq : list ev) : list ev * list ev :=
  if ev_sec e then (pq, q_insert e sq) else (q_insert e pq, sq).

Fixpoint q_push_all (es : list ev) (pq sq : list ev) : list ev * list ev :=
  match es with
  | [] => (pq, sq)
  | e :: r => let '(pq', sq') := q_push e pq sq in q_push_all r pq' sq'
  end.

(** SerialEngine.nextEvent *)
Definition next_event (pq sq : list ev) : option (ev * list ev * list ev) :=
  match pq, sq with
  | [], [] => None
  | [], s :: sr => Some (s, [], sr)
  | p :: pr, [] => Some (p, pr, [])
  | p :: pr, s :: sr =>
      if ev_time p <=? ev_time s then Some (p, pr, sq) else Some (s, pq, sr)
  end.

(** ** Observable labels (ghost trace) *)

Inductive lbl :=
| HStart (id : N)     (* a handler starts executing *)
| HEnd (id : N)       (* it returns *)
| PauseRet            (* a call of Pause returned *)
| ContCall.           (* Continue is called *)

Definition lbl_eqb (a b : lbl) : bool :=
  match a, b with
  | HStart x, HStart y => x =? y
  | HEnd x, HEnd y => x =? y
  | PauseRet, PauseRet => true
  | ContCall, ContCall => true
  | _, _ => false
  end.

(** Controller script: the sequence of engine calls issued by the other goroutine. *)
Inductive cop := OpPause | OpContinue.

Inductive tid := TE (* engine goroutine *) | TC (* controller goroutine *) | TW (i : nat) (* i-th temp worker of the round *).

(** ** Serial engine ∥ controller *)

Inductive spc :=
| SCheck        (* top of the loop: noMoreEvent() *)
| SLoad         (* atomic.LoadInt32(&e.paused) *)
| SWaitLock     (* waitForResume: pauseMu.Lock() *)
| SWaitLoop     (* holding pauseMu: load the flag *)
| SParked       (* inside pauseCond.Wait(): mutex released, sleeping *)
| SRelock       (* woken: re-acquire pauseMu *)
| SWaitUnlock   (* pauseMu.Unlock() *)
| SDispatch     (* dispatchNext: pop, set time, call handler *)
| SRunning (e : ev)  (* handler executing *)
| SDone         (* Run returned *)
| SRegister.    (* pauseCond.Wait(), first half: the flag was seen set; about to add itself to the
                   notify list and release pauseMu (still holding it) *)

Inductive cpc :=
| CIdle
| CP1 | CP2                (* Pause: locked ; flag stored *)
| CC0 | CC1 | CC2 | CC3.   (* Continue: called ; locked ; flag stored ; broadcast done *)

Record sstate := mk_s {
  s_pc : spc; s_c : cpc; s_script : list cop;
  s_flag : bool; s_mu : bool; s_woken : bool;
  s_pq : list ev; s_sq : list ev; s_now : N;
  s_held : bool;             (* ghost: a Pause returned and Continue was not called since *)
  s_sched : list ev;         (* ghost: every event ever scheduled *)
  s_handled : list ev;       (* ghost: finished handlers, newest first *)
  s_trace : list lbl         (* ghost: labels, newest first *)
}.

Definition s_init (init : list ev) (script : list cop) : sstate :=
  let '(pq, sq) := q_push_all init [] [] in
  mk_s SCheck CIdle script false false false pq sq 0 false init [] [].

Section Serial.
  Variable prog : program.

  Definition s_step_engine (s : sstate) : option sstate :=
    match s_pc s with
    | SCheck =>
        match s_pq s, s_sq s with
        | [], [] => Some (mk_s SDone (s_c s) (s_script s) (s_flag s) (s_mu s) (s_woken s) (s_pq s) (s_sq s) (s_now s) (s_held s) (s_sched s) (s_handled s) (s_trace s))
        | _, _ => Some (mk_s SLoad (s_c s) (s_script s) (s_flag s) (s_mu s) (s_woken s) (s_pq s) (s_sq s) (s_now s) (s_held s) (s_sched s) (s_handled s) (s_trace s))
        end
    | SLoad =>
        let pc' := if s_flag s then SWaitLock else SDispatch in
        Some (mk_s pc' (s_c s) (s_script s) (s_flag s) (s_mu s) (s_woken s) (s_pq s) (s_sq s) (s_now s) (s_held s) (s_sched s) (s_handled s) (s_trace s))
    | SWaitLock =>
        if s_mu s then None
        else Some (mk_s SWaitLoop (s_c s) (s_script s) (s_flag s) true (s_woken s) (s_pq s) (s_sq s) (s_now s) (s_held s) (s_sched s) (s_handled s) (s_trace s))
    | SWaitLoop =>
        if s_flag s
        then (* enter pauseCond.Wait() *)
          Some (mk_s SRegister (s_c s) (s_script s) (s_flag s) (s_mu s) (s_woken s) (s_pq s) (s_sq s) (s_now s) (s_held s) (s_sched s) (s_handled s) (s_trace s))
        else Some (mk_s SWaitUnlock (s_c s) (s_script s) (s_flag s) (s_mu s) (s_woken s) (s_pq s) (s_sq s) (s_now s) (s_held s) (s_sched s) (s_handled s) (s_trace s))
    | SParked =>
        if s_woken s
        then Some (mk_s SRelock (s_c s) (s_script s) (s_flag s) (s_mu s) false (s_pq s) (s_sq s) (s_now s) (s_held s) (s_sched s) (s_handled s) (s_trace s))
        else None
    | SRelock =>
        if s_mu s then None
        else Some (mk_s SWaitLoop (s_c s) (s_script s) (s_flag s) true (s_woken s) (s_pq s) (s_sq s) (s_now s) (s_held s) (s_sched s) (s_handled s) (s_trace s))
    | SWaitUnlock =>
        Some (mk_s SDispatch (s_c s) (s_script s) (s_flag s) false (s_woken s) (s_pq s) (s_sq s) (s_now s) (s_held s) (s_sched s) (s_handled s) (s_trace s))
    | SDispatch =>
        match next_event (s_pq s) (s_sq s) with
        | None => None   (* unreachable: the loop checked noMoreEvent and only the engine pops *)
        | Some (e, pq', sq') =>
            Some (mk_s (SRunning e) (s_c s) (s_script s) (s_flag s) (s_mu s) (s_woken s) pq' sq' (ev_time e) (s_held s) (s_sched s) (s_handled s)
                       (HStart (ev_id e) :: s_trace s))
        end
    | SRunning e =>
        let '(pq', sq') := q_push_all (prog (ev_id e)) (s_pq s) (s_sq s) in
        Some (mk_s SCheck (s_c s) (s_script s) (s_flag s) (s_mu s) (s_woken s) pq' sq' (s_now s) (s_held s)
                   (prog (ev_id e) ++ s_sched s) (e :: s_handled s) (HEnd (ev_id e) :: s_trace s))
    | SDone => None
    | SRegister =>
        (* notifyListAdd; c.L.Unlock(); sleep: from here on a Broadcast wakes the engine *)
        Some (mk_s SParked (s_c s) (s_script s) (s_flag s) false false (s_pq s) (s_sq s) (s_now s) (s_held s) (s_sched s) (s_handled s) (s_trace s))
    end.

  Definition s_step_ctl (s : sstate) : option sstate :=
    match s_c s with
    | CIdle =>
        match s_script s with
        | [] => None
        | OpPause :: _ =>
            if s_mu s then None
            else Some (mk_s (s_pc s) CP1 (s_script s) (s_flag s) true (s_woken s) (s_pq s) (s_sq s) (s_now s) (s_held s) (s_sched s) (s_handled s) (s_trace s))
        | OpContinue :: _ =>
            Some (mk_s (s_pc s) CC0 (s_script s) (s_flag s) (s_mu s) (s_woken s) (s_pq s) (s_sq s) (s_now s) false (s_sched s) (s_handled s) (ContCall :: s_trace s))
        end
    | CP1 => Some (mk_s (s_pc s) CP2 (s_script s) true (s_mu s) (s_woken s) (s_pq s) (s_sq s) (s_now s) (s_held s) (s_sched s) (s_handled s) (s_trace s))
    | CP2 => Some (mk_s (s_pc s) CIdle (tl (s_script s)) (s_flag s) false (s_woken s) (s_pq s) (s_sq s) (s_now s) true (s_sched s) (s_handled s) (PauseRet :: s_trace s))
    | CC0 =>
        if s_mu s then None
        else Some (mk_s (s_pc s) CC1 (s_script s) (s_flag s) true (s_woken s) (s_pq s) (s_sq s) (s_now s) (s_held s) (s_sched s) (s_handled s) (s_trace s))
    | CC1 => Some (mk_s (s_pc s) CC2 (s_script s) false (s_mu s) (s_woken s) (s_pq s) (s_sq s) (s_now s) (s_held s) (s_sched s) (s_handled s) (s_trace s))
    | CC2 =>
        let w := match s_pc s with SParked => true | _ => s_woken s end in
        Some (mk_s (s_pc s) CC3 (s_script s) (s_flag s) (s_mu s) w (s_pq s) (s_sq s) (s_now s) (s_held s) (s_sched s) (s_handled s) (s_trace s))
    | CC3 => Some (mk_s (s_pc s) CIdle (tl (s_script s)) (s_flag s) false (s_woken s) (s_pq s) (s_sq s) (s_now s) (s_held s) (s_sched s) (s_handled s) (s_trace s))
    end.

  Definition s_step (t : tid) (s : sstate) : option sstate :=
    match t with
    | TE => s_step_engine s
    | TC => s_step_ctl s
    | TW _ => None
    end.

  Definition s_run := run s_step.

  (** Variant: Pause and Continue WITHOUT pauseMu ("the flag is atomic; Broadcast does
      not need the lock") — regression model for the lost wake-up. *)
  Definition s_step_ctl_nl (s : sstate) : option sstate :=
    match s_c s with
    | CIdle =>
        match s_script s with
        | [] => None
        | OpPause :: r =>
            Some (mk_s (s_pc s) CIdle r true (s_mu s) (s_woken s) (s_pq s) (s_sq s) (s_now s) true (s_sched s) (s_handled s) (PauseRet :: s_trace s))
        | OpContinue :: _ =>
            Some (mk_s (s_pc s) CC1 (s_script s) (s_flag s) (s_mu s) (s_woken s) (s_pq s) (s_sq s) (s_now s) false (s_sched s) (s_handled s) (ContCall :: s_trace s))
        end
    | CC1 => Some (mk_s (s_pc s) CC2 (s_script s) false (s_mu s) (s_woken s) (s_pq s) (s_sq s) (s_now s) (s_held s) (s_sched s) (s_handled s) (s_trace s))
    | CC2 =>
        let w := match s_pc s with SParked => true | _ => s_woken s end in
        Some (mk_s (s_pc s) CIdle (tl (s_script s)) (s_flag s) (s_mu s) w (s_pq s) (s_sq s) (s_now s) (s_held s) (s_sched s) (s_handled s) (s_trace s))
    | _ => None
    end.

  Definition s_step_nl (t : tid) (s : sstate) : option sstate :=
    match t with
    | TE => s_step_engine s
    | TC => s_step_ctl_nl s
    | TW _ => None
    end.
End Serial.

(** ** Parallel engine ∥ controller *)

Inductive ppc :=
| PCheck       (* hasMoreEvents() *)
| PLock        (* pauseLock.Lock() *)
| PRound       (* determineWhatToRun + check-out + pop every event with time = now + go tempWorkerRun *)
| PWait        (* waitGroup.Wait() *)
| PUnlock      (* pauseLock.Unlock() *)
| PDone.

Inductive wst := WSpawned | WRunning | WFinished.

Record pstate := mk_p {
  p_pc : ppc; p_script : list cop;
  p_lock : bool;
  p_pq : list ev; p_sq : list ev; p_now : N;
  p_workers : list (ev * wst);
  p_fault : bool;            (* fatal error: unlock of unlocked mutex *)
  p_held : bool;             (* ghost *)
  p_sched : list ev; p_handled : list ev; p_trace : list lbl
}.

Definition p_init (init : list ev) (script : list cop) : pstate :=
  let '(pq, sq) := q_push_all init [] [] in
  mk_p PCheck script false pq sq 0 [] false false init [] [].

(** pop every event whose time is [now] from the front of a time-ordered queue *)
Fixpoint pop_at (now : N) (q : list ev) : list ev * list ev :=
  match q with
  | [] => ([], [])
  | x :: r => if ev_time x =? now then let '(a, b) := pop_at now r in (x :: a, b) else ([], q)
  end.

Definition max_time : N := 18446744073709551615.

Definition earliest (q : list ev) : N := match q with [] => max_time | x :: _ => ev_time x end.

Fixpoint all_finished (ws : list (ev * wst)) : bool :=
  match ws with
  | [] => true
  | (_, WFinished) :: r => all_finished r
  | _ => false
  end.

Fixpoint upd_worker (i : nat) (f : ev * wst -> option (ev * wst)) (ws : list (ev * wst)) : option (list (ev * wst)) :=
  match ws, i with
  | [], _ => None
  | w :: r, O => match f w with Some w' => Some (w' :: r) | None => None end
  | w :: r, S j => match upd_worker j f r with Some r' => Some (w :: r') | None => None end
  end.

Section Parallel.
  Variable prog : program.

  Definition p_step_engine (s : pstate) : option pstate :=
    match p_pc s with
    | PCheck =>
        match p_pq s, p_sq s with
        | [], [] => Some (mk_p PDone (p_script s) (p_lock s) (p_pq s) (p_sq s) (p_now s) (p_workers s) (p_fault s) (p_held s) (p_sched s) (p_handled s) (p_trace s))
        | _, _ => Some (mk_p PLock (p_script s) (p_lock s) (p_pq s) (p_sq s) (p_now s) (p_workers s) (p_fault s) (p_held s) (p_sched s) (p_handled s) (p_trace s))
        end
    | PLock =>
        if p_lock s then None
        else Some (mk_p PRound (p_script s) true (p_pq s) (p_sq s) (p_now s) (p_workers s) (p_fault s) (p_held s) (p_sched s) (p_handled s) (p_trace s))
    | PRound =>
        let pt := earliest (p_pq s) in
        let st := earliest (p_sq s) in
        if pt <=? st
        then let '(es, pq') := pop_at pt (p_pq s) in
             Some (mk_p PWait (p_script s) (p_lock s) pq' (p_sq s) pt (map (fun e => (e, WSpawned)) es) (p_fault s) (p_held s) (p_sched s) (p_handled s) (p_trace s))
        else let '(es, sq') := pop_at st (p_sq s) in
             Some (mk_p PWait (p_script s) (p_lock s) (p_pq s) sq' st (map (fun e => (e, WSpawned)) es) (p_fault s) (p_held s) (p_sched s) (p_handled s) (p_trace s))
    | PWait =>
        if all_finished (p_workers s)
        then Some (mk_p PUnlock (p_script s) (p_lock s) (p_pq s) (p_sq s) (p_now s) [] (p_fault s) (p_held s) (p_sched s) (p_handled s) (p_trace s))
        else None
    | PUnlock =>
        if p_lock s
        then Some (mk_p PCheck (p_script s) false (p_pq s) (p_sq s) (p_now s) (p_workers s) (p_fault s) (p_held s) (p_sched s) (p_handled s) (p_trace s))
        else Some (mk_p PDone (p_script s) false (p_pq s) (p_sq s) (p_now s) (p_workers s) true (p_held s) (p_sched s) (p_handled s) (p_trace s))
    | PDone => None
    end.

  Definition p_step_worker (i : nat) (s : pstate) : option pstate :=
    match nth_error (p_workers s) i with
    | Some (e, WSpawned) =>
        match upd_worker i (fun _ => Some (e, WRunning)) (p_workers s) with
        | Some ws => Some (mk_p (p_pc s) (p_script s) (p_lock s) (p_pq s) (p_sq s) (p_now s) ws (p_fault s) (p_held s) (p_sched s) (p_handled s) (HStart (ev_id e) :: p_trace s))
        | None => None
        end
    | Some (e, WRunning) =>
        match upd_worker i (fun _ => Some (e, WFinished)) (p_workers s) with
        | Some ws =>
            let '(pq', sq') := q_push_all (prog (ev_id e)) (p_pq s) (p_sq s) in
            Some (mk_p (p_pc s) (p_script s) (p_lock s) pq' sq' (p_now s) ws (p_fault s) (p_held s)
                       (prog (ev_id e) ++ p_sched s) (e :: p_handled s) (HEnd (ev_id e) :: p_trace s))
        | None => None
        end
    | _ => None
    end.

  (** Pause = pauseLock.Lock(); Continue = pauseLock.Unlock(). *)
  Definition p_step_ctl (s : pstate) : option pstate :=
    match p_script s with
    | [] => None
    | OpPause :: r =>
        if p_lock s then None
        else Some (mk_p (p_pc s) r true (p_pq s) (p_sq s) (p_now s) (p_workers s) (p_fault s) true (p_sched s) (p_handled s) (PauseRet :: p_trace s))
    | OpContinue :: r =>
        if p_lock s
        then Some (mk_p (p_pc s) r false (p_pq s) (p_sq s) (p_now s) (p_workers s) (p_fault s) false (p_sched s) (p_handled s) (ContCall :: p_trace s))
        else Some (mk_p (p_pc s) r false (p_pq s) (p_sq s) (p_now s) (p_workers s) true false (p_sched s) (p_handled s) (ContCall :: p_trace s))
    end.

  Definition p_step (t : tid) (s : pstate) : option pstate :=
    if p_fault s then None else
    match t with
    | TE => p_step_engine s
    | TC => p_step_ctl s
    | TW i => p_step_worker i s
    end.

  Definition p_run := run p_step.
End Parallel.

(** The parallel-engine variant with the pause lock NOT taken around the round
    (mutation; used for a regression lemma). *)

(** ** Trace acceptors (the property, as automata over label sequences) *)

(** quiescence: (held, number of open handlers) *)
Definition q_acc := (bool * N)%type.

Definition q_astep (a : q_acc) (l : lbl) : option q_acc :=
  let '(held, open) := a in
  match l with
  | HStart _ => if held then None else Some (held, open + 1)
  | HEnd _ => Some (held, open - 1)
  | PauseRet => if open =? 0 then Some (true, open) else None
  | ContCall => Some (false, open)
  end.

Fixpoint arun {A} (f : A -> lbl -> option A) (tr : list lbl) (a : A) : option A :=
  match tr with
  | [] => Some a
  | l :: r => match f a l with Some a' => arun f r a' | None => None end
  end.

Definition accepts {A} (f : A -> lbl -> option A) (a0 : A) (tr : list lbl) : bool :=
  match arun f tr a0 with Some _ => true | None => false end.

(** [quiescent tr]: in the chronological label sequence [tr], no handler is open
    when a Pause returns and none starts before the next call of Continue. *)
Definition quiescent (tr : list lbl) : bool := accepts q_astep (false, 0) tr.

(** What the serial engine does guarantee: during one pause (from the return of
    Pause to the next call of Continue) at most one handler is active: either one
    was executing when Pause returned and none starts, or exactly one starts. *)
Definition o_acc := (bool * N * N)%type.   (* held, open, budget *)

Definition o_astep (a : o_acc) (l : lbl) : option o_acc :=
  let '(held, open, budget) := a in
  match l with
  | HStart _ =>
      if 0 <? open then None   (* the serial engine never overlaps handlers *)
      else if held then (if 0 <? budget then Some (held, open + 1, budget - 1) else None)
      else Some (held, open + 1, budget)
  | HEnd _ => if open =? 1 then Some (held, 0, budget) else None
  | PauseRet => if held then Some (held, open, budget) else Some (true, open, 1 - open)
  | ContCall => Some (false, open, 0)
  end.

Definition at_most_one (tr : list lbl) : bool := accepts o_astep (false, 0, 0) tr.

(** ** monitor.go: the engine calls issued by a sequence of monitor requests.
    Every request body runs under engineControlMu, so requests are atomic with
    respect to each other and the state is the single boolean [enginePaused]. *)
Inductive mreq := MPause | MContinue | MInspect | MState.

Definition monitor_req (paused : bool) (r : mreq) : list cop * bool :=
  match r with
  | MPause => if paused then ([], true) else ([OpPause], true)
  | MContinue => if paused then ([OpContinue], false) else ([], false)
  | MInspect => if paused then ([], true) else ([OpPause; OpContinue], false)
  | MState => ([], paused)
  end.

Fixpoint monitor_calls (paused : bool) (rs : list mreq) : list cop :=
  match rs with
  | [] => []
  | r :: rest => let '(ops, p') := monitor_req paused r in ops ++ monitor_calls p' rest
  end.

(** well-formed use of the parallel engine's lock: strictly alternating, starting
    with Pause when not held *)
Fixpoint alternating (held : bool) (sc : list cop) : bool :=
  match sc with
  | [] => true
  | OpPause :: r => negb held && alternating true r
  | OpContinue :: r => held && alternating false r
  end.

(** ** Parallel engine ∥ TWO pauser goroutines (each with its own Pause/Continue
    script) — e.g. two HTTP handlers, or a monitor and a debugger.  The pause lock
    records its owner: engine, first or second pauser.  [flagged = false] is the code
    (Pause = pauseLock.Lock()).  [flagged = true] is the variant with an
    "already paused" atomic flag swapped BEFORE the lock is taken: a Pause that finds
    the flag set returns at once; Continue clears the flag and unlocks. *)
Inductive tid2 := T2E | T2P (second : bool) | T2W (i : nat).
Inductive owner := OwnEngine | OwnP (second : bool).

Record m2state := mk_m2 {
  m_pc : ppc;
  m_s1 : list cop; m_s2 : list cop;       (* the two pausers' remaining calls *)
  m_w1 : bool; m_w2 : bool;               (* flagged variant: swapped the flag, now waiting for the lock *)
  m_lock : option owner;
  m_flag : bool;                          (* flagged variant: the atomic "paused" flag *)
  m_pq : list ev; m_sq : list ev; m_now : N;
  m_workers : list (ev * wst);
  m_fault : bool;
  m_trace : list lbl
}.

Definition m2_init (init : list ev) (s1 s2 : list cop) : m2state :=
  let '(pq, sq) := q_push_all init [] [] in
  mk_m2 PCheck s1 s2 false false None false pq sq 0 [] false [].

Section Two.
  Variable prog : program.
  Variable flagged : bool.

  Definition m2_step_engine (s : m2state) : option m2state :=
    match m_pc s with
    | PCheck =>
        match m_pq s, m_sq s with
        | [], [] => Some (mk_m2 PDone (m_s1 s) (m_s2 s) (m_w1 s) (m_w2 s) (m_lock s) (m_flag s) (m_pq s) (m_sq s) (m_now s) (m_workers s) (m_fault s) (m_trace s))
        | _, _ => Some (mk_m2 PLock (m_s1 s) (m_s2 s) (m_w1 s) (m_w2 s) (m_lock s) (m_flag s) (m_pq s) (m_sq s) (m_now s) (m_workers s) (m_fault s) (m_trace s))
        end
    | PLock =>
        match m_lock s with
        | None => Some (mk_m2 PRound (m_s1 s) (m_s2 s) (m_w1 s) (m_w2 s) (Some OwnEngine) (m_flag s) (m_pq s) (m_sq s) (m_now s) (m_workers s) (m_fault s) (m_trace s))
        | Some _ => None
        end
    | PRound =>
        let pt := earliest (m_pq s) in
        let st := earliest (m_sq s) in
        if pt <=? st
        then let '(es, pq') := pop_at pt (m_pq s) in
             Some (mk_m2 PWait (m_s1 s) (m_s2 s) (m_w1 s) (m_w2 s) (m_lock s) (m_flag s) pq' (m_sq s) pt (map (fun e => (e, WSpawned)) es) (m_fault s) (m_trace s))
        else let '(es, sq') := pop_at st (m_sq s) in
             Some (mk_m2 PWait (m_s1 s) (m_s2 s) (m_w1 s) (m_w2 s) (m_lock s) (m_flag s) (m_pq s) sq' st (map (fun e => (e, WSpawned)) es) (m_fault s) (m_trace s))
    | PWait =>
        if all_finished (m_workers s)
        then Some (mk_m2 PUnlock (m_s1 s) (m_s2 s) (m_w1 s) (m_w2 s) (m_lock s) (m_flag s) (m_pq s) (m_sq s) (m_now s) [] (m_fault s) (m_trace s))
        else None
    | PUnlock =>
        match m_lock s with
        | Some _ => Some (mk_m2 PCheck (m_s1 s) (m_s2 s) (m_w1 s) (m_w2 s) None (m_flag s) (m_pq s) (m_sq s) (m_now s) (m_workers s) (m_fault s) (m_trace s))
        | None => Some (mk_m2 PDone (m_s1 s) (m_s2 s) (m_w1 s) (m_w2 s) None (m_flag s) (m_pq s) (m_sq s) (m_now s) (m_workers s) true (m_trace s))
        end
    | PDone => None
    end.

  Definition m2_step_worker (i : nat) (s : m2state) : option m2state :=
    match nth_error (m_workers s) i with
    | Some (e, WSpawned) =>
        match upd_worker i (fun _ => Some (e, WRunning)) (m_workers s) with
        | Some ws => Some (mk_m2 (m_pc s) (m_s1 s) (m_s2 s) (m_w1 s) (m_w2 s) (m_lock s) (m_flag s) (m_pq s) (m_sq s) (m_now s) ws (m_fault s) (HStart (ev_id e) :: m_trace s))
        | None => None
        end
    | Some (e, WRunning) =>
        match upd_worker i (fun _ => Some (e, WFinished)) (m_workers s) with
        | Some ws =>
            let '(pq', sq') := q_push_all (prog (ev_id e)) (m_pq s) (m_sq s) in
            Some (mk_m2 (m_pc s) (m_s1 s) (m_s2 s) (m_w1 s) (m_w2 s) (m_lock s) (m_flag s) pq' sq' (m_now s) ws (m_fault s) (HEnd (ev_id e) :: m_trace s))
        | None => None
        end
    | _ => None
    end.

  Definition set_script (second : bool) (s : m2state) (sc : list cop) (w : bool) (lk : option owner) (fl : bool) (fault : bool) (tr : list lbl) : m2state :=
    if second
    then mk_m2 (m_pc s) (m_s1 s) sc (m_w1 s) w lk fl (m_pq s) (m_sq s) (m_now s) (m_workers s) fault tr
    else mk_m2 (m_pc s) sc (m_s2 s) w (m_w2 s) lk fl (m_pq s) (m_sq s) (m_now s) (m_workers s) fault tr.

  Definition m2_step_pauser (second : bool) (s : m2state) : option m2state :=
    let sc := if second then m_s2 s else m_s1 s in
    let waiting := if second then m_w2 s else m_w1 s in
    match sc with
    | [] => None
    | OpPause :: r =>
        if flagged && negb waiting then
          (* paused.Swap(true) *)
          if m_flag s
          then Some (set_script second s r false (m_lock s) true (m_fault s) (PauseRet :: m_trace s))   (* "already paused": return *)
          else Some (set_script second s sc true (m_lock s) true (m_fault s) (m_trace s))
        else
          match m_lock s with
          | None => Some (set_script second s r false (Some (OwnP second)) (m_flag s) (m_fault s) (PauseRet :: m_trace s))
          | Some _ => None
          end
    | OpContinue :: r =>
        if flagged && negb (m_flag s) then Some (set_script second s r false (m_lock s) false (m_fault s) (ContCall :: m_trace s))
        else
          match m_lock s with
          | Some _ => Some (set_script second s r false None false (m_fault s) (ContCall :: m_trace s))   (* Go lets any goroutine unlock *)
          | None => Some (set_script second s r false None false true (ContCall :: m_trace s))          (* unlock of unlocked mutex *)
          end
    end.

  Definition m2_step (t : tid2) (s : m2state) : option m2state :=
    if m_fault s then None else
    match t with
    | T2E => m2_step_engine s
    | T2P b => m2_step_pauser b s
    | T2W i => m2_step_worker i s
    end.
End Two.
