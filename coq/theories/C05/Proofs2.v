(** C05 — parallel engine: the pause lock held across a round makes Pause a
    quiescent point, for every interleaving. *)
From Akita Require Import Lib.Base Lib.Lts C05.Model C05.Proofs1.
Local Open Scope N_scope.

Definition peng_holds (pc : ppc) : bool :=
  match pc with PRound | PWait | PUnlock => true | _ => false end.

Definition is_pwait (pc : ppc) : bool := match pc with PWait => true | _ => false end.

Fixpoint count_running (ws : list (ev * wst)) : N :=
  match ws with
  | [] => 0
  | (_, WRunning) :: r => 1 + count_running r
  | _ :: r => count_running r
  end.

Lemma count_running_spawned es : count_running (map (fun e => (e, WSpawned)) es) = 0.
Proof. induction es as [|e r IH]; cbn; auto. Qed.

Lemma count_running_finished ws : all_finished ws = true -> count_running ws = 0.
Proof.
  induction ws as [|[e st] r IH]; cbn; auto. destruct st; try discriminate. exact IH.
Qed.

Lemma upd_start i e ws ws' :
  nth_error ws i = Some (e, WSpawned) ->
  upd_worker i (fun _ => Some (e, WRunning)) ws = Some ws' ->
  count_running ws' = count_running ws + 1.
Proof.
  revert i ws'. induction ws as [|[e0 st0] r IH]; intros [|i] ws' Hn Hu; cbn in *; try discriminate.
  - inversion Hn; subst. inversion Hu; subst. cbn. lia.
  - destruct (upd_worker i _ r) as [r'|] eqn:E; [|discriminate]. inversion Hu; subst.
    specialize (IH i r' Hn E). cbn. destruct st0; lia.
Qed.

Lemma upd_finish i e ws ws' :
  nth_error ws i = Some (e, WRunning) ->
  upd_worker i (fun _ => Some (e, WFinished)) ws = Some ws' ->
  count_running ws = count_running ws' + 1.
Proof.
  revert i ws'. induction ws as [|[e0 st0] r IH]; intros [|i] ws' Hn Hu; cbn in *; try discriminate.
  - inversion Hn; subst. inversion Hu; subst. cbn. lia.
  - destruct (upd_worker i _ r) as [r'|] eqn:E; [|discriminate]. inversion Hu; subst.
    specialize (IH i r' Hn E). cbn. destruct st0; lia.
Qed.

Record PInv (s : pstate) : Prop := {
  pi_fault : p_fault s = false;
  pi_lock : p_lock s = peng_holds (p_pc s) || p_held s;
  pi_excl : peng_holds (p_pc s) && p_held s = false;
  pi_workers : is_pwait (p_pc s) = false -> p_workers s = [];
  pi_alt : alternating (p_held s) (p_script s) = true;
  pi_acc : arun q_astep (rev (p_trace s)) (false, 0) = Some (p_held s, count_running (p_workers s))
}.

Lemma PInv_init init script : alternating false script = true -> PInv (p_init init script).
Proof.
  intro Halt. unfold p_init. destruct (q_push_all init [] []) as [pq sq].
  constructor; cbn; auto.
Qed.

Ltac pfields := cbn [p_pc p_script p_lock p_pq p_sq p_now p_workers p_fault p_held p_sched p_handled p_trace] in *.

Ltac pbools :=
  repeat match goal with
  | H : context [peng_holds ?c] |- _ => is_var c; destruct c; cbn [peng_holds is_pwait] in *
  | |- context [peng_holds ?c] => is_var c; destruct c; cbn [peng_holds is_pwait] in *
  | H : context [is_pwait ?c] |- _ => is_var c; destruct c; cbn [peng_holds is_pwait] in *
  end;
  repeat match goal with b : bool |- _ => destruct b end; cbn in *; try congruence; auto.

Ltac peasy :=
  pfields; cbn [peng_holds is_pwait] in *;
  try solve [ auto | discriminate | congruence | intros; subst; cbn in *; congruence
            | intros; subst; cbn in *; auto | intros; pbools ].

Lemma PInv_step prog : inductive (p_step prog) PInv.
Proof.
  intros t s s' [Hf Hlock Hex Hws Halt Hacc] Hstep.
  destruct s as [pc script lock pq sq now ws fault held schd handled trace].
  pfields. subst fault. unfold p_step in Hstep. pfields.
  destruct t as [| |i].
  - (* engine *)
    unfold p_step_engine in Hstep. pfields.
    destruct pc.
    + destruct pq, sq; inv_some; constructor; peasy.
    + inv_some. constructor; peasy.
    + (* PRound *)
      specialize (Hws eq_refl). subst ws.
      destruct (earliest pq <=? earliest sq).
      * destruct (pop_at (earliest pq) pq) as [es pq'] eqn:Ep. inv_some.
        constructor; peasy. rewrite count_running_spawned. exact Hacc.
      * destruct (pop_at (earliest sq) sq) as [es sq'] eqn:Ep. inv_some.
        constructor; peasy. rewrite count_running_spawned. exact Hacc.
    + (* PWait *)
      destruct (all_finished ws) eqn:Ef; [|discriminate]. inv_some.
      constructor; peasy. rewrite Hacc, (count_running_finished _ Ef). reflexivity.
    + (* PUnlock *)
      cbn in Hlock. subst lock. cbn in Hstep. inv_some. cbn in Hex.
      constructor; peasy.
    + discriminate.
  - (* controller *)
    unfold p_step_ctl in Hstep. pfields.
    destruct script as [|[|] r]; [discriminate| |].
    + (* Pause *)
      destruct lock; [discriminate|]. inv_some.
      symmetry in Hlock. apply orb_false_iff in Hlock. destruct Hlock as [He Hh]. subst held.
      cbn in Halt.
      assert (Hw : ws = []) by (apply Hws; destruct pc; cbn in *; congruence).
      subst ws.
      constructor; peasy; try (rewrite He; reflexivity);
        try (cbn [rev]; rewrite arun_snoc, Hacc; reflexivity).
    + (* Continue *)
      cbn in Halt. apply andb_true_iff in Halt. destruct Halt as [Hh Halt]. subst held.
      rewrite orb_true_r in Hlock. subst lock. inv_some.
      rewrite andb_true_r in Hex.
      constructor; peasy; try (rewrite Hex; reflexivity);
        try (cbn [rev]; rewrite arun_snoc, Hacc; reflexivity).
  - (* worker *)
    unfold p_step_worker in Hstep. pfields.
    destruct (nth_error ws i) as [[e st]|] eqn:En; [|discriminate].
    assert (Hpc : is_pwait pc = true).
    { destruct (is_pwait pc) eqn:E; [reflexivity|]. rewrite (Hws eq_refl) in En. destruct i; discriminate. }
    assert (Hheld : held = false).
    { destruct pc; try discriminate. cbn in Hex. exact Hex. }
    subst held.
    destruct st; [| |discriminate].
    + destruct (upd_worker i _ ws) as [ws'|] eqn:Eu; [|discriminate]. inv_some.
      constructor; peasy.
      cbn [rev]. rewrite arun_snoc, Hacc. cbn [q_astep].
      rewrite (upd_start _ _ _ _ En Eu). reflexivity.
    + destruct (upd_worker i _ ws) as [ws'|] eqn:Eu; [|discriminate].
      destruct (q_push_all (prog (ev_id e)) pq sq) as [pq' sq']. inv_some.
      constructor; peasy.
      cbn [rev]. rewrite arun_snoc, Hacc. cbn [q_astep].
      rewrite (upd_finish _ _ _ _ En Eu). f_equal. f_equal. lia.
Qed.

(** For every program, initial queue, well-formed controller script and every
    interleaving: no handler is executing when Pause returns and none starts until
    Continue is called; and the misuse fault never happens. *)
Theorem parallel_quiescent prog init script o :
  alternating false script = true ->
  let s := p_run prog o (p_init init script) in
  quiescent (rev (p_trace s)) = true /\ p_fault s = false /\
  (p_held s = true -> count_running (p_workers s) = 0 /\ p_workers s = []).
Proof.
  intros Halt s.
  pose proof (run_invariant (p_step prog) PInv (PInv_step prog) o _ (PInv_init init script Halt)) as H.
  fold (p_run prog o (p_init init script)) in H. fold s in H.
  destruct H as [Hf Hlock Hex Hws _ Hacc].
  split; [|split]; auto.
  - unfold quiescent, accepts. rewrite Hacc. reflexivity.
  - intro Hh. rewrite Hh in Hex. rewrite andb_true_r in Hex.
    assert (Hw : p_workers s = []) by (apply Hws; destruct (p_pc s); cbn in *; congruence).
    rewrite Hw. auto.
Qed.

(** State form: in every reachable state with the pause held, the next step of any
    thread is not a handler start. *)
Theorem parallel_no_start_while_held prog init script o t s' :
  alternating false script = true ->
  let s := p_run prog o (p_init init script) in
  p_held s = true -> p_step prog t s = Some s' ->
  forall id, p_trace s' <> HStart id :: p_trace s.
Proof.
  intros Halt s Hh Hstep id Htr.
  pose proof (run_invariant (p_step prog) PInv (PInv_step prog) (o ++ [t]) _ (PInv_init init script Halt)) as H.
  rewrite run_snoc in H. fold (p_run prog o (p_init init script)) in H. fold s in H.
  unfold sched in H. rewrite Hstep in H. destruct H as [_ _ _ _ _ Hacc].
  pose proof (run_invariant (p_step prog) PInv (PInv_step prog) o _ (PInv_init init script Halt)) as H0.
  fold (p_run prog o (p_init init script)) in H0. fold s in H0. destruct H0 as [_ _ _ _ _ Hacc0].
  rewrite Htr in Hacc. cbn [rev] in Hacc. rewrite arun_snoc, Hacc0, Hh in Hacc. cbn in Hacc. discriminate.
Qed.

(** The mutation "the round does not take the pause lock": model variant and a
    witness that quiescence is then lost (regression lemma for the self-test). *)
Definition p_step_engine_nolock (prog : program) (s : pstate) : option pstate :=
  match p_pc s with
  | PLock => Some (mk_p PRound (p_script s) (p_lock s) (p_pq s) (p_sq s) (p_now s) (p_workers s) (p_fault s) (p_held s) (p_sched s) (p_handled s) (p_trace s))
  | PUnlock => Some (mk_p PCheck (p_script s) (p_lock s) (p_pq s) (p_sq s) (p_now s) (p_workers s) (p_fault s) (p_held s) (p_sched s) (p_handled s) (p_trace s))
  | _ => p_step_engine s
  end.

Definition p_step_nolock (prog : program) (t : tid) (s : pstate) : option pstate :=
  match t with
  | TE => p_step_engine_nolock prog s
  | TC => p_step_ctl s
  | TW i => p_step_worker prog i s
  end.

Lemma parallel_nolock_refuted :
  let s := run (p_step_nolock wit_prog) [TE; TE; TE; TW 0%nat; TC] (p_init wit_init [OpPause]) in
  rev (p_trace s) = [HStart 1; PauseRet] /\ quiescent (rev (p_trace s)) = false.
Proof. vm_compute. split; reflexivity. Qed.

(** ** monitor.go: the engine calls it issues are always well-formed *)
Lemma monitor_alternating rs paused : alternating paused (monitor_calls paused rs) = true.
Proof.
  revert paused. induction rs as [|r rs IH]; intro paused; [reflexivity|].
  cbn [monitor_calls]. destruct r, paused; cbn; rewrite ?IH; reflexivity.
Qed.
