(** C05 — case evaluators.  A case is a replayed schedule scenario on a real engine
    together with the label log it produced. *)
From Akita Require Import Lib.Base Lib.Lts C05.Model.
Local Open Scope N_scope.

Inductive scenario :=
| ScnInflight (k : N)   (* handshake: Pause is called while the handler of event k is executing *)
| ScnIdle               (* Pause is called before Run starts; Run is started while paused *)
| ScnStress             (* free-running controller: pause/continue pairs at arbitrary moments *)
| ScnTwoPause (k : N)   (* handshake: TWO goroutines call Pause while the handler of event k is executing *)
| ScnLive (cycles : N). (* liveness stress: back-to-back Pause / tiny spin / Continue cycles on a self-rescheduling chain,
                           a watchdog requires the handled counter to advance after every Continue; no label log *)

Record case := mk_case {
  c_par : bool;                     (* true: ParallelEngine, false: SerialEngine *)
  c_init : list ev;
  c_prog : list (N * list ev);
  c_scn : scenario;
  c_fuel : nat;                     (* bound on model steps, >= 12 * (number of events + 2) *)
  o_trace : list lbl;               (* observed label log, chronological *)
  o_early : bool;                   (* inflight: Pause had returned while the gated handler was still blocked *)
  o_done : bool                     (* Run returned after the last Continue *)
}.

Definition lbls_eqb := list_eqb lbl_eqb.

Definition is_handler_lbl (l : lbl) : bool :=
  match l with HStart _ | HEnd _ => true | _ => false end.

Fixpoint ended (tr : list lbl) : list N :=
  match tr with
  | [] => []
  | HEnd i :: r => i :: ended r
  | _ :: r => ended r
  end.

Fixpoint started (tr : list lbl) : list N :=
  match tr with
  | [] => []
  | HStart i :: r => i :: started r
  | _ :: r => started r
  end.

(** insertion sort on N (small lists) *)
Fixpoint ins (x : N) (l : list N) : list N :=
  match l with [] => [x] | y :: r => if x <=? y then x :: l else y :: ins x r end.
Definition sortN (l : list N) : list N := fold_right ins [] l.

(** ** serial scenarios through the LTS *)

Definition s_running_id (k : N) (s : sstate) : bool :=
  match s_pc s with SRunning e => ev_id e =? k | _ => false end.

Definition s_settled (s : sstate) : bool :=
  match s_pc s with SParked | SDone => true | _ => false end.

Definition s_is_done (s : sstate) : bool := match s_pc s with SDone => true | _ => false end.

Definition serial_inflight (prog : program) (init : list ev) (k : N) (fuel : nat) : sstate * bool :=
  let s0 := s_init init [OpPause; OpContinue] in
  let s1 := run_until (s_step prog) (s_running_id k) TE fuel s0 in
  let s2 := s_run prog [TC; TC; TC] s1 in
  let early := s_held s2 && s_running_id k s2 in
  let s3 := run_until (s_step prog) s_settled TE fuel s2 in
  let s4 := s_run prog [TC; TC; TC; TC; TC] s3 in
  (run_until (s_step prog) s_is_done TE fuel s4, early).

Definition serial_idle (prog : program) (init : list ev) (fuel : nat) : sstate :=
  let s0 := s_init init [OpPause; OpContinue] in
  let s1 := s_run prog [TC; TC; TC] s0 in
  let s2 := run_until (s_step prog) s_settled TE fuel s1 in
  let s3 := s_run prog [TC; TC; TC; TC; TC] s2 in
  run_until (s_step prog) s_is_done TE fuel s3.

Definition serial_free (prog : program) (init : list ev) (fuel : nat) : sstate :=
  run_until (s_step prog) s_is_done TE fuel (s_init init []).

(** ** parallel scenarios through the LTS *)

Definition p_is_done (s : pstate) : bool := match p_pc s with PDone => true | _ => false end.

Fixpoint worker_index (k : N) (ws : list (ev * wst)) (i : nat) : option nat :=
  match ws with
  | [] => None
  | (e, _) :: r => if ev_id e =? k then Some i else worker_index k r (S i)
  end.

(** one sweep: engine, then every worker slot twice (start, finish) *)
Definition p_sweep (n : nat) : list tid :=
  TE :: flat_map (fun i => [TW i; TW i]) (seq 0 n).

Definition p_width (init : list ev) (prog : list (N * list ev)) : nat :=
  length init + fold_right (fun kv a => length (snd kv) + a)%nat 0%nat prog.

Definition parallel_free (prog : program) (width : nat) (init : list ev) (fuel : nat) : pstate :=
  run_rr (p_step prog) p_is_done (p_sweep width) fuel (p_init init []).

(** the state in which the worker of event [k] has started, everything before it
    having been run sweep by sweep; then the controller attempts Pause *)
Fixpoint parallel_to_k (prog : program) (width : nat) (k : N) (fuel : nat) (s : pstate) : option pstate :=
  match fuel with
  | O => None
  | S f =>
      match worker_index k (p_workers s) 0 with
      | Some i => Some (run (p_step prog) [TW i] s)
      | None => if p_is_done s then None
                else if all_finished (p_workers s)
                     then parallel_to_k prog width k f (run (p_step prog) [TE] s)
                     else parallel_to_k prog width k f (run (p_step prog) (tl (p_sweep width)) s)
      end
  end.

Definition parallel_inflight_early (prog : program) (width : nat) (init : list ev) (k : N) (fuel : nat) : bool :=
  match parallel_to_k prog width k fuel (p_init init [OpPause; OpContinue]) with
  | Some s => p_held (run (p_step prog) [TC] s)
  | None => false
  end.

(** well-formed handler brackets: every started handler ends once, none twice *)
Fixpoint brackets_ok (open : list N) (tr : list lbl) : bool :=
  match tr with
  | [] => match open with [] => true | _ => false end
  | HStart i :: r => negb (existsb (N.eqb i) open) && brackets_ok (i :: open) r
  | HEnd i :: r => existsb (N.eqb i) open && brackets_ok (filter (fun j => negb (j =? i)) open) r
  | _ :: r => brackets_ok open r
  end.

(** ** the correspondence check: model prediction = observation *)
Definition is_live (s : scenario) : bool := match s with ScnLive _ => true | _ => false end.

Definition check_case (c : case) : bool :=
  let prog := prog_lookup (c_prog c) in
  (* c05_continue_live: after every Continue the run proceeds; the model never gets stuck *)
  if is_live (c_scn c) then o_done c && negb (o_early c) else
  if c_par c then
    let sf := parallel_free prog (p_width (c_init c) (c_prog c)) (c_init c) (c_fuel c) in
    listN_eqb (sortN (ended (o_trace c))) (sortN (map ev_id (p_handled sf))) &&
    brackets_ok [] (o_trace c) &&
    quiescent (o_trace c) &&      (* parallel_quiescent: every model trace is accepted *)
    Bool.eqb (o_done c) (p_is_done sf) &&
    match c_scn c with
    | ScnInflight k => Bool.eqb (o_early c) (parallel_inflight_early prog (p_width (c_init c) (c_prog c)) (c_init c) k (c_fuel c))
    | _ => negb (o_early c)
    end
  else
    match c_scn c with
    | ScnInflight k =>
        let '(s, early) := serial_inflight prog (c_init c) k (c_fuel c) in
        lbls_eqb (o_trace c) (rev (s_trace s)) && Bool.eqb (o_early c) early && Bool.eqb (o_done c) (s_is_done s)
    | ScnIdle =>
        let s := serial_idle prog (c_init c) (c_fuel c) in
        lbls_eqb (o_trace c) (rev (s_trace s)) && negb (o_early c) && Bool.eqb (o_done c) (s_is_done s)
    | ScnStress =>
        let s := serial_free prog (c_init c) (c_fuel c) in
        lbls_eqb (filter is_handler_lbl (o_trace c)) (rev (s_trace s)) &&
        at_most_one (o_trace c) &&    (* serial_at_most_one: every model trace is accepted *)
        negb (o_early c) && Bool.eqb (o_done c) (s_is_done s)
    | ScnLive _ => o_done c
    | ScnTwoPause _ => false   (* only replayed on the parallel engine *)
    end.

(** ** the property on the observed behaviour, independent of the LTS *)

(** all events the program ever schedules, by a plain worklist *)
Fixpoint closure (fuel : nat) (prog : program) (work : list ev) : list N :=
  match fuel with
  | O => []
  | S f => match work with
           | [] => []
           | e :: r => ev_id e :: closure f prog (r ++ prog (ev_id e))
           end
  end.

Definition holds_on (c : case) : bool :=
  let prog := prog_lookup (c_prog c) in
  if is_live (c_scn c) then o_done c else       (* every Continue was followed by progress and the run ended *)
  quiescent (o_trace c) &&                       (* Pause is a quiescent point *)
  negb (o_early c) &&                            (* Pause did not return under a blocked, executing handler *)
  o_done c &&                                    (* after Continue the run proceeds to the end ... *)
  brackets_ok [] (o_trace c) &&                  (* ... and every event is handled exactly once *)
  listN_eqb (sortN (ended (o_trace c))) (sortN (closure (c_fuel c) prog (c_init c))).
