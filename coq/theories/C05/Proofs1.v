(** C05 — serial engine: what Pause does and does not guarantee. *)
From Akita Require Import Lib.Base Lib.Lts C05.Model.
Local Open Scope N_scope.

Lemma arun_app {A} (f : A -> lbl -> option A) tr1 tr2 a :
  arun f (tr1 ++ tr2) a = match arun f tr1 a with Some a' => arun f tr2 a' | None => None end.
Proof.
  revert a. induction tr1 as [|l r IH]; intro a; cbn [arun app]; [reflexivity|].
  destruct (f a l); [apply IH|reflexivity].
Qed.

Lemma arun_snoc {A} (f : A -> lbl -> option A) tr l a :
  arun f (tr ++ [l]) a = match arun f tr a with Some a' => f a' l | None => None end.
Proof.
  rewrite arun_app. destruct (arun f tr a) as [a'|]; [|reflexivity].
  cbn [arun]. destruct (f a' l); reflexivity.
Qed.

Definition eng_holds (pc : spc) : bool :=
  match pc with SWaitLoop | SWaitUnlock | SRegister => true | _ => false end.

Definition ctl_holds (c : cpc) : bool :=
  match c with CP1 | CP2 | CC1 | CC2 | CC3 => true | _ => false end.

Definition in_continue (c : cpc) : bool :=
  match c with CC0 | CC1 | CC2 | CC3 => true | _ => false end.

Definition open_of (pc : spc) : N := match pc with SRunning _ => 1 | _ => 0 end.

Definition is_dispatch (pc : spc) : bool := match pc with SDispatch => true | _ => false end.

(** the invariant of the serial engine ∥ controller system *)
Record SInv (s : sstate) : Prop := {
  si_mu : s_mu s = eng_holds (s_pc s) || ctl_holds (s_c s);
  si_excl : eng_holds (s_pc s) && ctl_holds (s_c s) = false;
  si_held_flag : s_held s = true -> s_flag s = true;
  si_cont : in_continue (s_c s) = true -> s_held s = false;
  si_wu : s_pc s = SWaitUnlock -> s_flag s = false;
  si_cp2 : s_c s = CP2 -> s_flag s = true;
  si_reg : s_pc s = SRegister -> s_flag s = true;
  si_acc : exists budget,
      arun o_astep (rev (s_trace s)) (false, 0, 0) = Some (s_held s, open_of (s_pc s), budget) /\
      (s_held s = true -> is_dispatch (s_pc s) = true -> 1 <= budget)
}.

Lemma SInv_init init script : SInv (s_init init script).
Proof.
  unfold s_init. destruct (q_push_all init [] []) as [pq sq].
  constructor; cbn; try reflexivity; try discriminate.
  exists 0. split; [reflexivity|discriminate].
Qed.

Ltac inv_some :=
  repeat match goal with
  | H : Some _ = Some _ |- _ => inversion H; subst; clear H
  | H : None = Some _ |- _ => discriminate H
  | H : (if ?b then _ else _) = Some _ |- _ => destruct b eqn:?
  end.

Ltac sfields := cbn [s_pc s_c s_script s_flag s_mu s_woken s_pq s_sq s_now s_held s_sched s_handled s_trace] in *.

Ltac bools :=
  repeat match goal with
  | H : context [ctl_holds ?c] |- _ => is_var c; destruct c; cbn [ctl_holds in_continue] in *
  | |- context [ctl_holds ?c] => is_var c; destruct c; cbn [ctl_holds in_continue] in *
  | H : context [eng_holds ?c] |- _ => is_var c; destruct c; cbn [eng_holds open_of is_dispatch] in *
  | |- context [eng_holds ?c] => is_var c; destruct c; cbn [eng_holds open_of is_dispatch] in *
  end;
  repeat match goal with b : bool |- _ => destruct b end; cbn in *; try congruence; auto.

Ltac easy_goal :=
  sfields; cbn [eng_holds ctl_holds in_continue open_of is_dispatch] in *;
  try solve [ auto | discriminate | congruence
            | intros; subst; cbn in *; congruence
            | intros; subst; cbn in *; auto
            | intros; bools ].

(* the acceptor component when the step emits no label *)
Ltac acc_same budget Hacc Hbud :=
  exists budget; split; [exact Hacc|]; sfields; cbn [is_dispatch] in *;
  try solve [ auto | discriminate | intros; discriminate | intros; apply Hbud; auto ].

Lemma SInv_step prog : inductive (s_step prog) SInv.
Proof.
  intros t s s' [Hmu Hex Hhf Hco Hwu Hcp2 Hreg [budget [Hacc Hbud]]] Hstep.
  destruct s as [pc c script flag mu woken pq sq now held schd handled trace].
  sfields.
  destruct t as [| |i]; cbn [s_step] in Hstep; [| |discriminate].
  - (* engine *)
    unfold s_step_engine in Hstep. sfields.
    destruct pc.
    + (* SCheck *)
      destruct pq, sq; inv_some; constructor; easy_goal; acc_same budget Hacc Hbud.
    + (* SLoad *)
      inv_some. destruct flag; constructor; easy_goal; acc_same budget Hacc Hbud;
        try (intros Hh _; specialize (Hhf Hh); discriminate).
    + (* SWaitLock *)
      inv_some. constructor; easy_goal; acc_same budget Hacc Hbud.
    + (* SWaitLoop *)
      inv_some; constructor; easy_goal; acc_same budget Hacc Hbud.
    + (* SParked *)
      inv_some. constructor; easy_goal; acc_same budget Hacc Hbud.
    + (* SRelock *)
      inv_some. constructor; easy_goal; acc_same budget Hacc Hbud.
    + (* SWaitUnlock *)
      inv_some. constructor; easy_goal; acc_same budget Hacc Hbud;
        try (intros Hh _; specialize (Hhf Hh); specialize (Hwu eq_refl); congruence).
    + (* SDispatch *)
      destruct (next_event pq sq) as [[[e pq'] sq']|]; [|discriminate]. inv_some.
      constructor; easy_goal.
      cbn [rev]. rewrite arun_snoc, Hacc. cbn [o_astep open_of].
      replace (0 <? 0) with false by reflexivity.
      destruct held.
      * specialize (Hbud eq_refl eq_refl).
        destruct (0 <? budget) eqn:Eb; [|lia].
        eexists; split; [reflexivity|]. cbn. discriminate.
      * eexists; split; [reflexivity|]. discriminate.
    + (* SRunning *)
      destruct (q_push_all (prog (ev_id e)) pq sq) as [pq' sq']. inv_some.
      constructor; easy_goal.
      cbn [rev]. rewrite arun_snoc, Hacc. cbn [o_astep open_of].
      replace (1 =? 1) with true by reflexivity.
      exists budget; split; [reflexivity|]. cbn. discriminate.
    + discriminate.
    + (* SRegister *)
      inv_some. constructor; easy_goal; acc_same budget Hacc Hbud.
  - (* controller *)
    unfold s_step_ctl in Hstep. sfields.
    destruct c.
    + (* CIdle *)
      destruct script as [|[|] r]; [discriminate| |].
      * inv_some. constructor; easy_goal; acc_same budget Hacc Hbud.
      * inv_some. constructor; easy_goal.
        cbn [rev]. rewrite arun_snoc, Hacc. cbn [o_astep].
        eexists; split; [reflexivity|]. discriminate.
    + (* CP1 *)
      inv_some. constructor; easy_goal; acc_same budget Hacc Hbud.
    + (* CP2 *)
      inv_some. specialize (Hcp2 eq_refl). subst flag.
      constructor; easy_goal.
      cbn [rev]. rewrite arun_snoc, Hacc. cbn [o_astep].
      destruct held.
      * exists budget; split; [reflexivity|]. intros _ Hd. apply Hbud; auto.
      * eexists; split; [reflexivity|]. intros _ Hd. destruct pc; try discriminate; cbn; lia.
    + (* CC0 *)
      inv_some. constructor; easy_goal; acc_same budget Hacc Hbud.
    + (* CC1 *)
      inv_some. specialize (Hco eq_refl). subst held.
      constructor; easy_goal; acc_same budget Hacc Hbud.
    + (* CC2 *)
      inv_some. constructor; easy_goal; acc_same budget Hacc Hbud.
    + (* CC3 *)
      inv_some. constructor; easy_goal; acc_same budget Hacc Hbud.
Qed.

(** every behaviour of the serial engine keeps "at most one handler per pause" *)
Theorem serial_at_most_one prog init script o :
  at_most_one (rev (s_trace (s_run prog o (s_init init script)))) = true.
Proof.
  pose proof (run_invariant (s_step prog) SInv (SInv_step prog) o _ (SInv_init init script)) as H.
  destruct H as [_ _ _ _ _ _ _ [b [Hacc _]]]. unfold at_most_one, accepts, s_run. rewrite Hacc. reflexivity.
Qed.

(** ... but not quiescence: a witness interleaving. *)
Definition wit_prog : program := fun _ => [].
Definition wit_init : list ev := [mk_ev 1 10 false; mk_ev 2 20 false].

(** flag loaded as 0, then Pause runs to completion, then the handler starts *)
Definition wit_oracle_starts : list tid := [TE; TE; TC; TC; TC; TE].
(** Pause is called and returns while a handler is executing *)
Definition wit_oracle_running : list tid := [TE; TE; TE; TC; TC; TC].

Lemma serial_refuted_starts :
  let s := s_run wit_prog wit_oracle_starts (s_init wit_init [OpPause]) in
  rev (s_trace s) = [PauseRet; HStart 1] /\ s_held s = true /\ s_pc s = SRunning (mk_ev 1 10 false) /\
  quiescent (rev (s_trace s)) = false.
Proof. vm_compute. repeat split; reflexivity. Qed.

Lemma serial_refuted_running :
  let s := s_run wit_prog wit_oracle_running (s_init wit_init [OpPause]) in
  rev (s_trace s) = [HStart 1; PauseRet] /\ s_held s = true /\ s_pc s = SRunning (mk_ev 1 10 false) /\
  quiescent (rev (s_trace s)) = false.
Proof. vm_compute. repeat split; reflexivity. Qed.
