(** C05 — after Continue the serial engine proceeds and handles every event
    (conservation of events + progress by a measure). *)
From Coq Require Import Permutation.
From Akita Require Import Lib.Base Lib.Lts C05.Model C05.Proofs1.
Local Open Scope N_scope.

Lemma q_insert_perm e q : Permutation (q_insert e q) (e :: q).
Proof.
  induction q as [|x r IH]; cbn [q_insert]; [apply Permutation_refl|].
  destruct (ev_time e <? ev_time x); [apply Permutation_refl|].
  eapply perm_trans; [apply perm_skip, IH|apply perm_swap].
Qed.

Lemma q_push_perm e pq sq pq' sq' :
  q_push e pq sq = (pq', sq') -> Permutation (pq' ++ sq') (e :: pq ++ sq).
Proof.
  unfold q_push. destruct (ev_sec e); intro H; inversion H; subst; clear H.
  - eapply perm_trans; [apply Permutation_app_head, q_insert_perm|].
    apply Permutation_sym, Permutation_middle.
  - refine (Permutation_app_tail _ (q_insert_perm _ _)).
Qed.

Lemma q_push_all_perm es : forall pq sq pq' sq',
  q_push_all es pq sq = (pq', sq') -> Permutation (pq' ++ sq') (es ++ pq ++ sq).
Proof.
  induction es as [|e r IH]; intros pq sq pq' sq' H; cbn [q_push_all] in H.
  - inversion H; subst. apply Permutation_refl.
  - destruct (q_push e pq sq) as [pq1 sq1] eqn:E. specialize (IH _ _ _ _ H).
    eapply perm_trans; [exact IH|]. cbn [app].
    eapply perm_trans; [apply Permutation_app_head, (q_push_perm _ _ _ _ _ E)|].
    apply Permutation_sym, Permutation_middle.
Qed.

Lemma next_event_perm pq sq e pq' sq' :
  next_event pq sq = Some (e, pq', sq') -> Permutation (pq ++ sq) (e :: pq' ++ sq').
Proof.
  unfold next_event. destruct pq as [|p pr], sq as [|x sr]; intro H; try discriminate.
  - inversion H; subst. apply Permutation_refl.
  - inversion H; subst. apply Permutation_refl.
  - destruct (ev_time p <=? ev_time x); inversion H; subst; clear H.
    + apply Permutation_refl.
    + apply Permutation_sym. refine (Permutation_middle (_ :: _) _ _).
Qed.

Lemma next_event_some pq sq : pq ++ sq <> [] -> next_event pq sq <> None.
Proof.
  unfold next_event. destruct pq, sq; cbn; try congruence.
  destruct (ev_time e <=? ev_time e0); congruence.
Qed.

Definition open_ev (pc : spc) : list ev := match pc with SRunning e => [e] | _ => [] end.

(** between the emptiness check and the dispatch the queues are not empty *)
Definition needs_event (pc : spc) : bool :=
  match pc with
  | SLoad | SWaitLock | SWaitLoop | SParked | SRelock | SWaitUnlock | SDispatch | SRegister => true
  | _ => false
  end.

Record LInv (s : sstate) : Prop := {
  li_s : SInv s;
  li_parked : s_pc s = SParked -> s_woken s = true \/ s_flag s = true \/ s_c s = CC2;
  li_nonempty : needs_event (s_pc s) = true -> s_pq s ++ s_sq s <> [];
  li_done : s_pc s = SDone -> s_pq s ++ s_sq s = [];
  li_cons : Permutation (s_sched s) (s_handled s ++ open_ev (s_pc s) ++ s_pq s ++ s_sq s)
}.

Lemma LInv_init init script : LInv (s_init init script).
Proof.
  pose proof (SInv_init init script) as HS. unfold s_init in *.
  destruct (q_push_all init [] []) as [pq sq] eqn:E.
  constructor; cbn; auto; try discriminate.
  apply q_push_all_perm in E. rewrite app_nil_r in E. apply Permutation_sym, E.
Qed.

Ltac fin :=
  try solve [ auto | discriminate
            | intros; repeat match goal with b : bool |- _ => destruct b end; cbn in *;
              solve [ auto | discriminate | congruence ] ].

Lemma LInv_step prog : inductive (s_step prog) LInv.
Proof.
  intros t s s' [HS Hpk Hne Hdn Hco] Hstep.
  pose proof (SInv_step prog t s s' HS Hstep) as HS'.
  pose proof (si_reg s HS) as Hreg.
  constructor; [exact HS'| | | |]; clear HS HS';
  destruct s as [pc c script flag mu woken pq sq now held schd handled trace]; sfields;
  (destruct t as [| |i]; cbn [s_step] in Hstep; [| |discriminate]).
  - unfold s_step_engine in Hstep; sfields. destruct pc; try (destruct pq, sq); inv_some; sfields;
      try (destruct (next_event _ _) as [[[? ?] ?]|]); try (destruct (q_push_all _ _ _)); inv_some; sfields;
      try discriminate; auto; fin; try (intros _; right; left; apply Hreg; reflexivity).
  - unfold s_step_ctl in Hstep; sfields. destruct c; try (destruct script as [|[|] ?]); inv_some; sfields;
      try discriminate; intro E; subst; auto;
      destruct (Hpk eq_refl) as [?|[?|?]]; auto; try discriminate.
  - unfold s_step_engine in Hstep; sfields. destruct pc; try (destruct pq, sq); inv_some; sfields;
      try (destruct (next_event _ _) as [[[? ?] ?]|]); try (destruct (q_push_all _ _ _)); inv_some; sfields;
      cbn [needs_event] in *; try discriminate; auto; intros _; discriminate.
  - unfold s_step_ctl in Hstep; sfields. destruct c; try (destruct script as [|[|] ?]); inv_some; sfields; auto.
  - unfold s_step_engine in Hstep; sfields. destruct pc; try (destruct pq, sq); inv_some; sfields; try discriminate; auto;
      try (destruct (next_event _ _) as [[[? ?] ?]|]); try (destruct (q_push_all _ _ _)); inv_some; sfields; fin.
  - unfold s_step_ctl in Hstep; sfields. destruct c; try (destruct script as [|[|] ?]); inv_some; sfields; auto.
  - unfold s_step_engine in Hstep; sfields. destruct pc; [destruct pq, sq| | | | | | | | | |]; inv_some; sfields; cbn [open_ev] in *; auto; fin.
    + destruct (next_event pq sq) as [[[e pq'] sq']|] eqn:En; [|discriminate]. inv_some. sfields. cbn [open_ev app] in *.
      eapply perm_trans; [exact Hco|]. apply Permutation_app_head. apply (next_event_perm _ _ _ _ _ En).
    + destruct (q_push_all (prog (ev_id e)) pq sq) as [pq' sq'] eqn:Eq. inv_some. sfields. cbn [open_ev app] in *.
      apply q_push_all_perm in Eq.
      eapply perm_trans; [apply Permutation_app_head, Hco|].
      eapply perm_trans; [|apply Permutation_sym; apply (Permutation_middle [] (handled ++ pq' ++ sq') e)].
      cbn [app].
      eapply perm_trans; [apply Permutation_app_head; apply Permutation_sym; apply (Permutation_middle handled (pq ++ sq) e)|].
      eapply perm_trans; [apply Permutation_sym; apply (Permutation_middle (prog (ev_id e)) (handled ++ pq ++ sq) e)|].
      apply perm_skip.
      eapply perm_trans; [apply Permutation_app_swap_app|].
      apply Permutation_app_head. apply Permutation_sym. exact Eq.
  - unfold s_step_ctl in Hstep; sfields. destruct c; try (destruct script as [|[|] ?]); inv_some; sfields; auto.
Qed.

(** exactly once on completion: when Run returns, the handled events are exactly
    the scheduled ones (as multisets), whatever Pause/Continue calls interleaved. *)
Theorem serial_exactly_once prog init script o :
  let s := s_run prog o (s_init init script) in
  s_pc s = SDone -> Permutation (s_handled s) (s_sched s).
Proof.
  intros s Hd.
  pose proof (run_invariant (s_step prog) LInv (LInv_step prog) o _ (LInv_init init script)) as H.
  fold (s_run prog o (s_init init script)) in H. fold s in H.
  destruct H as [_ _ _ Hdn Hco]. rewrite Hd in Hco. cbn [open_ev app] in Hco.
  rewrite (Hdn Hd), app_nil_r in Hco. apply Permutation_sym, Hco.
Qed.

(** ** Progress *)
Section Progress.
  Variable prog : program.
  Variable cost : ev -> nat.
  Definition csum (l : list ev) : nat := list_sum (map cost l).
  (** the program is finite: every handler schedules strictly less work than itself *)
  Hypothesis cost_ok : forall e, (1 + csum (prog (ev_id e)) <= cost e)%nat.

  Lemma csum_app a b : csum (a ++ b) = (csum a + csum b)%nat.
  Proof. unfold csum. rewrite map_app, list_sum_app. reflexivity. Qed.

  Lemma csum_cons e l : csum (e :: l) = (cost e + csum l)%nat.
  Proof. reflexivity. Qed.

  Lemma csum_perm a b : Permutation a b -> csum a = csum b.
  Proof.
    unfold csum, list_sum. induction 1; cbn [map fold_right] in *; lia.
  Qed.

  Definition rank (pc : spc) : nat :=
    match pc with
    | SDone => 0 | SDispatch => 1 | SWaitUnlock => 2 | SWaitLoop => 3 | SRelock => 4
    | SWaitLock => 4 | SParked => 5 | SLoad => 6 | SCheck => 7 | SRegister => 6
    | SRunning e => 8 * cost e
    end%nat.

  Definition mu (s : sstate) : nat := (8 * csum (s_pq s ++ s_sq s) + rank (s_pc s))%nat.

  (** the controller has finished and left the engine un-paused *)
  Definition released (s : sstate) : Prop :=
    LInv s /\ s_c s = CIdle /\ s_script s = [] /\ s_flag s = false.

  Definition done (s : sstate) : Prop := s_pc s = SDone.

  Lemma engine_progress s : released s -> ~ done s ->
    exists s', s_step prog TE s = Some s' /\ released s' /\ (mu s' < mu s)%nat.
  Proof.
    intros [HL [Hc [Hsc Hfl]]] Hnd.
    assert (Hstep : forall s', s_step prog TE s = Some s' -> released s').
    { intros s' E. split; [eapply LInv_step; eauto|].
      destruct s as [pc c script flag mu0 woken pq sq now held schd handled trace]. sfields. subst.
      cbn [s_step] in E. unfold s_step_engine in E. sfields.
      destruct pc; try (destruct pq, sq); inv_some; sfields; auto;
        try (destruct (next_event _ _) as [[[? ?] ?]|]); try (destruct (q_push_all _ _ _)); inv_some; sfields; auto. }
    destruct HL as [HS Hpk Hne Hdn Hco].
    destruct HS as [Hmu _ _ _ _ _ Hreg _].
    unfold done in Hnd. unfold mu.
    destruct s as [pc c script flag mu0 woken pq sq now held schd handled trace]. sfields. subst c script flag.
    cbn [ctl_holds] in Hmu. rewrite orb_false_r in Hmu.
    cbn [s_step] in *. unfold s_step_engine in *. sfields.
    destruct pc; cbn [eng_holds] in Hmu; subst mu0.
    - (* SCheck *) destruct pq, sq; (eexists; split; [reflexivity|split; [apply Hstep; reflexivity|]]); sfields; cbn [rank]; lia.
    - (* SLoad *) eexists; split; [reflexivity|split; [apply Hstep; reflexivity|]]; sfields; cbn [rank]; lia.
    - eexists; split; [reflexivity|split; [apply Hstep; reflexivity|]]; sfields; cbn [rank]; lia.
    - eexists; split; [reflexivity|split; [apply Hstep; reflexivity|]]; sfields; cbn [rank]; lia.
    - (* SParked *)
      destruct (Hpk eq_refl) as [Hw|[Hf|Hc]]; try discriminate. subst woken.
      eexists; split; [reflexivity|split; [apply Hstep; reflexivity|]]; sfields; cbn [rank]; lia.
    - eexists; split; [reflexivity|split; [apply Hstep; reflexivity|]]; sfields; cbn [rank]; lia.
    - eexists; split; [reflexivity|split; [apply Hstep; reflexivity|]]; sfields; cbn [rank]; lia.
    - (* SDispatch *)
      destruct (next_event pq sq) as [[[e pq'] sq']|] eqn:En.
      + eexists; split; [reflexivity|split; [apply Hstep; reflexivity|]]; sfields; cbn [rank].
        apply next_event_perm in En. apply csum_perm in En. rewrite csum_cons in En. lia.
      + exfalso. apply (next_event_some pq sq); auto.
    - (* SRunning *)
      destruct (q_push_all (prog (ev_id e)) pq sq) as [pq' sq'] eqn:Eq.
      eexists; split; [reflexivity|split; [first [apply Hstep; reflexivity | apply Hstep; rewrite Eq; reflexivity]|]]; sfields; cbn [rank].
      apply q_push_all_perm in Eq. apply csum_perm in Eq. rewrite (csum_app (prog (ev_id e))) in Eq.
      pose proof (cost_ok e). lia.
    - congruence.
    - (* SRegister: the flag is set there, but it is clear in a released state *)
      specialize (Hreg eq_refl). discriminate.
  Qed.

  (** From any reachable state in which the controller is done and the flag is
      clear (the last call was Continue), scheduling the engine goroutine reaches
      the end of Run, and then every scheduled event has been handled once. *)
  Theorem serial_continue_live_from s :
    released s -> exists k, let s' := s_run prog (repeat TE k) s in
                            s_pc s' = SDone /\ Permutation (s_handled s') (s_sched s').
  Proof.
    intro Hr.
    destruct (run_measure (s_step prog) released done mu TE) with (n := mu s) (s := s) as [k [_ [Hd Hr']]]; auto.
    - intro x. unfold done. destruct (s_pc x); auto; right; discriminate.
    - apply engine_progress.
    - exists k. cbn zeta. unfold s_run. split; [exact Hd|].
      destruct Hr' as [[_ _ _ Hdn Hco] _]. unfold done in Hd. rewrite Hd in Hco. cbn [open_ev app] in Hco.
      rewrite (Hdn Hd), app_nil_r in Hco. apply Permutation_sym, Hco.
  Qed.
End Progress.
