(** C05 — parallel engine with TWO concurrent pausers: quiescence for every
    interleaving of the code, and its loss with an "already paused" flag swapped
    before the lock is taken. *)
From Akita Require Import Lib.Base Lib.Lts C05.Model C05.Proofs1 C05.Proofs2.
Local Open Scope N_scope.

Definition held_by (b : bool) (s : m2state) : bool :=
  match m_lock s with Some (OwnP x) => Bool.eqb x b | _ => false end.

Definition pheld (s : m2state) : bool := match m_lock s with Some (OwnP _) => true | _ => false end.

Definition eng_owns (s : m2state) : bool := match m_lock s with Some OwnEngine => true | _ => false end.

Record M2Inv (s : m2state) : Prop := {
  m2_fault : m_fault s = false;
  m2_eng : eng_owns s = peng_holds (m_pc s);
  m2_workers : is_pwait (m_pc s) = false -> m_workers s = [];
  m2_alt1 : alternating (held_by false s) (m_s1 s) = true;
  m2_alt2 : alternating (held_by true s) (m_s2 s) = true;
  m2_acc : arun q_astep (rev (m_trace s)) (false, 0) = Some (pheld s, count_running (m_workers s))
}.

Ltac mfields := cbn [m_pc m_s1 m_s2 m_w1 m_w2 m_lock m_flag m_pq m_sq m_now m_workers m_fault m_trace set_script] in *.

Ltac mclose :=
  mfields; unfold held_by, pheld, eng_owns in *; mfields; cbn [peng_holds is_pwait] in *;
  try solve [ auto | discriminate | congruence | intros; subst; cbn in *; congruence | intros; subst; cbn in *; auto ].

Lemma M2Inv_step prog : inductive (m2_step prog false) M2Inv.
Proof.
  intros t s s' [Hf Heng Hws Ha1 Ha2 Hacc] Hstep.
  destruct s as [pc s1 s2 w1 w2 lock flag pq sq now ws fault trace].
  mfields. subst fault. unfold m2_step in Hstep. mfields.
  unfold held_by, pheld, eng_owns in *. mfields.
  destruct t as [|b|i].
  - (* engine *)
    unfold m2_step_engine in Hstep. mfields.
    destruct pc.
    + destruct pq, sq; inv_some; constructor; mclose.
    + destruct lock as [o|]; [discriminate|]. inv_some. constructor; mclose.
    + assert (Hw : ws = []) by (apply Hws; reflexivity). subst ws.
      destruct (earliest pq <=? earliest sq).
      * destruct (pop_at (earliest pq) pq) as [es pq'] eqn:Ep. inv_some.
        constructor; mclose. rewrite count_running_spawned. exact Hacc.
      * destruct (pop_at (earliest sq) sq) as [es sq'] eqn:Ep. inv_some.
        constructor; mclose. rewrite count_running_spawned. exact Hacc.
    + destruct (all_finished ws) eqn:Ef; [|discriminate]. inv_some.
      constructor; mclose. rewrite Hacc, (count_running_finished _ Ef). reflexivity.
    + destruct lock as [[|x]|]; cbn [peng_holds] in Heng; try discriminate. inv_some. constructor; mclose.
    + discriminate.
  - (* a pauser *)
    unfold m2_step_pauser in Hstep. mfields. cbn [andb] in Hstep.
    destruct b; mfields.
    + (* second pauser *)
      destruct s2 as [|[|] r]; [discriminate| |].
      * destruct lock as [o|]; [discriminate|]. inv_some. cbn [alternating negb andb] in Ha2.
        assert (Hw : ws = []) by (apply Hws; destruct pc; cbn in *; congruence). subst ws.
        constructor; mclose. cbn [rev]. rewrite arun_snoc, Hacc. reflexivity.
      * cbn [alternating] in Ha2. apply andb_true_iff in Ha2. destruct Ha2 as [Hh Ha2].
        destruct lock as [[|[|]]|]; try discriminate. inv_some.
        constructor; mclose; try (destruct pc; cbn in *; congruence);
          cbn [rev]; rewrite arun_snoc, Hacc; reflexivity.
    + (* first pauser *)
      destruct s1 as [|[|] r]; [discriminate| |].
      * destruct lock as [o|]; [discriminate|]. inv_some. cbn [alternating negb andb] in Ha1.
        assert (Hw : ws = []) by (apply Hws; destruct pc; cbn in *; congruence). subst ws.
        constructor; mclose. cbn [rev]. rewrite arun_snoc, Hacc. reflexivity.
      * cbn [alternating] in Ha1. apply andb_true_iff in Ha1. destruct Ha1 as [Hh Ha1].
        destruct lock as [[|[|]]|]; try discriminate. inv_some.
        constructor; mclose; try (destruct pc; cbn in *; congruence);
          cbn [rev]; rewrite arun_snoc, Hacc; reflexivity.
  - (* worker *)
    unfold m2_step_worker in Hstep. mfields.
    destruct (nth_error ws i) as [[e st]|] eqn:En; [|discriminate].
    assert (Hpc : is_pwait pc = true).
    { destruct (is_pwait pc) eqn:E; [reflexivity|]. rewrite (Hws eq_refl) in En. destruct i; discriminate. }
    assert (Hlk : lock = Some OwnEngine).
    { destruct pc; try discriminate. cbn in Heng. destruct lock as [[|x]|]; try discriminate. reflexivity. }
    subst lock.
    destruct st; [| |discriminate].
    + destruct (upd_worker i _ ws) as [ws'|] eqn:Eu; [|discriminate]. inv_some.
      constructor; mclose.
      cbn [rev]. rewrite arun_snoc, Hacc. cbn [q_astep].
      rewrite (upd_start _ _ _ _ En Eu). reflexivity.
    + destruct (upd_worker i _ ws) as [ws'|] eqn:Eu; [|discriminate].
      destruct (q_push_all (prog (ev_id e)) pq sq) as [pq' sq']. inv_some.
      constructor; mclose.
      cbn [rev]. rewrite arun_snoc, Hacc. cbn [q_astep].
      rewrite (upd_finish _ _ _ _ En Eu). f_equal. f_equal. lia.
Qed.

Theorem two_pausers_quiescent prog init s1 s2 o :
  alternating false s1 = true -> alternating false s2 = true ->
  let s := run (m2_step prog false) o (m2_init init s1 s2) in
  quiescent (rev (m_trace s)) = true /\ m_fault s = false /\ (pheld s = true -> m_workers s = []).
Proof.
  intros H1 H2 s.
  assert (H0 : M2Inv (m2_init init s1 s2)).
  { unfold m2_init. destruct (q_push_all init [] []) as [pq sq]. constructor; cbn; auto. }
  pose proof (run_invariant (m2_step prog false) M2Inv (M2Inv_step prog) o _ H0) as H. fold s in H.
  destruct H as [Hf Heng Hws _ _ Hacc]. split; [|split]; auto.
  - unfold quiescent, accepts. rewrite Hacc. reflexivity.
  - intro Hp. apply Hws. unfold pheld, eng_owns in *. destruct (m_lock s) as [[|x]|]; try discriminate.
    destruct (m_pc s); cbn in *; congruence.
Qed.

(** the flagged variant: the second pauser's Pause returns while the first is still
    waiting for the round and a handler is executing *)
Lemma two_pausers_flag_refuted :
  let s := run (m2_step wit_prog true) [T2E; T2E; T2E; T2W 0%nat; T2P false; T2P true]
               (m2_init wit_init [OpPause; OpContinue] [OpPause; OpContinue]) in
  rev (m_trace s) = [HStart 1; PauseRet] /\ quiescent (rev (m_trace s)) = false /\
  m_w1 s = true /\ m_lock s = Some OwnEngine.
Proof. vm_compute. repeat split; reflexivity. Qed.
