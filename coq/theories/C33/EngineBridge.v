(** C33 — the observer-invariance framework theorem transferred to the heap engine
    of Lib/Engine (the C01/C02 model of serialengine.go + eventqueue.go): two heap
    engines whose handler programs respect a world relation and an event relation
    handle pointwise related events in the same order and end the same way. *)
From Akita Require Import Lib.Base Lib.AbsSim Lib.AbsSimProofs Lib.AbsSimRel Lib.Engine C06.HeapBridge C06.EngineBridge.
Local Open Scope N_scope.

Section HeapRel.
  Variables (W1 Ev1 W2 Ev2 : Type).
  Variable t1 : Ev1 -> N.
  Variable t2 : Ev2 -> N.
  Variable c1 : Ev1 -> bool.
  Variable c2 : Ev2 -> bool.
  Variable H1 : W1 -> Ev1 -> W1 * list Ev1.
  Variable H2 : W2 -> Ev2 -> W2 * list Ev2.
  Variable WR : W1 -> W2 -> Prop.
  Variable ER : Ev1 -> Ev2 -> Prop.

  Hypothesis ER_time : forall a b, ER a b -> t1 a = t2 b.
  Hypothesis ER_sec : forall a b, ER a b -> c1 a = c2 b.
  Hypothesis H_rel : forall w1 w2 a b, WR w1 w2 -> ER a b ->
    WR (fst (H1 w1 a)) (fst (H2 w2 b)) /\ Forall2 ER (snd (H1 w1 a)) (snd (H2 w2 b)).

  (** two heap-engine states are related when they represent related abstract states *)
  Definition HRR (w1 : W1) (en1 : @Engine.engine Ev1) (w2 : W2) (en2 : @Engine.engine Ev2) : Prop :=
    exists s1 s2, ERel W1 Ev1 t1 w1 en1 s1 /\ ERel W2 Ev2 t2 w2 en2 s2 /\
                  RR W1 Ev1 W2 Ev2 t1 t2 WR ER s1 s2.

  Lemma HRR_new w1 w2 : WR w1 w2 -> HRR w1 new_engine w2 new_engine.
  Proof.
    intro Hw. exists (mk_sim 0 empty_queue empty_queue w1), (mk_sim 0 empty_queue empty_queue w2).
    split; [apply erel_new|split; [apply erel_new|]].
    apply RR_intro; cbn [now world pq sq]; try reflexivity; try exact Hw; try constructor;
      try apply empty_wfq.
  Qed.

  Lemma HRR_schedule_all es es' : Forall2 ER es es' -> forall w1 en1 w2 en2, HRR w1 en1 w2 en2 ->
    match Engine.schedule_all t1 c1 en1 es, Engine.schedule_all t2 c2 en2 es' with
    | (en1', _, true), (en2', _, true) => HRR w1 en1' w2 en2'
    | (_, _, false), (_, _, false) => True
    | _, _ => False
    end.
  Proof.
    intros HF w1 en1 w2 en2 (s1 & s2 & E1 & E2 & HR).
    pose proof (schedule_all_rel W1 Ev1 t1 c1 es w1 en1 s1 E1) as A1.
    pose proof (schedule_all_rel W2 Ev2 t2 c2 es' w2 en2 s2 E2) as A2.
    pose proof (schedule_all_RR W1 Ev1 W2 Ev2 t1 t2 c1 c2 H1 H2 WR ER ER_time ER_sec es es' HF s1 s2 HR) as A3.
    destruct (Engine.schedule_all t1 c1 en1 es) as [[en1' x1] ok1],
             (Engine.schedule_all t2 c2 en2 es') as [[en2' x2] ok2].
    destruct ok1, (AbsSim.schedule_all W1 Ev1 t1 c1 s1 es) as [u1|]; try contradiction;
      destruct ok2, (AbsSim.schedule_all W2 Ev2 t2 c2 s2 es') as [u2|]; try contradiction; try exact I.
    exists u1, u2. split; [exact A1|split; [exact A2|exact A3]].
  Qed.

  Theorem heap_run_RR n w1 en1 w2 en2 : HRR w1 en1 w2 en2 ->
    let r1 := Engine.run t1 c1 H1 n w1 en1 in
    let r2 := Engine.run t2 c2 H2 n w2 en2 in
    r_out r1 = r_out r2 /\
    (r_out r1 <> Engine.Panicked ->
       Forall2 ER (log_events Ev1 (r_log r1)) (log_events Ev2 (r_log r2)) /\
       WR (r_hs r1) (r_hs r2) /\ e_now (r_en r1) = e_now (r_en r2) /\
       HRR (r_hs r1) (r_en r1) (r_hs r2) (r_en r2)).
  Proof.
    intros (s1 & s2 & E1 & E2 & HR). cbv zeta.
    pose proof (run_rel W1 Ev1 t1 c1 H1 n w1 en1 s1 E1) as A1.
    pose proof (run_rel W2 Ev2 t2 c2 H2 n w2 en2 s2 E2) as A2.
    pose proof (run_RR W1 Ev1 W2 Ev2 t1 t2 c1 c2 H1 H2 WR ER ER_time ER_sec H_rel n s1 s2 HR) as A3.
    cbv zeta in A1, A2.
    destruct (AbsSim.run W1 Ev1 t1 c1 H1 n s1) as [[tr f] o].
    destruct (AbsSim.run W2 Ev2 t2 c2 H2 n s2) as [[tr' f'] o'].
    destruct A1 as [O1 A1], A2 as [O2 A2], A3 as (Htr & Ho & HRf). subst o'.
    assert (Hout : r_out (Engine.run t1 c1 H1 n w1 en1) = r_out (Engine.run t2 c2 H2 n w2 en2)).
    { destruct (r_out (Engine.run t1 c1 H1 n w1 en1)), (r_out (Engine.run t2 c2 H2 n w2 en2)), o;
        cbn in O1, O2; try contradiction; reflexivity. }
    split; [exact Hout|]. intro Hnp.
    destruct (A1 Hnp) as [T1 F1]. destruct A2 as [T2 F2]; [rewrite <- Hout; exact Hnp|].
    split; [rewrite T1, T2; exact Htr|].
    pose proof F1 as (N1 & W1e & _). pose proof F2 as (N2 & W2e & _).
    pose proof HRf as (Hnow & Hw & _).
    split; [rewrite W1e, W2e; exact Hw|]. split; [rewrite N1, N2; exact Hnow|].
    exists f, f'. split; [exact F1|split; [exact F2|exact HRf]].
  Qed.
End HeapRel.
