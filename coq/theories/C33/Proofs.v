From Akita Require Import Lib.Base Lib.AbsSim Lib.AbsSimProofs Lib.AbsSimRel C06.Model C06.Proofs C33.Model.
Local Open Scope N_scope.

Definition ER (a b : sev) : Prop := strip a = strip b.
Definition WR (w w' : sworld) : Prop := w_cnt w = w_cnt w'.

Lemma ER_time a b : ER a b -> s_time a = s_time b.
Proof. unfold ER, strip. intro H. injection H. auto. Qed.

Lemma ER_sec a b : ER a b -> s_sec a = s_sec b.
Proof. unfold ER, strip. intro H. injection H. auto. Qed.

Lemma spawn_rel t b rs : forall i i',
  Forall2 ER (fst (spawn t b i rs)) (fst (spawn t b i' rs)).
Proof.
  induction rs as [|r rest IH]; intros i i'; cbn [spawn].
  - constructor.
  - specialize (IH (i + 1) (i' + 1)).
    destruct (spawn t b (i + 1) rest) as [evs id1], (spawn t b (i' + 1) rest) as [evs' id2].
    cbn [fst] in *. constructor; [reflexivity|exact IH].
Qed.

Lemma handler_rel sc w w' a b : WR w w' -> ER a b ->
  WR (fst (handler sc w a)) (fst (handler sc w' b)) /\
  Forall2 ER (snd (handler sc w a)) (snd (handler sc w' b)).
Proof.
  unfold WR, ER, strip. intros Hw He. injection He as Ht Hh Hs Hb Htag.
  unfold handler. rewrite <- Hw, <- Hh, <- Hb, <- Ht.
  destruct (s_budget a =? 0); [cbn; split; [reflexivity|constructor]|].
  destruct (N.of_nat (length (nth_default [] sc (s_handler a))) =? 0);
    [cbn; split; [reflexivity|constructor]|].
  pose proof (spawn_rel (s_time a) (s_budget a - 1)
    (nth_default [] (nth_default [] sc (s_handler a))
       (nth_default 0 (w_cnt w) (s_handler a) mod N.of_nat (length (nth_default [] sc (s_handler a)))))
    (w_nextid w) (w_nextid w')) as Hsp.
  destruct (spawn _ _ (w_nextid w) _) as [evs id1], (spawn _ _ (w_nextid w') _) as [evs' id2].
  cbn [fst snd] in *. split; [reflexivity|exact Hsp].
Qed.

Lemma handler_obs_rel kb ka kb' ka' sc w w' a b : WR w w' -> ER a b ->
  WR (fst (handler_obs kb ka sc w a)) (fst (handler_obs kb' ka' sc w' b)) /\
  Forall2 ER (snd (handler_obs kb ka sc w a)) (snd (handler_obs kb' ka' sc w' b)).
Proof.
  intros Hw He. unfold handler_obs.
  pose proof (handler_rel sc (mk_sworld (w_cnt w) (w_nextid w + kb w a))
                (mk_sworld (w_cnt w') (w_nextid w' + kb' w' b)) a b Hw He) as [A B].
  destruct (handler sc (mk_sworld (w_cnt w) _) a) as [w1 evs].
  destruct (handler sc (mk_sworld (w_cnt w') _) b) as [w1' evs'].
  cbn [fst snd] in *. split; [exact A|exact B].
Qed.

Definition o_RR := RR sworld sev sworld sev s_time s_time WR ER.

(** any two observers: traces equal up to generated IDs, same outcome, same counters *)
Lemma observers_invisible kb ka kb' ka' sc n s s' : o_RR s s' ->
  let '(tr, f, o) := o_run kb ka sc n s in
  let '(tr', f', o') := o_run kb' ka' sc n s' in
  map strip tr = map strip tr' /\ o = o' /\ now f = now f' /\ w_cnt (world f) = w_cnt (world f').
Proof.
  intro HR.
  pose proof (run_RR sworld sev sworld sev s_time s_time s_sec s_sec
                (handler_obs kb ka sc) (handler_obs kb' ka' sc) WR ER
                ER_time ER_sec (handler_obs_rel kb ka kb' ka' sc) n s s' HR) as Hr.
  unfold o_run.
  destruct (run sworld sev s_time s_sec (handler_obs kb ka sc) n s) as [[tr f] o].
  destruct (run sworld sev s_time s_sec (handler_obs kb' ka' sc) n s') as [[tr' f'] o'].
  destruct Hr as (A & B & C). split; [|split; [exact B|]].
  - induction A as [|x y l l' Hxy HF IH]; [reflexivity|]. cbn [map]. rewrite Hxy, IH. reflexivity.
  - destruct C as (Hn & Hw & _). split; [exact Hn|exact Hw].
Qed.

Lemma o_RR_refl s : s_wfs s -> o_RR s s.
Proof.
  intros [A B]. apply RR_intro; try assumption; try reflexivity.
  - clear. induction (snapshot sev (pq s)); constructor; [reflexivity|assumption].
  - clear. induction (snapshot sev (sq s)); constructor; [reflexivity|assumption].
Qed.
