(** C33 — observing a simulation does not change it.

    Observers (engine hooks, tracers, buffer tracing) run at the hook positions
    around each handled event.  What they can do to the simulation state is to
    consume generated IDs (task IDs from the shared sequential ID generator); they
    schedule no events and touch no component state.  The model wraps the scripted
    handler of C06.Model with an observer that consumes an ARBITRARY number of IDs
    before and after each event (any function of the state and the event). *)
From Akita Require Import Lib.Base Lib.AbsSim C06.Model.
Local Open Scope N_scope.

Definition observer := sworld -> sev -> N.

Definition handler_obs (kb ka : observer) (sc : script) (w : sworld) (e : sev) : sworld * list sev :=
  let w0 := mk_sworld (w_cnt w) (w_nextid w + kb w e) in
  let '(w1, evs) := handler sc w0 e in
  (mk_sworld (w_cnt w1) (w_nextid w1 + ka w1 e), evs).

Definition o_run (kb ka : observer) (sc : script) :=
  run sworld sev s_time s_sec (handler_obs kb ka sc).

(** an event without its generated ID *)
Definition strip (e : sev) : N * N * bool * N * N :=
  (s_time e, s_handler e, s_sec e, s_budget e, s_tag e).

Definition no_obs : observer := fun _ _ => 0.
Definition const_obs (k : N) : observer := fun _ _ => k.
