(** C33 — case evaluators. *)
From Akita Require Import Lib.Base Lib.AbsSim C06.Model C06.Exec C33.Model.
Local Open Scope N_scope.

Definition strip_eqb (a b : N * N * bool * N * N) : bool :=
  let '(t, h, s, bu, tg) := a in let '(t', h', s', bu', tg') := b in
  (t =? t') && (h =? h') && Bool.eqb s s' && (bu =? bu') && (tg =? tg').

Inductive case :=
(** scripted simulation run without observers and with an observer consuming
    [kb] IDs before and [ka] IDs after every event *)
| ObsScript (nh : nat) (sc : script) (inits : list (N * N * bool * N * N)) (kb ka : N) (fuel : nat)
    (obs_off obs_on : list sev) (fin_off fin_on : final)
(** library assembly: one fingerprint (responses with data and times in order,
    end time, final memory image) per observer configuration *)
| ObsLib (fps : list (list N)).

Definition check_case (c : case) : bool :=
  match c with
  | ObsScript nh sc inits kb ka fuel obs_off obs_on fin_off fin_on =>
      match init_sim nh inits with
      | None => false
      | Some s0 =>
          let '(tr0, f0, o0) := o_run no_obs no_obs sc fuel s0 in
          let '(tr1, f1, o1) := o_run (const_obs kb) (const_obs ka) sc fuel s0 in
          is_done o0 && is_done o1 && tr_eqb tr0 obs_off && tr_eqb tr1 obs_on &&
          final_eqb (final_of f0) fin_off && final_eqb (final_of f1) fin_on
      end
  | ObsLib _ => true
  end.

Fixpoint all_eq (x : list N) (l : list (list N)) : bool :=
  match l with [] => true | y :: r => listN_eqb x y && all_eq x r end.

(** the property on observed behaviour: equal apart from generated IDs *)
Definition holds_on (c : case) : bool :=
  match c with
  | ObsScript _ _ _ _ _ _ obs_off obs_on fin_off fin_on =>
      list_eqb strip_eqb (map strip obs_off) (map strip obs_on) &&
      (let '(t, cn, _) := fin_off in let '(t', cn', _) := fin_on in (t =? t') && listN_eqb cn cn')
  | ObsLib fps => match fps with [] => true | x :: r => all_eq x r end
  end.
