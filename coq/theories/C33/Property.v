(** C33 — observing a simulation does not change it.  Property theorems only. *)
From Akita Require Import Lib.Base Lib.AbsSim Lib.AbsSimProofs Lib.AbsSimRel C06.Model C06.Proofs C06.EngineBridge C33.Model C33.Proofs C33.EngineBridge.
From Akita Require Lib.Engine.
Local Open Scope N_scope.

(** Framework theorem: two simulations (any world/event types) whose handler
    programs respect a world relation and an event relation preserving time and
    class handle pointwise related events in the same order, end the same way and
    reach related states.  Instantiated below with "equal apart from IDs". *)
Theorem c33_framework_invariant :
  forall (W1 Ev1 W2 Ev2 : Type) (t1 : Ev1 -> N) (t2 : Ev2 -> N) (c1 : Ev1 -> bool) (c2 : Ev2 -> bool)
         (H1 : W1 -> Ev1 -> W1 * list Ev1) (H2 : W2 -> Ev2 -> W2 * list Ev2)
         (WR : W1 -> W2 -> Prop) (ER : Ev1 -> Ev2 -> Prop),
  (forall a b, ER a b -> t1 a = t2 b) -> (forall a b, ER a b -> c1 a = c2 b) ->
  (forall w1 w2 a b, WR w1 w2 -> ER a b ->
     WR (fst (H1 w1 a)) (fst (H2 w2 b)) /\ Forall2 ER (snd (H1 w1 a)) (snd (H2 w2 b))) ->
  forall n s s', RR W1 Ev1 W2 Ev2 t1 t2 WR ER s s' ->
  let '(tr, f, o) := run W1 Ev1 t1 c1 H1 n s in
  let '(tr', f', o') := run W2 Ev2 t2 c2 H2 n s' in
  Forall2 ER tr tr' /\ o = o' /\ RR W1 Ev1 W2 Ev2 t1 t2 WR ER f f'.
Proof. exact run_RR. Qed.
Print Assumptions c33_framework_invariant.

(** For every script, every pair of observers (ARBITRARY functions deciding how
    many IDs are consumed before/after each event), every run length: the handled
    events are the same apart from their generated IDs, at the same times, with
    the same outcome, final time and component counters. *)
Theorem c33_observers_invisible : forall kb ka kb' ka' sc n s s', o_RR s s' ->
  let '(tr, f, o) := o_run kb ka sc n s in
  let '(tr', f', o') := o_run kb' ka' sc n s' in
  map strip tr = map strip tr' /\ o = o' /\ now f = now f' /\ w_cnt (world f) = w_cnt (world f').
Proof. exact observers_invisible. Qed.
Print Assumptions c33_observers_invisible.

(** in particular: with vs without observers, from the same initial state *)
Theorem c33_with_vs_without : forall kb ka sc n s, s_wfs s ->
  let '(tr, f, o) := o_run no_obs no_obs sc n s in
  let '(tr', f', o') := o_run kb ka sc n s in
  map strip tr = map strip tr' /\ o = o' /\ now f = now f' /\ w_cnt (world f) = w_cnt (world f').
Proof. intros kb ka sc n s Hw. apply observers_invisible. apply o_RR_refl. exact Hw. Qed.
Print Assumptions c33_with_vs_without.

Example c33_nonvacuous :
  let sc := [[[mk_rule 0 1 true 7; mk_rule 5 0 false 8]]; [[mk_rule 3 0 false 9]]] in
  match init_sim 2 [(0, 0, false, 3, 1); (2, 1, true, 2, 2)] with
  | Some s0 =>
      let '(tr, _, _) := o_run no_obs no_obs sc 50 s0 in
      let '(tr', _, _) := o_run (const_obs 2) (const_obs 1) sc 50 s0 in
      (3 < length tr)%nat /\ map s_id tr <> map s_id tr' /\ map strip tr = map strip tr'
  | None => False
  end.
Proof. vm_compute. repeat split; try lia; discriminate. Qed.

(** The framework theorem on the heap engine itself (Lib/Engine: the binary heaps of
    eventqueue.go and the Run loop of serialengine.go, tied to the Go code by C01/C02):
    two engines that represent related simulations — in particular two engines built
    from NewSerialEngine by pointwise related Schedule calls — and whose handler programs
    respect the relations handle pointwise related events in the same order, end the
    same way, at the same time, in related handler states, and stay related. *)
Theorem c33_heap_engine_invariant :
  forall (W1 Ev1 W2 Ev2 : Type) (t1 : Ev1 -> N) (t2 : Ev2 -> N) (c1 : Ev1 -> bool) (c2 : Ev2 -> bool)
         (H1 : W1 -> Ev1 -> W1 * list Ev1) (H2 : W2 -> Ev2 -> W2 * list Ev2)
         (WR : W1 -> W2 -> Prop) (ER : Ev1 -> Ev2 -> Prop),
  (forall a b, ER a b -> t1 a = t2 b) -> (forall a b, ER a b -> c1 a = c2 b) ->
  (forall w1 w2 a b, WR w1 w2 -> ER a b ->
     WR (fst (H1 w1 a)) (fst (H2 w2 b)) /\ Forall2 ER (snd (H1 w1 a)) (snd (H2 w2 b))) ->
  forall n w1 en1 w2 en2, HRR W1 Ev1 W2 Ev2 t1 t2 WR ER w1 en1 w2 en2 ->
  let r1 := Engine.run t1 c1 H1 n w1 en1 in
  let r2 := Engine.run t2 c2 H2 n w2 en2 in
  Engine.r_out r1 = Engine.r_out r2 /\
  (Engine.r_out r1 <> Engine.Panicked ->
     Forall2 ER (log_events Ev1 (Engine.r_log r1)) (log_events Ev2 (Engine.r_log r2)) /\
     WR (Engine.r_hs r1) (Engine.r_hs r2) /\
     Engine.e_now (Engine.r_en r1) = Engine.e_now (Engine.r_en r2) /\
     HRR W1 Ev1 W2 Ev2 t1 t2 WR ER (Engine.r_hs r1) (Engine.r_en r1) (Engine.r_hs r2) (Engine.r_en r2)).
Proof. exact heap_run_RR. Qed.
Print Assumptions c33_heap_engine_invariant.

Theorem c33_heap_engine_initial :
  forall (W1 Ev1 W2 Ev2 : Type) (t1 : Ev1 -> N) (t2 : Ev2 -> N) (c1 : Ev1 -> bool) (c2 : Ev2 -> bool)
         (H1 : W1 -> Ev1 -> W1 * list Ev1) (H2 : W2 -> Ev2 -> W2 * list Ev2)
         (WR : W1 -> W2 -> Prop) (ER : Ev1 -> Ev2 -> Prop),
  (forall a b, ER a b -> t1 a = t2 b) -> (forall a b, ER a b -> c1 a = c2 b) ->
  forall w1 w2 es es', WR w1 w2 -> Forall2 ER es es' ->
  match Engine.schedule_all t1 c1 Engine.new_engine es, Engine.schedule_all t2 c2 Engine.new_engine es' with
  | (en1, _, true), (en2, _, true) => HRR W1 Ev1 W2 Ev2 t1 t2 WR ER w1 en1 w2 en2
  | (_, _, false), (_, _, false) => True
  | _, _ => False
  end.
Proof.
  intros W1 Ev1 W2 Ev2 t1 t2 c1 c2 H1 H2 WR ER Ht Hc w1 w2 es es' Hw HF.
  apply (HRR_schedule_all W1 Ev1 W2 Ev2 t1 t2 c1 c2 H1 H2 WR ER Ht Hc es es' HF).
  apply HRR_new. exact Hw.
Qed.
Print Assumptions c33_heap_engine_initial.
