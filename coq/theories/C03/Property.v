(** C03 — serial simulations are deterministic.  Property theorems only.

    In Gallina a run is a function of its initial state, so determinism of the
    modelled framework (Lib/AbsSim: no oracle occurs in engine, queue, scheduling
    or checkpoint code) holds by construction; the theorems with content are the
    order-independence of every place where the Go code consults an unordered
    source, for ALL iteration orders, one theorem per site class of Sites.v. *)
From Coq Require Import Permutation String.
From Akita Require Import Lib.Base Lib.AbsSim C03.Sites C03.Proofs C06.Model C06.Exec C03.Exec.

(** SortKeys sites: the sorted key slice is the same for every iteration order
    (any total, antisymmetric, transitive order: sort.Strings, sort.Slice on
    uint64/PID keys). *)
Theorem c03_sorted_keys_order_independent :
  forall (A : Type) (leb : A -> A -> bool),
  (forall a b, leb a b = true \/ leb b a = true) ->
  (forall a b, leb a b = true -> leb b a = true -> a = b) ->
  (forall a b c, leb a b = true -> leb b c = true -> leb a c = true) ->
  forall l1 l2, Permutation l1 l2 -> isort A leb l1 = isort A leb l2.
Proof. exact isort_perm. Qed.
Print Assumptions c03_sorted_keys_order_independent.

(** Commutative sites: a loop whose per-key effects pairwise commute reaches the
    same state for every iteration order. *)
Theorem c03_commutative_loop_order_independent :
  forall (S K : Type) (f : S -> K -> S), (forall s a b, f (f s a) b = f (f s b) a) ->
  forall l1 l2, Permutation l1 l2 -> forall s, fold_left f l1 s = fold_left f l2 s.
Proof. exact fold_perm. Qed.
Print Assumptions c03_commutative_loop_order_independent.

(** Existential sites: whether some / every key satisfies a predicate. *)
Theorem c03_existential_order_independent :
  forall (A : Type) (p : A -> bool) l1 l2, Permutation l1 l2 ->
  existsb p l1 = existsb p l2 /\ forallb p l1 = forallb p l2.
Proof. intros A p l1 l2 H. split; [apply existsb_perm|apply forallb_perm]; exact H. Qed.
Print Assumptions c03_existential_order_independent.

(** MapToMap sites: inserting the (distinct-key) pairs into another map yields the
    same map, pointwise, for every iteration order. *)
Theorem c03_map_build_order_independent :
  forall (V : Type) (l1 l2 : list (N * V)), Permutation l1 l2 -> NoDup (map fst l1) ->
  forall m k, fold_left (upd V) l1 m k = fold_left (upd V) l2 m k.
Proof. exact build_perm. Qed.
Print Assumptions c03_map_build_order_independent.

(** Every site in a generated list that passes the check is registered (this is
    the lemma the regenerated obligation GenSites.gen_sites_registered rests on). *)
Theorem c03_unregistered_empty_means_all_registered : forall sites,
  unregistered sites = [] -> forall k, In k sites -> registered k = true.
Proof. exact unregistered_nil_all. Qed.
Print Assumptions c03_unregistered_empty_means_all_registered.

(** The framework run is a function: equal configurations and inputs give the
    same handled trace, outcome and final state (no oracle in the model). *)
Theorem c03_framework_functional : forall sc n (s s' : ssim), s = s' -> s_run sc n s = s_run sc n s'.
Proof. intros sc n s s' ->. reflexivity. Qed.
Print Assumptions c03_framework_functional.

Example c03_nonvacuous :
  isort N N.leb [3; 1; 2]%N = isort N N.leb [2; 3; 1]%N /\ registered "maprange|mem|Storage.SaveCheckpoint|s.data|0|collect-sort" = true.
Proof. vm_compute. split; reflexivity. Qed.
