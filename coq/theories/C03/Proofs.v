(** C03 — order-independence lemmas, one per site class of Sites.v.  A Go map is
    a finite set of (key, value) pairs handed to the loop body in an arbitrary
    order: every theorem quantifies over ALL pairs of iteration orders
    (permutations of the same pairs). *)
From Coq Require Import Permutation.
From Akita Require Import Lib.Base.

(** -------- SortKeys: collect the keys, sort, then use ------------------- *)
Section Sort.
  Variable A : Type.
  Variable leb : A -> A -> bool.
  Hypothesis leb_total : forall a b, leb a b = true \/ leb b a = true.
  Hypothesis leb_antisym : forall a b, leb a b = true -> leb b a = true -> a = b.
  Hypothesis leb_trans : forall a b c, leb a b = true -> leb b c = true -> leb a c = true.

  Fixpoint ins (x : A) (l : list A) : list A :=
    match l with
    | [] => [x]
    | y :: r => if leb x y then x :: y :: r else y :: ins x r
    end.

  Fixpoint isort (l : list A) : list A :=
    match l with [] => [] | x :: r => ins x (isort r) end.

  Lemma ins_comm x y l : ins x (ins y l) = ins y (ins x l).
  Proof.
    induction l as [|z r IH]; cbn [ins].
    - destruct (leb x y) eqn:Exy, (leb y x) eqn:Eyx; try reflexivity.
      + rewrite (leb_antisym _ _ Exy Eyx). reflexivity.
      + destruct (leb_total x y) as [H|H]; congruence.
    - destruct (leb y z) eqn:Eyz, (leb x z) eqn:Exz;
        destruct (leb x y) eqn:Exy, (leb y x) eqn:Eyx;
        cbn [ins]; rewrite ?Exy, ?Eyx, ?Exz, ?Eyz; cbn [ins]; rewrite ?Exy, ?Eyx, ?Exz, ?Eyz;
        try reflexivity;
        try (destruct (leb_total x y) as [H|H]; congruence);
        try (rewrite (leb_antisym _ _ Exy Eyx) in *; congruence).
      all: try (f_equal; exact IH).
      all: try (pose proof (leb_trans _ _ _ Exy Eyz); congruence).
      all: try (pose proof (leb_trans _ _ _ Eyx Exz); congruence).
  Qed.

  (** the sorted key list does not depend on the iteration order *)
  Lemma isort_perm l1 l2 : Permutation l1 l2 -> isort l1 = isort l2.
  Proof.
    induction 1 as [|x l l' _ IH|x y l|l l' l'' _ IH1 _ IH2]; cbn [isort].
    - reflexivity.
    - rewrite IH. reflexivity.
    - apply ins_comm.
    - congruence.
  Qed.
End Sort.

(** -------- Commutative: per-key effects that pairwise commute ----------- *)
Section Comm.
  Variables (S K : Type).
  Variable f : S -> K -> S.
  Hypothesis f_comm : forall s a b, f (f s a) b = f (f s b) a.

  Lemma fold_perm l1 l2 : Permutation l1 l2 -> forall s, fold_left f l1 s = fold_left f l2 s.
  Proof.
    induction 1 as [|x l l' _ IH|x y l|l l' l'' _ IH1 _ IH2]; intro s; cbn [fold_left].
    - reflexivity.
    - apply IH.
    - rewrite f_comm. reflexivity.
    - rewrite IH1. apply IH2.
  Qed.
End Comm.

(** -------- Existential: only "is there a key with P" is used ------------- *)
Lemma existsb_perm {A} (p : A -> bool) l1 l2 : Permutation l1 l2 -> existsb p l1 = existsb p l2.
Proof.
  induction 1 as [|x l l' _ IH|x y l|l l' l'' _ IH1 _ IH2]; cbn [existsb].
  - reflexivity.
  - rewrite IH. reflexivity.
  - destruct (p x), (p y); reflexivity.
  - congruence.
Qed.

Lemma forallb_perm {A} (p : A -> bool) l1 l2 : Permutation l1 l2 -> forallb p l1 = forallb p l2.
Proof.
  induction 1 as [|x l l' _ IH|x y l|l l' l'' _ IH1 _ IH2]; cbn [forallb].
  - reflexivity.
  - rewrite IH. reflexivity.
  - destruct (p x), (p y); reflexivity.
  - congruence.
Qed.

(** -------- MapToMap: build a map keyed by the same (distinct) keys -------- *)
Section MapToMap.
  Variable V : Type.
  Definition amap := N -> option V.
  Definition upd (m : amap) (kv : N * V) : amap :=
    fun k => if (k =? fst kv)%N then Some (snd kv) else m k.

  Lemma build_perm l1 l2 : Permutation l1 l2 -> NoDup (map fst l1) ->
    forall m k, fold_left upd l1 m k = fold_left upd l2 m k.
  Proof.
    induction 1 as [|x l l' Hp IH|x y l|l l' l'' Hp1 IH1 Hp2 IH2]; intros Hnd m k; cbn [fold_left].
    - reflexivity.
    - apply IH. inversion Hnd; assumption.
    - (* two distinct keys: the two updates commute pointwise *)
      assert (Hxy : fst y <> fst x).
      { cbn [map] in Hnd. inversion Hnd as [|a b Hni _]; subst. intro E. apply Hni. left. symmetry. exact E. }
      assert (Hext : forall k', upd (upd m y) x k' = upd (upd m x) y k').
      { intro k'. unfold upd. destruct (k' =? fst x)%N eqn:E1, (k' =? fst y)%N eqn:E2; try reflexivity.
        apply N.eqb_eq in E1. apply N.eqb_eq in E2. congruence. }
      clear Hnd. generalize dependent (upd (upd m y) x). generalize (upd (upd m x) y).
      intros b a Hab. revert a b Hab.
      induction l as [|z r IHr]; intros a b Hab; cbn [fold_left]; [apply Hab|].
      apply IHr. intro k'. unfold upd. destruct (k' =? fst z)%N; [reflexivity|apply Hab].
    - rewrite IH1 by assumption. apply IH2.
      eapply Permutation_NoDup; [|exact Hnd]. apply Permutation_map. exact Hp1.
  Qed.
End MapToMap.
