(** C03 — registry of the places where library code consults an unordered or
    external source (map iteration, goroutines, wall clock, randomness), each
    classified by the order-independence argument that applies to it.  The list
    of sites present in the source is REGENERATED from /repo on every run
    (harness/internal/c03/sites.go, go/types) and compared with this registry
    inside Coq: a site that is not registered is a broken obligation. *)
From Coq Require Import String.
From Akita Require Import Lib.Base.
Local Open Scope string_scope.

Inductive cls :=
| SortKeys        (* keys collected from the map, then sorted before any use *)
| Commutative     (* per-key effects on disjoint state / commutative fold *)
| Existential     (* only whether some/all keys satisfy a predicate is used (plus diagnostic text) *)
| MapToMap        (* builds another map / set keyed by the same keys *)
| OutsideSim      (* monitoring, daisen2 server, exec-info wall clock: never feeds simulation state *)
| ParallelOnly    (* parallel engine only; the property is about the serial engine *)
| TestSupport.    (* helper packages used by tests only *)

(** key = kind|package|function|expression|occurrence|shape, where the shape of a map range is
    computed syntactically by the translator: collect-sort (body only appends the key, the
    slice is sorted afterwards in the same function), collect-nosort, loop.  Every SortKeys
    entry has shape collect-sort, except OpenTraceSource/rootSet whose slice is sorted by the
    callee sourcefs.NewSource.  Removing a sort changes the key, hence breaks the obligation. *)
Definition registry : list (string * cls) := [
  ("maprange|mem|Storage.SaveCheckpoint|s.data|0|collect-sort", SortKeys);
  ("maprange|mem/vm|pageTableImpl.ReverseLookup|pt.tables|0|collect-sort", SortKeys);
  ("maprange|mem/vm|pageTableImpl.SaveCheckpoint|pt.tables|0|collect-sort", SortKeys);
  ("maprange|messaging|PortOwnerBase.Ports|po.ports|0|collect-sort", SortKeys);
  ("maprange|messaging|PortOwnerBase.GetPortByName|po.ports|0|loop", Existential);
  ("maprange|simulation|Simulation.checkpointCoverage|payloads|0|loop", Existential);
  ("maprange|simulation|Simulation.checkpointCoverage|rebuilt|0|loop", Existential);
  ("maprange|simulation|recordSourceArchives|explicitFSes|0|collect-sort", SortKeys);
  ("maprange|sourcefs|WriteArchive|files|0|collect-sort", SortKeys);
  ("maprange|sourcefs|OpenTraceSource|files|0|loop", MapToMap);
  ("maprange|sourcefs|OpenTraceSource|rootSet|0|collect-nosort", SortKeys);
  ("maprange|datarecording|sqliteWriter.sortedTableNames|t.tables|0|collect-sort", SortKeys);
  ("maprange|datarecording|sqliteReader.ListTables|r.typeMap|0|collect-sort", SortKeys);
  ("maprange|datarecording|sqliteWriter.buildIndexes|t.tables|0|loop", Commutative);
  ("maprange|internal/codec|Registry.Tags|r.types|0|collect-nosort", TestSupport);
  ("maprange|mem/datamover|ctrlMiddleware.endInflightTasks|trans.PendingRead|0|loop", Commutative);
  ("maprange|mem/datamover|ctrlMiddleware.endInflightTasks|trans.PendingWrite|0|loop", Commutative);
  ("maprange|mem/vm/gmmu|ctrlMiddleware.endInflightTasks|m.comp.State.RemoteMemReqs|0|loop", Commutative);
  ("maprange|mem/vm/mmuCache|ctrlMiddleware.endInflightTasks|m.comp.State.InflightReqs|0|loop", Commutative);
  ("maprange|tracing|DBTracer.StartTracing|t.tracingTasks|0|loop", Commutative);
  ("maprange|tracing/tracingtest|LeakRecorder.OpenTasks|r.open|0|loop", TestSupport);
  ("maprange|daisen2/internal/httpapi|DBActivityTracker.Snapshot|t.active|0|loop", OutsideSim);
  ("maprange|daisen2/internal/httpapi|SQLiteTraceReader.CollectDBInfo|tableIndexes|0|collect-sort", OutsideSim);
  ("maprange|daisen2/internal/httpapi|accumulateBins|keySet|0|collect-sort", OutsideSim);
  ("go|daisen2/cmd/daisen2|main|func-literal|0|", OutsideSim);
  ("go|daisen2/internal/httpapi|SQLiteTraceReader.dbInfoGet|func-literal|0|", OutsideSim);
  ("go|monitoring2|Monitor.StartServer|func-literal|0|", OutsideSim);
  ("go|monitoring2|Monitor.run|func-literal|0|", OutsideSim);
  ("go|timing|ParallelEngine.runEventWithTempWorker|e.tempWorkerRun|0|", ParallelOnly);
  ("select|daisen2/internal/httpapi|Server.newCaptureRequester|select|0|", OutsideSim);
  ("wallclock|daisen2/internal/httpapi|DBActivityTracker.Begin|time.Now|0|", OutsideSim);
  ("wallclock|daisen2/internal/httpapi|DBActivityTracker.Snapshot|time.Now|0|", OutsideSim);
  ("wallclock|simulation|metaRecorder.End|time.Now|0|", OutsideSim);
  ("wallclock|simulation|metaRecorder.Start|time.Now|0|", OutsideSim)
].

Definition registered (k : string) : bool :=
  existsb (fun p => String.eqb k (fst p)) registry.

(** the sites of the current source that the registry does not know *)
Definition unregistered (sites : list string) : list string :=
  filter (fun k => negb (registered k)) sites.

Lemma unregistered_nil_all sites :
  unregistered sites = [] -> forall k, In k sites -> registered k = true.
Proof.
  unfold unregistered. induction sites as [|s r IH]; intros Hn k Hin; [destruct Hin|].
  cbn [filter] in Hn. destruct (registered s) eqn:E; cbn [negb] in Hn; [|discriminate].
  destruct Hin as [<-|Hin]; [exact E|apply IH; assumption].
Qed.
