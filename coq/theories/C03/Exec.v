(** C03 — case evaluators. *)
From Akita Require Import Lib.Base Lib.AbsSim C06.Model C06.Exec.
Local Open Scope N_scope.

Inductive case :=
(** the same scripted simulation run in k fresh processes *)
| ProcScript (nh : nat) (sc : script) (inits : list (N * N * bool * N * N)) (fuel : nat)
    (obs : list (list sev)) (fins : list final)
(** the same library assembly run in k fresh processes (and with different
    GOMAXPROCS): handled-event trace incl. IDs ++ every entity's final payload hash *)
| ProcLib (fps : list (list N))
(** k fresh data recorders fed the same entries: the resulting tables, flattened *)
| Recorder (tabs : list (list N)).

Fixpoint all_tr (x : list sev) (l : list (list sev)) : bool :=
  match l with [] => true | y :: r => tr_eqb x y && all_tr x r end.
Fixpoint all_fin (x : final) (l : list final) : bool :=
  match l with [] => true | y :: r => final_eqb x y && all_fin x r end.
Fixpoint all_ln (x : list N) (l : list (list N)) : bool :=
  match l with [] => true | y :: r => listN_eqb x y && all_ln x r end.

(** model output = every process's output (scripted simulations) *)
Definition check_case (c : case) : bool :=
  match c with
  | ProcScript nh sc inits fuel obs fins =>
      match init_sim nh inits with
      | None => false
      | Some s0 =>
          let '(tr, f, o) := s_run sc fuel s0 in
          is_done o && all_tr tr obs && all_fin (final_of f) fins
      end
  | _ => true
  end.

(** the property on observed behaviour: every run produced the same thing *)
Definition holds_on (c : case) : bool :=
  match c with
  | ProcScript _ _ _ _ obs fins =>
      match obs, fins with
      | x :: r, y :: r' => all_tr x r && all_fin y r'
      | _, _ => true
      end
  | ProcLib fps => match fps with x :: r => all_ln x r | [] => true end
  | Recorder tabs => match tabs with x :: r => all_ln x r | [] => true end
  end.
