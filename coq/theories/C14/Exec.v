(** C14 — case evaluators for the correspondence check. *)
From Akita Require Import Lib.Base Lib.Fifo C14.Model.

(** One executed history: constructor arguments of NewBuffer and the list of calls,
    each with the result observed on the real [queueing.Buffer[uint64]]. *)
Record case := mk_case { c_name : list N; c_cap : Z; c_trace : list (op * out) }.

Definition oln_eqb := opt_eqb listN_eqb.

Definition dto_eqb (a b : dto (A := elem)) : bool :=
  listN_eqb (d_name a) (d_name b) && (d_cap a =? d_cap b)%Z && oln_eqb (d_elems a) (d_elems b).

Definition out_eqb (a b : out) : bool :=
  match a, b with
  | RUnit, RUnit | RPanic, RPanic | RErr, RErr => true
  | RVal x, RVal y => N.eqb x y
  | RBool x, RBool y => Bool.eqb x y
  | RInt x, RInt y => (x =? y)%Z
  | RList x, RList y => listN_eqb x y
  | RName x, RName y => listN_eqb x y
  | RDto x, RDto y => dto_eqb x y
  | _, _ => false
  end.

Definition sout_eqb (a b : sout) : bool :=
  match a, b with
  | SUnit, SUnit | SRefused, SRefused | SErr, SErr => true
  | SVal x, SVal y => N.eqb x y
  | SBool x, SBool y => Bool.eqb x y
  | SInt x, SInt y => (x =? y)%Z
  | SList x, SList y => listN_eqb x y
  | SName x, SName y => listN_eqb x y
  | SDto n c l, SDto n' c' l' => listN_eqb n n' && (c =? c')%Z && listN_eqb l l'
  | _, _ => false
  end.

(** model output = implementation output, call by call, exactly (including the
    null / empty-array form of the JSON elements member) *)
Definition check_case (c : case) : bool :=
  list_eqb out_eqb (fst (run (new_buf (c_name c) (c_cap c)) (map fst (c_trace c))))
                   (map snd (c_trace c)).

(** the property itself on the observed behaviour: the observed results are those
    of a bounded FIFO list [(name, cap, list)] — checked by stepping the abstract
    specification (no slice representation) along the observed trace, and that the
    list never exceeds a non-negative capacity unless an Unmarshal of a hand-made
    oversize object put it there *)
Definition len_ok (s : fspec) : bool := (Z.of_nat (length (s_list s)) <=? Z.max 0 (s_cap s))%Z.

Fixpoint accepts (s : fspec) (ok_bound : bool) (t : list (op * out)) : bool :=
  match t with
  | [] => true
  | (o, x) :: r =>
      let '(y, s') := sstep s o in
      let ok' := match o with
                 | OUnmarshal _ => len_ok s'
                 | _ => ok_bound
                 end in
      sout_eqb (abs_out x) y &&
      (if ok' then len_ok s' else true) &&
      accepts s' ok' r
  end.

Definition holds_on (c : case) : bool :=
  accepts (mk_spec (c_name c) (c_cap c) []) true (c_trace c).
