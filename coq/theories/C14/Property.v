(** C14 — buffers behave as bounded FIFO queues.  Property theorems only.
    [run b h] executes the history [h] of API calls on the slice-level model of
    [queueing.Buffer[uint64]] ([Lib/Fifo.v]); [srun] executes it on the abstract
    specification [(name, cap, list)]. *)
From Akita Require Import Lib.Base Lib.Fifo C14.Model C14.Exec C14.Proofs.

(** Refinement, for EVERY history of the 16 operations, every capacity (zero and
    negative included) and every start state: each call returns what the bounded
    FIFO list specification returns (panic = refused; JSON up to null/empty array)
    and the stored name, capacity and contents stay equal to the specification's. *)
Theorem c14_refines_bounded_fifo : forall (h : list op) (b : buffer),
  srun (abs b) h = (map abs_out (fst (run b h)), abs (snd (run b h))).
Proof. exact run_refines. Qed.
Print Assumptions c14_refines_bounded_fifo.

(** The contents never exceed the capacity, at every point of every history that
    starts from NewBuffer, provided the JSON objects handed to UnmarshalJSON carry at
    most [cap] elements (UnmarshalJSON itself does not check — see
    [c14_oversize_json_guard_needed]). *)
Theorem c14_bounded : forall name cap (h1 h2 : list op),
  Forall dto_ok (h1 ++ h2) ->
  let b := snd (run (new_buf name cap) h1) in
  (length (content b) <= Z.to_nat (b_cap b))%nat.
Proof.
  intros name cap h1 h2 Hf. eapply run_bounded_prefix; [apply bounded_new|exact Hf].
Qed.
Print Assumptions c14_bounded.

(** A push is refused (panic, buffer untouched) exactly when the buffer is full;
    an accepted push appends at the back and changes nothing else. *)
Theorem c14_push : forall (b : buffer) e,
  (can_push b = true /\ fst (step b (OPush e)) = RUnit /\
     content (snd (step b (OPush e))) = content b ++ [e] /\
     b_cap (snd (step b (OPush e))) = b_cap b /\ b_name (snd (step b (OPush e))) = b_name b)
  \/ (can_push b = false /\ step b (OPush e) = (RPanic, b)).
Proof. exact push_step. Qed.
Print Assumptions c14_push.

(** Pop and Peek return the oldest element; on an empty buffer they return the zero
    value and leave the buffer untouched. *)
Theorem c14_pop_peek : forall b : buffer,
  match content b with
  | [] => step b OPop = (RVal zero, b) /\ step b OPeek = (RVal zero, b)
  | x :: r => fst (step b OPop) = RVal x /\ content (snd (step b OPop)) = r /\
              step b OPeek = (RVal x, b)
  end.
Proof. exact pop_step. Qed.
Print Assumptions c14_pop_peek.

(** FIFO order on traces: over any history of pushes, pops, peeks, queries and JSON
    round trips, (initial contents ++ accepted pushes) = (values popped from a
    non-empty buffer ++ final contents): nothing lost, duplicated or reordered. *)
Theorem c14_fifo_order : forall (h : list op) (b : buffer),
  Forall queue_op h ->
  content b ++ pushed b h = popped b h ++ content (snd (run b h)).
Proof. exact fifo_order. Qed.
Print Assumptions c14_fifo_order.

(** UpdateFront replaces the front element only; Clear empties; both keep name and
    capacity. *)
Theorem c14_update_front_clear : forall (b : buffer) e,
  content (snd (step b (OUpdateFront e))) =
    match content b with [] => [] | _ :: r => e :: r end /\
  content (snd (step b OClear)) = [] /\
  b_cap (snd (step b (OUpdateFront e))) = b_cap b /\ b_cap (snd (step b OClear)) = b_cap b /\
  b_name (snd (step b (OUpdateFront e))) = b_name b /\ b_name (snd (step b OClear)) = b_name b.
Proof.
  intros b e. cbn [step snd]. unfold update_front, clear.
  destruct (content b) as [|x r] eqn:E; cbn; rewrite ?E; auto 10.
Qed.
Print Assumptions c14_update_front_clear.

(** JSON round trip: marshalling and unmarshalling into a fresh buffer reproduces
    the buffer exactly — name, capacity, contents and even the nil/empty slice form;
    and every object accepted by Unmarshal is marshalled back unchanged. *)
Theorem c14_json_roundtrip : forall (b : buffer) r,
  step b ORoundTrip = (RDto (marshal b), b) /\
  marshal (snd (step b (OUnmarshal r))) = decode r.
Proof. intros b r. split; [apply roundtrip_step|apply unmarshal_step]. Qed.
Print Assumptions c14_json_roundtrip.

(** Snapshot/restore (Elements, then Restore into a new buffer of the same name and
    capacity) preserves name, capacity and contents — under the guard Restore itself
    imposes (contents within a non-negative capacity), which [c14_bounded] establishes
    for every buffer built through the API. *)
Theorem c14_snapshot_restore : forall b : buffer,
  bounded b -> (0 <= b_cap b)%Z ->
  fst (step b OSnapRestore) = RUnit /\ abs (snd (step b OSnapRestore)) = abs b.
Proof. exact snap_restore_step. Qed.
Print Assumptions c14_snapshot_restore.

(** The guard is needed (witness): UnmarshalJSON accepts an object with 2 elements and
    capacity 1; Restore of that buffer's snapshot then panics instead of reporting an
    error.  (This is the buffer-level face of the C07 oversize-checkpoint defect.) *)
Theorem c14_oversize_json_guard_needed :
  let b0 : buffer := new_buf [66%N] 1 in
  let h := [OUnmarshal (mk_raw (Some [66%N]) (Some 1%Z) (Some [7%N; 8%N])); OSnapRestore; OSize] in
  fst (run b0 h) = [RUnit; RPanic; RInt 2].
Proof. exact oversize_unmarshal_then_restore_panics. Qed.
Print Assumptions c14_oversize_json_guard_needed.

(** Link between the evaluators used by the check: if the real buffer produced, call
    by call, what the model computes, then the observed trace is accepted by the
    bounded-FIFO specification (the predicate [holds_on]). *)
Theorem c14_model_agreement_implies_property : forall c,
  check_case c = true -> holds_on c = true.
Proof. exact check_implies_holds. Qed.
Print Assumptions c14_model_agreement_implies_property.

(** Non-vacuity: a capacity-2 buffer, filled, overflowed, drained and underflowed. *)
Example c14_nonvacuous :
  let h := [OPush 5; OPush 6; OPush 7; OPop; OUpdateFront 9; OPop; OPop; ORoundTrip]%N in
  fst (run (new_buf [] 2) h) =
    [RUnit; RUnit; RPanic; RVal 5; RUnit; RVal 9; RVal 0; RDto (mk_dto [] 2 (Some []))]%N /\
  Forall queue_op [OPush 5; OPop; OPeek; ORoundTrip]%N /\ Forall dto_ok h /\
  bounded (new_buf [] 2 : buffer).
Proof.
  split; [vm_compute; reflexivity|]. split; [repeat constructor|].
  split; [repeat constructor|apply bounded_new].
Qed.
